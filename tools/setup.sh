#!/bin/sh
# offline set-up after a fresh restore: build tools, regenerate tables, full .vo build, extract the model
set -e
cd "$(dirname "$0")/.."
export GOFLAGS=-mod=mod GOPROXY=off GOSUMDB=off GOTOOLCHAIN=local
python3 - <<'PY'
import os, sys
sys.path.insert(0, os.path.join(os.getcwd(), 'harness', 'py'))
import core
core.build_tools()
core.gen_tables()
ok, log = core.build_coq()
if not ok:
    print(log)
    print('WARNING: part of the Coq development failed to build (the affected checks will report it)')
core.build_impl()
core.build_model()
print('setup done')
PY
