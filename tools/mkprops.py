#!/usr/bin/env python3
"""Generate coq/Properties/<ID>.v from a list of (module, lemma) pairs: each property theorem restates the
lemma's full statement (as Coq prints it) and is closed by `exact`.  The generated files are committed and
reviewed; this script is only a writing aid."""
import re, subprocess, sys, os
COQ = '/verif/coq'
SPEC = eval(open('/verif/tools/props_spec.py').read())


def check_types(mods, names):
    src = ''.join('From Borno Require Import %s.\n' % m for m in mods)
    src += 'Set Printing Width 110.\nSet Printing Depth 1000.\n'
    for n in names:
        src += 'Check @%s.\n' % n
    p = '/tmp/mkprops_q.v'
    open(p, 'w').write(src)
    r = subprocess.run(['coqc', '-Q', COQ, 'Borno', p], capture_output=True, text=True)
    if r.returncode != 0:
        raise SystemExit(r.stderr[-2000:])
    out = r.stdout
    res = {}
    for n in names:
        base = n.split('.')[-1]
    # split on lines starting with a lemma name followed by newline + "     :"
    parts = re.split(r'^(\S+)\n     : ', out, flags=re.M)
    # parts: ['', name1, type1, name2, type2 ...]
    for i in range(1, len(parts) - 1, 2):
        res[parts[i].lstrip('@')] = parts[i + 1].strip()
    return res


def main(pid):
    spec = SPEC[pid]
    mods = spec['imports']
    names = [n for n, _ in spec['theorems']]
    types = check_types(mods, names)
    out = ['(** %s — %s.' % (pid, spec['title']),
           '    Only statements: each theorem is closed by [exact] of a lemma proved in Proofs/*, and its',
           '    axioms are printed.  (Statements generated from the lemmas by tools/mkprops.py, then reviewed.) *)']
    out += spec.get('preamble', [])
    out += ['From Borno Require Import %s.' % m for m in mods]
    out.append('')
    for n, comment in spec['theorems']:
        base = n.split('.')[-1]
        t = types.get(n) or types.get(base)
        if t is None:
            raise SystemExit('no type for ' + n)
        out.append('(** %s *)' % comment)
        out.append('Theorem %s_%s :\n  %s.' % (pid, base, t.replace('\n', '\n  ')))
        out.append('Proof. exact (@%s). Qed.' % n)
        out.append('Print Assumptions %s_%s.' % (pid, base))
        out.append('')
    path = os.path.join(COQ, 'Properties', pid + '.v')
    open(path, 'w').write('\n'.join(out))
    r = subprocess.run(['coqc', '-Q', COQ, 'Borno', path], capture_output=True, text=True)
    print(pid, 'compiled' if r.returncode == 0 else 'FAILED')
    if r.returncode != 0:
        print(r.stderr[-1500:])


if __name__ == '__main__':
    for pid in sys.argv[1:]:
        main(pid)
