#!/usr/bin/env python3
"""Rewrite DESIGN.md's Appendix D (seeded changes and which checks catch them) from seeded/*/meta.json."""
import glob, json, os, re
ROOT = os.path.dirname(os.path.dirname(os.path.abspath(__file__)))

# what the first run of a round missed, and what was strengthened (kept by hand: the meta files hold the final run)
NOTES = {
    'R02_n3': 'first run: missed by C08 -> every built-in name and keyword now appears in every binding position (declarator 1..3, for-initialiser, function name, parameter, key)',
    'R03_n1': 'first run: missed by C08 -> calls, array/object literals, declarator lists and blocks with 254..300 items added (the grammar bounds parameters only)',
    'R03_n2': 'first run: missed by C06 (C08/C09 saw the tree) -> statements spread over several lines added to the fault matrix: the line must be that of the faulting operation',
    'R04_n3': 'first run: missed by C19 -> programs printing and prompting inside while/for/function/nested loops, small and large volumes',
    'R05_n1': 'first run: missed by all 20 -> C03 histories and dedicated programs with parameters named like built-ins (read in nested blocks, called by name, captured, assigned); now also breaks the mechanism-trace obligation',
    'R05_n2': 'first run: missed by C04 -> recursion re-entered through a later argument of the same call site, run twice (sum, Ackermann, three-argument variant)',
    'R05_n3': 'first run: missed by all 20 -> C11: an array stored into itself / into an array it contains, used through the slot, never printed whole',
    'R07_n1': 'first run: C04 obligation broke but no failing input was found -> self tail calls with too many / too few arguments added',
    'R07_n3': 'outside C03\'s stated domain (a declaration after a closure already read the name from an enclosing scope), so C03 rightly stays silent; the change rewrites Environment.Assign, which breaks the mechanism-trace obligation of C06',
    'R08_n1': 'first run: missed by all 20 -> C11 operations that append an array as an element / build a literal from arrays, and == on aliases, with a pure-Python reference',
    'S01_n2': 'first run: missed by all 20 -> C02: numeric strings (2^53+1, 2^63, Bangla digits, exponents, blanks) as operands of every operator and as indexes',
    'S01_n3': 'first run: missed by C02 (C03/C06 saw it) -> C02: every pair of numeric strings under == != + <',
    'S02_n1': 'first run: missed by C15 -> strings with compatibility-only decompositions (ligatures, superscripts, full-width, NBSP) must print unchanged',
    'S02_n3': 'first run: missed by C08 (C09/C10 saw it) -> texts and script files that begin with, contain or consist of U+FEFF / U+200B',
    'S03_n2': 'first run: missed by C20 -> sessions whose earlier lines fail deep inside recursion (cumulative depth 120 000)',
    'S04_n1': 'first run: missed by C03 (mechanism trace of C06 broke) -> a name bound twice in one scope, then assigned and read',
    'S05_n1': 'first run: missed by all 20 -> C05: loops with constant-true / omitted conditions whose only exit sits in a then / else / else-if / nested arm, followed by code, at top level, in blocks, functions and loops',
    'S05_n2': 'first run: missed by all 20 -> C06: stray return whose value is computed by calls that return on other lines',
    'S06_n2': 'first run: missed by C11 (C17 saw it) -> every built-in that accepts an array leaves its elements (type and value) alone',
    'S07_n1': 'first run: missed by all 20 -> C09: CR LF / lone CR inside string literals, comments and between tokens through the real process',
    'S07_n3': 'first run: missed by C20 (C01/C08 saw it) -> sessions with 99..300 failing lines of one kind before further lines',
    'S08_n1': 'first run: missed by C01 and C08 -> every pattern of initialised / uninitialised declarators up to four, in declarations and for-initialisers',
    'S08_n3': 'first run: missed by all 20 -> C06: faults in later declarators of a list whose earlier initialisers span lines',
    'S09_n2': 'needs a 32-bit hash collision with a keyword (1 in 3e8 identifiers): no search finds it; caught by the new mechanism obligation on identifier() (the look-up key is the whole lexeme, the table is the spelling table) - reported as no-failing-input-found',
    'S10_n1': 'first run: missed by all 20 -> C12: every read, write, delete and listing also through one helper function per key (the same syntactic site before and after the object changes)',
    'S10_n2': 'first run: missed by C03 (mechanism trace of C06 broke) -> scopes with 15..70 names (top level, block, function, parameters), each assigned and read',
    'T01_n1': 'first run: missed by C15 (a mechanism obligation of C17 broke) -> every kind of value, built-ins and user functions included, inside arrays, objects and nested containers',
    'T03_n1': 'first run: missed by C02 (random programs of C03/C04 saw it) -> the result of + with a string operand used again: added to, compared, multiplied',
    'T04_n2': 'first run: missed by C03 (C06 saw it) -> an unbound name as a bare expression statement at top level, in functions, blocks, after its scope ended',
    'T05_n2': 'first run: missed by all 20 -> C20 line pool: braces inside strings and comments, unclosed blocks / literals / function bodies followed by further lines',
    'T10_n1': 'first run: caught only by mechanism obligations (the trigger needs 600 000 loop iterations, beyond the model budget) -> C07 implementation-only probes: 1.5 million iterations with continue / break / calls in while and for loops, expected results computed by the harness',
    'T10_n2': 'first run: caught only by a mechanism obligation -> C15: single lines around 4096 / 8192 / 65536 bytes that are much shorter in characters, alone and in containers',
    'R10_n2': 'first run: missed by all 20 -> C09 runs three 77 KB scripts of mostly three-byte characters (three alignments) through the real process',
    'U01_n2': 'first run: missed by C08 (C09 saw it through a table obligation only) -> C08 and C09 now feed look-alikes of every keyword and built-in name (other normalisation form, joiner inside, mark appended, character dropped or doubled) in binding and use position',
    'U02_n1': 'first run: missed by C02 (C17 caught the shared helper) -> C02: ** over 16 bases x integral exponents around every power of two up to 1075, both signs',
    'U03_n1': 'first run: missed by C03, C04, C05, C18 -> C03: every form of for-initialiser (none, assignment, one declarator, lists of 2-3, uninitialised) against outer bindings, second loops, reads after the loop, closures; for-header declaring a list as a history event',
    'U03_n2': 'first run: missed by C04, C03, C05 -> C04: escaping closures declared 0-2 levels below the scope that owns the captured variable (block, branch, loop body), leaving through a variable / array / object, called inside and after later scopes of the same shape',
    'U04_n1': 'first run: missed by C05 (C14 and C06 saw the changed arm through their table obligations) -> C05: loop conditions whose operands change through functions called from body, increment or condition, growing arrays, properties; five comparison operators, for and while',
    'U04_n2': 'first run: caught by C14 only through its table obligation (no failing input found) -> C14: every operator with a literal on one side and an operand with an effect (bare, parenthesised, assignment, index, property write) on the other: now reported with a concrete input',
    'U05_n2': 'first run: missed by C19 (C08 and C09 caught the panic) -> C19: 36 texts whose last character decides (point after digits, star in an open comment, open string, lone operator ...) x final newline / none / blank / CRLF',
    'U06_n1': 'first run: missed by C07, C02, C06, C19 -> C07: strings reaching a string-to-number coercion (arithmetic, comparison, index, built-in, unary minus, exponent) over every character of the Bengali block and the other digit and number-like ranges',
    'U07_n2': 'first run: missed by C18, C03, C09, C01 -> C18: transformation "whole program on one line / one token per line" and explicit scope histories written both ways; C03: read-declare-read histories also on one line',
    'U09_n1': 'first run: missed by C15, C02, C16, C13 -> C15: lines of more than 8 KB made of composable pairs and triples (spacing vowel signs, Hangul jamo, letter + accent) at every byte alignment',
    'U10_n1': 'first run: missed by C16 (C02 and C15 caught the printed form) -> C16: 2^53, 2^60, 2^62 with shift, power, product, xor producers in all 128 contexts',
}


def main():
    rows = []
    metas = sorted(glob.glob(os.path.join(ROOT, 'seeded', '*', 'meta.json')))
    n_c = n_r = n_s = n_t = n_u = 0
    for p in metas:
        m = json.load(open(p))
        name = m['id']
        if name.startswith('R'): n_r += 1
        elif name[0] == 'S': n_s += 1
        elif name[0] == 'T': n_t += 1
        elif name[0] == 'U': n_u += 1
        else: n_c += 1
        if m.get('rejected'):
            rows.append('| %s | %s | %s | - | rejected: %s |' % (name, cell(m.get('summary')), cell(m.get('needs')), cell(m['rejected'], 120)))
            continue
        tc = m.get('target_check') or {}
        ev = (tc.get('reasons') or [''])[0] if m.get('detected_by_target') else json.dumps(m.get('other_checks', {}), ensure_ascii=False)
        by = ', '.join(m.get('detected_by') or []) or 'MISSED'
        if name[0] in 'RSTU':
            by = '%s (written against %s)' % (by, m.get('property'))
        note = NOTES.get(name)
        rows.append('| %s | %s | %s | %s | %s%s |' % (name, cell(m.get('summary')), cell(m.get('needs')), by, cell(ev, 170), (' - ' + note) if note else ''))
    head = '''## Appendix D. Seeded changes and which checks catch them

%d changes written by independent sub-agents.  Rounds 1-2 (%d changes, `Cxx_mk`): two rounds of two per property; each agent saw only the property text
and a scratch worktree; round 2 was told what round 1 had tried and asked for rarer triggers.  Round 3 (%d changes, `Rxx_nk`): ten agents, one per
area of the code (lexer, statement parser, expression parser, statement arms, expression arms, operator helpers, function.go + environment.go,
array/object built-ins, maths/input built-ins, main.go + utils.go), given all twenty property texts and asked for plausible maintenance edits
(refactorings, optimisations, "fixes") in their area that break some property.  Round 4 (%d changes, `Sxx_nk`): ten agents, one per
theme (number <-> text conversions, Unicode, error signalling, scopes and closures, control flow, containers, command line and input,
parser, lexer, performance-motivated caches and fast paths), given the twenty property texts and the summaries of all 110 earlier
changes, asked for changes of a different kind that show only for rare inputs.  Round 5 (`Txx_nk`, 20 changes): ten agents on interactions (functions as values in containers, numeric boundaries, strings, statement corners, REPL vs
script, objects, error reporting, lexical corners, built-in edges, resource-shaped behaviour), told to avoid triggers that are
astronomically unlikely.  Round 6 (`Uxx_nk`, 20 changes): ten agents, each given the full text of two properties and nothing else, asked for one
maintainer-plausible change per property (refactoring, optimisation, fast path, cache, "fix") that needs something specific to manifest and that a random
program generator would be unlikely to hit; the first-run results are kept in `seeded/round6_first_run.log`.  Each change was confirmed by `tools/seedtest.py` in a scratch worktree
(applies, builds, baseline suite unchanged, demonstration differs between clean and changed build) and then `./check <ID> --tier quick` was run with
the checkout overridden to the changed tree; when the target check stayed silent all other checks were run (in round 6: the checks of two to four neighbouring properties).  Kept under `seeded/<name>/`
(patch.diff, demonstration, meta.json).  After strengthening, every change is caught by the check of the property it was written against, with a
concrete failing input, except R07_n3, which lies outside its property's domain, and S09_n2, which no search can trigger; both are
caught by a mechanism obligation (reported as no-failing-input-found).  Of the 80 changes of rounds 3 to 5, 32 were missed by their
target check on the first run and 13 by all twenty checks; of the 20 of round 6, 10 were missed by their target check and 5 of those also by the
checks of the neighbouring properties: every one led to a new generic input family or mechanism obligation.  The notes
say what the first run missed and what was added (the added streams are generic - families of inputs, not the seeded input itself).

| change | what was changed | needs | caught by | first evidence |
|---|---|---|---|---|
''' % (len(metas), n_c, n_r, n_s)
    text = head + '\n'.join(rows) + '\n'
    p = os.path.join(ROOT, 'DESIGN.md')
    s = open(p).read()
    i = s.index('## Appendix D.')
    s = s[:i] + text
    open(p, 'w').write(s)
    print('appendix D: %d rows' % len(rows))


def cell(x, n=170):
    x = (x or '').replace('|', '/').replace('\n', ' ')
    return x[:n]


if __name__ == '__main__':
    main()
