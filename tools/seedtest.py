#!/usr/bin/env python3
"""Run the checks against seeded changes.  For each /tmp/<ID>_m<k>.patch produced by an independent sub-agent:
confirm in a scratch worktree that it applies, builds, keeps the baseline suite green and that its demonstration
behaves differently from the clean tree; then run ./check <ID> (quick) with BORNO_REPO pointing at the changed
worktree and record whether a VIOLATION is raised (and by which other checks, if the target misses it).
Kept results go to /verif/seeded/<ID>_m<k>/ {patch.diff, demo files, meta.json}."""
import glob, json, os, re, shutil, subprocess, sys, time

ENV = dict(os.environ, GOFLAGS='-mod=mod', GOPROXY='off', GOSUMDB='off', GOTOOLCHAIN='local')
TAG = os.environ.get('SEED_TAG', '')
VERIF = os.environ.get('SEED_VERIF', '/verif')   # a byte-identical copy of /verif may be used to run several changes at once
WT = '/tmp/wt_seed' + TAG
ALL = ['C%02d' % i for i in range(1, 21)]
# when the target check misses a change, the checks of neighbouring properties are tried (SEED_FALLBACK=all: every check)
RELATED = {'C01': ['C08', 'C18'], 'C08': ['C09', 'C01', 'C19'], 'C09': ['C08', 'C18'], 'C10': ['C02', 'C09', 'C15'],
           'C02': ['C17', 'C16', 'C15'], 'C03': ['C04', 'C05', 'C18'], 'C04': ['C03', 'C05'], 'C05': ['C14', 'C04', 'C06'],
           'C06': ['C19', 'C07', 'C05'], 'C07': ['C02', 'C06', 'C19'], 'C11': ['C16', 'C12', 'C04'], 'C12': ['C13', 'C11', 'C15'],
           'C13': ['C12', 'C15'], 'C14': ['C05', 'C02', 'C16'], 'C15': ['C02', 'C16', 'C13'], 'C16': ['C02', 'C15', 'C14'],
           'C17': ['C02', 'C07'], 'C18': ['C03', 'C09', 'C01'], 'C19': ['C08', 'C09', 'C07', 'C20'], 'C20': ['C19', 'C03', 'C06']}


def sh(cmd, **kw):
    return subprocess.run(cmd, stdout=subprocess.PIPE, stderr=subprocess.PIPE, **kw)


def reset_wt():
    if not os.path.isdir(WT):
        sh(['git', '-C', '/repo', 'worktree', 'add', '-f', WT, 'HEAD'])
    sh(['git', '-C', WT, 'checkout', '--', '.']); sh(['git', '-C', WT, 'clean', '-fdq'])


def tests_ok():
    os.makedirs('/tmp/seed_mod' + TAG, exist_ok=True)
    shutil.copy(WT + '/go.mod', '/tmp/seed_mod' + TAG + '/go.mod'); shutil.copy(WT + '/go.sum', '/tmp/seed_mod' + TAG + '/go.sum')
    r = sh(['go', 'test', '-modfile=/tmp/seed_mod' + TAG + '/go.mod', '-vet=off', '-count=1', '-v', './...'], cwd=WT, env=ENV)
    out = r.stdout.decode(errors='replace')
    fails = sorted(set(re.findall(r'--- FAIL: (\S+)', out)))
    npass = len(re.findall(r'--- PASS: ', out))
    allowed = {'TestEvalExpression', 'TestEvalExpression/Invalid_addition_of_string_and_boolean'}
    return set(fails) <= allowed and npass >= 150, 'pass=%d fails=%s' % (npass, fails)


def build(out):
    r = sh(['go', 'build', '-modfile=/tmp/seed_mod' + TAG + '/go.mod', '-o', out, '.'], cwd=WT, env=ENV)
    return r.returncode == 0, r.stderr.decode(errors='replace')[-300:]


def run_demo(binary, base):
    bn, shf, stdin = base + '_demo.bn', base + '_demo.sh', base + '_demo.stdin'
    if os.path.exists(bn):
        inp = open(stdin, 'rb').read() if os.path.exists(stdin) else b''
        outs = []
        for _ in range(8):     # several runs: some changes only show as run-to-run variation
            d = '/tmp/seed_demo' + TAG; os.makedirs(d, exist_ok=True)
            shutil.copy(bn, d + '/demo.bn')
            try:
                r = subprocess.run([binary, 'demo.bn'], cwd=d, input=inp, stdout=subprocess.PIPE, stderr=subprocess.PIPE, timeout=10)
                outs.append((r.returncode, r.stdout, r.stderr))
            except subprocess.TimeoutExpired:
                outs.append(('timeout', b'', b''))
        return outs
    if os.path.exists(shf):
        try:
            r = subprocess.run(['sh', shf, binary], stdout=subprocess.PIPE, stderr=subprocess.PIPE, timeout=180, cwd='/tmp')
            return [(r.returncode, r.stdout, r.stderr)]
        except subprocess.TimeoutExpired:
            return [('timeout', b'', b'')]
    return None


def run_check(pid):
    t0 = time.time()
    r = sh(['./check', pid, '--tier', 'quick'], cwd=VERIF, env=dict(ENV, BORNO_REPO=WT, VERIF_SEED=os.environ.get('VERIF_SEED', '0')))
    out = r.stdout.decode(errors='replace')
    viol = [l for l in out.split('\n') if l.startswith('VIOLATION')]
    reasons = [l.strip()[:400] for l in out.split('\n') if l.startswith('  ')][:3]
    return r.returncode, viol, reasons, round(time.time() - t0, 1)


def main():
    only = sys.argv[1:]
    patches = sorted(glob.glob('/tmp/C??_m?.patch')) + sorted(glob.glob('/tmp/R??_n?.patch')) + sorted(glob.glob('/tmp/S??_n?.patch')) + sorted(glob.glob('/tmp/T??_n?.patch')) + sorted(glob.glob('/tmp/U??_n?.patch'))
    # changes already kept under seeded/<name>/ can be re-run without the sub-agents' files in /tmp
    have = set(os.path.basename(p)[:-6] for p in patches)
    for d in sorted(glob.glob('/verif/seeded/*/patch.diff')):
        nm = os.path.basename(os.path.dirname(d))
        if nm not in have:
            stage = '/tmp/seed_stage' + TAG
            os.makedirs(stage, exist_ok=True)
            shutil.copy(d, os.path.join(stage, nm + '.patch'))
            for f in glob.glob(os.path.join(os.path.dirname(d), nm + '_demo.*')):
                shutil.copy(f, stage)
            try:
                m = json.load(open(os.path.join(os.path.dirname(d), 'meta.json')))
                json.dump({'property': m.get('property'), 'summary': m.get('summary'), 'needs': m.get('needs')}, open(os.path.join(stage, nm + '.json'), 'w'), ensure_ascii=False)
            except Exception:
                pass
            patches.append(os.path.join(stage, nm + '.patch'))
    for p in patches:
        name = os.path.basename(p)[:-6]
        pid = name[:3]
        if pid[0] in 'RSTU':
            # area-based round: the property is named in the json record
            try:
                pid = json.load(open(os.path.join(os.path.dirname(p), name + '.json')))['property'].strip()[:3]
            except Exception:
                pid = 'C07'
        if only and name not in only and pid not in only and name[:3] not in only:
            continue
        dest = os.path.join('/verif/seeded', name)
        if os.path.exists(os.path.join(dest, 'meta.json')) and not only:
            continue
        base = os.path.join(os.path.dirname(p), name)
        meta = {'id': name, 'property': pid}
        try:
            meta.update({k: v for k, v in json.load(open(base + '.json')).items() if k in ('summary', 'needs')})
        except Exception as e:
            meta['summary'] = 'no json: %s' % e
        reset_wt()
        tests_ok()
        build('/tmp/seed_clean' + TAG)
        clean_demo = run_demo('/tmp/seed_clean' + TAG, base)
        r = sh(['git', '-C', WT, 'apply', p])
        if r.returncode != 0:
            meta['rejected'] = 'patch does not apply: ' + r.stderr.decode()[-200:]
            print(name, meta['rejected'], flush=True); continue
        okb, msg = build('/tmp/seed_changed' + TAG)
        okt, tmsg = tests_ok()
        changed_demo = run_demo('/tmp/seed_changed' + TAG, base)
        meta['builds'] = okb; meta['baseline_suite'] = tmsg
        differs = clean_demo is not None and changed_demo is not None and set(clean_demo) != set(changed_demo)
        meta['demo_differs'] = differs
        if not (okb and okt and differs):
            meta['rejected'] = 'not confirmed (builds=%s suite_ok=%s demo_differs=%s)' % (okb, okt, differs)
            print(name, meta['rejected'], flush=True)
        else:
            rc, viol, reasons, secs = run_check(pid)
            meta['target_check'] = {'exit': rc, 'violations': viol[:3], 'reasons': reasons, 'seconds': secs}
            meta['detected_by_target'] = rc == 1 and bool(viol)
            caught = [pid] if meta['detected_by_target'] else []
            if not caught:
                for q in (RELATED.get(pid, ALL) if os.environ.get('SEED_FALLBACK', 'related') == 'related' else ALL):
                    if q == pid:
                        continue
                    rc2, viol2, reasons2, _ = run_check(q)
                    if rc2 == 1 and viol2:
                        caught.append(q)
                        meta.setdefault('other_checks', {})[q] = reasons2[:1]
                        if len(caught) >= 2:
                            break
            meta['detected_by'] = caught
            print(name, 'DETECTED by' if caught else 'MISSED', caught, reasons[:1], flush=True)
        meta['ran'] = 'tools/seedtest.py: scratch worktree %s; go build; baseline suite; demonstration on clean and changed builds; ./check %s --tier quick with BORNO_REPO=%s%s' % (WT, pid, WT, '' if VERIF == '/verif' else ' (run from a byte-identical copy of /verif at %s so that several changes could be tried at once)' % VERIF)
        os.makedirs(dest, exist_ok=True)
        shutil.copy(p, os.path.join(dest, 'patch.diff'))
        for f in glob.glob(base + '_demo.*'):
            shutil.copy(f, dest)
        json.dump(meta, open(os.path.join(dest, 'meta.json'), 'w'), indent=1, ensure_ascii=False)
    reset_wt()


if __name__ == '__main__':
    main()
