#!/usr/bin/env python3
"""writes /verif/MANIFEST.json from the table below; a property is claimed when its
correspondence module harness/py/props/<ID>.py exists."""
import json, os
ROOT = os.path.dirname(os.path.dirname(os.path.abspath(__file__)))
TXT = {
 'C01': ('parse_sound/parse_complete/tree_unique for the ladder grammar (all token lists, all trees), strip_groups_equiv (parentheses at any depth are transparent to evaluation, both directions) + ladder/targets tables regenerated from parser.go + differential parsing of enumerated and random token sequences', 'theorems on the Gallina parser model, tied by gotrans tables and godump AST comparison'),
 'C02': ('operator theorems (Flocq IEEE-754 specs, int64 wrap, equality laws, concatenation) + full operator x value-kind matrix and random doubles against the binary', 'Flocq correctness theorems restated for the model; pow via Go oracle'),
 'C03': ('scope-chain laws and exec_frame invariant for every program + enumerated scope histories and random programs', 'EnvLaws / EvalFrame theorems; correspondence on stdout/diagnostic/status'),
 'C04': ('call/return/closure theorems (return_propagates, fresh activation, closure by reference) + return-placement skeletons and closure interleavings', 'evaluator meta-theory; correspondence'),
 'C05': ('Hoare rules for if/while/for with four exits, signals contained + control-flow skeleton enumeration', 'EvalHoare theorems sound for all assertions incl. output log'),
 'C06': ("error absorption (suffix irrelevance, output prefix), error-line lemmas, and the refinement theorem for the flag mechanism: Model/FlagEval.v transcribes the Go code's global-flag signalling arm by arm; frun_refines / after_flag_silent / fmain_refines prove the exception-style evaluator a sound abstraction of it + fault-planting matrix (single- and multi-line statements) with input probes after the fault, and the whole of stderr against the flag-level evaluator", 'theorems for every program; the flag-level evaluator is tied to the source by the regenerated per-arm mechanism trace (arm_trace_matches) and by comparing every diagnostic on stderr'),
 'C07': ('never_stuck from wf_state for every program + panic-banner predicate on all streams + known findings for unbounded recursion / cyclic print', 'model theorems full; Go-runtime panics are testing'),
 'C08': ('lexer/parser totality with explicit fuel, accept iff derivable (sound+complete), nothing runs on reject + fragment/token enumeration and prefix extension', 'front-end theorems; correspondence via godump'),
 'C09': ('items partition, line_spec, maximal munch, keyword_iff for all texts + every code point + fragment texts', 'LexerFacts theorems; exhaustive code-point sweep'),
 'C10': ('translit_spec, literal = correctly rounded decimal (Bdiv_correct_aux), script invariance + every code point, digit strings, halfway cases', 'Flocq-based theorems (stdlib real axioms)'),
 'C11': ('array heap laws, pure append/remove, length preservation for every program, bodies of the array built-ins as regenerated traces + operation-sequence enumeration against a list model (aliasing through elements, self-containing arrays)', 'HeapLaws theorems; correspondence'),
 'C12': ('object cell laws (sorted unique keys), keys/values consistency independent of schedule + operation sequences', 'HeapLaws theorems; correspondence'),
 'C13': ('schedule independence of the model (every map iteration is sorted) + map-range table + repeated process runs with 8-key objects', 'theorem for the model; hash-seed independence of the real process is by repetition'),
 'C14': ('one-step order lemmas, short-circuit, truthy_spec + probe expressions over all node forms', 'EvalOrder theorems; correspondence on traces'),
 'C15': ('print event shape, text_of laws; shortest round-trip digits proved minimal, nearest, total (NumShortest/NumTotal with Flocq); NFC of the printed text modelled in Coq over tables regenerated from the linked x/text, proved canonically equivalent and idempotent + doubles/strings/containers against the binary, Go fmt and x/text; two recorded deviations of x/text from UAX #15 (known findings)', 'NumPrint/NumShortest/NumTotal/NfcFacts theorems; Python unicodedata as a second NFC reference'),
 'C16': ('values are type+content in the model; congruence + producer x context matrix between two runs of the implementation', 'model theorems; differential between producers'),
 'C17': ('abs/sqrt/round exact specs, min/max specs, arity table, bodies of the nine mathematical built-ins as regenerated traces + built-in x arity x kind matrix', 'Flocq specs; sin/cos/tan/pow via Go oracle'),
 'C18': ('layout/script/synonym/parentheses invariance theorems, line numbers only in diagnostics, alpha-renaming of variables and parameters for every injective renaming fixing built-in and function names (Rename.v) + six transformation families on generated programs', 'LexerLayout, InvFacts, Rename theorems; differential between original and transformed runs (function renaming by correspondence: function names are observable in printed values)'),
 'C19': ('exit-status classification theorems for Cli.main + real process runs over argv/extension/stdin configurations', 'CliFacts theorems; OS facts by runs'),
 'C20': ('repl = map respond (line independence) + session enumeration', 'CliFacts theorems; correspondence'),
}
checks, na = [], []
for pid in sorted(TXT):
    have = os.path.exists(os.path.join(ROOT, 'harness', 'py', 'props', pid + '.py'))
    text, note = TXT[pid]
    if have:
        checks.append({
            'property_id': pid,
            'quick_cmd': './check %s --tier quick' % pid,
            'thorough_cmd': './check %s --tier thorough' % pid,
            'evidence_file': '/verif/evidence/%s.json' % pid,
            'replay_cmd_template': './check %s --replay {path}' % pid,
            'engine': 'coq-model+correspondence',
            'level_claimed': {'category': 'proof', 'text': text, 'design_ref': 'DESIGN.md section 9 (%s)' % pid},
            'level_note': note + '; trusted base: Coq 8.16.1 kernel, Flocq, gotrans, ExtrOcamlBasic extraction + driver.ml, correspondence harness, oracles (libm, clock, schedule); see DESIGN.md section 8',
            'technique': 'machine-checked proof in Coq about an executable Gallina model, tied to the Go code by source-regenerated table obligations and differential correspondence',
        })
    else:
        na.append({'property_id': pid, 'reason': 'check not built yet in this round (work in progress; to be claimed)'})
m = {
    'version': 1,
    'setup_cmd': 'cd /verif && ./tools/setup.sh',
    'hooks': {'guard': 'verif', 'enable': 'no hooks are needed: every check observes the borno executable and the exported lexer/parser API; builds use go build with a private -modfile',
              'baseline_off_cmd': 'mkdir -p /verif/build/baseline && cp /repo/go.mod /repo/go.sum /verif/build/baseline/ && cd /repo && GOFLAGS=-mod=mod GOPROXY=off GOSUMDB=off GOTOOLCHAIN=local go test -modfile=/verif/build/baseline/go.mod -vet=off -count=1 ./...', 'source_commits': [], 'add_only': True},
    'engines': [{'name': 'coq-model+correspondence', 'path': '/verif/check', 'serves_properties': [c['property_id'] for c in checks],
                 'kind_free_text': 'Coq 8.16.1 development (coq/) + gotrans table obligations + extracted OCaml model vs real binary'}],
    'checks': checks,
    'not_applicable': na,
    'notes': 'Genuine defects found and repaired are listed in KNOWN_FINDINGS.txt (fixed: lines) and DESIGN.md.',
}
json.dump(m, open(os.path.join(ROOT, 'MANIFEST.json'), 'w'), indent=1, ensure_ascii=False)
print('claimed', len(checks), 'unclaimed', len(na))
