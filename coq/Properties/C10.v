(** C10 — numeric literals denote the correctly rounded value in either digit script.
    Only statements: each theorem is closed by [exact] of a lemma proved in Proofs/*, and its
    axioms are printed.  (Statements generated from the lemmas by tools/mkprops.py, then reviewed.) *)
From Coq Require Import Reals.
From Flocq Require Import Core BinarySingleNaN.
From Borno Require Import Base.
From Borno Require Import Num.
From Borno Require Import Unicode.
From Borno Require Import Token.
From Borno Require Import Lexer.
From Borno Require Import NumInt.
From Borno Require Import NumFacts.
From Borno Require Import LexerFacts.

(** transliteration maps U+09E6..U+09EF to 0..9 and leaves every other code point alone (all of N, no enumeration) *)
Theorem C10_translit_spec :
  forall c : N, translit c = (if (2534 <=? c) && (c <=? 2543) then c - 2534 + 48 else c).
Proof. exact (@translit_spec). Qed.
Print Assumptions C10_translit_spec.

(** only the ten Bangla digits are altered *)
Theorem C10_translit_only_bangla :
  forall c : N, translit c <> c -> 2534 <= c <= 2543.
Proof. exact (@translit_only_bangla). Qed.
Print Assumptions C10_translit_only_bangla.

(** the digit class is exactly the ASCII and the Bangla digits *)
Theorem C10_is_digit_spec :
  forall c : N, is_digit c = true <-> 48 <= c <= 57 \/ 2534 <= c <= 2543.
Proof. exact (@is_digit_spec). Qed.
Print Assumptions C10_is_digit_spec.

(** replacing any digit by its counterpart in the other script leaves the transliterated text unchanged *)
Theorem C10_script_invariance :
  forall ds ds' : list N, Forall2 same_digit ds ds' -> translit_str ds = translit_str ds'.
Proof. exact (@script_invariance). Qed.
Print Assumptions C10_script_invariance.

(** ...hence the value of the literal *)
Theorem C10_literal_value_script_invariance :
  forall ip ip' fp fp' : list N,
         Forall2 same_digit ip ip' ->
         Forall2 same_digit fp fp' ->
         literal_value (translit_str ip) (translit_str fp) =
         literal_value (translit_str ip') (translit_str fp').
Proof. exact (@literal_value_script_invariance). Qed.
Print Assumptions C10_literal_value_script_invariance.

(** a literal denotes the double nearest to its exact decimal value, ties to even *)
Theorem C10_literal_value_spec :
  forall (ip fp : list N) (v : f64),
         literal_value ip fp = Some v ->
         BinarySingleNaN.is_finite v = true /\ BinarySingleNaN.B2R v = rnd64 (literal_real ip fp).
Proof. exact (@literal_value_spec). Qed.
Print Assumptions C10_literal_value_spec.

(** the decimal reader is correctly rounded, or reports overflow *)
Theorem C10_dec_to_f64_correct :
  forall n x : Z,
         (0 <= n)%Z ->
         let r := dec_real n x in
         if Raux.Rlt_bool (Rbasic_fun.Rabs (rnd64 r)) bmax
         then
          BinarySingleNaN.B2R (dec_to_f64 n x) = rnd64 r /\ BinarySingleNaN.is_finite (dec_to_f64 n x) = true
         else dec_to_f64 n x = BinarySingleNaN.B754_infinity false.
Proof. exact (@dec_to_f64_correct). Qed.
Print Assumptions C10_dec_to_f64_correct.

(** a literal is rejected exactly when its exact value reaches the overflow threshold 2^1024 - 2^970 (never silently infinity) *)
Theorem C10_literal_value_none_iff :
  forall ip fp : list N,
         literal_value ip fp = None <-> Rdefinitions.Rle (Rdefinitions.IZR ovf_thr) (literal_real ip fp).
Proof. exact (@literal_value_none_iff). Qed.
Print Assumptions C10_literal_value_none_iff.

(** a point not followed by a digit is not part of the number *)
Theorem C10_number_maximal :
  forall (c : N) (r : list N) (line : N) (it : item) (rest : list N) (line' : N),
         is_digit c = true ->
         scan1 (c :: r) line = Some (it, rest, line') ->
         exists ds fs : list N,
           itext it = (c :: ds) ++ fs /\
           r = ds ++ fs ++ rest /\
           forallb is_digit ds = true /\
           (ik it = IBad LexBadNumber \/ (exists v : f64, ik it = IToken TNUMBER (LNum v))) /\
           (fs = [] /\
            dig_hd rest = false /\ (forall (e : N) (t : list N), rest = 46 :: e :: t -> is_digit e = false) \/
            (exists (e : N) (more : list N),
               fs = 46 :: e :: more /\ forallb is_digit (e :: more) = true /\ dig_hd rest = false)).
Proof. exact (@number_maximal). Qed.
Print Assumptions C10_number_maximal.

(** the digit string is read in base ten *)
Theorem C10_digits_val_spec :
  forall (ds : list N) (d : N),
         Forall (fun c : N => is_ascii_digit c = true) (ds ++ [d]) ->
         digits_val (ds ++ [d]) = (10 * digits_val ds + Z.of_N (d - 48))%Z /\
         (0 <= Z.of_N (d - 48) <= 9)%Z /\ (0 <= digits_val ds)%Z /\ (0 <= digits_val (ds ++ [d]))%Z.
Proof. exact (@digits_val_spec). Qed.
Print Assumptions C10_digits_val_spec.
