(** C12 — objects are shared key->value maps with consistent read, write, delete, listing.
    Only statements: each theorem is closed by [exact] of a lemma proved in Proofs/*, and its
    axioms are printed.  (Statements generated from the lemmas by tools/mkprops.py, then reviewed.) *)
From Borno Require Import Base.
From Borno Require Import Num.
From Borno Require Import Unicode.
From Borno Require Import Token.
From Borno Require Import Ast.
From Borno Require Import Value.
From Borno Require Import Eval.
From Borno Require Import Cli.
From Borno Require Import EvalInv.
From Borno Require Import EvalFrame.
From Borno Require Import HeapLaws.
From Borno Require Import ScenarioExamples.

(** after o.k = v, o.k reads v *)
Theorem C12_assoc_sorted_put_same :
  forall (A : Type) (k : list N) (v : A) (l : list (list N * A)), assoc k (sorted_put k v l) = Some v.
Proof. exact (@assoc_sorted_put_same). Qed.
Print Assumptions C12_assoc_sorted_put_same.

(** ...and no other property changes *)
Theorem C12_assoc_sorted_put_other :
  forall (A : Type) (k k' : list N) (v : A) (l : list (list N * A)),
         k' <> k -> assoc k' (sorted_put k v l) = assoc k' l.
Proof. exact (@assoc_sorted_put_other). Qed.
Print Assumptions C12_assoc_sorted_put_other.

(** property tables stay sorted with distinct keys under writes *)
Theorem C12_sorted_put_sorted :
  forall (A : Type) (k : list N) (v : A) (l : list (list N * A)),
         sorted_keys l -> sorted_keys (sorted_put k v l).
Proof. exact (@sorted_put_sorted). Qed.
Print Assumptions C12_sorted_put_sorted.

(** ...and under deletes *)
Theorem C12_alist_remove_sorted :
  forall (A : Type) (k : list N) (l : list (list N * A)),
         sorted_keys l -> sorted_keys (alist_remove k l).
Proof. exact (@alist_remove_sorted). Qed.
Print Assumptions C12_alist_remove_sorted.

(** an object literal yields a sorted table with distinct keys *)
Theorem C12_build_obj_sorted :
  forall kvs : list (list N * value), sorted_keys (build_obj kvs).
Proof. exact (@build_obj_sorted). Qed.
Print Assumptions C12_build_obj_sorted.

(** delete(o, k) removes exactly property k, in place (shared by every holder); an absent key is an error *)
Theorem C12_delete_spec :
  forall (libm : N -> f64 -> f64 -> f64) (clock : f64)
           (sched : N -> list (list N * value) -> list (list N * value)) (l : nat) 
           (s : state) (ps : list (list N * value)) (key : list N),
         get_obj l s = Some ps ->
         (forall old : value,
          assoc key ps = Some old ->
          call_native libm clock sched NDelete [VObj l; VStr key] s =
          NOk (VObj l) (set_obj l (alist_remove key ps) s) /\
          get_obj l (set_obj l (alist_remove key ps) s) = Some (alist_remove key ps)) /\
         (assoc key ps = None -> call_native libm clock sched NDelete [VObj l; VStr key] s = NFail NfKeyMissing).
Proof. exact (@delete_spec). Qed.
Print Assumptions C12_delete_spec.

(** after deleting k, k is absent *)
Theorem C12_assoc_alist_remove_same :
  forall (A : Type) (k : list N) (l : list (list N * A)),
         sorted_keys l -> assoc k (alist_remove k l) = None.
Proof. exact (@assoc_alist_remove_same). Qed.
Print Assumptions C12_assoc_alist_remove_same.

(** ...and every other property is unchanged *)
Theorem C12_assoc_alist_remove_other :
  forall (A : Type) (k k' : list N) (l : list (list N * A)),
         k' <> k -> assoc k' (alist_remove k l) = assoc k' l.
Proof. exact (@assoc_alist_remove_other). Qed.
Print Assumptions C12_assoc_alist_remove_other.

(** no built-in other than delete changes any object *)
Theorem C12_native_objs_unchanged :
  forall (libm : N -> f64 -> f64 -> f64) (clock : f64)
           (sched : N -> list (list N * value) -> list (list N * value)) (n : native) 
           (args : list value) (s : state) (v : value) (s' : state),
         n <> NDelete -> call_native libm clock sched n args s = NOk v s' -> objs s' = objs s.
Proof. exact (@native_objs_unchanged). Qed.
Print Assumptions C12_native_objs_unchanged.

(** keys(o) and values(o) list every current property exactly once, independent of the host iteration order *)
Theorem C12_keys_values_spec :
  forall (libm : N -> f64 -> f64 -> f64) (clock : f64)
           (sched : N -> list (list N * value) -> list (list N * value)),
         (forall (n : N) (l : list (list N * value)), Permutation.Permutation (sched n l) l) ->
         forall (l : nat) (s : state) (ps : list (list N * value)),
         sorted_keys ps ->
         get_obj l s = Some ps ->
         (exists s' : state,
            s' = snd (alloc_arr (map (fun p : list N * value => VStr (fst p)) ps) (bump_tick s)) /\
            call_native libm clock sched NKeys [VObj l] s = NOk (VArr (length (arrs s))) s' /\
            get_arr (length (arrs s)) s' = Some (map (fun p : list N * value => VStr (fst p)) ps)) /\
         (exists s' : state,
            s' = snd (alloc_arr (map snd ps) (bump_tick s)) /\
            call_native libm clock sched NValues [VObj l] s = NOk (VArr (length (arrs s))) s' /\
            get_arr (length (arrs s)) s' = Some (map snd ps)).
Proof. exact (@keys_values_spec). Qed.
Print Assumptions C12_keys_values_spec.

(** the i-th value is the value of the i-th key *)
Theorem C12_keys_values_aligned :
  forall (ps : list (list N * value)) (i : nat),
         nth_error (map snd ps) i = option_map snd (nth_error ps i) /\
         nth_error (map (fun p : list N * value => VStr (fst p)) ps) i =
         option_map (fun p : list N * value => VStr (fst p)) (nth_error ps i).
Proof. exact (@keys_values_aligned). Qed.
Print Assumptions C12_keys_values_aligned.

(** a property write changes no other object *)
Theorem C12_get_set_obj_other :
  forall (l l' : nat) (ps : list (list N * value)) (s : state),
         l' <> l -> get_obj l' (set_obj l ps s) = get_obj l' s.
Proof. exact (@get_set_obj_other). Qed.
Print Assumptions C12_get_set_obj_other.

(** write, delete, sorted and aligned listings on a concrete program, evaluated inside the kernel *)
Theorem C12_scenario_object_listing :
  transcript src_object_listing =
         Some
           ([[91; 97; 32; 99; 93]; [91; 49; 32; 51; 93]; [109; 97; 112; 91; 97; 58; 49; 32; 99; 58; 51; 93]], 0).
Proof. exact (@scenario_object_listing). Qed.
Print Assumptions C12_scenario_object_listing.
