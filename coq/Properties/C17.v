(** C17 — math built-ins compute their mathematical function; misuse is a reported error.
    Only statements: each theorem is closed by [exact] of a lemma proved in Proofs/*, and its
    axioms are printed.  (Statements generated from the lemmas by tools/mkprops.py, then reviewed.) *)
From Coq Require Import Reals.
From Flocq Require Import Core BinarySingleNaN.
From Borno Require Import Base.
From Borno Require Import Num.
From Borno Require Import Unicode.
From Borno Require Import Token.
From Borno Require Import Ast.
From Borno Require Import Value.
From Borno Require Import Eval.
From Borno Require Import Cli.
From Borno Require Import NumInt.
From Borno Require Import NumFacts.
From Borno Require Import NativeFacts.
From Borno Require Import OpFacts.

(** abs *)
Theorem C17_abs_spec :
  forall (libm : N -> f64 -> f64 -> f64) (clock : f64)
           (sched : N -> list (list N * value) -> list (list N * value)) (v : value) 
           (x : f64) (s : state),
         to_number v = Some x -> call_native libm clock sched NAbs [v] s = NOk (VNum (f_abs x)) s.
Proof. exact (@abs_spec). Qed.
Print Assumptions C17_abs_spec.

(** ...is the exact absolute value *)
Theorem C17_f_abs_correct :
  forall a : f64, BinarySingleNaN.B2R (f_abs a) = Rbasic_fun.Rabs (BinarySingleNaN.B2R a).
Proof. exact (@f_abs_correct). Qed.
Print Assumptions C17_f_abs_correct.

(** sqrt *)
Theorem C17_sqrt_spec :
  forall (libm : N -> f64 -> f64 -> f64) (clock : f64)
           (sched : N -> list (list N * value) -> list (list N * value)) (v : value) 
           (x : f64) (s : state),
         to_number v = Some x -> call_native libm clock sched NSqrt [v] s = NOk (VNum (f_sqrt x)) s.
Proof. exact (@sqrt_spec). Qed.
Print Assumptions C17_sqrt_spec.

(** ...is the correctly rounded square root *)
Theorem C17_f_sqrt_correct :
  forall a : f64,
         BinarySingleNaN.B2R (f_sqrt a) = rnd64 (R_sqrt.sqrt (BinarySingleNaN.B2R a)) /\
         BinarySingleNaN.is_finite (f_sqrt a) =
         match a with
         | BinarySingleNaN.B754_zero _ | BinarySingleNaN.B754_finite false _ _ _ => true
         | _ => false
         end /\
         (BinarySingleNaN.is_nan (f_sqrt a) = false ->
          BinarySingleNaN.Bsign (f_sqrt a) = BinarySingleNaN.Bsign a).
Proof. exact (@f_sqrt_correct). Qed.
Print Assumptions C17_f_sqrt_correct.

(** round *)
Theorem C17_round_spec :
  forall (libm : N -> f64 -> f64 -> f64) (clock : f64)
           (sched : N -> list (list N * value) -> list (list N * value)) (v : value) 
           (x : f64) (s : state),
         to_number v = Some x -> call_native libm clock sched NRound [v] s = NOk (VNum (f_round x)) s.
Proof. exact (@round_spec). Qed.
Print Assumptions C17_round_spec.

(** ...is round-half-away-from-zero, exactly *)
Theorem C17_f_round_correct :
  forall a : f64,
         BinarySingleNaN.B2R (f_round a) =
         Rdefinitions.IZR (Generic_fmt.Znearest (Z.leb 0) (BinarySingleNaN.B2R a)) /\
         BinarySingleNaN.is_finite (f_round a) = BinarySingleNaN.is_finite a.
Proof. exact (@f_round_correct). Qed.
Print Assumptions C17_f_round_correct.

(** sin passes its coerced argument to the platform library and returns its result unchanged *)
Theorem C17_sin_spec :
  forall (libm : N -> f64 -> f64 -> f64) (clock : f64)
           (sched : N -> list (list N * value) -> list (list N * value)) (v : value) 
           (x : f64) (s : state),
         to_number v = Some x -> call_native libm clock sched NSin [v] s = NOk (VNum (libm 1 x x)) s.
Proof. exact (@sin_spec). Qed.
Print Assumptions C17_sin_spec.

(** cos *)
Theorem C17_cos_spec :
  forall (libm : N -> f64 -> f64 -> f64) (clock : f64)
           (sched : N -> list (list N * value) -> list (list N * value)) (v : value) 
           (x : f64) (s : state),
         to_number v = Some x -> call_native libm clock sched NCos [v] s = NOk (VNum (libm 2 x x)) s.
Proof. exact (@cos_spec). Qed.
Print Assumptions C17_cos_spec.

(** tan *)
Theorem C17_tan_spec :
  forall (libm : N -> f64 -> f64 -> f64) (clock : f64)
           (sched : N -> list (list N * value) -> list (list N * value)) (v : value) 
           (x : f64) (s : state),
         to_number v = Some x -> call_native libm clock sched NTan [v] s = NOk (VNum (libm 3 x x)) s.
Proof. exact (@tan_spec). Qed.
Print Assumptions C17_tan_spec.

(** pow *)
Theorem C17_pow_spec :
  forall (libm : N -> f64 -> f64 -> f64) (clock : f64)
           (sched : N -> list (list N * value) -> list (list N * value)) (a b : value) 
           (x y : f64) (s : state),
         to_number a = Some x ->
         to_number b = Some y -> call_native libm clock sched NPow [a; b] s = NOk (VNum (libm 0 x y)) s.
Proof. exact (@pow_spec). Qed.
Print Assumptions C17_pow_spec.

(** pow(a,b) is identical to a ** b *)
Theorem C17_pow_is_power_operator :
  forall (libm : N -> f64 -> f64 -> f64) (clock : f64)
           (sched : N -> list (list N * value) -> list (list N * value)) (a b : value) 
           (x y : f64) (s : state) (v : value),
         to_number a = Some x ->
         to_number b = Some y ->
         call_native libm clock sched NPow [a; b] s = NOk v s <-> binop libm s TPOWER a b = OVal v.
Proof. exact (@pow_is_power_operator). Qed.
Print Assumptions C17_pow_is_power_operator.

(** min returns the least of its numeric arguments *)
Theorem C17_min_spec :
  forall (libm : N -> f64 -> f64 -> f64) (clock : f64)
           (sched : N -> list (list N * value) -> list (list N * value)) (args : list value) 
           (s : state) (x : f64) (xs : list f64),
         numbers_of args = Some (x :: xs) ->
         call_native libm clock sched NMin args s = NOk (VNum (least xs x)) s.
Proof. exact (@min_spec). Qed.
Print Assumptions C17_min_spec.

(** ...a member that is below every member *)
Theorem C17_least_spec :
  forall (xs : list f64) (x : f64),
         Forall (fun y : f64 => y <> BinarySingleNaN.B754_nan) (x :: xs) ->
         In (least xs x) (x :: xs) /\ (forall y : f64, In y (x :: xs) -> f_leb (least xs x) y = true).
Proof. exact (@least_spec). Qed.
Print Assumptions C17_least_spec.

(** max *)
Theorem C17_max_spec :
  forall (libm : N -> f64 -> f64 -> f64) (clock : f64)
           (sched : N -> list (list N * value) -> list (list N * value)) (args : list value) 
           (s : state) (x : f64) (xs : list f64),
         numbers_of args = Some (x :: xs) ->
         call_native libm clock sched NMax args s = NOk (VNum (greatest xs x)) s.
Proof. exact (@max_spec). Qed.
Print Assumptions C17_max_spec.

(** ...a member that is above every member *)
Theorem C17_greatest_spec :
  forall (xs : list f64) (x : f64),
         Forall (fun y : f64 => y <> BinarySingleNaN.B754_nan) (x :: xs) ->
         In (greatest xs x) (x :: xs) /\ (forall y : f64, In y (x :: xs) -> f_leb y (greatest xs x) = true).
Proof. exact (@greatest_spec). Qed.
Print Assumptions C17_greatest_spec.

(** a single array argument stands for its elements *)
Theorem C17_min_array_form :
  forall (libm : N -> f64 -> f64 -> f64) (clock : f64)
           (sched : N -> list (list N * value) -> list (list N * value)) (l : nat) 
           (s : state) (vs : list value),
         get_arr l s = Some vs ->
         vs <> [] ->
         (forall l' : nat, vs <> [VArr l']) ->
         call_native libm clock sched NMin [VArr l] s = call_native libm clock sched NMin vs s.
Proof. exact (@min_array_form). Qed.
Print Assumptions C17_min_array_form.

(** the arity of every built-in *)
Theorem C17_arity_table :
  map (fun n : native => (n, native_arity n)) all_natives =
         [(NClock, Some 0%nat); (NLen, Some 1%nat); (NAppend, None); (NRemove, Some 2%nat);
          (NDelete, Some 2%nat); (NKeys, Some 1%nat); (NValues, Some 1%nat); (NAbs, Some 1%nat);
          (NSqrt, Some 1%nat); (NPow, Some 2%nat); (NSin, Some 1%nat); (NCos, Some 1%nat); (
          NTan, Some 1%nat); (NMin, None); (NMax, None); (NRound, Some 1%nat); (NInput, None)].
Proof. exact (@arity_table). Qed.
Print Assumptions C17_arity_table.

(** a wrong number of arguments is a runtime error (before any argument is evaluated) *)
Theorem C17_eval_call_arity :
  forall (libm : N -> f64 -> f64 -> f64) (clock : f64)
           (sched : N -> list (list N * value) -> list (list N * value)) (f : nat) 
           (ce : expr) (pline : N) (args : list expr) (rho : nat) (s : state) (n : native) 
           (s1 : state) (k : nat),
         eval libm clock sched f ce rho s = Ok (VNative n) s1 ->
         native_arity n = Some k ->
         length args <> k -> eval libm clock sched (S f) (ECall ce pline args) rho s = Err RArity pline s1.
Proof. exact (@eval_call_arity). Qed.
Print Assumptions C17_eval_call_arity.

(** an argument of the wrong type is an error *)
Theorem C17_native_wrong_type :
  forall (libm : N -> f64 -> f64 -> f64) (clock : f64)
           (sched : N -> list (list N * value) -> list (list N * value)) (n : native) 
           (v : value) (s : state),
         is_math1 n -> to_number v = None -> call_native libm clock sched n [v] s = NFail NfNotNumber.
Proof. exact (@native_wrong_type). Qed.
Print Assumptions C17_native_wrong_type.

(** ...reported as a runtime error at the call *)
Theorem C17_eval_call_native_fail :
  forall (libm : N -> f64 -> f64 -> f64) (clock : f64)
           (sched : N -> list (list N * value) -> list (list N * value)) (f : nat) 
           (ce : expr) (pline : N) (args : list expr) (rho : nat) (s : state) (n : native) 
           (s1 : state) (vs : list value) (s2 : state) (why : nfail),
         eval libm clock sched f ce rho s = Ok (VNative n) s1 ->
         arity_ok (native_arity n) (length args) = true ->
         eval_list libm clock sched f args rho s1 = Ok vs s2 ->
         call_native libm clock sched n vs s2 = NFail why ->
         eval libm clock sched (S f) (ECall ce pline args) rho s =
         Err (RCallFailed why) pline (native_fail_state n vs s2).
Proof. exact (@eval_call_native_fail). Qed.
Print Assumptions C17_eval_call_native_fail.

(** min with nothing to compare is an error *)
Theorem C17_min_nothing :
  forall (libm : N -> f64 -> f64 -> f64) (clock : f64)
           (sched : N -> list (list N * value) -> list (list N * value)) (s : state),
         call_native libm clock sched NMin [] s = NFail NfArgCount.
Proof. exact (@min_nothing). Qed.
Print Assumptions C17_min_nothing.

(** ...also for an empty array *)
Theorem C17_min_empty_array :
  forall (libm : N -> f64 -> f64 -> f64) (clock : f64)
           (sched : N -> list (list N * value) -> list (list N * value)) (l : nat) 
           (s : state), get_arr l s = Some [] -> call_native libm clock sched NMin [VArr l] s = NFail NfEmpty.
Proof. exact (@min_empty_array). Qed.
Print Assumptions C17_min_empty_array.

(** clock returns the current time (oracle) *)
Theorem C17_clock_is_now :
  forall (libm : N -> f64 -> f64 -> f64) (clock : f64)
           (sched : N -> list (list N * value) -> list (list N * value)) (s : state),
         call_native libm clock sched NClock [] s = NOk (VNum clock) s.
Proof. exact (@clock_is_now). Qed.
Print Assumptions C17_clock_is_now.
