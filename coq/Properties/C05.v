(** C05 — branches and loops run exactly the arms and iterations their conditions dictate.
    Only statements: each theorem is closed by [exact] of a lemma proved in Proofs/*, and its
    axioms are printed.  (Statements generated from the lemmas by tools/mkprops.py, then reviewed.) *)
From Borno Require Import Base.
From Borno Require Import Num.
From Borno Require Import Unicode.
From Borno Require Import Token.
From Borno Require Import Ast.
From Borno Require Import Value.
From Borno Require Import Eval.
From Borno Require Import Cli.
From Borno Require Import EvalMeta.
From Borno Require Import EvalHoare.
From Borno Require Import EvalOrder.
From Borno Require Import ScenarioExamples.

(** if/else runs exactly one arm (or none), chosen by the truthiness of the condition *)
Theorem C05_if_rule :
  forall (libm : N -> f64 -> f64 -> f64) (clock : f64)
           (sched : N -> list (list N * value) -> list (list N * value)) (repl : bool) 
           (c : expr) (t : stmt) (e : option stmt) (rho : nat) (P Pt Pe : state -> Prop)
           (Q : signal -> state -> Prop),
         etriple libm clock sched P c rho (fun (cv : value) (s1 : state) => if truthy cv then Pt s1 else Pe s1) ->
         striple libm clock sched repl Pt t rho Q ->
         match e with
         | Some e' => striple libm clock sched repl Pe e' rho Q
         | None => forall s1 : state, Pe s1 -> Q SigNone s1
         end -> striple libm clock sched repl P (SIf c t e) rho Q.
Proof. exact (@if_rule). Qed.
Print Assumptions C05_if_rule.

(** while: condition, body, condition, ... stopping the first time the condition is falsy; break leaves this loop, continue proceeds with the next test, return leaves with its value (sound for every assertion over the whole state including the output log) *)
Theorem C05_while_rule :
  forall (libm : N -> f64 -> f64 -> f64) (clock : f64)
           (sched : N -> list (list N * value) -> list (list N * value)) (repl : bool) 
           (c : expr) (b : stmt) (rho : nat) (I B Qexit Qbreak : state -> Prop)
           (Qret : N -> value -> state -> Prop),
         (forall (f : nat) (s : state) (cv : value) (s1 : state),
          I s -> eval libm clock sched f c rho s = Ok cv s1 -> if truthy cv then B s1 else Qexit s1) ->
         (forall (f : nat) (s : state) (sg : signal) (s2 : state),
          B s ->
          exec libm clock sched f repl b rho s = Ok sg s2 ->
          match sg with
          | SigBreak _ => Qbreak s2
          | SigReturn l v => Qret l v s2
          | _ => I s2
          end) ->
         forall (f : nat) (s : state) (sig : signal) (s' : state),
         I s -> exec_while libm clock sched f repl c b rho s = Ok sig s' -> post_loop Qexit Qbreak Qret sig s'.
Proof. exact (@while_rule). Qed.
Print Assumptions C05_while_rule.

(** for: initializer once, then condition, body, increment; break leaves, continue proceeds with the increment *)
Theorem C05_for_rule :
  forall (libm : N -> f64 -> f64 -> f64) (clock : f64)
           (sched : N -> list (list N * value) -> list (list N * value)) (repl : bool) 
           (c : expr) (inc : option expr) (b : stmt) (rho : nat) (I B J Qexit Qbreak : state -> Prop)
           (Qret : N -> value -> state -> Prop),
         (forall (f : nat) (s : state) (cv : value) (s1 : state),
          I s -> eval libm clock sched f c rho s = Ok cv s1 -> if truthy cv then B s1 else Qexit s1) ->
         (forall (f : nat) (s : state) (sg : signal) (s2 : state),
          B s ->
          exec libm clock sched f repl b rho s = Ok sg s2 ->
          match sg with
          | SigBreak _ => Qbreak s2
          | SigReturn l v => Qret l v s2
          | _ => J s2
          end) ->
         (forall (f : nat) (s : state) (v : value) (s3 : state),
          J s ->
          match inc with
          | Some e => eval libm clock sched f e rho s
          | None => Ok VNil s
          end = Ok v s3 -> I s3) ->
         forall (f : nat) (s : state) (sig : signal) (s' : state),
         I s ->
         exec_for libm clock sched f repl c inc b rho s = Ok sig s' -> post_loop Qexit Qbreak Qret sig s'.
Proof. exact (@for_rule). Qed.
Print Assumptions C05_for_rule.

(** the for statement with its fresh scope and initializer *)
Theorem C05_for_stmt_rule :
  forall (libm : N -> f64 -> f64 -> f64) (clock : f64)
           (sched : N -> list (list N * value) -> list (list N * value)) (repl : bool) 
           (init : option stmt) (c : expr) (inc : option expr) (b : stmt) (rho : nat) 
           (P : state -> Prop) (I B J Qexit Qbreak : nat -> state -> Prop)
           (Qret : nat -> N -> value -> state -> Prop),
         (forall (rho' f : nat) (s s0 : state) (sg : signal) (s1 : state),
          P s ->
          alloc_env (Some rho) s = (rho', s0) ->
          match init with
          | Some i => exec libm clock sched f repl i rho' s0
          | None => Ok SigNone s0
          end = Ok sg s1 -> sg = SigNone /\ I rho' s1) ->
         (forall (rho' f : nat) (s : state) (cv : value) (s1 : state),
          I rho' s ->
          eval libm clock sched f c rho' s = Ok cv s1 -> if truthy cv then B rho' s1 else Qexit rho' s1) ->
         (forall (rho' f : nat) (s : state) (sg : signal) (s2 : state),
          B rho' s ->
          exec libm clock sched f repl b rho' s = Ok sg s2 ->
          match sg with
          | SigBreak _ => Qbreak rho' s2
          | SigReturn l v => Qret rho' l v s2
          | _ => J rho' s2
          end) ->
         (forall (rho' f : nat) (s : state) (v : value) (s3 : state),
          J rho' s ->
          match inc with
          | Some e => eval libm clock sched f e rho' s
          | None => Ok VNil s
          end = Ok v s3 -> I rho' s3) ->
         striple libm clock sched repl P (SFor init c inc b) rho
           (fun (sig : signal) (s' : state) =>
            exists rho' : nat, post_loop (Qexit rho') (Qbreak rho') (Qret rho') sig s').
Proof. exact (@for_stmt_rule). Qed.
Print Assumptions C05_for_stmt_rule.

(** statements run in sequence *)
Theorem C05_seq_rule :
  forall (libm : N -> f64 -> f64 -> f64) (clock : f64)
           (sched : N -> list (list N * value) -> list (list N * value)) (repl : bool) 
           (st : stmt) (ss : list stmt) (rho : nat) (P R : state -> Prop) (Q : signal -> state -> Prop),
         striple libm clock sched repl P st rho
           (fun (sig : signal) (s1 : state) => match sig with
                                               | SigNone => R s1
                                               | _ => Q sig s1
                                               end) ->
         ltriple libm clock sched repl R ss rho Q -> ltriple libm clock sched repl P (st :: ss) rho Q.
Proof. exact (@seq_rule). Qed.
Print Assumptions C05_seq_rule.

(** a block runs its statements in a fresh scope *)
Theorem C05_block_rule :
  forall (libm : N -> f64 -> f64 -> f64) (clock : f64)
           (sched : N -> list (list N * value) -> list (list N * value)) (repl : bool) 
           (ss : list stmt) (rho : nat) (P : state -> Prop) (Q : signal -> state -> Prop),
         (forall rho' : nat,
          ltriple libm clock sched repl
            (fun s1 : state => exists s : state, P s /\ alloc_env (Some rho) s = (rho', s1)) ss rho' Q) ->
         striple libm clock sched repl P (SBlock ss) rho Q.
Proof. exact (@block_rule). Qed.
Print Assumptions C05_block_rule.

(** a while loop never lets a break or continue escape: it ends normally or with a return *)
Theorem C05_while_signal :
  forall (libm : N -> f64 -> f64 -> f64) (clock : f64)
           (sched : N -> list (list N * value) -> list (list N * value)) (repl : bool) 
           (c : expr) (b : stmt) (rho f : nat) (s : state) (sig : signal) (s' : state),
         exec_while libm clock sched f repl c b rho s = Ok sig s' -> loop_sig sig.
Proof. exact (@while_signal). Qed.
Print Assumptions C05_while_signal.

(** likewise a for loop *)
Theorem C05_for_signal :
  forall (libm : N -> f64 -> f64 -> f64) (clock : f64)
           (sched : N -> list (list N * value) -> list (list N * value)) (repl : bool) 
           (c : expr) (inc : option expr) (b : stmt) (rho f : nat) (s : state) (sig : signal) 
           (s' : state), exec_for libm clock sched f repl c inc b rho s = Ok sig s' -> loop_sig sig.
Proof. exact (@for_signal). Qed.
Print Assumptions C05_for_signal.

(** likewise the for statement (for the initializer forms the parser builds) *)
Theorem C05_exec_for_stmt_signal :
  forall (libm : N -> f64 -> f64 -> f64) (clock : f64)
           (sched : N -> list (list N * value) -> list (list N * value)) (f : nat) 
           (repl : bool) (init : option stmt) (c : expr) (inc : option expr) (b : stmt) 
           (rho : nat) (s : state) (sig : signal) (s' : state),
         init_simple init -> exec libm clock sched f repl (SFor init c inc b) rho s = Ok sig s' -> loop_sig sig.
Proof. exact (@exec_for_stmt_signal). Qed.
Print Assumptions C05_exec_for_stmt_signal.

(** break leaves only the innermost loop, with no signal left over *)
Theorem C05_while_break_exits :
  forall (libm : N -> f64 -> f64 -> f64) (clock : f64)
           (sched : N -> list (list N * value) -> list (list N * value)) (f : nat) 
           (repl : bool) (c : expr) (b : stmt) (rho : nat) (s : state) (cv : value) 
           (s1 : state) (l : N) (s2 : state),
         eval libm clock sched f c rho s = Ok cv s1 ->
         truthy cv = true ->
         exec libm clock sched f repl b rho s1 = Ok (SigBreak l) s2 ->
         exec_while libm clock sched (S f) repl c b rho s = Ok SigNone s2.
Proof. exact (@while_break_exits). Qed.
Print Assumptions C05_while_break_exits.

(** a break that reaches the top level is a runtime error at its line *)
Theorem C05_error_line_stray_break :
  forall (libm : N -> f64 -> f64 -> f64) (clock : f64)
           (sched : N -> list (list N * value) -> list (list N * value)) (f : nat) 
           (repl : bool) (line : N) (r : list stmt) (s : state),
         run_stmts libm clock sched (S f) repl (SBreak line :: r) s = Err RStrayBreak line s.
Proof. exact (@error_line_stray_break). Qed.
Print Assumptions C05_error_line_stray_break.

(** a continue that reaches the top level is a runtime error at its line *)
Theorem C05_error_line_stray_continue :
  forall (libm : N -> f64 -> f64 -> f64) (clock : f64)
           (sched : N -> list (list N * value) -> list (list N * value)) (f : nat) 
           (repl : bool) (line : N) (r : list stmt) (s : state),
         run_stmts libm clock sched (S f) repl (SContinue line :: r) s = Err RStrayContinue line s.
Proof. exact (@error_line_stray_continue). Qed.
Print Assumptions C05_error_line_stray_continue.

(** a return that reaches the top level is a runtime error at its line *)
Theorem C05_error_line_stray_return :
  forall (libm : N -> f64 -> f64 -> f64) (clock : f64)
           (sched : N -> list (list N * value) -> list (list N * value)) (f : nat) 
           (repl : bool) (kw : N) (ve : option expr) (r : list stmt) (s : state),
         run_stmts libm clock sched (S f) repl (SReturn kw ve :: r) s =
         match ve with
         | Some e => let* (_, s1):= eval libm clock sched f e top_env s in Err RStrayReturn kw s1
         | None => Err RStrayReturn kw s
         end.
Proof. exact (@error_line_stray_return). Qed.
Print Assumptions C05_error_line_stray_return.

(** non-vacuity: the while rule instantiated with an invariant about the output log *)
Theorem C05_while_print_loop :
  forall (libm : N -> f64 -> f64 -> f64) (clock : f64)
           (sched : N -> list (list N * value) -> list (list N * value)) (repl : bool) 
           (x : list N) (l1 l2 : N) (rho f : nat) (s : state) (sig : signal) (s' : state),
         exec_while libm clock sched f repl (EId x l1) (SPrint (ELit (LitStr [97]) l2)) rho s = Ok sig s' ->
         sig = SigNone /\ (exists k : nat, out s' = replicate k (EvPrint [97]) ++ out s /\ inp s' = inp s).
Proof. exact (@while_print_loop). Qed.
Print Assumptions C05_while_print_loop.

(** nil, false, 0 and the empty string are falsy; everything else is truthy *)
Theorem C05_truthy_spec :
  forall v : value,
         truthy v = false <->
         v = VNil \/ v = VBool false \/ (exists x : f64, v = VNum x /\ f_is_zero x = true) \/ v = VStr [].
Proof. exact (@truthy_spec). Qed.
Print Assumptions C05_truthy_spec.

(** break and continue in a for loop, evaluated inside the kernel from source text (transcript = the real interpreter's) *)
Theorem C05_scenario_break_continue :
  transcript src_break_continue = Some ([[48]; [50]; [51]; [100; 111; 110; 101]], 0).
Proof. exact (@scenario_break_continue). Qed.
Print Assumptions C05_scenario_break_continue.
