(** C18 — meaning is invariant under layout, digit script, synonyms, renaming, parentheses.
    Only statements: each theorem is closed by [exact] of a lemma proved in Proofs/*, and its
    axioms are printed.  (Statements generated from the lemmas by tools/mkprops.py, then reviewed.) *)
From Coq Require Import Reals.
From Flocq Require Import Core BinarySingleNaN.
From Borno Require Import Base.
From Borno Require Import Num.
From Borno Require Import Unicode.
From Borno Require Import Token.
From Borno Require Import Lexer.
From Borno Require Import Ast.
From Borno Require Import Parser.
From Borno Require Import Value.
From Borno Require Import Eval.
From Borno Require Import Cli.
From Borno Require Import Grammar.
From Borno Require Import LexerFacts.
From Borno Require Import LexerLayout.
From Borno Require Import NumInt.
From Borno Require Import NumFacts.
From Borno Require Import EvalMeta.
From Borno Require Import EvalOrder.
From Borno Require Import InvFacts.
From Borno Require Import RenameDefs.
From Borno Require Import Rename.
From Borno Require Import LayoutParse.
From Borno Require Import LayoutRun.
From Borno Require Import RenameParse.
From Borno Require Import RenameParseRun.

(** (a) inserting a blank, tab, carriage return or newline between any two items leaves the token list unchanged up to line numbers *)
Theorem C18_layout_invariance :
  forall (a b : list N) (ia ib : list item) (w : N),
         is_ws w ->
         fst (lex_items (a ++ b)) = ia ++ ib ->
         concat (map itext ia) = a ->
         map strip (lx_tokens (lex (a ++ [w] ++ b))) = map strip (lx_tokens (lex (a ++ b))).
Proof. exact (@layout_invariance). Qed.
Print Assumptions C18_layout_invariance.

(** ...and the lexical diagnostics *)
Theorem C18_layout_invariance_diags :
  forall (a b : list N) (ia ib : list item) (w : N),
         is_ws w ->
         fst (lex_items (a ++ b)) = ia ++ ib ->
         concat (map itext ia) = a ->
         map snd (lx_diags (lex (a ++ [w] ++ b))) = map snd (lx_diags (lex (a ++ b))).
Proof. exact (@layout_invariance_diags). Qed.
Print Assumptions C18_layout_invariance_diags.

(** ...token by token *)
Theorem C18_layout_tokens_upto_lines :
  forall (a b : list N) (ia ib : list item) (w : N),
         is_ws w ->
         fst (lex_items (a ++ b)) = ia ++ ib ->
         concat (map itext ia) = a ->
         Forall2 same_upto_line (lx_tokens (lex (a ++ [w] ++ b))) (lx_tokens (lex (a ++ b))) /\
         map snd (lx_diags (lex (a ++ [w] ++ b))) = map snd (lx_diags (lex (a ++ b))).
Proof. exact (@layout_tokens_upto_lines). Qed.
Print Assumptions C18_layout_tokens_upto_lines.

(** line numbers influence nothing but the line reported in a diagnostic: erasing all of them commutes with evaluation, for every program *)
Theorem C18_lines_only_in_diagnostics :
  forall (libm : N -> f64 -> f64 -> f64) (clock : f64)
           (sched : N -> list (list N * value) -> list (list N * value)) (f : nat),
         (forall (e : expr) (rho : nat) (s : state),
          eval libm clock sched f (erase_e e) rho (erase_st s) =
          erase_res idv (eval libm clock sched f e rho s)) /\
         (forall (rp : bool) (st : stmt) (rho : nat) (s : state),
          exec libm clock sched f rp (erase_s st) rho (erase_st s) =
          erase_res erase_sig (exec libm clock sched f rp st rho s)) /\
         (forall (rp : bool) (p : list stmt) (s : state),
          run_stmts libm clock sched f rp (map erase_s p) (erase_st s) =
          erase_res idv (run_stmts libm clock sched f rp p s)).
Proof. exact (@lines_only_in_diagnostics). Qed.
Print Assumptions C18_lines_only_in_diagnostics.

(** two programs that differ only in line numbers behave the same up to the reported line *)
Theorem C18_lines_only_in_diagnostics_prog :
  forall (libm : N -> f64 -> f64 -> f64) (clock : f64)
           (sched : N -> list (list N * value) -> list (list N * value)) (f : nat) 
           (rp : bool) (p q : list stmt) (stdin : list N),
         map erase_s p = map erase_s q ->
         same_but_lines (run_stmts libm clock sched f rp p (init_state stdin))
           (run_stmts libm clock sched f rp q (init_state stdin)).
Proof. exact (@lines_only_in_diagnostics_prog). Qed.
Print Assumptions C18_lines_only_in_diagnostics_prog.

(** the stated exception: a newline inside a declaration is rejected by the parser *)
Theorem C18_layout_newline_counterexample :
  pr_diags (parse (lx_tokens (lex ex_var_line)) (lx_eof_line (lex ex_var_line))) = [] /\
         map pd_kind (pr_diags (parse (lx_tokens (lex ex_var_broken)) (lx_eof_line (lex ex_var_broken)))) =
         [PSemiBeforeNewline].
Proof. exact (@layout_newline_counterexample). Qed.
Print Assumptions C18_layout_newline_counterexample.

(** (b) swapping digits between the scripts leaves the number token and its value unchanged *)
Theorem C18_scan1_number_script_invariant :
  forall (c c' : N) (ds ds' fs fs' rest : list N) (line : N),
         same_digit c c' ->
         Forall2 same_digit ds ds' ->
         same_frac fs fs' ->
         number_end fs rest ->
         exists it it' : item,
           scan1 (c :: ds ++ fs ++ rest) line = Some (it, rest, line) /\
           scan1 (c' :: ds' ++ fs' ++ rest) line = Some (it', rest, line) /\
           ik it = ik it' /\
           iline it = iline it' /\ itext it = (c :: ds) ++ fs /\ itext it' = (c' :: ds') ++ fs'.
Proof. exact (@scan1_number_script_invariant). Qed.
Print Assumptions C18_scan1_number_script_invariant.

(** ...the value is a function of the transliterated digits *)
Theorem C18_literal_value_script_invariance :
  forall ip ip' fp fp' : list N,
         Forall2 same_digit ip ip' ->
         Forall2 same_digit fp fp' ->
         literal_value (translit_str ip) (translit_str fp) =
         literal_value (translit_str ip') (translit_str fp').
Proof. exact (@literal_value_script_invariance). Qed.
Print Assumptions C18_literal_value_script_invariance.

(** (c) && and the word spelling lex to the same token kind *)
Theorem C18_and_synonym :
  map sig3 (lx_tokens (lex [97; 32; 38; 38; 32; 98])) =
         map sig3 (lx_tokens (lex [97; 32; 2447; 2476; 2434; 32; 98])) /\
         map tk (lx_tokens (lex [97; 32; 38; 38; 32; 98])) = [TIDENTIFIER; TLOGICAL_AND; TIDENTIFIER].
Proof. exact (@and_synonym). Qed.
Print Assumptions C18_and_synonym.

(** likewise || *)
Theorem C18_or_synonym :
  map sig3 (lx_tokens (lex [97; 32; 124; 124; 32; 98])) =
         map sig3 (lx_tokens (lex [97; 32; 2476; 2494; 32; 98])) /\
         map tk (lx_tokens (lex [97; 32; 124; 124; 32; 98])) = [TIDENTIFIER; TLOGICAL_OR; TIDENTIFIER].
Proof. exact (@or_synonym). Qed.
Print Assumptions C18_or_synonym.

(** parser and evaluator never look at the lexeme of a non-identifier token *)
Theorem C18_pprogram_lexeme_irrelevant :
  forall (eofl : N) (f : nat) (ts ts' : list token),
         Forall2 same_sig ts ts' ->
         match pprogram eofl f ts with
         | POk ss rest ds =>
             match pprogram eofl f ts' with
             | POk ss' rest' ds' => ss = ss' /\ Forall2 same_sig rest rest' /\ map pd_sig ds = map pd_sig ds'
             | _ => False
             end
         | PErr ds =>
             match pprogram eofl f ts' with
             | PErr ds' => map pd_sig ds = map pd_sig ds'
             | _ => False
             end
         | PFuel => match pprogram eofl f ts' with
                    | PFuel => True
                    | _ => False
                    end
         end.
Proof. exact (@pprogram_lexeme_irrelevant). Qed.
Print Assumptions C18_pprogram_lexeme_irrelevant.

(** so exchanging the spellings leaves the whole run unchanged *)
Theorem C18_lexeme_irrelevant_run :
  forall (libm : N -> f64 -> f64 -> f64) (clock : f64)
           (sched : N -> list (list N * value) -> list (list N * value)) (fuel : nat) 
           (rp : bool) (a b stdin : list N),
         Forall2 same_sig (lx_tokens (lex a)) (lx_tokens (lex b)) ->
         lx_eof_line (lex a) = lx_eof_line (lex b) ->
         lx_diags (lex a) = [] ->
         lx_diags (lex b) = [] ->
         match run_source libm clock sched fuel rp a stdin with
         | RFront ld pd =>
             let r := RFront ld pd in
             match run_source libm clock sched fuel rp b stdin with
             | RFront ld' pd' => ld = [] /\ ld' = [] /\ map pd_sig pd = map pd_sig pd'
             | RDone s => r = RDone s
             | RRuntime e line s => r = RRuntime e line s
             | RCrash s => r = RCrash s
             | RFuel => r = RFuel
             | RStuck => r = RStuck
             | RParseFuel => r = RParseFuel
             end
         | RDone s => RDone s = run_source libm clock sched fuel rp b stdin
         | RRuntime e line s => RRuntime e line s = run_source libm clock sched fuel rp b stdin
         | RCrash s => RCrash s = run_source libm clock sched fuel rp b stdin
         | RFuel => RFuel = run_source libm clock sched fuel rp b stdin
         | RStuck => RStuck = run_source libm clock sched fuel rp b stdin
         | RParseFuel => RParseFuel = run_source libm clock sched fuel rp b stdin
         end.
Proof. exact (@lexeme_irrelevant_run). Qed.
Print Assumptions C18_lexeme_irrelevant_run.

(** (e) redundant parentheses are transparent to evaluation *)
Theorem C18_group_same_result_iff :
  forall (libm : N -> f64 -> f64 -> f64) (clock : f64)
           (sched : N -> list (list N * value) -> list (list N * value)) (e : expr) 
           (line : N) (rho : nat) (s : state) (r : res value),
         r <> Fuel ->
         (exists f : nat, eval libm clock sched f (EGroup e line) rho s = r) <->
         (exists f : nat, eval libm clock sched f e rho s = r).
Proof. exact (@group_same_result_iff). Qed.
Print Assumptions C18_group_same_result_iff.

(** (f) the arm of an if whose condition is falsy is not executed *)
Theorem C18_dead_if_false :
  forall (libm : N -> f64 -> f64 -> f64) (clock : f64)
           (sched : N -> list (list N * value) -> list (list N * value)) (f : nat) 
           (rp : bool) (c : expr) (t : stmt) (rho : nat) (s : state) (cv : value) (s1 : state),
         eval libm clock sched f c rho s = Ok cv s1 ->
         truthy cv = false -> exec libm clock sched (S f) rp (SIf c t None) rho s = Ok SigNone s1.
Proof. exact (@dead_if_false). Qed.
Print Assumptions C18_dead_if_false.

(** code after a return is not executed *)
Theorem C18_dead_after_return :
  forall (libm : N -> f64 -> f64 -> f64) (clock : f64)
           (sched : N -> list (list N * value) -> list (list N * value)) (rp : bool) 
           (f : nat) (ss1 : list stmt) (rho : nat) (s : state) (l : N) (v : value) 
           (s' : state),
         exec_list libm clock sched f rp ss1 rho s = Ok (SigReturn l v) s' ->
         forall ss2 : list stmt, exec_list libm clock sched f rp (ss1 ++ ss2) rho s = Ok (SigReturn l v) s'.
Proof. exact (@dead_after_return). Qed.
Print Assumptions C18_dead_after_return.

(** declaring a function only adds a closure, a scope and a binding *)
Theorem C18_dead_unreferenced_function :
  forall (libm : N -> f64 -> f64 -> f64) (clock : f64)
           (sched : N -> list (list N * value) -> list (list N * value)) (f : nat) 
           (rp : bool) (name : list N) (ps : list (list N)) (body : list stmt) (rho : nat) 
           (s : state) (b : list (list N * value)) (p : option nat),
         nth_error (envs s) rho = Some (b, p) ->
         exists s3 : state,
           exec libm clock sched (S f) rp (SFun name ps body) rho s = Ok SigNone s3 /\
           out s3 = out s /\
           inp s3 = inp s /\
           arrs s3 = arrs s /\
           objs s3 = objs s /\
           tick s3 = tick s /\
           funs s3 = funs s ++ [{| c_name := name; c_params := ps; c_body := body; c_env := length (envs s) |}] /\
           length (envs s3) = S (length (envs s)) /\
           nth_error (envs s3) (length (envs s)) = Some ([], Some rho) /\
           nth_error (envs s3) rho = Some (alist_set name (VFun (length (funs s))) b, p) /\
           (forall i : nat,
            i <> rho -> (i < length (envs s))%nat -> nth_error (envs s3) i = nth_error (envs s) i) /\
           env_get_here rho name s3 = Some (Some (VFun (length (funs s)))) /\
           (forall x : list N, str_eqb x name = false -> env_get_here rho x s3 = env_get_here rho x s).
Proof. exact (@dead_unreferenced_function). Qed.
Print Assumptions C18_dead_unreferenced_function.

(** (d) consistent renaming of variables and parameters by ANY injective renaming that fixes the function names: the renamed program run in the renamed store does step for step what the original does (same fuel, same result constructor, renamed final store) *)
Theorem C18_rename_run :
  forall r : list N -> list N,
         (forall a b : list N, r a = r b -> a = b) ->
         forall (libm : N -> f64 -> f64 -> f64) (clock : f64)
           (sched : N -> list (list N * value) -> list (list N * value)) (f : nat) 
           (repl : bool) (ss : list stmt) (s : state),
         nfs r s ->
         Forall (nf_stmt r) ss ->
         run_stmts libm clock sched f repl (map (ren_stmt r) ss) (ren_state r s) =
         ren_res r (run_stmts libm clock sched f repl ss s).
Proof. exact (@rename_run). Qed.
Print Assumptions C18_rename_run.

(** ...from the initial store (the renaming must also fix the built-in names): same ending - Ok, or the same error kind at the same line - same output, same input consumption *)
Theorem C18_rename_run_observables :
  forall r : list N -> list N,
         (forall a b : list N, r a = r b -> a = b) ->
         (forall n : native, r (native_name n) = native_name n) ->
         forall (libm : N -> f64 -> f64 -> f64) (clock : f64)
           (sched : N -> list (list N * value) -> list (list N * value)) (f : nat) 
           (repl : bool) (ss : list stmt) (stdin : list N),
         Forall (nf_stmt r) ss ->
         observables (run_stmts libm clock sched f repl (map (ren_stmt r) ss) (init_state stdin)) =
         observables (run_stmts libm clock sched f repl ss (init_state stdin)).
Proof. exact (@rename_run_observables). Qed.
Print Assumptions C18_rename_run_observables.

(** ...instantiated: exchanging two names that are neither built-ins nor function names changes nothing observable (every finite renaming is a composition of such swaps with fresh names) *)
Theorem C18_rename_swap_run :
  forall (libm : N -> f64 -> f64 -> f64) (clock : f64)
           (sched : N -> list (list N * value) -> list (list N * value)) (x y : list N),
         (forall n : native, native_name n <> x) ->
         (forall n : native, native_name n <> y) ->
         forall (f : nat) (repl : bool) (ss : list stmt) (stdin : list N),
         Forall (fun_names_ok (fun n : list N => n <> x /\ n <> y)) ss ->
         observables (run_stmts libm clock sched f repl (map (ren_stmt (swap x y)) ss) (init_state stdin)) =
         observables (run_stmts libm clock sched f repl ss (init_state stdin)).
Proof. exact (@rename_swap_run). Qed.
Print Assumptions C18_rename_swap_run.

(** why function names are excluded: a function value prints as <function NAME>, so renaming a function is visible (the property allows exactly this difference) *)
Theorem C18_function_names_are_observable :
  observables
           (run_stmts libm_d f_zero sched_d 20 false (map (ren_stmt (swap [102] [103])) demo) (init_state [])) <>
         observables (run_stmts libm_d f_zero sched_d 20 false demo (init_state [])).
Proof. exact (@function_names_are_observable). Qed.
Print Assumptions C18_function_names_are_observable.

(** (a) END TO END: two texts whose tokens agree up to line numbers, both accepted, run alike - same ending, same error kind, same output and input consumption, same final store up to line fields; only the reported line may differ *)
Theorem C18_layout_run_invariant :
  forall (libm : N -> f64 -> f64 -> f64) (clock : f64)
           (sched : N -> list (list N * value) -> list (list N * value)) (fuel : nat) 
           (rp : bool) (a b stdin : list N),
         Forall2 same_upto_line (lx_tokens (lex a)) (lx_tokens (lex b)) ->
         lx_diags (lex a) = [] ->
         lx_diags (lex b) = [] ->
         pr_diags (parse (lx_tokens (lex a)) (lx_eof_line (lex a))) = [] ->
         pr_diags (parse (lx_tokens (lex b)) (lx_eof_line (lex b))) = [] ->
         run_same_but_lines (run_source libm clock sched fuel rp a stdin)
           (run_source libm clock sched fuel rp b stdin).
Proof. exact (@layout_run_invariant). Qed.
Print Assumptions C18_layout_run_invariant.

(** ...in particular inserting one blank, tab, carriage return or newline at any item boundary *)
Theorem C18_layout_insert_ws_run :
  forall (libm : N -> f64 -> f64 -> f64) (clock : f64)
           (sched : N -> list (list N * value) -> list (list N * value)) (fuel : nat) 
           (rp : bool) (pre post : list N) (ia ib : list item) (w : N) (stdin : list N),
         is_ws w ->
         fst (lex_items (pre ++ post)) = ia ++ ib ->
         concat (map itext ia) = pre ->
         lx_diags (lex (pre ++ post)) = [] ->
         pr_diags (parse (lx_tokens (lex (pre ++ [w] ++ post))) (lx_eof_line (lex (pre ++ [w] ++ post)))) = [] ->
         pr_diags (parse (lx_tokens (lex (pre ++ post))) (lx_eof_line (lex (pre ++ post)))) = [] ->
         run_same_but_lines (run_source libm clock sched fuel rp (pre ++ [w] ++ post) stdin)
           (run_source libm clock sched fuel rp (pre ++ post) stdin).
Proof. exact (@layout_insert_ws_run). Qed.
Print Assumptions C18_layout_insert_ws_run.

(** the parser looks at line numbers only to REJECT (a line break inside a declaration): two accepted layouts of the same tokens get the same tree up to line fields *)
Theorem C18_accepted_trees_agree_upto_lines :
  forall (eofl eofl' : N) (f f' : nat) (ts ts' : list token) (ss ss' : list stmt),
         Forall2 same_upto_line ts ts' ->
         pprogram eofl f ts = POk ss [] [] ->
         pprogram eofl' f' ts' = POk ss' [] [] -> map erase_s ss = map erase_s ss'.
Proof. exact (@accepted_trees_agree_upto_lines). Qed.
Print Assumptions C18_accepted_trees_agree_upto_lines.

(** an accepted layout stays accepted when everything is put on one line *)
Theorem C18_parse_flat_accepts :
  forall (ts : list token) (eofl : N) (p : list stmt),
         pr_diags (parse ts eofl) = [] ->
         pr_prog (parse ts eofl) = Some p ->
         pr_diags (parse (flat ts) 0) = [] /\ pr_prog (parse (flat ts) 0) = Some (map erase_s p).
Proof. exact (@parse_flat_accepts). Qed.
Print Assumptions C18_parse_flat_accepts.

(** (d) FROM TOKENS: renaming the identifier tokens of an accepted text by an injective renaming that fixes the built-in names, the word input, the function names and the names in property / key position gives an accepted text whose run has the same observables *)
Theorem C18_rename_tokens_run :
  forall r : list N -> list N,
         (forall a b : list N, r a = r b -> a = b) ->
         (forall n : native, r (native_name n) = native_name n) ->
         r input_ascii = input_ascii ->
         forall (libm : N -> f64 -> f64 -> f64) (clock : f64)
           (sched : N -> list (list N * value) -> list (list N * value)) (f : nat) 
           (repl : bool) (eofl : N) (ts : list token) (prog : list stmt) (stdin : list N),
         accepts eofl ts prog ->
         Forall (nf_stmt r) prog ->
         (forall x : list N, In x (prop_names ts) -> r x = x) ->
         exists prog' : list stmt,
           accepts eofl (map (ren_tok r) ts) prog' /\
           prog' = map (ren_stmt r) prog /\
           observables (run_stmts libm clock sched f repl prog' (init_state stdin)) =
           observables (run_stmts libm clock sched f repl prog (init_state stdin)).
Proof. exact (@rename_tokens_run). Qed.
Print Assumptions C18_rename_tokens_run.

(** ...instantiated for the exchange of two names *)
Theorem C18_rename_tokens_swap :
  forall (libm : N -> f64 -> f64 -> f64) (clock : f64)
           (sched : N -> list (list N * value) -> list (list N * value)) (x y : list N),
         ~ In x reserved_names ->
         ~ In y reserved_names ->
         forall (f : nat) (repl : bool) (eofl : N) (ts : list token) (prog : list stmt) (stdin : list N),
         accepts eofl ts prog ->
         Forall (fun_names_ok (fun n : list N => n <> x /\ n <> y)) prog ->
         ~ In x (prop_names ts) ->
         ~ In y (prop_names ts) ->
         exists prog' : list stmt,
           accepts eofl (map (ren_tok (swap x y)) ts) prog' /\
           prog' = map (ren_stmt (swap x y)) prog /\
           observables (run_stmts libm clock sched f repl prog' (init_state stdin)) =
           observables (run_stmts libm clock sched f repl prog (init_state stdin)).
Proof. exact (@rename_tokens_swap). Qed.
Print Assumptions C18_rename_tokens_swap.

(** the parser commutes with renaming of identifier tokens (tree renamed, diagnostics at the same lines with the same kinds) *)
Theorem C18_parse_rename :
  forall (r : list N -> list N) (eofl : N),
         (forall a b : list N, r a = r b -> a = b) ->
         (forall x : list N, In (r x) reserved_names <-> In x reserved_names) ->
         forall ts : list token,
         pr_prog (parse (map (ren_tok r) ts) eofl) =
         option_map (map (ren_stmt_all r)) (pr_prog (parse ts eofl)) /\
         Forall2 (rdiag r (fun t : token => In t ts)) (pr_diags (parse ts eofl))
           (pr_diags (parse (map (ren_tok r) ts) eofl)) /\
         pr_fuel_out (parse (map (ren_tok r) ts) eofl) = pr_fuel_out (parse ts eofl).
Proof. exact (@parse_rename). Qed.
Print Assumptions C18_parse_rename.

(** ...so acceptance is invariant under renaming *)
Theorem C18_parse_rename_accepts :
  forall (r : list N -> list N) (eofl : N),
         (forall a b : list N, r a = r b -> a = b) ->
         (forall x : list N, In (r x) reserved_names <-> In x reserved_names) ->
         forall ts : list token,
         (exists prog : list stmt, accepts eofl ts prog) <->
         (exists prog' : list stmt, accepts eofl (map (ren_tok r) ts) prog').
Proof. exact (@parse_rename_accepts). Qed.
Print Assumptions C18_parse_rename_accepts.

(** why names in property / key position are excluded: keys are data (printed, listed in sorted order) *)
Theorem C18_key_renaming_is_observable :
  pr_prog (parse (map (ren_tok (swap [106] [107])) ex_toks) ex_eofl) =
         Some (map (ren_stmt_all (swap [106] [107])) ex_prog) /\
         map (ren_stmt_all (swap [106] [107])) ex_prog <> map (ren_stmt (swap [106] [107])) ex_prog /\
         observables
           (run_stmts libm_d f_zero sched_d 50 false (map (ren_stmt_all (swap [106] [107])) ex_prog)
              (init_state [])) =
         (EndOk,
          Some ([EvPrint [109; 97; 112; 91; 106; 58; 104; 105; 93]; EvPrint [104; 105; 104; 105]], [], 0)) /\
         observables
           (run_stmts libm_d f_zero sched_d 50 false (map (ren_stmt_all (swap [106] [107])) ex_prog)
              (init_state [])) <>
         observables (run_stmts libm_d f_zero sched_d 50 false ex_prog (init_state [])).
Proof. exact (@key_renaming_is_observable). Qed.
Print Assumptions C18_key_renaming_is_observable.
