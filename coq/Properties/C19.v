(** C19 — exit status and output streams classify every run correctly.
    Only statements: each theorem is closed by [exact] of a lemma proved in Proofs/*, and its
    axioms are printed.  (Statements generated from the lemmas by tools/mkprops.py, then reviewed.) *)
From Coq Require Import Reals.
From Flocq Require Import Core BinarySingleNaN.
From Borno Require Import Base.
From Borno Require Import Num.
From Borno Require Import Unicode.
From Borno Require Import Token.
From Borno Require Import Lexer.
From Borno Require Import Ast.
From Borno Require Import Parser.
From Borno Require Import Value.
From Borno Require Import Eval.
From Borno Require Import Cli.
From Borno Require Import CliFacts.

(** a script run ends with status 0, 65, 70 (or 2 when the host dies printing a self-containing value), or evaluation does not finish *)
Theorem C19_run_file_cases :
  forall (libm : N -> f64 -> f64 -> f64) (clock : f64)
           (sched : N -> list (list N * value) -> list (list N * value)) (fuel : nat) 
           (src stdin : list N),
         (exists p : proc_result,
            run_file libm clock sched fuel src stdin = PExit p /\
            (p_status p = 0 \/ p_status p = 65 \/ p_status p = 70 \/ p_status p = 2)) \/
         front_ok src /\
         (exists prog : list stmt,
            pr_prog (src_parse src) = Some prog /\
            (run_file libm clock sched fuel src stdin = PNoResult RFuel /\
             run_stmts libm clock sched fuel false prog (init_state stdin) = Fuel \/
             run_file libm clock sched fuel src stdin = PNoResult RStuck /\
             run_stmts libm clock sched fuel false prog (init_state stdin) = Stuck)).
Proof. exact (@run_file_cases). Qed.
Print Assumptions C19_run_file_cases.

(** status 0 iff no error occurred *)
Theorem C19_status_0_iff_clean :
  forall (libm : N -> f64 -> f64 -> f64) (clock : f64)
           (sched : N -> list (list N * value) -> list (list N * value)) (fuel : nat) 
           (src stdin : list N) (p : proc_result),
         run_file libm clock sched fuel src stdin = PExit p ->
         p_status p = 0 <-> (exists s : state, run_source libm clock sched fuel false src stdin = RDone s).
Proof. exact (@status_0_iff_clean). Qed.
Print Assumptions C19_status_0_iff_clean.

(** stderr is empty iff the status is 0 *)
Theorem C19_stderr_empty_iff_0 :
  forall (libm : N -> f64 -> f64 -> f64) (clock : f64)
           (sched : N -> list (list N * value) -> list (list N * value)) (fuel : nat) 
           (src stdin : list N) (p : proc_result),
         run_file libm clock sched fuel src stdin = PExit p -> p_stderr p = [] <-> p_status p = 0.
Proof. exact (@stderr_empty_iff_0). Qed.
Print Assumptions C19_stderr_empty_iff_0.

(** status 65 iff the text has a lexical or syntax error *)
Theorem C19_status_65_iff_front_error :
  forall (libm : N -> f64 -> f64 -> f64) (clock : f64)
           (sched : N -> list (list N * value) -> list (list N * value)) (fuel : nat) 
           (src stdin : list N) (p : proc_result),
         run_file libm clock sched fuel src stdin = PExit p -> p_status p = 65 <-> ~ front_ok src.
Proof. exact (@status_65_iff_front_error). Qed.
Print Assumptions C19_status_65_iff_front_error.

(** ...and then nothing was executed: stdout is empty, stderr holds the front-end diagnostics only *)
Theorem C19_status_65_streams :
  forall (libm : N -> f64 -> f64 -> f64) (clock : f64)
           (sched : N -> list (list N * value) -> list (list N * value)) (fuel : nat) 
           (src stdin : list N) (p : proc_result),
         run_file libm clock sched fuel src stdin = PExit p ->
         p_status p = 65 ->
         p_stdout p = [] /\
         p_stderr p <> [] /\
         Forall is_front_item (p_stderr p) /\
         p_stderr p = front_items (lx_diags (lex src)) (pr_diags (src_parse src)).
Proof. exact (@status_65_streams). Qed.
Print Assumptions C19_status_65_streams.

(** status 70 iff the text is valid and hit a runtime error *)
Theorem C19_status_70_iff_runtime :
  forall (libm : N -> f64 -> f64 -> f64) (clock : f64)
           (sched : N -> list (list N * value) -> list (list N * value)) (fuel : nat) 
           (src stdin : list N) (p : proc_result),
         run_file libm clock sched fuel src stdin = PExit p ->
         p_status p = 70 <->
         (exists (e : rterr) (l : N) (s : state),
            run_source libm clock sched fuel false src stdin = RRuntime e l s).
Proof. exact (@status_70_iff_runtime). Qed.
Print Assumptions C19_status_70_iff_runtime.

(** ...with exactly one runtime diagnostic on stderr and the output up to the fault on stdout *)
Theorem C19_status_70_streams :
  forall (libm : N -> f64 -> f64 -> f64) (clock : f64)
           (sched : N -> list (list N * value) -> list (list N * value)) (fuel : nat) 
           (src stdin : list N) (p : proc_result),
         run_file libm clock sched fuel src stdin = PExit p ->
         p_status p = 70 ->
         front_ok src /\
         (exists (e : rterr) (l : N) (s : state),
            run_source libm clock sched fuel false src stdin = RRuntime e l s /\
            p_stderr p = [DRuntime e l] /\ p_stdout p = rev (out s)).
Proof. exact (@status_70_streams). Qed.
Print Assumptions C19_status_70_streams.

(** stdout carries only what the program printed and input prompts *)
Theorem C19_stdout_is_prints_and_prompts :
  forall (libm : N -> f64 -> f64 -> f64) (clock : f64)
           (sched : N -> list (list N * value) -> list (list N * value)) (fuel : nat) 
           (src stdin : list N) (p : proc_result),
         run_file libm clock sched fuel src stdin = PExit p -> Forall is_print_or_prompt (p_stdout p).
Proof. exact (@stdout_is_prints_and_prompts). Qed.
Print Assumptions C19_stdout_is_prints_and_prompts.

(** each input call consumes exactly the next line of stdin and returns its text with surrounding blanks trimmed *)
Theorem C19_input_consumes_one_line :
  forall (libm : N -> f64 -> f64 -> f64) (clock : f64)
           (sched : N -> list (list N * value) -> list (list N * value)) (s : state) 
           (l r : list N),
         inp s = l ++ 10 :: r ->
         forallb (fun c : N => negb (c =? 10)) l = true ->
         call_native libm clock sched NInput [] s = NOk (VStr (trim_space (l ++ [10]))) (set_inp r s).
Proof. exact (@input_consumes_one_line). Qed.
Print Assumptions C19_input_consumes_one_line.

(** ...after writing its prompt, if given *)
Theorem C19_input_prompt_consumes_one_line :
  forall (libm : N -> f64 -> f64 -> f64) (clock : f64)
           (sched : N -> list (list N * value) -> list (list N * value)) (s : state) 
           (pr l r : list N),
         inp s = l ++ 10 :: r ->
         forallb (fun c : N => negb (c =? 10)) l = true ->
         call_native libm clock sched NInput [VStr pr] s =
         NOk (VStr (trim_space (l ++ [10]))) (set_inp r (emit (EvPrompt pr) s)).
Proof. exact (@input_prompt_consumes_one_line). Qed.
Print Assumptions C19_input_prompt_consumes_one_line.

(** a last line without newline is still returned *)
Theorem C19_input_last_line :
  forall (libm : N -> f64 -> f64 -> f64) (clock : f64)
           (sched : N -> list (list N * value) -> list (list N * value)) (s : state) 
           (l : list N),
         inp s = l ->
         l <> [] ->
         forallb (fun c : N => negb (c =? 10)) l = true ->
         call_native libm clock sched NInput [] s = NOk (VStr (trim_space l)) (set_inp [] s).
Proof. exact (@input_last_line). Qed.
Print Assumptions C19_input_last_line.

(** at end of input the call fails *)
Theorem C19_input_at_eof :
  forall (libm : N -> f64 -> f64 -> f64) (clock : f64)
           (sched : N -> list (list N * value) -> list (list N * value)) (s : state),
         inp s = [] -> call_native libm clock sched NInput [] s = NFail NfInputEOF.
Proof. exact (@input_at_eof). Qed.
Print Assumptions C19_input_at_eof.

(** trimming removes exactly the surrounding blanks *)
Theorem C19_trim_space_spec :
  forall t : list N,
         (exists a b : list N,
            t = a ++ trim_space t ++ b /\ forallb is_space a = true /\ forallb is_space b = true) /\
         match trim_space t with
         | [] => True
         | c :: _ => is_space c = false
         end /\ match rev (trim_space t) with
                | [] => True
                | c :: _ => is_space c = false
                end.
Proof. exact (@trim_space_spec). Qed.
Print Assumptions C19_trim_space_spec.

(** more than one argument: usage message, status 64, nothing executed *)
Theorem C19_main_two_or_more_args :
  forall (libm : N -> f64 -> f64 -> f64) (clock : f64)
           (sched : N -> list (list N * value) -> list (list N * value)) (fuel : nat) 
           (args : list (list N)) (fs : list N -> file_read) (stdin : list N),
         (2 <= length args)%nat ->
         main libm clock sched fuel args fs stdin =
         PExit {| p_stdout := [EvText s_usage]; p_stderr := []; p_status := 64 |}.
Proof. exact (@main_two_or_more_args). Qed.
Print Assumptions C19_main_two_or_more_args.

(** a script name not ending in .bn: message, status 64, nothing executed *)
Theorem C19_main_bad_extension :
  forall (libm : N -> f64 -> f64 -> f64) (clock : f64)
           (sched : N -> list (list N * value) -> list (list N * value)) (fuel : nat) 
           (path : list N) (fs : list N -> file_read) (stdin : list N),
         str_eqb (filepath_ext path) ext_bn = false ->
         main libm clock sched fuel [path] fs stdin =
         PExit {| p_stdout := [EvText s_badext]; p_stderr := []; p_status := 64 |}.
Proof. exact (@main_bad_extension). Qed.
Print Assumptions C19_main_bad_extension.

(** an unreadable file: message on stderr, non-zero status, nothing executed *)
Theorem C19_main_unreadable :
  forall (libm : N -> f64 -> f64 -> f64) (clock : f64)
           (sched : N -> list (list N * value) -> list (list N * value)) (fuel : nat) 
           (path : list N) (fs : list N -> file_read) (stdin : list N),
         str_eqb (filepath_ext path) ext_bn = true ->
         fs path = FileErr ->
         main libm clock sched fuel [path] fs stdin =
         PExit {| p_stdout := []; p_stderr := [DFileError]; p_status := 1 |}.
Proof. exact (@main_unreadable). Qed.
Print Assumptions C19_main_unreadable.

(** otherwise the script is run *)
Theorem C19_main_script :
  forall (libm : N -> f64 -> f64 -> f64) (clock : f64)
           (sched : N -> list (list N * value) -> list (list N * value)) (fuel : nat) 
           (path : list N) (fs : list N -> file_read) (stdin src : list N),
         str_eqb (filepath_ext path) ext_bn = true ->
         fs path = FileOk src ->
         main libm clock sched fuel [path] fs stdin = run_file libm clock sched fuel src stdin.
Proof. exact (@main_script). Qed.
Print Assumptions C19_main_script.

(** the extension is the suffix from the last dot of the last path element *)
Theorem C19_ext_spec :
  forall d e : list N,
         (forall c : N, In c e -> c <> 46 /\ c <> 47) -> filepath_ext (d ++ 46 :: e) = 46 :: e.
Proof. exact (@ext_spec). Qed.
Print Assumptions C19_ext_spec.

(** ...and empty if that element has no dot *)
Theorem C19_ext_none_last_element :
  forall d e : list N, ~ In 46 e -> filepath_ext (d ++ 47 :: e) = [].
Proof. exact (@ext_none_last_element). Qed.
Print Assumptions C19_ext_none_last_element.
