(** C01 — accepted programs get the syntax tree the documented grammar prescribes.
    Only statements: each theorem is closed by [exact] of a lemma proved in Proofs/*, and its
    axioms are printed.  (Statements generated from the lemmas by tools/mkprops.py, then reviewed.) *)
From Borno Require Import Base.
From Borno Require Import Num.
From Borno Require Import Unicode.
From Borno Require Import Token.
From Borno Require Import Lexer.
From Borno Require Import Ast.
From Borno Require Import Parser.
From Borno Require Import Grammar.
From Borno Require Import ParserMono.
From Borno Require Import ParserSC_Base.
From Borno Require Import ParserSound.
From Borno Require Import ParserComplete.
From Borno Require Import ParserSC_Paren.
From Borno Require Import Value.
From Borno Require Import Eval.
From Borno Require Import EvalCongr.
From Borno Require Import ParenEquiv.

(** every expression the parser accepts is ladder-shaped (WFfull: binary operators grouped by level and to the left, assignment to the right, prefix operators above **, suffix chains tightest) and its tokens are exactly the tree written out *)
Theorem C01_pexpr_sound :
  forall (eofl : N) (f : nat) (ts : list token) (e : expr) (r : list token) (ds : list pdiag),
         pexpr eofl f ts = POk e r ds ->
         ds = [] /\
         WFfull (erase_e e) /\ (exists pre : list token, ts = pre ++ r /\ Yields (erase_e e) (map sym_of pre)).
Proof. exact (@pexpr_sound). Qed.
Print Assumptions C01_pexpr_sound.

(** the same at every level of the ladder *)
Theorem C01_plevel_sound :
  forall (eofl : N) (f k : nat) (ts : list token) (e : expr) (r : list token) (ds : list pdiag),
         (k <= nlev)%nat ->
         plevel eofl f (skipn k ladder) ts = POk e r ds ->
         ds = [] /\
         WFk k (erase_e e) /\ (exists pre : list token, ts = pre ++ r /\ Yields (erase_e e) (map sym_of pre)).
Proof. exact (@plevel_sound). Qed.
Print Assumptions C01_plevel_sound.

(** every accepted program consists of well-formed statements (else attached to the nearest if) whose writing is the token list *)
Theorem C01_pprogram_sound :
  forall (eofl : N) (f : nat) (ts : list token) (ss : list stmt) (r : list token),
         pprogram eofl f ts = POk ss r [] ->
         r = [] /\ Forall WFs (map erase_s ss) /\ YieldsProg (map erase_s ss) (map sym_of ts).
Proof. exact (@pprogram_sound). Qed.
Print Assumptions C01_pprogram_sound.

(** conversely the parser accepts the writing of every ladder-shaped expression tree and returns that tree *)
Theorem C01_pexpr_complete :
  forall (eofl : N) (e : expr),
         WFfull e ->
         erase_e e = e ->
         forall pre r : list token,
         map sym_of pre = flat_e e ->
         follow_ok r -> exists (f : nat) (e' : expr), pexpr eofl f (pre ++ r) = POk e' r [] /\ erase_e e' = e.
Proof. exact (@pexpr_complete). Qed.
Print Assumptions C01_pexpr_complete.

(** ...and of every well-formed program (tokens on one line, which neutralises the undocumented line rule of declarations) *)
Theorem C01_pprogram_complete :
  forall (eofl : N) (ss : list stmt),
         Forall WFs ss ->
         map erase_s ss = ss ->
         forall ts : list token,
         map sym_of ts = flat_prog ss ->
         Forall (fun t : token => tline t = eofl) ts ->
         exists (f : nat) (ss' : list stmt), pprogram eofl f ts = POk ss' [] [] /\ map erase_s ss' = ss.
Proof. exact (@pprogram_complete). Qed.
Print Assumptions C01_pprogram_complete.

(** so the tree is unique: two ladder-shaped trees with the same writing are equal *)
Theorem C01_tree_unique :
  forall e1 e2 : expr,
         WFfull e1 -> WFfull e2 -> erase_e e1 = e1 -> erase_e e2 = e2 -> flat_e e1 = flat_e e2 -> e1 = e2.
Proof. exact (@tree_unique). Qed.
Print Assumptions C01_tree_unique.

(** likewise for programs *)
Theorem C01_prog_unique :
  forall ss1 ss2 : list stmt,
         Forall WFs ss1 ->
         Forall WFs ss2 ->
         map erase_s ss1 = ss1 -> map erase_s ss2 = ss2 -> flat_prog ss1 = flat_prog ss2 -> ss1 = ss2.
Proof. exact (@prog_unique). Qed.
Print Assumptions C01_prog_unique.

(** writing any tree out with explicit parentheses gives a ladder-shaped tree *)
Theorem C01_paren_all_WF :
  forall e : expr, ops_ok e -> WFfull (paren_all e).
Proof. exact (@paren_all_WF). Qed.
Print Assumptions C01_paren_all_WF.

(** ...and parsing that text gives back the same tree *)
Theorem C01_paren_roundtrip_plain :
  forall (eofl : N) (e : expr),
         ops_ok e ->
         erase_e e = e ->
         strip_groups e = e ->
         forall pre r : list token,
         map sym_of pre = flat_e (paren_all e) ->
         follow_ok r ->
         exists (f : nat) (e' : expr), pexpr eofl f (pre ++ r) = POk e' r [] /\ strip_groups (erase_e e') = e.
Proof. exact (@paren_roundtrip_plain). Qed.
Print Assumptions C01_paren_roundtrip_plain.

(** parenthesising changes nothing but groups *)
Theorem C01_strip_paren_all :
  forall e : expr, strip_groups (paren_all e) = strip_groups e.
Proof. exact (@strip_paren_all). Qed.
Print Assumptions C01_strip_paren_all.

(** the canonical writing is one of the writings the parser accepts *)
Theorem C01_WF_Yields_flat :
  forall e : expr, WFfull e -> Yields e (flat_e e).
Proof. exact (@WF_Yields_flat). Qed.
Print Assumptions C01_WF_Yields_flat.

(** an absent for-condition is the literal true *)
Theorem C01_for_absent_condition :
  forall eofl l : N,
         let tok := fun k : tkind => {| tk := k; tlex := []; tlit := LNone; tline := l |} in
         pstmt eofl 10
           [tok TFOR; tok TLEFT_PAREN; tok TSEMICOLON; tok TSEMICOLON; tok TRIGHT_PAREN; 
            tok TBREAK; tok TSEMICOLON] = POk (SFor None (ELit (LitBool true) 0) None (SBreak l)) [] [].
Proof. exact (@for_absent_condition). Qed.
Print Assumptions C01_for_absent_condition.

(** ADDING PARENTHESES NEVER CHANGES WHAT A PROGRAM DOES: every expression is observationally equivalent (same value or same error at the same line, same output, input consumption and final store, in both directions; only fuel differs) to the expression with all its parentheses removed - any number of parentheses at any depth *)
Theorem C01_strip_groups_equiv :
  forall (libm : N -> f64 -> f64 -> f64) (clock : f64)
           (sched : N -> list (list N * value) -> list (list N * value)) (e : expr),
         equiv_e libm clock sched e (strip_groups e).
Proof. exact (@strip_groups_equiv). Qed.
Print Assumptions C01_strip_groups_equiv.

(** ...so the fully parenthesised writing of a tree behaves exactly like the tree *)
Theorem C01_paren_all_equiv :
  forall (libm : N -> f64 -> f64 -> f64) (clock : f64)
           (sched : N -> list (list N * value) -> list (list N * value)) (e : expr),
         equiv_e libm clock sched (paren_all e) e.
Proof. exact (@paren_all_equiv). Qed.
Print Assumptions C01_paren_all_equiv.

(** ...and two expressions that differ only in parentheses are interchangeable inside any statement (printed value, condition, declaration, loop part, return; under any nesting of blocks, branches and loop bodies) of any program: same run. (Function bodies are stored in closures, so stores differ there; covered by the correspondence stream) *)
Theorem C01_same_strip_program :
  forall (libm : N -> f64 -> f64 -> f64) (clock : f64)
           (sched : N -> list (list N * value) -> list (list N * value)) (before after : list stmt) 
           (SK : sctx) (e1 e2 : expr),
         strip_groups e1 = strip_groups e2 ->
         equiv_p libm clock sched (before ++ splug_ctx SK e1 :: after) (before ++ splug_ctx SK e2 :: after).
Proof. exact (@same_strip_program). Qed.
Print Assumptions C01_same_strip_program.

(** ...instantiated for the fully parenthesised writing *)
Theorem C01_paren_all_program :
  forall (libm : N -> f64 -> f64 -> f64) (clock : f64)
           (sched : N -> list (list N * value) -> list (list N * value)) (before after : list stmt) 
           (SK : sctx) (e : expr),
         equiv_p libm clock sched (before ++ splug_ctx SK (paren_all e) :: after)
           (before ++ splug_ctx SK e :: after).
Proof. exact (@paren_all_program). Qed.
Print Assumptions C01_paren_all_program.
