(** C04 — calls bind arguments by position, return exactly; closures own captured state.
    Only statements: each theorem is closed by [exact] of a lemma proved in Proofs/*, and its
    axioms are printed.  (Statements generated from the lemmas by tools/mkprops.py, then reviewed.) *)
From Borno Require Import Base.
From Borno Require Import Num.
From Borno Require Import Unicode.
From Borno Require Import Token.
From Borno Require Import Ast.
From Borno Require Import Value.
From Borno Require Import Eval.
From Borno Require Import Cli.
From Borno Require Import EvalInv.
From Borno Require Import EvalFrame.
From Borno Require Import EvalMeta.
From Borno Require Import EvalOrder.
From Borno Require Import ClosureExamples.

(** calling a function binds the arguments, in order, to the parameters in a fresh activation whose parent is the closure scope (so recursion and re-entrant calls get separate activations) *)
Theorem C04_call_activation_chain :
  forall (libm : N -> f64 -> f64 -> f64) (clock : f64)
           (sched : N -> list (list N * value) -> list (list N * value)) (f : nat) 
           (ce : expr) (pline : N) (args : list expr) (rho : nat) (s : state) (l : nat) 
           (s1 : state) (clo : closure) (vs : list value) (s2 : state),
         eval libm clock sched f ce rho s = Ok (VFun l) s1 ->
         get_fun l s1 = Some clo ->
         length (c_params clo) = length args ->
         eval_list libm clock sched f args rho s1 = Ok vs s2 ->
         let act := length (envs s2) in
         exists s5 : state,
           call_start s2 clo l vs = Some (act, s5) /\
           EnvLaws.epar s5 act = Some (Some (c_env clo)) /\
           (forall i : nat, (i < act)%nat -> nth_error (envs s5) i = nth_error (envs s2) i) /\
           length (envs s5) = S act /\
           eval libm clock sched (S f) (ECall ce pline args) rho s =
           (let* (sig, s6):= exec_list libm clock sched f false (c_body clo) act s5
            in Ok match sig with
                  | SigReturn _ v => v
                  | _ => VNil
                  end s6).
Proof. exact (@call_activation_chain). Qed.
Print Assumptions C04_call_activation_chain.

(** the value of a call is the value of the return executed in the body, or nil if the body ends without one *)
Theorem C04_call_returns_value :
  forall (libm : N -> f64 -> f64 -> f64) (clock : f64)
           (sched : N -> list (list N * value) -> list (list N * value)) (f : nat) 
           (ce : expr) (pline : N) (args : list expr) (rho : nat) (s : state) (l : nat) 
           (s1 : state) (v : value) (s' : state),
         eval libm clock sched f ce rho s = Ok (VFun l) s1 ->
         eval libm clock sched (S f) (ECall ce pline args) rho s = Ok v s' ->
         exists (clo : closure) (vs : list value) (s2 : state) (act : nat) (s3 s4 s5 : state) 
         (sig : signal),
           get_fun l s1 = Some clo /\
           length (c_params clo) = length args /\
           eval_list libm clock sched f args rho s1 = Ok vs s2 /\
           alloc_env (Some (c_env clo)) s2 = (act, s3) /\
           env_define act (c_name clo) (VFun l) s3 = Some s4 /\
           bind_params act (c_params clo) vs s4 = Some s5 /\
           exec_list libm clock sched f false (c_body clo) act s5 = Ok sig s' /\ v = ret_value sig.
Proof. exact (@call_returns_value). Qed.
Print Assumptions C04_call_returns_value.

(** everything after an executed return (break, continue) in a statement list is skipped *)
Theorem C04_exec_list_skips_after_signal :
  forall (libm : N -> f64 -> f64 -> f64) (clock : f64)
           (sched : N -> list (list N * value) -> list (list N * value)) (repl : bool) 
           (f : nat) (ss1 : list stmt) (rho : nat) (s : state) (sig : signal) (s' : state),
         exec_list libm clock sched f repl ss1 rho s = Ok sig s' ->
         sig <> SigNone ->
         forall ss2 : list stmt, exec_list libm clock sched f repl (ss1 ++ ss2) rho s = Ok sig s'.
Proof. exact (@exec_list_skips_after_signal). Qed.
Print Assumptions C04_exec_list_skips_after_signal.

(** a return leaves a block at once with its value *)
Theorem C04_return_propagates_block :
  forall (libm : N -> f64 -> f64 -> f64) (clock : f64)
           (sched : N -> list (list N * value) -> list (list N * value)) (f g : nat) 
           (repl : bool) (ss1 : list stmt) (st : stmt) (ss2 : list stmt) (rho : nat) 
           (s : state) (rho' : nat) (s0 s1 : state) (sig : signal) (s2 : state),
         alloc_env (Some rho) s = (rho', s0) ->
         exec_list libm clock sched f repl ss1 rho' s0 = Ok SigNone s1 ->
         exec libm clock sched g repl st rho' s1 = Ok sig s2 ->
         sig <> SigNone ->
         exec libm clock sched (S (f + S g)) repl (SBlock (ss1 ++ st :: ss2)) rho s = Ok sig s2.
Proof. exact (@return_propagates_block). Qed.
Print Assumptions C04_return_propagates_block.

(** ...and an if arm *)
Theorem C04_return_propagates_if_then :
  forall (libm : N -> f64 -> f64 -> f64) (clock : f64)
           (sched : N -> list (list N * value) -> list (list N * value)) (f : nat) 
           (repl : bool) (c : expr) (t : stmt) (e : option stmt) (rho : nat) (s : state) 
           (cv : value) (s1 : state) (r : res signal),
         eval libm clock sched f c rho s = Ok cv s1 ->
         truthy cv = true ->
         exec libm clock sched f repl t rho s1 = r -> exec libm clock sched (S f) repl (SIf c t e) rho s = r.
Proof. exact (@return_propagates_if_then). Qed.
Print Assumptions C04_return_propagates_if_then.

(** ...and an else arm *)
Theorem C04_return_propagates_if_else :
  forall (libm : N -> f64 -> f64 -> f64) (clock : f64)
           (sched : N -> list (list N * value) -> list (list N * value)) (f : nat) 
           (repl : bool) (c : expr) (t e : stmt) (rho : nat) (s : state) (cv : value) 
           (s1 : state) (r : res signal),
         eval libm clock sched f c rho s = Ok cv s1 ->
         truthy cv = false ->
         exec libm clock sched f repl e rho s1 = r ->
         exec libm clock sched (S f) repl (SIf c t (Some e)) rho s = r.
Proof. exact (@return_propagates_if_else). Qed.
Print Assumptions C04_return_propagates_if_else.

(** ...and a while loop (from inside any iteration) *)
Theorem C04_return_propagates_while :
  forall (libm : N -> f64 -> f64 -> f64) (clock : f64)
           (sched : N -> list (list N * value) -> list (list N * value)) (f : nat) 
           (repl : bool) (c : expr) (b : stmt) (rho : nat) (s : state) (cv : value) 
           (s1 : state) (l : N) (v : value) (s2 : state),
         eval libm clock sched f c rho s = Ok cv s1 ->
         truthy cv = true ->
         exec libm clock sched f repl b rho s1 = Ok (SigReturn l v) s2 ->
         exec_while libm clock sched (S f) repl c b rho s = Ok (SigReturn l v) s2.
Proof. exact (@return_propagates_while). Qed.
Print Assumptions C04_return_propagates_while.

(** ...and a for loop *)
Theorem C04_return_propagates_for :
  forall (libm : N -> f64 -> f64 -> f64) (clock : f64)
           (sched : N -> list (list N * value) -> list (list N * value)) (f : nat) 
           (repl : bool) (c : expr) (inc : option expr) (b : stmt) (rho : nat) (s : state) 
           (cv : value) (s1 : state) (l : N) (v : value) (s2 : state),
         eval libm clock sched f c rho s = Ok cv s1 ->
         truthy cv = true ->
         exec libm clock sched f repl b rho s1 = Ok (SigReturn l v) s2 ->
         exec_for libm clock sched (S f) repl c inc b rho s = Ok (SigReturn l v) s2.
Proof. exact (@return_propagates_for). Qed.
Print Assumptions C04_return_propagates_for.

(** a wrong argument count is a runtime error raised before any argument is evaluated *)
Theorem C04_call_arity_user :
  forall (libm : N -> f64 -> f64 -> f64) (clock : f64)
           (sched : N -> list (list N * value) -> list (list N * value)) (f : nat) 
           (ce : expr) (pline : N) (args : list expr) (rho : nat) (s : state) (l : nat) 
           (s1 : state) (clo : closure),
         eval libm clock sched f ce rho s = Ok (VFun l) s1 ->
         get_fun l s1 = Some clo ->
         length (c_params clo) <> length args ->
         eval libm clock sched (S f) (ECall ce pline args) rho s = Err RArity pline s1.
Proof. exact (@call_arity_user). Qed.
Print Assumptions C04_call_arity_user.

(** calling a non-function is a runtime error *)
Theorem C04_call_not_callable :
  forall (libm : N -> f64 -> f64 -> f64) (clock : f64)
           (sched : N -> list (list N * value) -> list (list N * value)) (f : nat) 
           (ce : expr) (pline : N) (args : list expr) (rho : nat) (s : state) (c : value) 
           (s1 : state),
         eval libm clock sched f ce rho s = Ok c s1 ->
         (forall l : nat, c <> VFun l) ->
         (forall n : native, c <> VNative n) ->
         eval libm clock sched (S f) (ECall ce pline args) rho s = Err RNotCallable pline s1.
Proof. exact (@call_not_callable). Qed.
Print Assumptions C04_call_not_callable.

(** a function value captures the scope it was declared in by reference: the call depends on the state (where later updates live), the closure and the argument values, never on the caller's scope *)
Theorem C04_call_ignores_caller_env :
  forall (libm : N -> f64 -> f64 -> f64) (clock : f64)
           (sched : N -> list (list N * value) -> list (list N * value)) (f : nat) 
           (ce ce' : expr) (pl pl' : N) (args args' : list expr) (rho rho' : nat) (s s' : state) 
           (l : nat) (clo : closure) (vs : list value) (s1 s1' s2 : state),
         eval libm clock sched f ce rho s = Ok (VFun l) s1 ->
         get_fun l s1 = Some clo ->
         length (c_params clo) = length args ->
         eval_list libm clock sched f args rho s1 = Ok vs s2 ->
         eval libm clock sched f ce' rho' s' = Ok (VFun l) s1' ->
         get_fun l s1' = Some clo ->
         length (c_params clo) = length args' ->
         eval_list libm clock sched f args' rho' s1' = Ok vs s2 ->
         eval libm clock sched (S f) (ECall ce pl args) rho s =
         eval libm clock sched (S f) (ECall ce' pl' args') rho' s'.
Proof. exact (@call_ignores_caller_env). Qed.
Print Assumptions C04_call_ignores_caller_env.

(** scopes are never removed or re-parented: captured variables stay alive after their block or call has finished *)
Theorem C04_exec_frame_final :
  forall (libm : N -> f64 -> f64 -> f64) (clock : f64)
           (sched : N -> list (list N * value) -> list (list N * value)) (f : nat) 
           (repl : bool) (st : stmt) (rho : nat) (s s' : state),
         wf_state s ->
         (rho < length (envs s))%nat ->
         final (exec libm clock sched f repl st rho s) = Some s' -> framed (here rho) s s'.
Proof. exact (@exec_frame_final). Qed.
Print Assumptions C04_exec_frame_final.

(** every execution of a declaration allocates fresh scopes: closures produced by different executions have separate variables *)
Theorem C04_block_scope_is_fresh :
  forall (libm : N -> f64 -> f64 -> f64) (clock : f64)
           (sched : N -> list (list N * value) -> list (list N * value)) (f : nat) 
           (repl : bool) (ss : list stmt) (rho : nat) (s s' : state),
         wf_state s ->
         (rho < length (envs s))%nat ->
         final (exec libm clock sched (S f) repl (SBlock ss) rho s) = Some s' ->
         let b := length (envs s) in
         exec libm clock sched (S f) repl (SBlock ss) rho s =
         exec_list libm clock sched f repl ss b (snd (alloc_env (Some rho) s)) /\
         (forall (i : nat) (bi : list (list N * value)) (p : nat),
          nth_error (envs s) i = Some (bi, Some p) -> (p < b)%nat) /\
         (forall (l : nat) (c : closure), nth_error (funs s) l = Some c -> (c_env c < b)%nat) /\
         EnvLaws.epar s' b = Some (Some rho) /\
         (forall i : nat, (i < b)%nat -> forall l : list nat, EnvLaws.chain s' i l -> ~ In b l).
Proof. exact (@block_scope_is_fresh). Qed.
Print Assumptions C04_block_scope_is_fresh.

(** the counter factory, evaluated inside the kernel from its source text: two calls of the factory give two functions with separate variables that outlive the call (a() a() b() a() b() prints 1 2 1 3 2) *)
Theorem C04_counter_factory :
  printed (run_source libm_d (f_of_bits 0) sched_d 200 false counter_factory_src []) =
         Some [[49]; [50]; [49]; [51]; [50]].
Proof. exact (@counter_factory). Qed.
Print Assumptions C04_counter_factory.

(** a closure declared below the scope whose variable it captures (loop body / branch inside a block), leaving through an array or an outer variable, called inside and after later blocks with variables of the same names, still owns the first block's variables and nothing else - evaluated inside the kernel from source text (transcript = the real interpreter's) *)
Theorem C04_escaping_closure_below_block :
  printed (run_source libm_d (f_of_bits 0) sched_d 400 false escaping_closure_src []) =
         Some [[49; 49]; [52; 48]; [50]; [49; 50]].
Proof. exact (@escaping_closure_below_block). Qed.
Print Assumptions C04_escaping_closure_below_block.
