(** C16 — a value behaves the same however it was produced.
    Only statements: each theorem is closed by [exact] of a lemma proved in Proofs/*, and its
    axioms are printed.  (Statements generated from the lemmas by tools/mkprops.py, then reviewed.) *)
From Coq Require Import Reals Permutation.
From Flocq Require Import Core BinarySingleNaN.
From Borno Require Import Base.
From Borno Require Import Num.
From Borno Require Import Unicode.
From Borno Require Import Token.
From Borno Require Import Ast.
From Borno Require Import Value.
From Borno Require Import Eval.
From Borno Require Import Cli.
From Borno Require Import EvalMeta.
From Borno Require Import EvalCongr.

(** two expressions that produce the same value (without effect) are interchangeable in every expression context *)
Theorem C16_producers_interchangeable :
  forall (libm : N -> f64 -> f64 -> f64) (clock : f64)
           (sched : N -> list (list N * value) -> list (list N * value)) (e1 e2 : expr) 
           (v : value) (K : ctx),
         produces libm clock sched e1 v ->
         produces libm clock sched e2 v -> equiv_e libm clock sched (plug K e1) (plug K e2).
Proof. exact (@producers_interchangeable). Qed.
Print Assumptions C16_producers_interchangeable.

(** equivalent expressions stay equivalent under every (nested) one-hole expression context: each operand position of each operator, index, stored value, argument, element, property value, callee *)
Theorem C16_context_congruence :
  forall (libm : N -> f64 -> f64 -> f64) (clock : f64)
           (sched : N -> list (list N * value) -> list (list N * value)) (K : ctx) 
           (e1 e2 : expr), equiv_e libm clock sched e1 e2 -> equiv_e libm clock sched (plug K e1) (plug K e2).
Proof. exact (@context_congruence). Qed.
Print Assumptions C16_context_congruence.

(** ...and under every statement context: print, expression statement, declaration, condition of if/while/for, increment, return value *)
Theorem C16_stmt_context_congruence :
  forall (libm : N -> f64 -> f64 -> f64) (clock : f64)
           (sched : N -> list (list N * value) -> list (list N * value)) (F : sframe) 
           (K : ctx) (e1 e2 : expr),
         equiv_e libm clock sched e1 e2 -> equiv_s libm clock sched (splug F (plug K e1)) (splug F (plug K e2)).
Proof. exact (@stmt_context_congruence). Qed.
Print Assumptions C16_stmt_context_congruence.

(** ...and inside whole programs *)
Theorem C16_program_context_congruence :
  forall (libm : N -> f64 -> f64 -> f64) (clock : f64)
           (sched : N -> list (list N * value) -> list (list N * value)) (before after : list stmt) 
           (SK : sctx) (e1 e2 : expr),
         equiv_e libm clock sched e1 e2 ->
         equiv_p libm clock sched (before ++ splug_ctx SK e1 :: after) (before ++ splug_ctx SK e2 :: after).
Proof. exact (@program_context_congruence). Qed.
Print Assumptions C16_program_context_congruence.

(** a concatenation of two literals and the literal of the concatenated text are equivalent, for all strings *)
Theorem C16_concat_equiv :
  forall (libm : N -> f64 -> f64 -> f64) (clock : f64)
           (sched : N -> list (list N * value) -> list (list N * value)) (a b : list N) 
           (l1 l2 l l' : N),
         equiv_e libm clock sched (EBinary TPLUS (ELit (LitStr a) l1) (ELit (LitStr b) l2) l)
           (ELit (LitStr (a ++ b)) l').
Proof. exact (@concat_equiv). Qed.
Print Assumptions C16_concat_equiv.

(** a sum of two literals and the literal of the sum are equivalent, for all numbers *)
Theorem C16_sum_equiv :
  forall (libm : N -> f64 -> f64 -> f64) (clock : f64)
           (sched : N -> list (list N * value) -> list (list N * value)) (x y : f64) 
           (l1 l2 l l' : N),
         equiv_e libm clock sched (EBinary TPLUS (ELit (LitNum x) l1) (ELit (LitNum y) l2) l)
           (ELit (LitNum (f_add x y)) l').
Proof. exact (@sum_equiv). Qed.
Print Assumptions C16_sum_equiv.

(** a bitwise and produces an ordinary number *)
Theorem C16_and_equiv :
  forall (libm : N -> f64 -> f64 -> f64) (clock : f64)
           (sched : N -> list (list N * value) -> list (list N * value)) (x y : f64) 
           (a b : Z) (l1 l2 l l' : N),
         to_int64 x = Some a ->
         to_int64 y = Some b ->
         equiv_e libm clock sched (EBinary TAND (ELit (LitNum x) l1) (ELit (LitNum y) l2) l)
           (ELit (LitNum (f_of_Z (Z.land a b))) l').
Proof. exact (@and_equiv). Qed.
Print Assumptions C16_and_equiv.

(** likewise bitwise or *)
Theorem C16_or_equiv :
  forall (libm : N -> f64 -> f64 -> f64) (clock : f64)
           (sched : N -> list (list N * value) -> list (list N * value)) (x y : f64) 
           (a b : Z) (l1 l2 l l' : N),
         to_int64 x = Some a ->
         to_int64 y = Some b ->
         equiv_e libm clock sched (EBinary TOR (ELit (LitNum x) l1) (ELit (LitNum y) l2) l)
           (ELit (LitNum (f_of_Z (Z.lor a b))) l').
Proof. exact (@or_equiv). Qed.
Print Assumptions C16_or_equiv.

(** a property of an object literal and the literal itself give the same value and observable state *)
Theorem C16_prop_of_literal_equiv_v :
  forall (libm : N -> f64 -> f64 -> f64) (clock : f64)
           (sched : N -> list (list N * value) -> list (list N * value)) (k : list N) 
           (lit : lit) (l0 l1 l2 : N),
         equiv_v libm clock sched (EProp (EObject [(k, ELit lit l0)]) k l1) (ELit lit l2).
Proof. exact (@prop_of_literal_equiv_v). Qed.
Print Assumptions C16_prop_of_literal_equiv_v.

(** "ab"+"c" vs "abc" *)
Theorem C16_producers_agree_concat :
  forall (libm : N -> f64 -> f64 -> f64) (clock : f64)
           (sched : N -> list (list N * value) -> list (list N * value)) (l1 l2 l l' : N),
         equiv_e libm clock sched (EBinary TPLUS (ELit (LitStr str_ab) l1) (ELit (LitStr str_c) l2) l)
           (ELit (LitStr str_abc) l').
Proof. exact (@producers_agree_concat). Qed.
Print Assumptions C16_producers_agree_concat.

(** 1+2 vs 3 *)
Theorem C16_producers_agree_sum :
  forall (libm : N -> f64 -> f64 -> f64) (clock : f64)
           (sched : N -> list (list N * value) -> list (list N * value)) (l1 l2 l l' : N),
         equiv_e libm clock sched (EBinary TPLUS (ELit (num 1) l1) (ELit (num 2) l2) l) (ELit (num 3) l').
Proof. exact (@producers_agree_sum). Qed.
Print Assumptions C16_producers_agree_sum.

(** 7&3 vs 3 *)
Theorem C16_producers_agree_and :
  forall (libm : N -> f64 -> f64 -> f64) (clock : f64)
           (sched : N -> list (list N * value) -> list (list N * value)) (l1 l2 l l' : N),
         equiv_e libm clock sched (EBinary TAND (ELit (num 7) l1) (ELit (num 3) l2) l) (ELit (num 3) l').
Proof. exact (@producers_agree_and). Qed.
Print Assumptions C16_producers_agree_and.

(** 3|0 vs 3 *)
Theorem C16_producers_agree_or :
  forall (libm : N -> f64 -> f64 -> f64) (clock : f64)
           (sched : N -> list (list N * value) -> list (list N * value)) (l1 l2 l l' : N),
         equiv_e libm clock sched (EBinary TOR (ELit (num 3) l1) (ELit (num 0) l2) l) (ELit (num 3) l').
Proof. exact (@producers_agree_or). Qed.
Print Assumptions C16_producers_agree_or.

(** ...in any statement and expression context *)
Theorem C16_producers_agree_in_context :
  forall (libm : N -> f64 -> f64 -> f64) (clock : f64)
           (sched : N -> list (list N * value) -> list (list N * value)) (l1 l2 l l' : N) 
           (K : ctx) (F : sframe),
         equiv_s libm clock sched
           (splug F (plug K (EBinary TPLUS (ELit (LitStr str_ab) l1) (ELit (LitStr str_c) l2) l)))
           (splug F (plug K (ELit (LitStr str_abc) l'))).
Proof. exact (@producers_agree_in_context). Qed.
Print Assumptions C16_producers_agree_in_context.
