(** C13 — execution is deterministic.
    Only statements: each theorem is closed by [exact] of a lemma proved in Proofs/*, and its
    axioms are printed.  (Statements generated from the lemmas by tools/mkprops.py, then reviewed.) *)
From Coq Require Import Reals Permutation.
From Flocq Require Import Core BinarySingleNaN.
From Borno Require Import Base.
From Borno Require Import Num.
From Borno Require Import Unicode.
From Borno Require Import Token.
From Borno Require Import Ast.
From Borno Require Import Value.
From Borno Require Import Eval.
From Borno Require Import Cli.
From Borno Require Import EvalInv.
From Borno Require Import HeapLaws.
From Borno Require Import EvalDet.

(** the whole process behaviour (stdout events, diagnostics, status) of any command line is the same under any two host map-iteration schedules *)
Theorem C13_main_schedule_independent :
  forall (libm : N -> f64 -> f64 -> f64) (clock : f64)
           (sched1 sched2 : N -> list (list N * value) -> list (list N * value)),
         (forall (n : N) (l : list (list N * value)), Permutation.Permutation (sched1 n l) l) ->
         (forall (n : N) (l : list (list N * value)), Permutation.Permutation (sched2 n l) l) ->
         forall (fuel : nat) (args : list (list N)) (fs : list N -> file_read) (stdin : list N),
         main libm clock sched1 fuel args fs stdin = main libm clock sched2 fuel args fs stdin.
Proof. exact (@main_schedule_independent). Qed.
Print Assumptions C13_main_schedule_independent.

(** the same for one script or REPL line *)
Theorem C13_run_source_schedule_independent :
  forall (libm : N -> f64 -> f64 -> f64) (clock : f64)
           (sched1 sched2 : N -> list (list N * value) -> list (list N * value)),
         (forall (n : N) (l : list (list N * value)), Permutation.Permutation (sched1 n l) l) ->
         (forall (n : N) (l : list (list N * value)), Permutation.Permutation (sched2 n l) l) ->
         forall (fuel : nat) (repl : bool) (src stdin : list N),
         run_source libm clock sched1 fuel repl src stdin = run_source libm clock sched2 fuel repl src stdin.
Proof. exact (@run_source_schedule_independent). Qed.
Print Assumptions C13_run_source_schedule_independent.

(** for every program fragment and fuel: results and final states are equal under any two schedules *)
Theorem C13_schedule_independent_all :
  forall (libm : N -> f64 -> f64 -> f64) (clock : f64)
           (sched1 sched2 : N -> list (list N * value) -> list (list N * value)),
         (forall (n : N) (l : list (list N * value)), Permutation.Permutation (sched1 n l) l) ->
         (forall (n : N) (l : list (list N * value)), Permutation.Permutation (sched2 n l) l) ->
         forall f : nat, det_at libm clock sched1 sched2 f.
Proof. exact (@schedule_independent_all). Qed.
Print Assumptions C13_schedule_independent_all.

(** in particular under any two seeds of the driver's (Go-like) rotating schedule *)
Theorem C13_main_seed_independent :
  forall (libm : N -> f64 -> f64 -> f64) (clock : f64) (seed1 seed2 : N) (fuel : nat)
           (args : list (list N)) (fs : list N -> file_read) (stdin : list N),
         main libm clock (rotate_sched seed1) fuel args fs stdin =
         main libm clock (rotate_sched seed2) fuel args fs stdin.
Proof. exact (@main_seed_independent). Qed.
Print Assumptions C13_main_seed_independent.

(** non-vacuity: that schedule is a permutation *)
Theorem C13_rotate_sched_perm :
  forall (seed n : N) (l : list (list N * value)), Permutation.Permutation (rotate_sched seed n l) l.
Proof. exact (@rotate_sched_perm). Qed.
Print Assumptions C13_rotate_sched_perm.

(** invariant behind it: object cells stay sorted with distinct keys for every program *)
Theorem C13_run_objs_sorted :
  forall (libm : N -> f64 -> f64 -> f64) (clock : f64)
           (sched : N -> list (list N * value) -> list (list N * value)) (f : nat) 
           (repl : bool) (ss : list stmt) (stdin : list N) (s' : state),
         final (run_stmts libm clock sched f repl ss (init_state stdin)) = Some s' -> objs_sorted s'.
Proof. exact (@run_objs_sorted). Qed.
Print Assumptions C13_run_objs_sorted.

(** the initialisers of an object literal are evaluated in source order (no map iteration is involved) *)
Theorem C13_literal_inits_in_source_order :
  forall (libm : N -> f64 -> f64 -> f64) (clock : f64)
           (sched : N -> list (list N * value) -> list (list N * value)) (f : nat) 
           (ps : list (list N * expr)) (rho : nat) (s : state),
         eval libm clock sched (S f) (EObject ps) rho s =
         (let* (kvs, s1):= eval_props libm clock sched f ps rho s
          in let '(l, s2) := alloc_obj (build_obj kvs) s1 in Ok (VObj l) s2) /\
         (forall (k : list N) (e : expr) (r : list (list N * expr)),
          eval_props libm clock sched (S f) ((k, e) :: r) rho s =
          (let* (v, s1):= eval libm clock sched f e rho s
           in let* (kvs, s2):= eval_props libm clock sched f r rho s1 in Ok ((k, v) :: kvs) s2)) /\
         (forall (kvs : list (list N * value)) (s1 : state),
          eval_props libm clock sched f ps rho s = Ok kvs s1 ->
          props_chain libm clock sched rho s ps kvs s1 /\ map fst kvs = map fst ps).
Proof. exact (@literal_inits_in_source_order). Qed.
Print Assumptions C13_literal_inits_in_source_order.

(** listing the keys of an unmodified object twice gives the same sequence *)
Theorem C13_listing_stable :
  forall (libm : N -> f64 -> f64 -> f64) (clock : f64)
           (sched : N -> list (list N * value) -> list (list N * value)),
         (forall (n : N) (l : list (list N * value)), Permutation.Permutation (sched n l) l) ->
         forall (l : nat) (s : state) (v1 : value) (s1 : state) (v2 : value) (s2 : state),
         objs_sorted s ->
         call_native libm clock sched NKeys [VObj l] s = NOk v1 s1 ->
         call_native libm clock sched NKeys [VObj l] s1 = NOk v2 s2 ->
         exists (l1 l2 : nat) (els : list value),
           v1 = VArr l1 /\
           v2 = VArr l2 /\
           l1 <> l2 /\ get_arr l1 s1 = Some els /\ get_arr l1 s2 = Some els /\ get_arr l2 s2 = Some els.
Proof. exact (@listing_stable). Qed.
Print Assumptions C13_listing_stable.

(** ...in any two states holding the same content, whatever the iteration counters *)
Theorem C13_listing_stable_general :
  forall (libm : N -> f64 -> f64 -> f64) (clock : f64)
           (sched : N -> list (list N * value) -> list (list N * value)),
         (forall (n : N) (l : list (list N * value)), Permutation.Permutation (sched n l) l) ->
         forall (l : nat) (ps : list (list N * value)) (s s' : state),
         sorted_keys ps ->
         get_obj l s = Some ps ->
         get_obj l s' = Some ps ->
         exists (l1 : nat) (s1 : state) (l2 : nat) (s2 : state) (els : list value),
           call_native libm clock sched NKeys [VObj l] s = NOk (VArr l1) s1 /\
           call_native libm clock sched NKeys [VObj l] s' = NOk (VArr l2) s2 /\
           get_arr l1 s1 = Some els /\
           get_arr l2 s2 = Some els /\ els = map (fun p : list N * value => VStr (fst p)) ps.
Proof. exact (@listing_stable_general). Qed.
Print Assumptions C13_listing_stable_general.
