(** C09 — tokens are a faithful maximal-munch partition of the source, with true lines.
    Only statements: each theorem is closed by [exact] of a lemma proved in Proofs/*, and its
    axioms are printed.  (Statements generated from the lemmas by tools/mkprops.py, then reviewed.) *)
From Borno Require Import Base.
From Borno Require Import Num.
From Borno Require Import Unicode.
From Borno Require Import Token.
From Borno Require Import Lexer.
From Borno Require Import LexerFacts.

(** the items (tokens, blanks, comments, rejected pieces), in order, concatenate to the source: nothing dropped, duplicated or reordered *)
Theorem C09_lex_items_partition :
  forall src : list N, concat (map itext (fst (lex_items src))) = src.
Proof. exact (@lex_items_partition). Qed.
Print Assumptions C09_lex_items_partition.

(** the token list is the token items, in order *)
Theorem C09_tokens_of_lex :
  forall src : list N, lx_tokens (lex src) = tokens_of (fst (lex_items src)).
Proof. exact (@tokens_of_lex). Qed.
Print Assumptions C09_tokens_of_lex.

(** every token of the list is a token item (same kind, lexeme = its text, literal, line) *)
Theorem C09_token_origin :
  forall (items : list item) (t : token),
         In t (tokens_of items) ->
         exists it : item,
           In it items /\ ik it = IToken (tk t) (tlit t) /\ tlex t = itext it /\ tline t = iline it.
Proof. exact (@token_origin). Qed.
Print Assumptions C09_token_origin.

(** every non-token item is a blank, a newline, a // comment, a /* */ comment, or a rejected piece carrying exactly one diagnostic *)
Theorem C09_lex_items_all_ok :
  forall src : list N,
         Forall (fun it : item => exists rest : list N, item_ok it rest) (fst (lex_items src)).
Proof. exact (@lex_items_all_ok). Qed.
Print Assumptions C09_lex_items_all_ok.

(** the diagnostics are exactly the rejected pieces, in order: nothing is dropped silently *)
Theorem C09_lexdiags_of_spec :
  forall items : list item,
         lexdiags_of items =
         flat_map (fun it : item => match ik it with
                                    | IBad d => [(iline it, d)]
                                    | _ => []
                                    end) items.
Proof. exact (@lexdiags_of_spec). Qed.
Print Assumptions C09_lexdiags_of_spec.

(** an unterminated string or comment swallows the rest of the text and is diagnosed *)
Theorem C09_unterminated_is_last :
  forall (src : list N) (i1 : list item) (it : item) (i2 : list item),
         fst (lex_items src) = i1 ++ it :: i2 ->
         ik it = IBad LexUnterminatedString \/ ik it = IBad LexUnterminatedComment -> i2 = [].
Proof. exact (@unterminated_is_last). Qed.
Print Assumptions C09_unterminated_is_last.

(** every token carries 1 + the number of newlines that precede its last character *)
Theorem C09_token_line_src :
  forall (src : list N) (t : token),
         In t (lx_tokens (lex src)) ->
         exists pre post : list N,
           src = pre ++ tlex t ++ post /\ tline t = 1 + count_nl (pre ++ removelast (tlex t)).
Proof. exact (@token_line_src). Qed.
Print Assumptions C09_token_line_src.

(** the single end-of-input token carries 1 + the number of newlines of the text *)
Theorem C09_eof_line :
  forall src : list N, lx_eof_line (lex src) = 1 + count_nl src.
Proof. exact (@eof_line). Qed.
Print Assumptions C09_eof_line.

(** a two-character operator is taken before its one-character prefix *)
Theorem C09_two_char_first :
  forall (c d : N) (r : list N) (line : N) (k : tkind),
         two_char c d = Some k ->
         scan1 (c :: d :: r) line = Some ({| ik := IToken k LNone; itext := [c; d]; iline := line |}, r, line).
Proof. exact (@two_char_first). Qed.
Print Assumptions C09_two_char_first.

(** a one-character operator is produced only when no two-character operator starts there *)
Theorem C09_one_char_only_if_no_two :
  forall (c d : N) (r : list N) (line : N) (it : item) (rest : list N) (line' : N) (k : tkind),
         scan1 (c :: d :: r) line = Some (it, rest, line') ->
         two_char c d = Some k -> it = {| ik := IToken k LNone; itext := [c; d]; iline := line |} /\ rest = r.
Proof. exact (@one_char_only_if_no_two). Qed.
Print Assumptions C09_one_char_only_if_no_two.

(** identifiers and keywords are maximal runs of letters, marks, _ and digits *)
Theorem C09_word_maximal :
  forall (c : N) (r : list N) (line : N) (it : item) (rest : list N) (line' : N),
         is_alpha c = true ->
         scan1 (c :: r) line = Some (it, rest, line') ->
         exists cs : list N,
           itext it = c :: cs /\
           ik it = IToken (word_kind (c :: cs)) LNone /\
           forallb is_alnum cs = true /\
           r = cs ++ rest /\ match rest with
                             | [] => True
                             | d :: _ => is_alnum d = false
                             end.
Proof. exact (@word_maximal). Qed.
Print Assumptions C09_word_maximal.

(** numbers are maximal: digits, then a point only if a digit follows it *)
Theorem C09_number_maximal :
  forall (c : N) (r : list N) (line : N) (it : item) (rest : list N) (line' : N),
         is_digit c = true ->
         scan1 (c :: r) line = Some (it, rest, line') ->
         exists ds fs : list N,
           itext it = (c :: ds) ++ fs /\
           r = ds ++ fs ++ rest /\
           forallb is_digit ds = true /\
           (ik it = IBad LexBadNumber \/ (exists v : f64, ik it = IToken TNUMBER (LNum v))) /\
           (fs = [] /\
            dig_hd rest = false /\ (forall (e : N) (t : list N), rest = 46 :: e :: t -> is_digit e = false) \/
            (exists (e : N) (more : list N),
               fs = 46 :: e :: more /\ forallb is_digit (e :: more) = true /\ dig_hd rest = false)).
Proof. exact (@number_maximal). Qed.
Print Assumptions C09_number_maximal.

(** a word is a keyword token exactly when its lexeme is one of the keyword spellings *)
Theorem C09_keyword_iff_in :
  forall (l : list N) (line : N) (it : item) (rest : list N) (line' : N) (k : tkind) (lit : literal),
         scan1 l line = Some (it, rest, line') ->
         ik it = IToken k lit ->
         is_alpha (hd 0 (itext it)) = true -> k <> TIDENTIFIER <-> In (itext it, k) keywords.
Proof. exact (@keyword_iff_in). Qed.
Print Assumptions C09_keyword_iff_in.

(** there are 15 keywords *)
Theorem C09_keywords_length :
  length keywords = 15%nat.
Proof. exact (@keywords_length). Qed.
Print Assumptions C09_keywords_length.

(** with distinct spellings *)
Theorem C09_keywords_nodup :
  NoDup (map fst keywords).
Proof. exact (@keywords_nodup). Qed.
Print Assumptions C09_keywords_nodup.

(** a string token's value is the text between its quotes *)
Theorem C09_string_value :
  forall (l : list N) (line : N) (it : item) (rest : list N) (line' : N) (body : list N),
         scan1 l line = Some (it, rest, line') ->
         ik it = IToken TSTRING (LStr body) -> itext it = 34 :: body ++ [34] /\ forallb not_quote body = true.
Proof. exact (@string_value). Qed.
Print Assumptions C09_string_value.
