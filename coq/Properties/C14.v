(** C14 — operands are evaluated once, left to right; logic short-circuits on truthiness.
    Only statements: each theorem is closed by [exact] of a lemma proved in Proofs/*, and its
    axioms are printed.  (Statements generated from the lemmas by tools/mkprops.py, then reviewed.) *)
From Borno Require Import Base.
From Borno Require Import Num.
From Borno Require Import Unicode.
From Borno Require Import Token.
From Borno Require Import Ast.
From Borno Require Import Value.
From Borno Require Import Eval.
From Borno Require Import Cli.
From Borno Require Import EvalMeta.
From Borno Require Import EvalOrder.
From Borno Require Import ScenarioExamples.

(** a binary operator evaluates its left operand, then its right operand, then applies the operator *)
Theorem C14_binary_left_to_right :
  forall (libm : N -> f64 -> f64 -> f64) (clock : f64)
           (sched : N -> list (list N * value) -> list (list N * value)) (f : nat) 
           (op : tkind) (l r : expr) (line : N) (rho : nat) (s : state),
         eval libm clock sched (S f) (EBinary op l r line) rho s =
         (let* (a, s1):= eval libm clock sched f l rho s
          in let* (b, s2):= eval libm clock sched f r rho s1
             in lift_ores (binop libm s2 op a b) line s2 (fun v : value => Ok v s2)).
Proof. exact (@binary_left_to_right). Qed.
Print Assumptions C14_binary_left_to_right.

(** indexing evaluates the array expression, then the index *)
Theorem C14_index_ok :
  forall (libm : N -> f64 -> f64 -> f64) (clock : f64)
           (sched : N -> list (list N * value) -> list (list N * value)) (f : nat) 
           (ae ie : expr) (line : N) (rho : nat) (s : state) (l : nat) (s1 : state) 
           (i : value) (s2 : state),
         eval libm clock sched f ae rho s = Ok (VArr l) s1 ->
         eval libm clock sched f ie rho s1 = Ok i s2 ->
         eval libm clock sched (S f) (EIndex ae ie line) rho s =
         match get_arr l s2 with
         | Some vs =>
             match index_of vs i with
             | Some (Some n) => match nth_error vs n with
                                | Some v => Ok v s2
                                | None => Stuck
                                end
             | Some None => Err RIndexBounds line s2
             | None => Err RIndexInteger line s2
             end
         | None => Stuck
         end.
Proof. exact (@index_ok). Qed.
Print Assumptions C14_index_ok.

(** an indexed store evaluates array, index, value (in that order) and only then checks and stores *)
Theorem C14_arrassign_checks :
  forall (libm : N -> f64 -> f64 -> f64) (clock : f64)
           (sched : N -> list (list N * value) -> list (list N * value)) (f : nat) 
           (ae ie ve : expr) (line : N) (rho : nat) (s : state) (a : value) (s1 : state) 
           (i : value) (s2 : state) (v : value) (s3 : state),
         eval libm clock sched f ae rho s = Ok a s1 ->
         eval libm clock sched f ie rho s1 = Ok i s2 ->
         eval libm clock sched f ve rho s2 = Ok v s3 ->
         eval libm clock sched (S f) (EArrAssign ae ie ve line) rho s =
         match a with
         | VArr l =>
             match get_arr l s3 with
             | Some vs =>
                 match index_of vs i with
                 | Some (Some n) => Ok v (set_arr l (set_nth n v vs) s3)
                 | Some None => Err RIndexBounds line s3
                 | None => Err RIndexInteger line s3
                 end
             | None => Stuck
             end
         | _ => Err RNotArrayAssign line s3
         end.
Proof. exact (@arrassign_checks). Qed.
Print Assumptions C14_arrassign_checks.

(** a property store evaluates the object, then the value, then stores *)
Theorem C14_propassign_ok :
  forall (libm : N -> f64 -> f64 -> f64) (clock : f64)
           (sched : N -> list (list N * value) -> list (list N * value)) (f : nat) 
           (oe : expr) (p : list N) (ve : expr) (line : N) (rho : nat) (s : state) 
           (l : nat) (s1 : state) (v : value) (s2 : state),
         eval libm clock sched f oe rho s = Ok (VObj l) s1 ->
         eval libm clock sched f ve rho s1 = Ok v s2 ->
         eval libm clock sched (S f) (EPropAssign oe p ve line) rho s =
         match get_obj l s2 with
         | Some ps => Ok v (set_obj l (sorted_put p v ps) s2)
         | None => Stuck
         end.
Proof. exact (@propassign_ok). Qed.
Print Assumptions C14_propassign_ok.

(** plain assignment evaluates the value before the store *)
Theorem C14_assign_ok :
  forall (libm : N -> f64 -> f64 -> f64) (clock : f64)
           (sched : N -> list (list N * value) -> list (list N * value)) (f : nat) 
           (x : list N) (nline : N) (ve : expr) (line : N) (rho : nat) (s : state) 
           (v : value) (s1 : state),
         eval libm clock sched f ve rho s = Ok v s1 ->
         eval libm clock sched (S f) (EAssign x nline ve line) rho s =
         match env_assign rho x v s1 with
         | Some (Some s2) => Ok v s2
         | Some None => Err RUndefinedAssign nline s1
         | None => Stuck
         end.
Proof. exact (@assign_ok). Qed.
Print Assumptions C14_assign_ok.

(** a call evaluates the callee, checks callability and arity, then the arguments left to right, then calls *)
Theorem C14_call_native_after_args :
  forall (libm : N -> f64 -> f64 -> f64) (clock : f64)
           (sched : N -> list (list N * value) -> list (list N * value)) (f : nat) 
           (ce : expr) (pline : N) (args : list expr) (rho : nat) (s : state) (n : native) 
           (s1 : state) (vs : list value) (s2 : state),
         eval libm clock sched f ce rho s = Ok (VNative n) s1 ->
         arity_ok (native_arity n) (length args) = true ->
         eval_list libm clock sched f args rho s1 = Ok vs s2 ->
         eval libm clock sched (S f) (ECall ce pline args) rho s =
         match call_native libm clock sched n vs s2 with
         | NOk v s3 => Ok v s3
         | NFail why => Err (RCallFailed why) pline (native_fail_state n vs s2)
         | NStuck => Stuck
         end.
Proof. exact (@call_native_after_args). Qed.
Print Assumptions C14_call_native_after_args.

(** arguments and array elements are evaluated left to right, each exactly once *)
Theorem C14_eval_list_app :
  forall (libm : N -> f64 -> f64 -> f64) (clock : f64)
           (sched : N -> list (list N * value) -> list (list N * value)) (f g : nat) 
           (es1 es2 : list expr) (rho : nat) (s : state) (vs1 : list value) (s1 : state) 
           (vs2 : list value) (s2 : state),
         eval_list libm clock sched f es1 rho s = Ok vs1 s1 ->
         eval_list libm clock sched g es2 rho s1 = Ok vs2 s2 ->
         eval_list libm clock sched (f + g) (es1 ++ es2) rho s = Ok (vs1 ++ vs2) s2.
Proof. exact (@eval_list_app). Qed.
Print Assumptions C14_eval_list_app.

(** object-literal initializers are evaluated in source order *)
Theorem C14_eval_props_app :
  forall (libm : N -> f64 -> f64 -> f64) (clock : f64)
           (sched : N -> list (list N * value) -> list (list N * value)) (f g : nat)
           (ps1 ps2 : list (list N * expr)) (rho : nat) (s : state) (kvs1 : list (list N * value)) 
           (s1 : state) (kvs2 : list (list N * value)) (s2 : state),
         eval_props libm clock sched f ps1 rho s = Ok kvs1 s1 ->
         eval_props libm clock sched g ps2 rho s1 = Ok kvs2 s2 ->
         eval_props libm clock sched (f + g) (ps1 ++ ps2) rho s = Ok (kvs1 ++ kvs2) s2.
Proof. exact (@eval_props_app). Qed.
Print Assumptions C14_eval_props_app.

(** for every expression: its strict sub-expressions are evaluated in left-to-right source order, each once *)
Theorem C14_leaves_in_order :
  forall (libm : N -> f64 -> f64 -> f64) (clock : f64)
           (sched : N -> list (list N * value) -> list (list N * value)) (f : nat) 
           (e : expr) (rho : nat) (s : state) (v : value) (s' : state),
         eval libm clock sched f e rho s = Ok v s' -> chain libm clock sched rho (leaves_lr e) s s'.
Proof. exact (@leaves_in_order). Qed.
Print Assumptions C14_leaves_in_order.

(** hence the side effects of probes appear in reading order *)
Theorem C14_probe_order :
  forall (libm : N -> f64 -> f64 -> f64) (clock : f64)
           (sched : N -> list (list N * value) -> list (list N * value)) (rho : nat) 
           (I : state -> Prop) (tag : expr -> event) (e : expr),
         (forall s s' : state, I s -> quiet s s' -> I s') ->
         (forall lf : expr,
          In lf (leaves_lr e) ->
          forall (f : nat) (s : state) (v : value) (s' : state),
          I s -> eval libm clock sched f lf rho s = Ok v s' -> I s' /\ out s' = tag lf :: out s) ->
         forall (f : nat) (s : state) (v : value) (s' : state),
         I s ->
         eval libm clock sched f e rho s = Ok v s' -> I s' /\ out s' = rev (map tag (leaves_lr e)) ++ out s.
Proof. exact (@probe_order). Qed.
Print Assumptions C14_probe_order.

(** || does not evaluate its right operand when the left is truthy, and yields the left value itself *)
Theorem C14_or_short :
  forall (libm : N -> f64 -> f64 -> f64) (clock : f64)
           (sched : N -> list (list N * value) -> list (list N * value)) (f : nat) 
           (l r : expr) (rho : nat) (s : state) (a : value) (s1 : state),
         eval libm clock sched f l rho s = Ok a s1 ->
         truthy a = true -> eval libm clock sched (S f) (ELogical TLOGICAL_OR l r) rho s = Ok a s1.
Proof. exact (@or_short). Qed.
Print Assumptions C14_or_short.

(** || yields exactly the right operand's evaluation when the left is falsy *)
Theorem C14_or_right :
  forall (libm : N -> f64 -> f64 -> f64) (clock : f64)
           (sched : N -> list (list N * value) -> list (list N * value)) (f : nat) 
           (l r : expr) (rho : nat) (s : state) (a : value) (s1 : state),
         eval libm clock sched f l rho s = Ok a s1 ->
         truthy a = false ->
         eval libm clock sched (S f) (ELogical TLOGICAL_OR l r) rho s = eval libm clock sched f r rho s1.
Proof. exact (@or_right). Qed.
Print Assumptions C14_or_right.

(** && does not evaluate its right operand when the left is falsy, and yields the left value itself *)
Theorem C14_and_short_and :
  forall (libm : N -> f64 -> f64 -> f64) (clock : f64)
           (sched : N -> list (list N * value) -> list (list N * value)) (f : nat) 
           (l r : expr) (rho : nat) (s : state) (a : value) (s1 : state),
         eval libm clock sched f l rho s = Ok a s1 ->
         truthy a = false -> eval libm clock sched (S f) (ELogical TLOGICAL_AND l r) rho s = Ok a s1.
Proof. exact (@and_short_and). Qed.
Print Assumptions C14_and_short_and.

(** && yields exactly the right operand's evaluation when the left is truthy *)
Theorem C14_and_right_and :
  forall (libm : N -> f64 -> f64 -> f64) (clock : f64)
           (sched : N -> list (list N * value) -> list (list N * value)) (f : nat) 
           (l r : expr) (rho : nat) (s : state) (a : value) (s1 : state),
         eval libm clock sched f l rho s = Ok a s1 ->
         truthy a = true ->
         eval libm clock sched (S f) (ELogical TLOGICAL_AND l r) rho s = eval libm clock sched f r rho s1.
Proof. exact (@and_right_and). Qed.
Print Assumptions C14_and_right_and.

(** the result of a logical operator is one operand's own value, not a boolean *)
Theorem C14_logical_value :
  forall (libm : N -> f64 -> f64 -> f64) (clock : f64)
           (sched : N -> list (list N * value) -> list (list N * value)) (f : nat) 
           (op : tkind) (l r : expr) (rho : nat) (s : state) (v : value) (s' : state),
         eval libm clock sched (S f) (ELogical op l r) rho s = Ok v s' ->
         eval libm clock sched f l rho s = Ok v s' \/
         (exists (a : value) (s1 : state),
            eval libm clock sched f l rho s = Ok a s1 /\ eval libm clock sched f r rho s1 = Ok v s').
Proof. exact (@logical_value). Qed.
Print Assumptions C14_logical_value.

(** nil, false, 0 and the empty string are falsy; every other value (NaN, empty arrays and objects, functions) is truthy — one function used by conditions, ! and the logical operators *)
Theorem C14_truthy_spec :
  forall v : value,
         truthy v = false <->
         v = VNil \/ v = VBool false \/ (exists x : f64, v = VNum x /\ f_is_zero x = true) \/ v = VStr [].
Proof. exact (@truthy_spec). Qed.
Print Assumptions C14_truthy_spec.

(** elements, index, operands left to right and short-circuit on a concrete program, evaluated inside the kernel *)
Theorem C14_scenario_left_to_right :
  transcript src_left_to_right = Some ([[97]; [98]; [105]; [99]; [52]; [108]; [114]; [55]], 0).
Proof. exact (@scenario_left_to_right). Qed.
Print Assumptions C14_scenario_left_to_right.
