(** C20 — in the REPL a failed line never affects later lines; expression values echo.
    Only statements: each theorem is closed by [exact] of a lemma proved in Proofs/*, and its
    axioms are printed.  (Statements generated from the lemmas by tools/mkprops.py, then reviewed.) *)
From Coq Require Import Reals.
From Flocq Require Import Core BinarySingleNaN.
From Borno Require Import Base.
From Borno Require Import Num.
From Borno Require Import Unicode.
From Borno Require Import Token.
From Borno Require Import Lexer.
From Borno Require Import Ast.
From Borno Require Import Parser.
From Borno Require Import Value.
From Borno Require Import Eval.
From Borno Require Import Cli.
From Borno Require Import CliFacts.

(** the session transcript is the concatenation of the responses of its lines, each computed from that line alone *)
Theorem C20_repl_is_map_respond :
  forall (libm : N -> f64 -> f64 -> f64) (clock : f64)
           (sched : N -> list (list N * value) -> list (list N * value)) (fuel : nat) 
           (ls : list (list N)) (o : list event) (e : list stderr_item),
         repl_lines libm clock sched fuel ls = Some (o, e) ->
         Forall (fun l : list N => respond libm clock sched fuel l <> None) ls /\
         o =
         concat (map (fun l : list N => EvPrompt s_prompt :: resp_out libm clock sched fuel l) ls) ++
         [EvPrompt s_prompt] /\ e = concat (map (resp_err libm clock sched fuel) ls).
Proof. exact (@repl_is_map_respond). Qed.
Print Assumptions C20_repl_is_map_respond.

(** the response to a line is the same after any history (failed lines included) as in a fresh session *)
Theorem C20_line_independence :
  forall (libm : N -> f64 -> f64 -> f64) (clock : f64)
           (sched : N -> list (list N * value) -> list (list N * value)) (fuel : nat) 
           (h : list (list N)) (l : list N) (o : list event) (e : list stderr_item),
         repl_lines libm clock sched fuel (h ++ [l]) = Some (o, e) ->
         exists (oh : list event) (eh : list stderr_item) (ol : list event) (el : list stderr_item) 
         (st : N),
           repl_lines libm clock sched fuel h = Some (oh ++ [EvPrompt s_prompt], eh) /\
           respond libm clock sched fuel l = Some (ol, el, st) /\
           repl_lines libm clock sched fuel [l] = Some (EvPrompt s_prompt :: ol ++ [EvPrompt s_prompt], el) /\
           o = oh ++ EvPrompt s_prompt :: ol ++ [EvPrompt s_prompt] /\ e = eh ++ el.
Proof. exact (@line_independence). Qed.
Print Assumptions C20_line_independence.

(** every input line gets its prompt and its response; a final prompt follows at end of input *)
Theorem C20_repl_never_stops_early :
  forall (libm : N -> f64 -> f64 -> f64) (clock : f64)
           (sched : N -> list (list N * value) -> list (list N * value)) (fuel : nat) 
           (stdin : list N) (p : proc_result),
         repl libm clock sched fuel stdin = PExit p ->
         p_stdout p =
         concat
           (map (fun l : list N => EvPrompt s_prompt :: resp_out libm clock sched fuel l) (scan_lines stdin)) ++
         [EvPrompt s_prompt] /\ p_stderr p = concat (map (resp_err libm clock sched fuel) (scan_lines stdin)).
Proof. exact (@repl_never_stops_early). Qed.
Print Assumptions C20_repl_never_stops_early.

(** a failing line never ends the session *)
Theorem C20_repl_lines_total :
  forall (libm : N -> f64 -> f64 -> f64) (clock : f64)
           (sched : N -> list (list N * value) -> list (list N * value)) (fuel : nat) 
           (ls : list (list N)),
         Forall (fun l : list N => respond libm clock sched fuel l <> None) ls ->
         repl_lines libm clock sched fuel ls =
         Some
           (concat (map (fun l : list N => EvPrompt s_prompt :: resp_out libm clock sched fuel l) ls) ++
            [EvPrompt s_prompt], concat (map (resp_err libm clock sched fuel) ls)).
Proof. exact (@repl_lines_total). Qed.
Print Assumptions C20_repl_lines_total.

(** end of input ends the session with status 0 *)
Theorem C20_repl_status_0 :
  forall (libm : N -> f64 -> f64 -> f64) (clock : f64)
           (sched : N -> list (list N * value) -> list (list N * value)) (fuel : nat) 
           (stdin : list N) (p : proc_result), repl libm clock sched fuel stdin = PExit p -> p_status p = 0.
Proof. exact (@repl_status_0). Qed.
Print Assumptions C20_repl_status_0.

(** a bare expression statement has its value echoed *)
Theorem C20_echo_bare_expression :
  forall (libm : N -> f64 -> f64 -> f64) (clock : f64)
           (sched : N -> list (list N * value) -> list (list N * value)) (f : nat) 
           (e : expr) (rho : nat) (s : state) (v : value) (s1 : state) (t : list N),
         eval libm clock sched f e rho s = Ok v s1 ->
         text_of s1 v = TOk t ->
         exec libm clock sched (S f) true (SExpr e) rho s = Ok SigNone (emit (EvEcho t) s1).
Proof. exact (@echo_bare_expression). Qed.
Print Assumptions C20_echo_bare_expression.

(** no other statement form echoes *)
Theorem C20_echo_only_for_expression :
  forall (libm : N -> f64 -> f64 -> f64) (clock : f64)
           (sched : N -> list (list N * value) -> list (list N * value)) (f : nat) 
           (st : stmt) (rho : nat) (s : state),
         no_own_echo st -> exec libm clock sched f true st rho s = exec libm clock sched f false st rho s.
Proof. exact (@echo_only_for_expression). Qed.
Print Assumptions C20_echo_only_for_expression.

(** the session is split into lines at newlines *)
Theorem C20_scan_lines_spec :
  forall ls : list (list N),
         Forall no_nl ls ->
         Forall no_cr_end ls -> scan_lines (concat (map (fun l : list N => l ++ [10]) ls)) = ls.
Proof. exact (@scan_lines_spec). Qed.
Print Assumptions C20_scan_lines_spec.

(** ...a last line without newline included *)
Theorem C20_scan_lines_spec_last :
  forall (ls : list (list N)) (last : list N),
         Forall no_nl ls ->
         Forall no_cr_end ls ->
         no_nl last ->
         no_cr_end last ->
         last <> [] -> scan_lines (concat (map (fun l : list N => l ++ [10]) ls) ++ last) = ls ++ [last].
Proof. exact (@scan_lines_spec_last). Qed.
Print Assumptions C20_scan_lines_spec_last.
