(** C02 — operators compute the documented result for every combination of operand values.
    Only statements: each theorem is closed by [exact] of a lemma proved in Proofs/*, and its
    axioms are printed.  (Statements generated from the lemmas by tools/mkprops.py, then reviewed.) *)
From Coq Require Import Reals.
From Flocq Require Import Core BinarySingleNaN.
From Borno Require Import Base.
From Borno Require Import Num.
From Borno Require Import Unicode.
From Borno Require Import Token.
From Borno Require Import Ast.
From Borno Require Import Value.
From Borno Require Import Eval.
From Borno Require Import Cli.
From Borno Require Import NumInt.
From Borno Require Import NumFacts.
From Borno Require Import NumMod.
From Borno Require Import OpFacts.

(** - * / % ** and the comparisons on (coerced) numbers are the IEEE operations of the model; a zero divisor is an error *)
Theorem C02_arith_coerced :
  forall (libm : N -> f64 -> f64 -> f64) (s : state) (op : tkind) (a b : value) (x y : f64),
         is_arith_op op ->
         to_number a = Some x ->
         to_number b = Some y ->
         binop libm s op a b =
         match op with
         | TMINUS => OVal (VNum (f_sub x y))
         | TSLASH => if f_is_zero y then OErr RDivZero else OVal (VNum (f_div x y))
         | TSTAR => OVal (VNum (f_mul x y))
         | TPOWER => OVal (VNum (libm 0 x y))
         | TMODULO => if f_is_zero y then OErr RDivZero else OVal (VNum (f_mod x y))
         | TGREATER => OVal (VBool (f_gtb x y))
         | TLESS => OVal (VBool (f_ltb x y))
         | TLESS_EQUAL => OVal (VBool (f_leb x y))
         | _ => OVal (VBool (f_geb x y))
         end.
Proof. exact (@arith_coerced). Qed.
Print Assumptions C02_arith_coerced.

(** number + number is IEEE addition *)
Theorem C02_add_num :
  forall (libm : N -> f64 -> f64 -> f64) (s : state) (a b : f64),
         binop libm s TPLUS (VNum a) (VNum b) = OVal (VNum (f_add a b)).
Proof. exact (@add_num). Qed.
Print Assumptions C02_add_num.

(** IEEE addition: the correctly rounded exact sum, or overflow to infinity (Flocq) *)
Theorem C02_f_add_correct :
  forall a b : f64,
         BinarySingleNaN.is_finite a = true ->
         BinarySingleNaN.is_finite b = true ->
         if
          Raux.Rlt_bool
            (Rbasic_fun.Rabs
               (rnd64 (Rdefinitions.RbaseSymbolsImpl.Rplus (BinarySingleNaN.B2R a) (BinarySingleNaN.B2R b))))
            bmax
         then
          BinarySingleNaN.B2R (f_add a b) =
          rnd64 (Rdefinitions.RbaseSymbolsImpl.Rplus (BinarySingleNaN.B2R a) (BinarySingleNaN.B2R b)) /\
          BinarySingleNaN.is_finite (f_add a b) = true /\
          BinarySingleNaN.Bsign (f_add a b) =
          match
            Raux.Rcompare (Rdefinitions.RbaseSymbolsImpl.Rplus (BinarySingleNaN.B2R a) (BinarySingleNaN.B2R b))
              (Rdefinitions.IZR 0)
          with
          | Eq => BinarySingleNaN.Bsign a && BinarySingleNaN.Bsign b
          | Lt => true
          | Gt => false
          end
         else
          f_add a b = BinarySingleNaN.B754_infinity (BinarySingleNaN.Bsign a) /\
          BinarySingleNaN.Bsign a = BinarySingleNaN.Bsign b.
Proof. exact (@f_add_correct). Qed.
Print Assumptions C02_f_add_correct.

(** IEEE subtraction *)
Theorem C02_f_sub_correct :
  forall a b : f64,
         BinarySingleNaN.is_finite a = true ->
         BinarySingleNaN.is_finite b = true ->
         if
          Raux.Rlt_bool
            (Rbasic_fun.Rabs (rnd64 (Rdefinitions.Rminus (BinarySingleNaN.B2R a) (BinarySingleNaN.B2R b))))
            bmax
         then
          BinarySingleNaN.B2R (f_sub a b) =
          rnd64 (Rdefinitions.Rminus (BinarySingleNaN.B2R a) (BinarySingleNaN.B2R b)) /\
          BinarySingleNaN.is_finite (f_sub a b) = true /\
          BinarySingleNaN.Bsign (f_sub a b) =
          match
            Raux.Rcompare (Rdefinitions.Rminus (BinarySingleNaN.B2R a) (BinarySingleNaN.B2R b))
              (Rdefinitions.IZR 0)
          with
          | Eq => BinarySingleNaN.Bsign a && negb (BinarySingleNaN.Bsign b)
          | Lt => true
          | Gt => false
          end
         else
          f_sub a b = BinarySingleNaN.B754_infinity (BinarySingleNaN.Bsign a) /\
          BinarySingleNaN.Bsign a = negb (BinarySingleNaN.Bsign b).
Proof. exact (@f_sub_correct). Qed.
Print Assumptions C02_f_sub_correct.

(** IEEE multiplication *)
Theorem C02_f_mul_correct :
  forall a b : f64,
         if
          Raux.Rlt_bool
            (Rbasic_fun.Rabs
               (rnd64 (Rdefinitions.RbaseSymbolsImpl.Rmult (BinarySingleNaN.B2R a) (BinarySingleNaN.B2R b))))
            bmax
         then
          BinarySingleNaN.B2R (f_mul a b) =
          rnd64 (Rdefinitions.RbaseSymbolsImpl.Rmult (BinarySingleNaN.B2R a) (BinarySingleNaN.B2R b)) /\
          BinarySingleNaN.is_finite (f_mul a b) = BinarySingleNaN.is_finite a && BinarySingleNaN.is_finite b /\
          (BinarySingleNaN.is_nan (f_mul a b) = false ->
           BinarySingleNaN.Bsign (f_mul a b) = xorb (BinarySingleNaN.Bsign a) (BinarySingleNaN.Bsign b))
         else
          f_mul a b = BinarySingleNaN.B754_infinity (xorb (BinarySingleNaN.Bsign a) (BinarySingleNaN.Bsign b)).
Proof. exact (@f_mul_correct). Qed.
Print Assumptions C02_f_mul_correct.

(** IEEE division *)
Theorem C02_f_div_correct :
  forall a b : f64,
         BinarySingleNaN.B2R b <> Rdefinitions.IZR 0 ->
         if
          Raux.Rlt_bool
            (Rbasic_fun.Rabs (rnd64 (Rdefinitions.Rdiv (BinarySingleNaN.B2R a) (BinarySingleNaN.B2R b)))) bmax
         then
          BinarySingleNaN.B2R (f_div a b) =
          rnd64 (Rdefinitions.Rdiv (BinarySingleNaN.B2R a) (BinarySingleNaN.B2R b)) /\
          BinarySingleNaN.is_finite (f_div a b) = BinarySingleNaN.is_finite a /\
          (BinarySingleNaN.is_nan (f_div a b) = false ->
           BinarySingleNaN.Bsign (f_div a b) = xorb (BinarySingleNaN.Bsign a) (BinarySingleNaN.Bsign b))
         else
          f_div a b = BinarySingleNaN.B754_infinity (xorb (BinarySingleNaN.Bsign a) (BinarySingleNaN.Bsign b)).
Proof. exact (@f_div_correct). Qed.
Print Assumptions C02_f_div_correct.

(** % is the exact remainder x - trunc(x/y)*y *)
Theorem C02_f_mod_exact :
  forall x y : f64,
         BinarySingleNaN.is_finite x = true ->
         BinarySingleNaN.is_finite_strict y = true ->
         BinarySingleNaN.is_finite (f_mod x y) = true /\
         BinarySingleNaN.B2R (f_mod x y) =
         Rdefinitions.Rminus (BinarySingleNaN.B2R x)
           (Rdefinitions.RbaseSymbolsImpl.Rmult
              (Rdefinitions.IZR
                 (Raux.Ztrunc (Rdefinitions.Rdiv (BinarySingleNaN.B2R x) (BinarySingleNaN.B2R y))))
              (BinarySingleNaN.B2R y)).
Proof. exact (@f_mod_exact). Qed.
Print Assumptions C02_f_mod_exact.

(** ...with the sign of the dividend *)
Theorem C02_f_mod_sign :
  forall x y : f64,
         BinarySingleNaN.is_finite x = true ->
         BinarySingleNaN.is_finite_strict y = true ->
         BinarySingleNaN.Bsign (f_mod x y) = BinarySingleNaN.Bsign x.
Proof. exact (@f_mod_sign). Qed.
Print Assumptions C02_f_mod_sign.

(** unary minus *)
Theorem C02_f_neg_correct :
  forall a : f64,
         BinarySingleNaN.B2R (f_neg a) = Rdefinitions.RbaseSymbolsImpl.Ropp (BinarySingleNaN.B2R a).
Proof. exact (@f_neg_correct). Qed.
Print Assumptions C02_f_neg_correct.

(** < compares the real values *)
Theorem C02_f_ltb_correct :
  forall a b : f64,
         BinarySingleNaN.is_finite a = true ->
         BinarySingleNaN.is_finite b = true ->
         f_ltb a b = Raux.Rlt_bool (BinarySingleNaN.B2R a) (BinarySingleNaN.B2R b).
Proof. exact (@f_ltb_correct). Qed.
Print Assumptions C02_f_ltb_correct.

(** <= *)
Theorem C02_f_leb_correct :
  forall a b : f64,
         BinarySingleNaN.is_finite a = true ->
         BinarySingleNaN.is_finite b = true ->
         f_leb a b = Raux.Rle_bool (BinarySingleNaN.B2R a) (BinarySingleNaN.B2R b).
Proof. exact (@f_leb_correct). Qed.
Print Assumptions C02_f_leb_correct.

(** > *)
Theorem C02_f_gtb_correct :
  forall a b : f64,
         BinarySingleNaN.is_finite a = true ->
         BinarySingleNaN.is_finite b = true ->
         f_gtb a b = Raux.Rlt_bool (BinarySingleNaN.B2R b) (BinarySingleNaN.B2R a).
Proof. exact (@f_gtb_correct). Qed.
Print Assumptions C02_f_gtb_correct.

(** >= *)
Theorem C02_f_geb_correct :
  forall a b : f64,
         BinarySingleNaN.is_finite a = true ->
         BinarySingleNaN.is_finite b = true ->
         f_geb a b = Raux.Rle_bool (BinarySingleNaN.B2R b) (BinarySingleNaN.B2R a).
Proof. exact (@f_geb_correct). Qed.
Print Assumptions C02_f_geb_correct.

(** the complete case table of +: numbers add, a string with a string/number/boolean concatenates, everything else is an error *)
Theorem C02_add_cases :
  forall a b : value,
         add a b =
         match a with
         | VNum x =>
             match b with
             | VNum y => OVal (VNum (f_add x y))
             | VStr t => match num_text x with
                         | Some tx => OVal (VStr (tx ++ t))
                         | None => ONoText
                         end
             | _ => OErr ROperandsNumStr
             end
         | VStr t =>
             match b with
             | VBool c => OVal (VStr (t ++ (if c then s_true else s_false)))
             | VNum y => match num_text y with
                         | Some ty => OVal (VStr (t ++ ty))
                         | None => ONoText
                         end
             | VStr u => OVal (VStr (t ++ u))
             | _ => OErr RRightStrNum
             end
         | _ => OErr ROperandsNumStr
         end.
Proof. exact (@add_cases). Qed.
Print Assumptions C02_add_cases.

(** + is an error exactly on the unsupported operand kinds *)
Theorem C02_plus_unsupported :
  forall a b : value, (exists e : rterr, add a b = OErr e) <-> ~ add_supported a b.
Proof. exact (@plus_unsupported). Qed.
Print Assumptions C02_plus_unsupported.

(** number + string always concatenates *)
Theorem C02_plus_never_coerces_string :
  forall (x : f64) (t : list N) (v : value),
         add (VNum x) (VStr t) = OVal v -> exists u : list N, v = VStr u.
Proof. exact (@plus_never_coerces_string). Qed.
Print Assumptions C02_plus_never_coerces_string.

(** the text + splices for a number is the text print produces *)
Theorem C02_num_text_is_text_num :
  forall x : f64, num_text x = text_num x.
Proof. exact (@num_text_is_text_num). Qed.
Print Assumptions C02_num_text_is_text_num.

(** & | ^ << >> act on 64-bit two's-complement integers: both operands are integral doubles in [-2^63, 2^63), the result is the wrapped integer operation *)
Theorem C02_bitwise_int64 :
  forall (libm : N -> f64 -> f64 -> f64) (s : state) (op : tkind) (a b v : value),
         is_bitwise_op op ->
         binop libm s op a b = OVal v ->
         exists x y z : Z,
           to_int a = Some x /\
           to_int b = Some y /\
           (- two63 <= x < two63)%Z /\
           (- two63 <= y < two63)%Z /\
           v = VNum (f_of_Z z) /\
           (- two63 <= z < two63)%Z /\
           z =
           match op with
           | TAND => Z.land x y
           | TOR => Z.lor x y
           | TXOR => Z.lxor x y
           | TLEFT_SHIFT => i64_shl x y
           | _ => i64_shr x y
           end.
Proof. exact (@bitwise_int64). Qed.
Print Assumptions C02_bitwise_int64.

(** ~ is bitwise complement *)
Theorem C02_bnot :
  forall (a : value) (x : Z), to_int a = Some x -> unop TNOT a = OVal (VNum (f_of_Z (Z.lnot x))).
Proof. exact (@bnot). Qed.
Print Assumptions C02_bnot.

(** a number is accepted by the bitwise operators exactly when it is an integral double in [-2^63, 2^63) *)
Theorem C02_to_int_num_some_iff :
  forall (x : f64) (z : Z),
         to_int (VNum x) = Some z <->
         BinarySingleNaN.is_finite x = true /\
         BinarySingleNaN.B2R x = Rdefinitions.IZR z /\ (- two63 <= z < two63)%Z.
Proof. exact (@to_int_num_some_iff). Qed.
Print Assumptions C02_to_int_num_some_iff.

(** non-integral or non-numeric operands are rejected *)
Theorem C02_bitwise_unsupported :
  forall (libm : N -> f64 -> f64 -> f64) (s : state) (op : tkind) (a b : value),
         is_bitwise_op op ->
         (to_int a = None -> binop libm s op a b = OErr RLeftInteger) /\
         (to_int a <> None -> to_int b = None -> binop libm s op a b = OErr RRightInteger).
Proof. exact (@bitwise_unsupported). Qed.
Print Assumptions C02_bitwise_unsupported.

(** << wraps modulo 2^64 *)
Theorem C02_i64_shl_wrap :
  forall a n : Z, (0 <= n)%Z -> i64_shl a n = wrap64 (a * 2 ^ n).
Proof. exact (@i64_shl_wrap). Qed.
Print Assumptions C02_i64_shl_wrap.

(** >> is floor division by 2^n *)
Theorem C02_i64_shr_spec :
  forall a n : Z, (0 <= n)%Z -> (- two63 <= a < two63)%Z -> i64_shr a n = (a / 2 ^ n)%Z.
Proof. exact (@i64_shr_spec). Qed.
Print Assumptions C02_i64_shr_spec.

(** wrapping lands in [-2^63, 2^63) *)
Theorem C02_wrap64_range :
  forall z : Z, (- two63 <= wrap64 z < two63)%Z.
Proof. exact (@wrap64_range). Qed.
Print Assumptions C02_wrap64_range.

(** a negative shift count is an error *)
Theorem C02_neg_shift :
  forall (libm : N -> f64 -> f64 -> f64) (s : state) (a b : value) (x y : Z),
         to_int a = Some x -> to_int b = Some y -> (y < 0)%Z -> binop libm s TLEFT_SHIFT a b = OErr RNegShift.
Proof. exact (@neg_shift). Qed.
Print Assumptions C02_neg_shift.

(** division and modulo by zero are errors *)
Theorem C02_div_zero_coerced :
  forall (libm : N -> f64 -> f64 -> f64) (s : state) (a b : value) (x y : f64),
         to_number a = Some x ->
         to_number b = Some y ->
         f_is_zero y = true ->
         binop libm s TSLASH a b = OErr RDivZero /\ binop libm s TMODULO a b = OErr RDivZero.
Proof. exact (@div_zero_coerced). Qed.
Print Assumptions C02_div_zero_coerced.

(** operands of unsupported types are errors for the arithmetic and comparison operators *)
Theorem C02_arith_unsupported :
  forall (libm : N -> f64 -> f64 -> f64) (s : state) (op : tkind) (a b : value),
         is_arith_op op ->
         (to_number a = None -> binop libm s op a b = OErr RLeftNumber) /\
         (to_number a <> None -> to_number b = None -> binop libm s op a b = OErr RRightNumber).
Proof. exact (@arith_unsupported). Qed.
Print Assumptions C02_arith_unsupported.

(** == and != are total *)
Theorem C02_eq_total :
  forall (libm : N -> f64 -> f64 -> f64) (s : state) (a b : value),
         (exists r : bool, binop libm s TEQUAL_EQUAL a b = OVal (VBool r)) /\
         (exists r : bool, binop libm s TBANG_EQUAL a b = OVal (VBool r)).
Proof. exact (@eq_total). Qed.
Print Assumptions C02_eq_total.

(** symmetric *)
Theorem C02_val_eqb_sym :
  forall (s : state) (a b : value), val_eqb s a b = val_eqb s b a.
Proof. exact (@val_eqb_sym). Qed.
Print Assumptions C02_val_eqb_sym.

(** reflexive on every value other than NaN *)
Theorem C02_val_eqb_refl :
  forall (s : state) (a : value),
         (forall x : f64, a <> VNum x \/ x <> BinarySingleNaN.B754_nan) -> val_eqb s a a = true.
Proof. exact (@val_eqb_refl). Qed.
Print Assumptions C02_val_eqb_refl.

(** numbers compare by numeric value *)
Theorem C02_eq_num_by_value :
  forall (s : state) (x y : f64), val_eqb s (VNum x) (VNum y) = f_eqb x y.
Proof. exact (@eq_num_by_value). Qed.
Print Assumptions C02_eq_num_by_value.

(** ...i.e. by their real values (+0 = -0) *)
Theorem C02_eq_num_finite :
  forall (s : state) (x y : BinarySingleNaN.binary_float prec emax),
         BinarySingleNaN.is_finite x = true ->
         BinarySingleNaN.is_finite y = true ->
         val_eqb s (VNum x) (VNum y) = true <-> BinarySingleNaN.B2R x = BinarySingleNaN.B2R y.
Proof. exact (@eq_num_finite). Qed.
Print Assumptions C02_eq_num_finite.

(** strings compare by content *)
Theorem C02_eq_str_by_content :
  forall (s : state) (x y : list N), val_eqb s (VStr x) (VStr y) = true <-> x = y.
Proof. exact (@eq_str_by_content). Qed.
Print Assumptions C02_eq_str_by_content.

(** values of different types are unequal *)
Theorem C02_eq_types_differ :
  forall (s : state) (a b : value), kind_of a <> kind_of b -> val_eqb s a b = false.
Proof. exact (@eq_types_differ). Qed.
Print Assumptions C02_eq_types_differ.

(** an operator error is a runtime error of the expression at the operator's line: it never yields a value *)
Theorem C02_eval_binary_err :
  forall (libm : N -> f64 -> f64 -> f64) (clock : f64)
           (sched : N -> list (list N * value) -> list (list N * value)) (f : nat) 
           (op : tkind) (l r : expr) (line : N) (rho : nat) (s : state) (a : value) 
           (s1 : state) (b : value) (s2 : state) (e : rterr),
         eval libm clock sched f l rho s = Ok a s1 ->
         eval libm clock sched f r rho s1 = Ok b s2 ->
         binop libm s2 op a b = OErr e ->
         eval libm clock sched (S f) (EBinary op l r line) rho s = Err e line s2.
Proof. exact (@eval_binary_err). Qed.
Print Assumptions C02_eval_binary_err.
