(** C03 — names resolve through nested block scopes; shadowing and lifetime follow blocks.
    Only statements: each theorem is closed by [exact] of a lemma proved in Proofs/*, and its
    axioms are printed.  (Statements generated from the lemmas by tools/mkprops.py, then reviewed.) *)
From Borno Require Import Base.
From Borno Require Import Num.
From Borno Require Import Unicode.
From Borno Require Import Token.
From Borno Require Import Ast.
From Borno Require Import Value.
From Borno Require Import Eval.
From Borno Require Import Cli.
From Borno Require Import EnvLaws.
From Borno Require Import EvalInv.
From Borno Require Import EvalFrame.
From Borno Require Import ScenarioExamples.
From Borno Require Import ClosureExamples.

(** a name denotes the binding of the innermost scope on the parent chain that has one; unbound iff no scope on the chain binds it; never an artefact of the walk *)
Theorem C03_env_get_innermost :
  forall (rho : nat) (x : list N) (s : state),
         wf_envs s ->
         (rho < length (envs s))%nat ->
         exists l : list nat,
           chain s rho l /\
           (forall v : value,
            env_get rho x s = Some (Some v) <->
            (exists (l1 : list nat) (q : nat) (l2 : list nat),
               l = l1 ++ q :: l2 /\ bind_of s q x = Some v /\ (forall i : nat, In i l1 -> bind_of s i x = None))) /\
           (env_get rho x s = Some None <-> (forall i : nat, In i l -> bind_of s i x = None)) /\
           env_get rho x s <> None.
Proof. exact (@env_get_innermost). Qed.
Print Assumptions C03_env_get_innermost.

(** an assignment updates exactly the binding a read at the same point returns *)
Theorem C03_assign_updates_what_get_sees :
  forall (rho : nat) (x : list N) (v : value) (s s' : state),
         env_assign rho x v s = Some (Some s') ->
         env_get rho x s' = Some (Some v) /\
         (exists (q : nat) (old : value),
            env_lookup (S (length (envs s))) rho x s = Some (Some (q, old)) /\ env_define q x v s = Some s').
Proof. exact (@assign_updates_what_get_sees). Qed.
Print Assumptions C03_assign_updates_what_get_sees.

(** ...and changes nothing else: no other binding, no scope domain, no parent, no heap cell *)
Theorem C03_assign_frame :
  forall (rho : nat) (x : list N) (v : value) (s s' : state),
         env_assign rho x v s = Some (Some s') ->
         exists (q : nat) (old : value),
           env_lookup (S (length (envs s))) rho x s = Some (Some (q, old)) /\
           length (envs s') = length (envs s) /\
           (forall i : nat, epar s' i = epar s i /\ edom s' i = edom s i) /\
           (forall (i : nat) (y : list N), (i, y) <> (q, x) -> bind_of s' i y = bind_of s i y) /\
           bind_of s q x = Some old /\
           bind_of s' q x = Some v /\
           arrs s' = arrs s /\
           objs s' = objs s /\ funs s' = funs s /\ out s' = out s /\ inp s' = inp s /\ tick s' = tick s.
Proof. exact (@assign_frame). Qed.
Print Assumptions C03_assign_frame.

(** reading fails (no visible binding) exactly when assigning fails *)
Theorem C03_get_none_iff_assign_fails :
  forall (rho : nat) (x : list N) (v : value) (s : state),
         env_get rho x s = Some None <-> env_assign rho x v s = Some None.
Proof. exact (@get_none_iff_assign_fails). Qed.
Print Assumptions C03_get_none_iff_assign_fails.

(** a declaration touches only the current scope *)
Theorem C03_define_only_current :
  forall (rho : nat) (x : list N) (v : value) (s s' : state),
         env_define rho x v s = Some s' ->
         bind_of s' rho x = Some v /\
         (forall y : list N, y <> x -> bind_of s' rho y = bind_of s rho y) /\
         (forall i : nat, i <> rho -> nth_error (envs s') i = nth_error (envs s) i) /\
         edom s' rho = match bind_of s rho x with
                       | Some _ => edom s rho
                       | None => edom s rho ++ [x]
                       end /\
         (forall i : nat, epar s' i = epar s i) /\
         length (envs s') = length (envs s) /\
         arrs s' = arrs s /\
         objs s' = objs s /\ funs s' = funs s /\ out s' = out s /\ inp s' = inp s /\ tick s' = tick s.
Proof. exact (@define_only_current). Qed.
Print Assumptions C03_define_only_current.

(** a declaration is an error exactly when the name is already bound in the same scope; otherwise it defines the name there only *)
Theorem C03_exec_var_redeclare :
  forall (libm : N -> f64 -> f64 -> f64) (clock : f64)
           (sched : N -> list (list N * value) -> list (list N * value)) (f : nat) 
           (x : list N) (init : option expr) (line : N) (rho : nat) (s : state),
         (forall (v : value) (s1 : state),
          eval_init libm clock sched f init rho s = Ok v s1 ->
          (forall old : value,
           env_get_here rho x s1 = Some (Some old) ->
           exec_var libm clock sched (S f) (x, init, line) rho s = Err RRedeclare line s1) /\
          (env_get_here rho x s1 = Some None ->
           exists s2 : state,
             exec_var libm clock sched (S f) (x, init, line) rho s = Ok SigNone s2 /\
             env_define rho x v s1 = Some s2 /\
             bind_of s2 rho x = Some v /\
             edom s2 rho = edom s1 rho ++ [x] /\
             (forall i : nat, i <> rho -> nth_error (envs s2) i = nth_error (envs s1) i) /\
             (forall y : list N, y <> x -> bind_of s2 rho y = bind_of s1 rho y) /\
             (forall i : nat, epar s2 i = epar s1 i))) /\
         (forall (e : rterr) (l : N) (s1 : state),
          eval_init libm clock sched f init rho s = Err e l s1 ->
          exec_var libm clock sched (S f) (x, init, line) rho s = Err e l s1) /\
         (forall s1 : state,
          eval_init libm clock sched f init rho s = Crash s1 ->
          exec_var libm clock sched (S f) (x, init, line) rho s = Crash s1).
Proof. exact (@exec_var_redeclare). Qed.
Print Assumptions C03_exec_var_redeclare.

(** an outer binding never prevents a declaration in an inner scope (shadowing) *)
Theorem C03_exec_var_shadows :
  forall (libm : N -> f64 -> f64 -> f64) (clock : f64)
           (sched : N -> list (list N * value) -> list (list N * value)) (f : nat) 
           (x : list N) (init : option expr) (line : N) (rho : nat) (s : state) (v : value) 
           (s1 : state) (outer : value),
         eval_init libm clock sched f init rho s = Ok v s1 ->
         env_get_here rho x s1 = Some None ->
         env_get rho x s1 = Some (Some outer) ->
         exists s2 : state,
           exec_var libm clock sched (S f) (x, init, line) rho s = Ok SigNone s2 /\
           env_get_here rho x s2 = Some (Some v).
Proof. exact (@exec_var_shadows). Qed.
Print Assumptions C03_exec_var_shadows.

(** for every program: a statement never changes the parent or the domain of any existing scope, except that its own scope may gain names at the end *)
Theorem C03_exec_frame_final :
  forall (libm : N -> f64 -> f64 -> f64) (clock : f64)
           (sched : N -> list (list N * value) -> list (list N * value)) (f : nat) 
           (repl : bool) (st : stmt) (rho : nat) (s s' : state),
         wf_state s ->
         (rho < length (envs s))%nat ->
         final (exec libm clock sched f repl st rho s) = Some s' -> framed (here rho) s s'.
Proof. exact (@exec_frame_final). Qed.
Print Assumptions C03_exec_frame_final.

(** for every program: evaluating an expression (calls included) changes the parent or domain of no existing scope *)
Theorem C03_eval_frame :
  forall (libm : N -> f64 -> f64 -> f64) (clock : f64)
           (sched : N -> list (list N * value) -> list (list N * value)) (f : nat) 
           (e : expr) (rho : nat) (s s' : state),
         wf_state s ->
         (rho < length (envs s))%nat ->
         (exists v : value, eval libm clock sched f e rho s = Ok v s') \/
         (exists (er : rterr) (l : N), eval libm clock sched f e rho s = Err er l s') \/
         eval libm clock sched f e rho s = Crash s' ->
         (length (envs s) <= length (envs s'))%nat /\
         (forall i : nat, (i < length (envs s))%nat -> epar s' i = epar s i /\ edom s' i = edom s i) /\
         heap_ext s s' /\ wf_state s'.
Proof. exact (@eval_frame). Qed.
Print Assumptions C03_eval_frame.

(** the names a statement adds to its own scope are among those it declares directly (blocks, loops and calls inside never add) *)
Theorem C03_exec_gains_only_direct_decls :
  forall (libm : N -> f64 -> f64 -> f64) (clock : f64)
           (sched : N -> list (list N * value) -> list (list N * value)) (f : nat) 
           (repl : bool) (st : stmt) (rho : nat) (s s' : state),
         wf_state s ->
         (rho < length (envs s))%nat ->
         final (exec libm clock sched f repl st rho s) = Some s' ->
         exists ext : list (list N), edom s' rho = edom s rho ++ ext /\ incl ext (direct_decls st).
Proof. exact (@exec_gains_only_direct_decls). Qed.
Print Assumptions C03_exec_gains_only_direct_decls.

(** a block shadows, never adds to or removes from an enclosing scope *)
Theorem C03_block_never_modifies_outer_domains :
  forall (libm : N -> f64 -> f64 -> f64) (clock : f64)
           (sched : N -> list (list N * value) -> list (list N * value)) (f : nat) 
           (repl : bool) (ss : list stmt) (rho : nat) (s s' : state),
         wf_state s ->
         (rho < length (envs s))%nat ->
         final (exec libm clock sched f repl (SBlock ss) rho s) = Some s' ->
         forall i : nat, (i < length (envs s))%nat -> edom s' i = edom s i /\ epar s' i = epar s i.
Proof. exact (@block_never_modifies_outer_domains). Qed.
Print Assumptions C03_block_never_modifies_outer_domains.

(** what a block declared ceases to be visible when it ends: its scope is fresh and on no parent chain of any scope that existed before *)
Theorem C03_block_scope_is_fresh :
  forall (libm : N -> f64 -> f64 -> f64) (clock : f64)
           (sched : N -> list (list N * value) -> list (list N * value)) (f : nat) 
           (repl : bool) (ss : list stmt) (rho : nat) (s s' : state),
         wf_state s ->
         (rho < length (envs s))%nat ->
         final (exec libm clock sched (S f) repl (SBlock ss) rho s) = Some s' ->
         let b := length (envs s) in
         exec libm clock sched (S f) repl (SBlock ss) rho s =
         exec_list libm clock sched f repl ss b (snd (alloc_env (Some rho) s)) /\
         (forall (i : nat) (bi : list (list N * value)) (p : nat),
          nth_error (envs s) i = Some (bi, Some p) -> (p < b)%nat) /\
         (forall (l : nat) (c : closure), nth_error (funs s) l = Some c -> (c_env c < b)%nat) /\
         epar s' b = Some (Some rho) /\
         (forall i : nat, (i < b)%nat -> forall l : list nat, chain s' i l -> ~ In b l).
Proof. exact (@block_scope_is_fresh). Qed.
Print Assumptions C03_block_scope_is_fresh.

(** a for statement allocates exactly one scope, child of the current one, shared by initializer, condition, increment and body *)
Theorem C03_for_scope_shared :
  forall (libm : N -> f64 -> f64 -> f64) (clock : f64)
           (sched : N -> list (list N * value) -> list (list N * value)) (f : nat) 
           (repl : bool) (init : option stmt) (c : expr) (inc : option expr) (b : stmt) 
           (rho : nat) (s : state),
         let rho' := length (envs s) in
         let s1 := snd (alloc_env (Some rho) s) in
         nth_error (envs s1) rho' = Some ([], Some rho) /\
         length (envs s1) = S (length (envs s)) /\
         exec libm clock sched (S f) repl (SFor init c inc b) rho s =
         (let* (sig, s2)
          := match init with
             | Some i => exec libm clock sched f repl i rho' s1
             | None => Ok SigNone s1
             end
          in match sig with
             | SigNone => exec_for libm clock sched f repl c inc b rho' s2
             | _ => Ok sig s2
             end).
Proof. exact (@for_scope_shared). Qed.
Print Assumptions C03_for_scope_shared.

(** a call runs the body in a fresh activation whose parent is the closure scope *)
Theorem C03_call_activation_chain :
  forall (libm : N -> f64 -> f64 -> f64) (clock : f64)
           (sched : N -> list (list N * value) -> list (list N * value)) (f : nat) 
           (ce : expr) (pline : N) (args : list expr) (rho : nat) (s : state) (l : nat) 
           (s1 : state) (clo : closure) (vs : list value) (s2 : state),
         eval libm clock sched f ce rho s = Ok (VFun l) s1 ->
         get_fun l s1 = Some clo ->
         length (c_params clo) = length args ->
         eval_list libm clock sched f args rho s1 = Ok vs s2 ->
         let act := length (envs s2) in
         exists s5 : state,
           call_start s2 clo l vs = Some (act, s5) /\
           epar s5 act = Some (Some (c_env clo)) /\
           (forall i : nat, (i < act)%nat -> nth_error (envs s5) i = nth_error (envs s2) i) /\
           length (envs s5) = S act /\
           eval libm clock sched (S f) (ECall ce pline args) rho s =
           (let* (sig, s6):= exec_list libm clock sched f false (c_body clo) act s5
            in Ok match sig with
                  | SigReturn _ v => v
                  | _ => VNil
                  end s6).
Proof. exact (@call_activation_chain). Qed.
Print Assumptions C03_call_activation_chain.

(** a called function never sees the local variables of its caller: the call depends on the state, the closure and the argument values only *)
Theorem C03_call_ignores_caller_env :
  forall (libm : N -> f64 -> f64 -> f64) (clock : f64)
           (sched : N -> list (list N * value) -> list (list N * value)) (f : nat) 
           (ce ce' : expr) (pl pl' : N) (args args' : list expr) (rho rho' : nat) (s s' : state) 
           (l : nat) (clo : closure) (vs : list value) (s1 s1' s2 : state),
         eval libm clock sched f ce rho s = Ok (VFun l) s1 ->
         get_fun l s1 = Some clo ->
         length (c_params clo) = length args ->
         eval_list libm clock sched f args rho s1 = Ok vs s2 ->
         eval libm clock sched f ce' rho' s' = Ok (VFun l) s1' ->
         get_fun l s1' = Some clo ->
         length (c_params clo) = length args' ->
         eval_list libm clock sched f args' rho' s1' = Ok vs s2 ->
         eval libm clock sched (S f) (ECall ce pl args) rho s =
         eval libm clock sched (S f) (ECall ce' pl' args') rho' s'.
Proof. exact (@call_ignores_caller_env). Qed.
Print Assumptions C03_call_ignores_caller_env.

(** shadowing and lifetime on a concrete program, evaluated inside the kernel from source text; the transcript is what the real interpreter printed *)
Theorem C03_scenario_shadowing :
  transcript src_shadowing = Some ([[51]; [51]; [49]; [49; 48]; [49]], 0).
Proof. exact (@scenario_shadowing). Qed.
Print Assumptions C03_scenario_shadowing.

(** a for header that declares a LIST of names keeps both in the loop's own scope: an outer binding of the same name is shadowed and survives, a second loop may declare them again - evaluated inside the kernel from source text (transcript = the real interpreter's) *)
Theorem C03_for_list_header_scope :
  printed (run_source libm_d (f_of_bits 0) sched_d 400 false for_list_header_src []) =
         Some [[51; 51]; [55]; [51; 57]].
Proof. exact (@ClosureExamples.for_list_header_scope). Qed.
Print Assumptions C03_for_list_header_scope.
