(** C06 — a runtime error stops the program: true cause, right line, nothing afterwards.
    Only statements: each theorem is closed by [exact] of a lemma proved in Proofs/*, and its
    axioms are printed.  (Statements generated from the lemmas by tools/mkprops.py, then reviewed.) *)
From Borno Require Import Base.
From Borno Require Import Num.
From Borno Require Import Unicode.
From Borno Require Import Token.
From Borno Require Import Ast.
From Borno Require Import Value.
From Borno Require Import Eval.
From Borno Require Import Cli.
From Borno Require Import EvalMeta.
From Borno Require Import EvalOrder.
From Borno Require Import FlagEval.
From Borno Require Import FlagCli.
From Borno Require Import FlagRefineDefs.
From Borno Require Import FlagRefine.
From Borno Require Import FlagRefineCli.
From Borno Require Import FlagSafe.
From Borno Require Import FlagConverse.
From Borno Require Import ScenarioExamples.

(** once a program has failed nothing after it matters: no later statement runs, prints, prompts or reads *)
Theorem C06_run_suffix_irrelevant :
  forall (libm : N -> f64 -> f64 -> f64) (clock : f64)
           (sched : N -> list (list N * value) -> list (list N * value)) (f : nat) 
           (repl : bool) (p : list stmt) (s : state) (e : rterr) (l : N) (s' : state),
         run_stmts libm clock sched f repl p s = Err e l s' ->
         forall q : list stmt, run_stmts libm clock sched f repl (p ++ q) s = Err e l s'.
Proof. exact (@run_suffix_irrelevant). Qed.
Print Assumptions C06_run_suffix_irrelevant.

(** the same inside blocks and function bodies *)
Theorem C06_exec_list_app_err :
  forall (libm : N -> f64 -> f64 -> f64) (clock : f64)
           (sched : N -> list (list N * value) -> list (list N * value)) (repl : bool) 
           (f : nat) (ss1 : list stmt) (rho : nat) (s : state) (e : rterr) (l : N) 
           (s' : state),
         exec_list libm clock sched f repl ss1 rho s = Err e l s' ->
         forall ss2 : list stmt, exec_list libm clock sched f repl (ss1 ++ ss2) rho s = Err e l s'.
Proof. exact (@exec_list_app_err). Qed.
Print Assumptions C06_exec_list_app_err.

(** the reported error is the first one; the output is what had been printed up to the fault *)
Theorem C06_error_shape :
  forall (libm : N -> f64 -> f64 -> f64) (clock : f64)
           (sched : N -> list (list N * value) -> list (list N * value)) (f : nat) 
           (repl : bool) (p : list stmt) (s : state) (e : rterr) (l : N) (s' : state),
         run_stmts libm clock sched f repl p s = Err e l s' ->
         exists (p1 : list stmt) (st : stmt) (p2 : list stmt) (s1 : state),
           p = p1 ++ st :: p2 /\
           run_stmts libm clock sched f repl p1 s = Ok tt s1 /\
           (exec libm clock sched f repl st top_env s1 = Err e l s' \/
            (exists sig : signal,
               exec libm clock sched f repl st top_env s1 = Ok sig s' /\
               match sig with
               | SigNone => False
               | SigBreak l' => e = RStrayBreak /\ l = l'
               | SigContinue l' => e = RStrayContinue /\ l = l'
               | SigReturn l' _ => e = RStrayReturn /\ l = l'
               end)) /\ grows s s'.
Proof. exact (@error_shape). Qed.
Print Assumptions C06_error_shape.

(** the process writes that output, exactly one runtime diagnostic, and exits 70 *)
Theorem C06_run_file_runtime :
  forall (libm : N -> f64 -> f64 -> f64) (clock : f64)
           (sched : N -> list (list N * value) -> list (list N * value)) (fuel : nat) 
           (src stdin : list N) (e : rterr) (l : N) (s : state),
         run_source libm clock sched fuel false src stdin = RRuntime e l s ->
         run_file libm clock sched fuel src stdin =
         PExit {| p_stdout := rev (out s); p_stderr := [DRuntime e l]; p_status := 70 |}.
Proof. exact (@run_file_runtime). Qed.
Print Assumptions C06_run_file_runtime.

(** output is only ever appended and input only consumed from the front: nothing printed before the fault is lost *)
Theorem C06_out_grows :
  forall (libm : N -> f64 -> f64 -> f64) (clock : f64)
           (sched : N -> list (list N * value) -> list (list N * value)) (f : nat),
         (forall (e : expr) (rho : nat) (s s' : state),
          final_state (eval libm clock sched f e rho s) = Some s' -> grows s s') /\
         (forall (es : list expr) (rho : nat) (s s' : state),
          final_state (eval_list libm clock sched f es rho s) = Some s' -> grows s s') /\
         (forall (ps : list (list N * expr)) (rho : nat) (s s' : state),
          final_state (eval_props libm clock sched f ps rho s) = Some s' -> grows s s') /\
         (forall (repl : bool) (st : stmt) (rho : nat) (s s' : state),
          final_state (exec libm clock sched f repl st rho s) = Some s' -> grows s s') /\
         (forall (d : vdecl) (rho : nat) (s s' : state),
          final_state (exec_var libm clock sched f d rho s) = Some s' -> grows s s') /\
         (forall (ds : list vdecl) (rho : nat) (s s' : state),
          final_state (exec_vars libm clock sched f ds rho s) = Some s' -> grows s s') /\
         (forall (repl : bool) (ss : list stmt) (rho : nat) (s s' : state),
          final_state (exec_list libm clock sched f repl ss rho s) = Some s' -> grows s s') /\
         (forall (repl : bool) (c : expr) (b : stmt) (rho : nat) (s s' : state),
          final_state (exec_while libm clock sched f repl c b rho s) = Some s' -> grows s s') /\
         (forall (repl : bool) (c : expr) (inc : option expr) (b : stmt) (rho : nat) (s s' : state),
          final_state (exec_for libm clock sched f repl c inc b rho s) = Some s' -> grows s s') /\
         (forall (repl : bool) (p : list stmt) (s s' : state),
          final_state (run_stmts libm clock sched f repl p s) = Some s' -> grows s s').
Proof. exact (@out_grows). Qed.
Print Assumptions C06_out_grows.

(** a failing operand stops the whole expression: the right operand is never evaluated *)
Theorem C06_binary_left_fails :
  forall (libm : N -> f64 -> f64 -> f64) (clock : f64)
           (sched : N -> list (list N * value) -> list (list N * value)) (f : nat) 
           (op : tkind) (l r : expr) (line : N) (rho : nat) (s : state) (x : failure),
         eval libm clock sched f l rho s = fail_res x ->
         eval libm clock sched (S f) (EBinary op l r line) rho s = fail_res x.
Proof. exact (@binary_left_fails). Qed.
Print Assumptions C06_binary_left_fails.

(** a failing argument stops the call: later arguments are not evaluated and the function is not invoked *)
Theorem C06_call_args_fail_user :
  forall (libm : N -> f64 -> f64 -> f64) (clock : f64)
           (sched : N -> list (list N * value) -> list (list N * value)) (f : nat) 
           (ce : expr) (pline : N) (args : list expr) (rho : nat) (s : state) (l : nat) 
           (s1 : state) (clo : closure) (x : failure),
         eval libm clock sched f ce rho s = Ok (VFun l) s1 ->
         get_fun l s1 = Some clo ->
         length (c_params clo) = length args ->
         eval_list libm clock sched f args rho s1 = fail_res x ->
         eval libm clock sched (S f) (ECall ce pline args) rho s = fail_res x.
Proof. exact (@call_args_fail_user). Qed.
Print Assumptions C06_call_args_fail_user.

(** ...nor is a built-in *)
Theorem C06_call_args_fail_native :
  forall (libm : N -> f64 -> f64 -> f64) (clock : f64)
           (sched : N -> list (list N * value) -> list (list N * value)) (f : nat) 
           (ce : expr) (pline : N) (args : list expr) (rho : nat) (s : state) (n : native) 
           (s1 : state) (x : failure),
         eval libm clock sched f ce rho s = Ok (VNative n) s1 ->
         arity_ok (native_arity n) (length args) = true ->
         eval_list libm clock sched f args rho s1 = fail_res x ->
         eval libm clock sched (S f) (ECall ce pline args) rho s = fail_res x.
Proof. exact (@call_args_fail_native). Qed.
Print Assumptions C06_call_args_fail_native.

(** elements after a failing array element are not evaluated *)
Theorem C06_eval_list_app_fails :
  forall (libm : N -> f64 -> f64 -> f64) (clock : f64)
           (sched : N -> list (list N * value) -> list (list N * value)) (f : nat) 
           (es1 es2 : list expr) (rho : nat) (s : state) (x : failure),
         eval_list libm clock sched f es1 rho s = fail_res x ->
         eval_list libm clock sched f (es1 ++ es2) rho s = fail_res x.
Proof. exact (@eval_list_app_fails). Qed.
Print Assumptions C06_eval_list_app_fails.

(** termination inside loops: an error, like a return, leaves the loop at once (errors are absorbing in every construct) *)
Theorem C06_return_propagates_while :
  forall (libm : N -> f64 -> f64 -> f64) (clock : f64)
           (sched : N -> list (list N * value) -> list (list N * value)) (f : nat) 
           (repl : bool) (c : expr) (b : stmt) (rho : nat) (s : state) (cv : value) 
           (s1 : state) (l : N) (v : value) (s2 : state),
         eval libm clock sched f c rho s = Ok cv s1 ->
         truthy cv = true ->
         exec libm clock sched f repl b rho s1 = Ok (SigReturn l v) s2 ->
         exec_while libm clock sched (S f) repl c b rho s = Ok (SigReturn l v) s2.
Proof. exact (@return_propagates_while). Qed.
Print Assumptions C06_return_propagates_while.

(** the diagnostic line of an operator fault is the line of the operator *)
Theorem C06_error_line_binary :
  forall (libm : N -> f64 -> f64 -> f64) (clock : f64)
           (sched : N -> list (list N * value) -> list (list N * value)) (f : nat) 
           (op : tkind) (l r : expr) (line : N) (rho : nat) (s : state) (a : value) 
           (s1 : state) (b : value) (s2 : state) (e : rterr) (ln : N) (s' : state),
         eval libm clock sched f l rho s = Ok a s1 ->
         eval libm clock sched f r rho s1 = Ok b s2 ->
         eval libm clock sched (S f) (EBinary op l r line) rho s = Err e ln s' ->
         ln = line /\ s' = s2 /\ binop libm s2 op a b = OErr e.
Proof. exact (@error_line_binary). Qed.
Print Assumptions C06_error_line_binary.

(** an undefined name is reported at the line of the name *)
Theorem C06_error_line_id :
  forall (libm : N -> f64 -> f64 -> f64) (clock : f64)
           (sched : N -> list (list N * value) -> list (list N * value)) (f : nat) 
           (x : list N) (line : N) (rho : nat) (s : state) (e : rterr) (ln : N) (s' : state),
         eval libm clock sched (S f) (EId x line) rho s = Err e ln s' ->
         e = RUndefinedVar /\ ln = line /\ s' = s /\ env_get rho x s = Some None.
Proof. exact (@error_line_id). Qed.
Print Assumptions C06_error_line_id.

(** an undefined assignment target is reported at the line of the name *)
Theorem C06_error_line_assign :
  forall (libm : N -> f64 -> f64 -> f64) (clock : f64)
           (sched : N -> list (list N * value) -> list (list N * value)) (f : nat) 
           (x : list N) (nline : N) (ve : expr) (line : N) (rho : nat) (s : state) 
           (v : value) (s1 : state) (e : rterr) (ln : N) (s' : state),
         eval libm clock sched f ve rho s = Ok v s1 ->
         eval libm clock sched (S f) (EAssign x nline ve line) rho s = Err e ln s' ->
         e = RUndefinedAssign /\ ln = nline /\ s' = s1 /\ env_assign rho x v s1 = Some None.
Proof. exact (@error_line_assign). Qed.
Print Assumptions C06_error_line_assign.

(** a bad index is reported at the line of the closing bracket *)
Theorem C06_error_line_index :
  forall (libm : N -> f64 -> f64 -> f64) (clock : f64)
           (sched : N -> list (list N * value) -> list (list N * value)) (f : nat) 
           (ae ie : expr) (line : N) (rho : nat) (s : state) (a : value) (s1 : state) 
           (i : value) (s2 : state) (e : rterr) (ln : N) (s' : state),
         eval libm clock sched f ae rho s = Ok a s1 ->
         eval libm clock sched f ie rho s1 = Ok i s2 ->
         eval libm clock sched (S f) (EIndex ae ie line) rho s = Err e ln s' ->
         ln = line /\ s' = s2 /\ (e = RNotArrayAccess \/ e = RIndexInteger \/ e = RIndexBounds).
Proof. exact (@error_line_index). Qed.
Print Assumptions C06_error_line_index.

(** a missing property is reported at the line of the property name *)
Theorem C06_error_line_prop :
  forall (libm : N -> f64 -> f64 -> f64) (clock : f64)
           (sched : N -> list (list N * value) -> list (list N * value)) (f : nat) 
           (oe : expr) (p : list N) (line : N) (rho : nat) (s : state) (o : value) 
           (s1 : state) (e : rterr) (ln : N) (s' : state),
         eval libm clock sched f oe rho s = Ok o s1 ->
         eval libm clock sched (S f) (EProp oe p line) rho s = Err e ln s' ->
         ln = line /\ s' = s1 /\ (e = RNotObjectAccess \/ e = RNoProperty).
Proof. exact (@error_line_prop). Qed.
Print Assumptions C06_error_line_prop.

(** call faults (not callable, arity, failing built-in) are reported at the line of the closing parenthesis *)
Theorem C06_error_line_call :
  forall (libm : N -> f64 -> f64 -> f64) (clock : f64)
           (sched : N -> list (list N * value) -> list (list N * value)) (f : nat) 
           (ce : expr) (pline : N) (args : list expr) (rho : nat) (s : state) (c : value) 
           (s1 : state) (e : rterr) (ln : N) (s' : state),
         eval libm clock sched f ce rho s = Ok c s1 ->
         eval libm clock sched (S f) (ECall ce pline args) rho s = Err e ln s' ->
         (forall l : nat, c <> VFun l) /\
         (forall n : native, c <> VNative n) /\ e = RNotCallable /\ ln = pline /\ s' = s1 \/
         e = RArity /\
         ln = pline /\
         s' = s1 /\
         ((exists (l : nat) (clo : closure),
             c = VFun l /\ get_fun l s1 = Some clo /\ length (c_params clo) <> length args) \/
          (exists n : native, c = VNative n /\ arity_ok (native_arity n) (length args) = false)) \/
         eval_list libm clock sched f args rho s1 = Err e ln s' \/
         (exists (n : native) (vs : list value) (s2 : state) (why : nfail),
            c = VNative n /\
            eval_list libm clock sched f args rho s1 = Ok vs s2 /\
            call_native libm clock sched n vs s2 = NFail why /\
            e = RCallFailed why /\ ln = pline /\ s' = native_fail_state n vs s2) \/
         (exists (l : nat) (clo : closure) (vs : list value) (s2 : state) (act : nat) 
          (s3 s4 s5 : state),
            c = VFun l /\
            get_fun l s1 = Some clo /\
            eval_list libm clock sched f args rho s1 = Ok vs s2 /\
            alloc_env (Some (c_env clo)) s2 = (act, s3) /\
            env_define act (c_name clo) (VFun l) s3 = Some s4 /\
            bind_params act (c_params clo) vs s4 = Some s5 /\
            exec_list libm clock sched f false (c_body clo) act s5 = Err e ln s').
Proof. exact (@error_line_call). Qed.
Print Assumptions C06_error_line_call.

(** a redeclaration is reported at the line of the declared name *)
Theorem C06_error_line_var :
  forall (libm : N -> f64 -> f64 -> f64) (clock : f64)
           (sched : N -> list (list N * value) -> list (list N * value)) (f : nat) 
           (x : list N) (init : option expr) (line : N) (rho : nat) (s : state) (e : rterr) 
           (ln : N) (s' : state),
         exec_var libm clock sched (S f) (x, init, line) rho s = Err e ln s' ->
         (exists ie : expr, init = Some ie /\ eval libm clock sched f ie rho s = Err e ln s') \/
         (exists (v : value) (s1 : state),
            match init with
            | Some ie => eval libm clock sched f ie rho s
            | None => Ok VNil s
            end = Ok v s1 /\
            e = RRedeclare /\ ln = line /\ s' = s1 /\ (exists w : value, env_get_here rho x s1 = Some (Some w))).
Proof. exact (@error_line_var). Qed.
Print Assumptions C06_error_line_var.

(** THE FLAG MECHANISM (Model/FlagEval.v transcribes the Go code: an error raises a global flag, evaluation is not unwound, every construct must remember to poll): whatever the flag-level evaluator does, the exception-style evaluator all other theorems are about agrees on what a user sees - same first diagnostic, same output, same input consumption *)
Theorem C06_frun_refines :
  forall (libm : N -> f64 -> f64 -> f64) (clock : f64)
           (sched : N -> list (list N * value) -> list (list N * value)) (f : nat) 
           (repl : bool) (ss : list stmt) (s : state) (fs' : fstate),
         frun_stmts libm clock sched f repl ss (fclean s) = FOk tt fs' ->
         fs_flag fs' = false /\ fs_diags fs' = [] /\ run_stmts libm clock sched f repl ss s = Ok tt (fs_st fs') \/
         fs_flag fs' = true /\
         (exists (e : rterr) (l : N) (more : list (rterr * N)) (s' : state),
            fs_diags fs' = (e, l) :: more /\
            run_stmts libm clock sched f repl ss s = Err e l s' /\ obs_eq s' (fs_st fs')).
Proof. exact (@frun_refines). Qed.
Print Assumptions C06_frun_refines.

(** ...also when the host dies printing a cyclic value (only possible before any error) *)
Theorem C06_frun_refines_crash :
  forall (libm : N -> f64 -> f64 -> f64) (clock : f64)
           (sched : N -> list (list N * value) -> list (list N * value)) (f : nat) 
           (repl : bool) (ss : list stmt) (s : state) (fs' : fstate),
         frun_stmts libm clock sched f repl ss (fclean s) = FCrash fs' ->
         fs_flag fs' = false /\ fs_diags fs' = [] /\ run_stmts libm clock sched f repl ss s = Crash (fs_st fs').
Proof. exact (@frun_refines_crash). Qed.
Print Assumptions C06_frun_refines_crash.

(** once the flag is up no construct prints, prompts, reads or schedules anything, and the flag stays up: only further diagnostics can follow (all ten evaluator functions) *)
Theorem C06_after_flag_silent :
  forall (libm : N -> f64 -> f64 -> f64) (clock : f64)
           (sched : N -> list (list N * value) -> list (list N * value)) (f : nat),
         (forall (e : expr) (rho : nat) (fs : fstate),
          fs_flag fs = true -> silent fs (feval libm clock sched f e rho fs)) /\
         (forall (es : list expr) (rho : nat) (fs : fstate),
          fs_flag fs = true -> silent fs (feval_list libm clock sched f es rho fs)) /\
         (forall (ps : list (list N * expr)) (rho : nat) (fs : fstate),
          fs_flag fs = true -> silent fs (feval_props libm clock sched f ps rho fs)) /\
         (forall (repl : bool) (st : stmt) (rho : nat) (fs : fstate),
          fs_flag fs = true -> silent fs (fexec libm clock sched f repl st rho fs)) /\
         (forall (d : vdecl) (rho : nat) (fs : fstate),
          fs_flag fs = true -> silent fs (fexec_var libm clock sched f d rho fs)) /\
         (forall (ds : list vdecl) (rho : nat) (fs : fstate),
          fs_flag fs = true -> silent fs (fexec_vars libm clock sched f ds rho fs)) /\
         (forall (repl : bool) (ss : list stmt) (rho : nat) (fs : fstate),
          fs_flag fs = true -> silent fs (fexec_list libm clock sched f repl ss rho fs)) /\
         (forall (ss : list stmt) (rho : nat) (fs : fstate),
          fs_flag fs = true -> silent fs (fexec_body libm clock sched f ss rho fs)) /\
         (forall (repl : bool) (c : expr) (b : stmt) (rho : nat) (fs : fstate),
          fs_flag fs = true -> silent fs (fexec_while libm clock sched f repl c b rho fs)) /\
         (forall (repl : bool) (c : expr) (inc : option expr) (b : stmt) (rho : nat) (fs : fstate),
          fs_flag fs = true -> silent fs (fexec_for libm clock sched f repl c inc b rho fs)).
Proof. exact (@after_flag_silent). Qed.
Print Assumptions C06_after_flag_silent.

(** ...for a whole statement list *)
Theorem C06_frun_after_flag :
  forall (libm : N -> f64 -> f64 -> f64) (clock : f64)
           (sched : N -> list (list N * value) -> list (list N * value)) (f : nat) 
           (repl : bool) (ss : list stmt) (fs : fstate) (r : fres unit),
         fs_flag fs = true ->
         frun_stmts libm clock sched f repl ss fs = r ->
         r = FOk tt fs /\
         (forall (x : unit) (fs' : fstate),
          r = FOk x fs' ->
          obs_eq (fs_st fs) (fs_st fs') /\
          fs_flag fs' = true /\ (exists more : list (rterr * N), fs_diags fs' = fs_diags fs ++ more)) /\
         (forall fs' : fstate, r <> FCrash fs').
Proof. exact (@frun_after_flag). Qed.
Print Assumptions C06_frun_after_flag.

(** the whole command line over the flag-level evaluator has the stdout and exit status of the exception-style one *)
Theorem C06_fmain_refines :
  forall (libm : N -> f64 -> f64 -> f64) (clock : f64)
           (sched : N -> list (list N * value) -> list (list N * value)) (fuel : nat) 
           (args : list (list N)) (fsys : list N -> file_read) (stdin : list N) (r' : proc_result),
         fmain libm clock sched fuel args fsys stdin = PExit r' ->
         exists r : proc_result,
           main libm clock sched fuel args fsys stdin = PExit r /\
           p_stdout r = p_stdout r' /\ p_status r = p_status r'.
Proof. exact (@fmain_refines). Qed.
Print Assumptions C06_fmain_refines.

(** ...and for a script its stderr begins with the same diagnostic *)
Theorem C06_fmain_refines_script :
  forall (libm : N -> f64 -> f64 -> f64) (clock : f64)
           (sched : N -> list (list N * value) -> list (list N * value)) (fuel : nat) 
           (path : list N) (fsys : list N -> file_read) (stdin : list N) (r' : proc_result),
         fmain libm clock sched fuel [path] fsys stdin = PExit r' ->
         exists r : proc_result,
           main libm clock sched fuel [path] fsys stdin = PExit r /\
           p_stdout r = p_stdout r' /\
           p_status r = p_status r' /\
           (p_stderr r = p_stderr r' \/
            (exists (d : stderr_item) (more : list stderr_item), p_stderr r = [d] /\ p_stderr r' = d :: more)).
Proof. exact (@fmain_refines_script). Qed.
Print Assumptions C06_fmain_refines_script.

(** conversely every run that does not end in a runtime error is reproduced exactly by the flag-level evaluator with the same fuel *)
Theorem C06_frun_file_complete :
  forall (libm : N -> f64 -> f64 -> f64) (clock : f64)
           (sched : N -> list (list N * value) -> list (list N * value)) (fuel : nat) 
           (src stdin : list N) (r : proc_result),
         run_file libm clock sched fuel src stdin = PExit r ->
         p_status r <> 70 -> frun_file libm clock sched fuel src stdin = PExit r.
Proof. exact (@frun_file_complete). Qed.
Print Assumptions C06_frun_file_complete.

(** ...and a run that ends in a runtime error is completed by the flag-level evaluator for every large enough fuel: finishing after an error takes bounded time (the loops end because nil is falsy) *)
Theorem C06_frun_total_init :
  forall (libm : N -> f64 -> f64 -> f64) (clock : f64)
           (sched : N -> list (list N * value) -> list (list N * value)),
         (forall (n : N) (l : list (list N * value)) (x : list N * value), In x (sched n l) -> In x l) ->
         forall (f : nat) (repl : bool) (ss : list stmt) (stdin : list N),
         (exists (a : unit) (s' : state), run_stmts libm clock sched f repl ss (init_state stdin) = Ok a s') \/
         (exists (e : rterr) (l : N) (s' : state),
            run_stmts libm clock sched f repl ss (init_state stdin) = Err e l s') ->
         exists f' : nat,
           forall f'' : nat,
           (f' <= f'')%nat ->
           exists fs' : fstate,
             frun_stmts libm clock sched f'' repl ss (fclean (init_state stdin)) = FOk tt fs'.
Proof. exact (@frun_total_init). Qed.
Print Assumptions C06_frun_total_init.

(** a failing call inside an endless loop: output up to the fault, status 70, evaluated inside the kernel from source text *)
Theorem C06_scenario_error_stops :
  transcript src_error_stops = Some ([[98; 101; 102; 111; 114; 101]], 70).
Proof. exact (@scenario_error_stops). Qed.
Print Assumptions C06_scenario_error_stops.
