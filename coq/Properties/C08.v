(** C08 — the front end is total, accepts exactly the documented language, runs nothing else.
    Only statements: each theorem is closed by [exact] of a lemma proved in Proofs/*, and its
    axioms are printed.  (Statements generated from the lemmas by tools/mkprops.py, then reviewed.) *)
From Borno Require Import Base.
From Borno Require Import Num.
From Borno Require Import Unicode.
From Borno Require Import Token.
From Borno Require Import Lexer.
From Borno Require Import Ast.
From Borno Require Import Parser.
From Borno Require Import Grammar.
From Borno Require Import LexerFacts.
From Borno Require Import ParserMono.
From Borno Require Import ParserTotal.
From Borno Require Import ParserPrefixDefs.
From Borno Require Import ParserPrefix.
From Borno Require Import ParserSC_Base.
From Borno Require Import ParserSound.
From Borno Require Import ParserComplete.
From Borno Require Import ParserViableDefs.
From Borno Require Import ParserViable.
From Borno Require Import ParserViableStmt.

(** lexing is a total function of the text *)
Theorem C08_lex_total :
  forall src : list N,
         exists (toks : list token) (fin : N) (ds : list (N * lexdiag)),
           lex src = {| lx_tokens := toks; lx_eof_line := fin; lx_diags := ds |} /\ fin = (1 + count_nl src)%N.
Proof. exact (@lex_total). Qed.
Print Assumptions C08_lex_total.

(** ...that accounts for every character *)
Theorem C08_lex_items_partition :
  forall src : list N, concat (map itext (fst (lex_items src))) = src.
Proof. exact (@lex_items_partition). Qed.
Print Assumptions C08_lex_items_partition.

(** parsing terminates: the fuel 40*(tokens+2) always suffices, for every token list *)
Theorem C08_parse_total :
  forall (eofl : N) (ts : list token), pprogram eofl (parse_fuel ts) ts <> PFuel.
Proof. exact (@parse_total). Qed.
Print Assumptions C08_parse_total.

(** so the parser never reports exhaustion *)
Theorem C08_parse_never_out_of_fuel :
  forall (ts : list token) (eofl : N), pr_fuel_out (parse ts eofl) = false.
Proof. exact (@parse_never_out_of_fuel). Qed.
Print Assumptions C08_parse_never_out_of_fuel.

(** a parse result does not depend on the fuel once it terminates *)
Theorem C08_pprogram_mono :
  forall (eofl : N) (f f' : nat) (ts : list token) (r : pres (list stmt)),
         f <= f' -> pprogram eofl f ts = r -> r <> PFuel -> pprogram eofl f' ts = r.
Proof. exact (@pprogram_mono). Qed.
Print Assumptions C08_pprogram_mono.

(** accepted => derivable: an accepted token list is the writing of a well-formed program (the liberties of the relation are exactly the two undocumented rules the property excludes: repeated/trailing-comma object entries; reserved names and the 255-parameter limit are part of well-formedness) *)
Theorem C08_pprogram_sound :
  forall (eofl : N) (f : nat) (ts : list token) (ss : list stmt) (r : list token),
         pprogram eofl f ts = POk ss r [] ->
         r = [] /\ Forall WFs (map erase_s ss) /\ YieldsProg (map erase_s ss) (map sym_of ts).
Proof. exact (@pprogram_sound). Qed.
Print Assumptions C08_pprogram_sound.

(** derivable => accepted: every writing of a well-formed program on one line is accepted with no diagnostic *)
Theorem C08_pprogram_complete_gen :
  forall (eofl L : N) (ss : list stmt),
         Forall WFs ss ->
         forall ts : list token,
         map sym_of ts = flat_prog ss ->
         Forall (fun t : token => tline t = L) ts ->
         exists (f : nat) (ss' : list stmt),
           pprogram eofl f ts = POk ss' [] [] /\ map erase_s ss' = map erase_s ss.
Proof. exact (@pprogram_complete_gen). Qed.
Print Assumptions C08_pprogram_complete_gen.

(** a fatal diagnostic is issued at a definite point of the token list... *)
Theorem C08_first_error_point :
  forall (eofl : N) (f : nat) (ts : list token) (ds : list pdiag),
         pprogram eofl f ts = PErr ds ->
         exists (pre rem : list token) (ds0 : list pdiag) (k : pkind),
           ts = pre ++ rem /\
           ds = ds0 ++ [diag_at eofl rem k] /\
           (forall rem' : list token,
            samehead rem rem' ->
            exists (f' : nat) (ds' : list pdiag), pprogram eofl f' (pre ++ rem') = PErr ds').
Proof. exact (@first_error_point). Qed.
Print Assumptions C08_first_error_point.

(** ...and every text that agrees up to and including that token is rejected too, with the same first diagnostic (an invalid assignment target being diagnosed at or right of its =) *)
Theorem C08_first_diag_prefix_determined :
  forall (eofl : N) (f : nat) (ts : list token) (d : pdiag),
         first_diag (pprogram eofl f ts) = Some d ->
         exists pre rem : list token,
           ts = pre ++ rem /\
           d = diag_at eofl rem (pd_kind d) /\
           (forall rem' : list token,
            samehead rem rem' ->
            rejects eofl (pre ++ rem') /\
            (pd_kind d <> PInvalidAssign ->
             exists f' : nat, first_diag (pprogram eofl f' (pre ++ rem')) = Some d)).
Proof. exact (@first_diag_prefix_determined). Qed.
Print Assumptions C08_first_diag_prefix_determined.

(** the text stops being the beginning of any valid program at that token, not later *)
Theorem C08_bad_prefix :
  forall (eofl : N) (pre : list token) (t : token) (w : list token),
         rejects_at eofl (pre ++ t :: w) pre t -> forall w' : list token, rejects eofl (pre ++ t :: w').
Proof. exact (@bad_prefix). Qed.
Print Assumptions C08_bad_prefix.

(** no extension is accepted *)
Theorem C08_not_a_prefix_of_valid :
  forall (eofl : N) (pre : list token) (t : token) (w : list token),
         rejects_at eofl (pre ++ t :: w) pre t -> forall w' : list token, ~ accepted eofl (pre ++ t :: w').
Proof. exact (@not_a_prefix_of_valid). Qed.
Print Assumptions C08_not_a_prefix_of_valid.

(** the first diagnostic names the token at which no valid continuation exists *)
Theorem C08_first_diag_token_bad_prefix :
  forall (eofl : N) (f : nat) (ts : list token) (d : pdiag),
         first_diag (pprogram eofl f ts) = Some d ->
         pd_where d <> None ->
         exists (pre : list token) (t : token) (w : list token),
           ts = pre ++ t :: w /\
           d = diag_tok t (pd_kind d) /\ (forall w' : list token, ~ accepted eofl (pre ++ t :: w')).
Proof. exact (@first_diag_token_bad_prefix). Qed.
Print Assumptions C08_first_diag_token_bad_prefix.

(** the same for the diagnosed-but-tolerated missing ; and } *)
Theorem C08_lenient_first_diag_determined :
  forall (eofl : N) (f : nat) (ts : list token) (d : pdiag),
         first_diag (pprogram eofl f ts) = Some d ->
         lenient_kind (pd_kind d) ->
         exists pre rem : list token,
           ts = pre ++ rem /\
           d = diag_at eofl rem (pd_kind d) /\
           (forall rem' : list token,
            samehead rem rem' -> exists f' : nat, first_diag (pprogram eofl f' (pre ++ rem')) = Some d).
Proof. exact (@lenient_first_diag_determined). Qed.
Print Assumptions C08_lenient_first_diag_determined.

(** non-vacuity: every run whose first diagnostic names a token has such a point *)
Theorem C08_rejects_at_exists :
  forall (eofl : N) (f : nat) (ts : list token) (d : pdiag),
         first_diag (pprogram eofl f ts) = Some d ->
         pd_where d <> None ->
         exists (pre : list token) (t : token) (w : list token), ts = pre ++ t :: w /\ rejects_at eofl ts pre t.
Proof. exact (@rejects_at_exists). Qed.
Print Assumptions C08_rejects_at_exists.

(** ...and not earlier: the text before the token named by the first diagnostic is still the beginning of an accepted program - except in the two late-diagnosis situations, which are characterised positionally: an assignment to a non-assignable left side (diagnosed at or right of its =) and the 256th parameter (diagnosed one token after the comma) *)
Theorem C08_viable_before_error :
  forall (eofl : N) (f : nat) (ts : list token) (d : pdiag),
         online eofl ts ->
         first_diag (pprogram eofl f ts) = Some d ->
         exists pre rem : list token,
           ts = pre ++ rem /\
           d = diag_at eofl rem (pd_kind d) /\
           (forall rem' : list token, samehead rem rem' -> rejects eofl (pre ++ rem')) /\
           (prog_viable eofl pre \/
            (exists (a' : list token) (t0 : token) (b : list token),
               pre = a' ++ t0 :: b /\
               (tk t0 = TEQUAL /\ LhsBad a' \/ tk t0 = TCOMMA) /\
               prog_viable eofl a' /\ (forall y : list token, rejects eofl (a' ++ t0 :: y)))).
Proof. exact (@viable_before_error). Qed.
Print Assumptions C08_viable_before_error.

(** both halves together, for every token list on one line: no extension of the text up to the named token is accepted, and the text before it is viable *)
Theorem C08_first_diag_is_first_bad_token :
  forall (eofl : N) (f : nat) (ts : list token) (d : pdiag),
         online eofl ts ->
         first_diag (pprogram eofl f ts) = Some d ->
         pd_where d <> None ->
         exists (pre : list token) (t : token) (w0 : list token),
           ts = pre ++ t :: w0 /\
           d = diag_tok t (pd_kind d) /\
           (forall w' : list token, ~ accepted eofl (pre ++ t :: w')) /\
           (prog_viable eofl pre \/
            (exists (a' : list token) (t0 : token) (b : list token),
               pre = a' ++ t0 :: b /\
               (tk t0 = TEQUAL /\ LhsBad a' \/ tk t0 = TCOMMA) /\
               prog_viable eofl a' /\ (forall y : list token, ~ accepted eofl (a' ++ t0 :: y)))).
Proof. exact (@first_diag_is_first_bad_token). Qed.
Print Assumptions C08_first_diag_is_first_bad_token.

(** without = and commas before the token there is no exception *)
Theorem C08_first_bad_token_plain :
  forall (eofl : N) (f : nat) (ts : list token) (d : pdiag),
         online eofl ts ->
         first_diag (pprogram eofl f ts) = Some d ->
         pd_where d <> None ->
         exists (pre : list token) (t : token) (w0 : list token),
           ts = pre ++ t :: w0 /\
           d = diag_tok t (pd_kind d) /\
           (forall w' : list token, ~ accepted eofl (pre ++ t :: w')) /\
           (Forall (fun x : token => tk x <> TEQUAL /\ tk x <> TCOMMA) pre -> prog_viable eofl pre).
Proof. exact (@first_bad_token_plain). Qed.
Print Assumptions C08_first_bad_token_plain.

(** the expression-level statement *)
Theorem C08_pexpr_viable :
  forall (eofl : N) (f : nat) (ts : list token) (ds : list pdiag),
         pexpr eofl f ts = PErr ds ->
         exists (d : pdiag) (pre rem : list token),
           ds = [d] /\
           ts = pre ++ rem /\
           d = diag_at eofl rem (pd_kind d) /\
           (forall rem' : list token,
            samehead rem rem' ->
            forall (f' : nat) (e : expr) (r : list token), pexpr eofl f' (pre ++ rem') <> POk e r []) /\
           (expr_viable eofl pre \/
            (exists (a' : list token) (eq0 : token) (b : list token),
               pre = a' ++ eq0 :: b /\
               tk eq0 = TEQUAL /\ LhsBad a' /\ expr_viable eofl a' /\ expr_hopeless eofl (a' ++ [eq0]))).
Proof. exact (@pexpr_viable). Qed.
Print Assumptions C08_pexpr_viable.
