(** C15 — print writes each value faithfully, newline-terminated, consistent with +.
    Only statements: each theorem is closed by [exact] of a lemma proved in Proofs/*, and its
    axioms are printed.  (Statements generated from the lemmas by tools/mkprops.py, then reviewed.) *)
From Coq Require Import Reals.
From Flocq Require Import Core BinarySingleNaN.
From Borno Require Import Base.
From Borno Require Import Num.
From Borno Require Import Unicode.
From Borno Require Import Token.
From Borno Require Import Ast.
From Borno Require Import Value.
From Borno Require Import Eval.
From Borno Require Import Cli.
From Borno Require Import NumInt.
From Borno Require Import NumFacts.
From Borno Require Import NumPrint.
From Borno Require Import PrintFacts.
From Borno Require Import NumShortestDefs.
From Borno Require Import NumShortest.
From Borno Require Import NumTotal.
From Borno Require Import Nfc.
From Borno Require Import NfcTables.
From Borno Require Import NfcFacts.

(** each executed print appends exactly one event carrying the text of its value (the driver adds the newline and normalises to NFC) *)
Theorem C15_print_event_inv :
  forall (libm : N -> f64 -> f64 -> f64) (clock : f64)
           (sched : N -> list (list N * value) -> list (list N * value)) (f : nat) 
           (repl : bool) (e : expr) (rho : nat) (s : state) (sig : signal) (s' : state),
         exec libm clock sched (S f) repl (SPrint e) rho s = Ok sig s' ->
         exists (v : value) (s1 : state) (t : list N),
           eval libm clock sched f e rho s = Ok v s1 /\
           text_of s1 v = TOk t /\ sig = SigNone /\ s' = emit (EvPrint t) s1.
Proof. exact (@print_event_inv). Qed.
Print Assumptions C15_print_event_inv.

(** ...and does so whenever the value has a text *)
Theorem C15_print_event :
  forall (libm : N -> f64 -> f64 -> f64) (clock : f64)
           (sched : N -> list (list N * value) -> list (list N * value)) (f : nat) 
           (repl : bool) (e : expr) (rho : nat) (s : state) (v : value) (s1 : state) 
           (t : list N),
         eval libm clock sched f e rho s = Ok v s1 ->
         text_of s1 v = TOk t ->
         exec libm clock sched (S f) repl (SPrint e) rho s = Ok SigNone (emit (EvPrint t) s1).
Proof. exact (@print_event). Qed.
Print Assumptions C15_print_event.

(** a string prints as its characters *)
Theorem C15_text_str :
  forall (s : state) (t : list N), text_of s (VStr t) = TOk t.
Proof. exact (@text_str). Qed.
Print Assumptions C15_text_str.

(** ...also inside arrays and objects *)
Theorem C15_text_str_nested :
  forall (f : nat) (s : state) (t : list N), text_in (S f) s (VStr t) = TOk t.
Proof. exact (@text_str_nested). Qed.
Print Assumptions C15_text_str_nested.

(** nil *)
Theorem C15_text_nil :
  forall s : state, text_of s VNil = TOk s_nil.
Proof. exact (@text_nil). Qed.
Print Assumptions C15_text_nil.

(** true *)
Theorem C15_text_true :
  forall s : state, text_of s (VBool true) = TOk s_true.
Proof. exact (@text_true). Qed.
Print Assumptions C15_text_true.

(** false *)
Theorem C15_text_false :
  forall s : state, text_of s (VBool false) = TOk s_false.
Proof. exact (@text_false). Qed.
Print Assumptions C15_text_false.

(** an array shows all its elements in order *)
Theorem C15_text_arr_inv :
  forall (f : nat) (s : state) (l : nat) (t : list N),
         text_in (S f) s (VArr l) = TOk t ->
         exists (vs : list value) (ts : list (list N)),
           get_arr l s = Some vs /\
           Forall2 (fun (v : value) (t0 : list N) => text_in f s v = TOk t0) vs ts /\
           t = 91 :: join_sp ts ++ [93].
Proof. exact (@text_arr_inv). Qed.
Print Assumptions C15_text_arr_inv.

(** an object shows all its properties *)
Theorem C15_text_obj_inv :
  forall (f : nat) (s : state) (l : nat) (t : list N),
         text_in (S f) s (VObj l) = TOk t ->
         exists (ps : list (list N * value)) (pieces : list (list N)),
           get_obj l s = Some ps /\
           Forall2 (prop_piece f s) ps pieces /\ t = [109; 97; 112; 91] ++ join_sp pieces ++ [93].
Proof. exact (@text_obj_inv). Qed.
Print Assumptions C15_text_obj_inv.

(** the digits printed for a finite number denote exactly that number when read back (round to nearest even) *)
Theorem C15_shortest_digits_roundtrip :
  forall (f : f64) (d x : Z),
         shortest_digits f = Some (d, x) ->
         (0 < d)%Z /\
         rnd64 (dec_real d x) = Rbasic_fun.Rabs (BinarySingleNaN.B2R f) /\
         Rdefinitions.RbaseSymbolsImpl.Rlt (Rbasic_fun.Rabs (rnd64 (dec_real d x))) bmax.
Proof. exact (@shortest_digits_roundtrip). Qed.
Print Assumptions C15_shortest_digits_roundtrip.

(** ...the printer checks every candidate with the verified decimal reader *)
Theorem C15_shortest_digits_sound :
  forall (f : f64) (d x : Z), shortest_digits f = Some (d, x) -> dec_to_f64 d x = BinarySingleNaN.Babs f.
Proof. exact (@shortest_digits_sound). Qed.
Print Assumptions C15_shortest_digits_sound.

(** NaN, infinities and zeros have their fixed texts; integral values below 2^53 print their exact digits *)
Theorem C15_text_num_cases :
  forall f : f64,
         f = BinarySingleNaN.B754_nan /\ text_num f = Some s_NaN \/
         f = BinarySingleNaN.B754_infinity false /\ text_num f = Some s_pInf \/
         f = BinarySingleNaN.B754_infinity true /\ text_num f = Some s_nInf \/
         f = BinarySingleNaN.B754_zero false /\ text_num f = Some [48] \/
         f = BinarySingleNaN.B754_zero true /\ text_num f = Some [45; 48] \/
         BinarySingleNaN.is_finite_strict f = true /\
         (forall z : Z,
          BinarySingleNaN.B2R (BinarySingleNaN.Babs f) = Rdefinitions.IZR z ->
          (z < 2 ^ 53)%Z ->
          exists d x : Z,
            text_num f = Some (layout (BinarySingleNaN.Bsign f) d x) /\ (d * 10 ^ x)%Z = z /\ (0 <= x)%Z).
Proof. exact (@text_num_cases). Qed.
Print Assumptions C15_text_num_cases.

(** integers of magnitude below one million print without exponent or fraction *)
Theorem C15_small_int_plain_signed :
  forall z : Z, (-1000000 < z < 1000000)%Z -> text_num (f_of_Z z) = Some (decimal_of_Z z).
Proof. exact (@small_int_plain_signed). Qed.
Print Assumptions C15_small_int_plain_signed.

(** the text + splices into a string for a number or string is character for character what print prints *)
Theorem C15_concat_text_is_print_text :
  forall (s : state) (v : value) (t : list N),
         (exists x : f64, v = VNum x) \/ (exists u : list N, v = VStr u) ->
         add (VStr []) v = OVal (VStr t) <-> text_of s v = TOk t.
Proof. exact (@concat_text_is_print_text). Qed.
Print Assumptions C15_concat_text_is_print_text.

(** ...for every prefix string *)
Theorem C15_concat_right_is_print_text :
  forall (s : state) (p : list N) (v : value) (r : list N),
         spliceable v ->
         add (VStr p) v = OVal (VStr r) <-> (exists t : list N, text_of s v = TOk t /\ r = p ++ t).
Proof. exact (@concat_right_is_print_text). Qed.
Print Assumptions C15_concat_right_is_print_text.

(** SHORTEST: no decimal with fewer significant digits reads back as the same double (for every finite non-zero double, every d' * 10^x') *)
Theorem C15_shortest_digits_minimal :
  forall (f : f64) (d x d' x' : Z),
         shortest_digits f = Some (d, x) ->
         (0 < d')%Z ->
         f_same (dec_to_f64 d' x') (BinarySingleNaN.Babs f) = true -> (sigdigits d <= sigdigits d')%Z.
Proof. exact (@shortest_digits_minimal). Qed.
Print Assumptions C15_shortest_digits_minimal.

(** the rounding interval the digit search works on is exactly the set of decimals that read back as the double (both directions; binade boundaries and subnormals included) *)
Theorem C15_reads_back_iff_in_interval :
  forall (f : f64) (d' x' : Z),
         BinarySingleNaN.is_finite_strict f = true ->
         (0 < d')%Z ->
         f_same (dec_to_f64 d' x') (BinarySingleNaN.Babs f) = true <-> in_f64_interval f d' x' = true.
Proof. exact (@reads_back_iff_in_interval). Qed.
Print Assumptions C15_reads_back_iff_in_interval.

(** ...minimality stated on that interval *)
Theorem C15_shortest_digits_minimal_interval :
  forall (f : f64) (d x : Z),
         shortest_digits f = Some (d, x) ->
         forall d' x' : Z, (0 < d')%Z -> in_f64_interval f d' x' = true -> (sigdigits d <= sigdigits d')%Z.
Proof. exact (@shortest_digits_minimal_interval). Qed.
Print Assumptions C15_shortest_digits_minimal_interval.

(** ...and for the integer search itself (closed under the global context: pure integer arithmetic) *)
Theorem C15_shortest_from_minimal :
  forall (fuel : nat) (lo mid hi den : Z) (incl : bool) (E d x : Z),
         (0 < den)%Z ->
         (lo < mid < hi)%Z ->
         le10b E mid den = true ->
         lt10b (E + 1) mid den = true ->
         shortest_from fuel 1 lo mid hi den incl E = Some (d, x) ->
         (0 < d)%Z /\
         in_interval lo hi den incl d x = true /\
         (forall d' x' : Z,
          (0 < d')%Z -> in_interval lo hi den incl d' x' = true -> (sigdigits d <= sigdigits d')%Z).
Proof. exact (@shortest_from_minimal). Qed.
Print Assumptions C15_shortest_from_minimal.

(** the digits returned carry no trailing zero *)
Theorem C15_shortest_digits_stripped :
  forall (f : f64) (d x : Z),
         shortest_digits f = Some (d, x) -> (d mod 10)%Z <> 0%Z /\ sigdigits d = ndigits d.
Proof. exact (@shortest_digits_stripped). Qed.
Print Assumptions C15_shortest_digits_stripped.

(** the read-back check inside the model is redundant: the candidate always passes it *)
Theorem C15_shortest_digits_check_redundant :
  forall (s : bool) (m : positive) (e : Z) (Hb : SpecFloat.bounded prec emax m e = true) (d x : Z),
         shortest_candidate m e = Some (d, x) ->
         shortest_digits (BinarySingleNaN.B754_finite s m e Hb) = Some (d, x).
Proof. exact (@shortest_digits_check_redundant). Qed.
Print Assumptions C15_shortest_digits_check_redundant.

(** every double has a text: the digit search never runs out (17 significant digits always suffice) *)
Theorem C15_text_num_total :
  forall f : f64, exists t : list N, text_num f = Some t.
Proof. exact (@text_num_total). Qed.
Print Assumptions C15_text_num_total.

(** ...and never returns more than 17 digits *)
Theorem C15_shortest_digits_le17 :
  forall (f : f64) (d x : Z),
         shortest_digits f = Some (d, x) -> (sigdigits d <= 17)%Z /\ (0 < d < 10 ^ 17)%Z.
Proof. exact (@shortest_digits_le17). Qed.
Print Assumptions C15_shortest_digits_le17.

(** NEAREST: among the decimals of that minimal length that read back as the double, the one printed is closest to it *)
Theorem C15_shortest_digits_nearest_reads_back :
  forall (f : f64) (d x d' x' : Z),
         shortest_digits f = Some (d, x) ->
         (0 < d')%Z ->
         f_same (dec_to_f64 d' x') (BinarySingleNaN.Babs f) = true ->
         (sigdigits d' <= sigdigits d)%Z ->
         QArith_base.Qle (Qabs.Qabs (QArith_base.Qminus (dq d x) (f64_absQ f)))
           (Qabs.Qabs (QArith_base.Qminus (dq d' x') (f64_absQ f))).
Proof. exact (@shortest_digits_nearest_reads_back). Qed.
Print Assumptions C15_shortest_digits_nearest_reads_back.

(** ...and on a tie the even digit string is printed *)
Theorem C15_shortest_digits_tie_even :
  forall (f : f64) (d x d' x' : Z),
         shortest_digits f = Some (d, x) ->
         (0 < d')%Z ->
         in_f64_interval f d' x' = true ->
         (sigdigits d' <= sigdigits d)%Z ->
         QArith_base.Qeq (Qabs.Qabs (QArith_base.Qminus (dq d x) (f64_absQ f)))
           (Qabs.Qabs (QArith_base.Qminus (dq d' x') (f64_absQ f))) ->
         ~ QArith_base.Qeq (dq d' x') (dq d x) -> Z.even d = true \/ d = 1%Z.
Proof. exact (@shortest_digits_tie_even). Qed.
Print Assumptions C15_shortest_digits_tie_even.

(** the same for the integer search itself (closed under the global context) *)
Theorem C15_shortest_from_nearest :
  forall (fuel : nat) (lo mid hi den : Z) (incl : bool) (E d x d' x' : Z),
         (0 < den)%Z ->
         (lo < mid < hi)%Z ->
         le10b E mid den = true ->
         lt10b (E + 1) mid den = true ->
         shortest_from fuel 1 lo mid hi den incl E = Some (d, x) ->
         (0 < d')%Z ->
         in_interval lo hi den incl d' x' = true ->
         (sigdigits d' <= sigdigits d)%Z ->
         QArith_base.Qle (Qabs.Qabs (QArith_base.Qminus (dq d x) (fr mid den)))
           (Qabs.Qabs (QArith_base.Qminus (dq d' x') (fr mid den))).
Proof. exact (@shortest_from_nearest). Qed.
Print Assumptions C15_shortest_from_nearest.

(** STRINGS: what দেখাও writes (Model/Render.v applies nfc) is canonically equivalent to the string: same canonical decomposition, for every string of valid code points *)
Theorem C15_nfc_canon_equiv :
  forall s : list N, valid s -> reorder TT (decompose TT (nfc s)) = reorder TT (decompose TT s).
Proof. exact (@nfc_canon_equiv). Qed.
Print Assumptions C15_nfc_canon_equiv.

(** ...and is in NFC: normalising it again changes nothing *)
Theorem C15_nfc_idem :
  forall s : list N, valid s -> nfc (nfc s) = nfc s.
Proof. exact (@nfc_idem). Qed.
Print Assumptions C15_nfc_idem.

(** a string of characters that neither decompose, nor carry a combining class, nor are the second part of a composite is printed as it is *)
Theorem C15_nfc_calm :
  forall s : list N, forallb calm s = true -> nfc s = s.
Proof. exact (@nfc_calm). Qed.
Print Assumptions C15_nfc_calm.

(** ...in particular every ASCII string *)
Theorem C15_nfc_ascii :
  forall s : list N, Forall (fun c : N => c < 128) s -> nfc s = s.
Proof. exact (@nfc_ascii). Qed.
Print Assumptions C15_nfc_ascii.

(** ...and every string over ASCII and the Bangla block except the ten code points listed (nukta, virama, AA / AU length signs, the precomposed O / AU, RRA / RHA / YYA, the sandhi mark) *)
Theorem C15_nfc_bangla_calm :
  forall s : list N,
         Forall (fun c : N => c < 128 \/ 2432 <= c /\ c <= 2559 /\ ~ In c bangla_not_calm) s -> nfc s = s.
Proof. exact (@nfc_bangla_calm). Qed.
Print Assumptions C15_nfc_bangla_calm.

(** the composition table inverts the decomposition table (with Hangul), which is what equivalence rests on *)
Theorem C15_compose_pair_decomp :
  forall a b x : N,
         validb b = true -> compose_pair TT a b = Some x -> decompose1 TT x = decompose1 TT a ++ [b].
Proof. exact (@compose_pair_decomp). Qed.
Print Assumptions C15_compose_pair_decomp.

(** combining marks come out in canonical order *)
Theorem C15_reorder_canon :
  forall (T : tabs) (s : list N), canon T (reorder T s).
Proof. exact (@reorder_canon). Qed.
Print Assumptions C15_reorder_canon.
