(** C11 — arrays are bounds-checked shared references; len/append/remove are pure sequence operations.
    Only statements: each theorem is closed by [exact] of a lemma proved in Proofs/*, and its
    axioms are printed.  (Statements generated from the lemmas by tools/mkprops.py, then reviewed.) *)
From Borno Require Import Base.
From Borno Require Import Num.
From Borno Require Import Unicode.
From Borno Require Import Token.
From Borno Require Import Ast.
From Borno Require Import Value.
From Borno Require Import Eval.
From Borno Require Import Cli.
From Borno Require Import EvalInv.
From Borno Require Import EvalFrame.
From Borno Require Import HeapLaws.
From Borno Require Import ScenarioExamples.

(** a[i] reads element i when i is an integer within bounds, and is a runtime error for a negative, fractional, non-numeric or too large index, or a non-array *)
Theorem C11_index_read_spec :
  forall (libm : N -> f64 -> f64 -> f64) (clock : f64)
           (sched : N -> list (list N * value) -> list (list N * value)) (f : nat) 
           (ae ie : expr) (line : N) (rho : nat) (s : state) (l : nat) (s1 : state) 
           (i : value) (s2 : state) (vs : list value),
         eval libm clock sched f ae rho s = Ok (VArr l) s1 ->
         eval libm clock sched f ie rho s1 = Ok i s2 ->
         get_arr l s2 = Some vs ->
         (forall n : nat,
          index_of vs i = Some (Some n) ->
          nth_error vs n = Some (nth n vs VNil) /\
          eval libm clock sched (S f) (EIndex ae ie line) rho s = Ok (nth n vs VNil) s2) /\
         (forall z : Z,
          to_int i = Some z ->
          (z < 0)%Z \/ (Z.of_nat (length vs) <= z)%Z ->
          eval libm clock sched (S f) (EIndex ae ie line) rho s = Err RIndexBounds line s2) /\
         (to_int i = None -> eval libm clock sched (S f) (EIndex ae ie line) rho s = Err RIndexInteger line s2).
Proof. exact (@index_read_spec). Qed.
Print Assumptions C11_index_read_spec.

(** a[i] = v makes a[i] read v, changes neither the length nor any other element nor any other array; errors as for reads, store unchanged *)
Theorem C11_index_write_spec :
  forall (libm : N -> f64 -> f64 -> f64) (clock : f64)
           (sched : N -> list (list N * value) -> list (list N * value)) (f : nat) 
           (ae ie ve : expr) (line : N) (rho : nat) (s : state) (l : nat) (s1 : state) 
           (i : value) (s2 : state) (v : value) (s3 : state) (vs : list value),
         eval libm clock sched f ae rho s = Ok (VArr l) s1 ->
         eval libm clock sched f ie rho s1 = Ok i s2 ->
         eval libm clock sched f ve rho s2 = Ok v s3 ->
         get_arr l s3 = Some vs ->
         (forall n : nat,
          index_of vs i = Some (Some n) ->
          let s' := set_arr l (set_nth n v vs) s3 in
          eval libm clock sched (S f) (EArrAssign ae ie ve line) rho s = Ok v s' /\
          get_arr l s' = Some (set_nth n v vs) /\
          length (set_nth n v vs) = length vs /\
          (forall m : nat, m <> n -> nth_error (set_nth n v vs) m = nth_error vs m) /\
          nth_error (set_nth n v vs) n = Some v /\
          (forall l' : nat, l' <> l -> get_arr l' s' = get_arr l' s3) /\
          objs s' = objs s3 /\
          envs s' = envs s3 /\ funs s' = funs s3 /\ out s' = out s3 /\ inp s' = inp s3 /\ tick s' = tick s3) /\
         (forall z : Z,
          to_int i = Some z ->
          (z < 0)%Z \/ (Z.of_nat (length vs) <= z)%Z ->
          eval libm clock sched (S f) (EArrAssign ae ie ve line) rho s = Err RIndexBounds line s3) /\
         (to_int i = None ->
          eval libm clock sched (S f) (EArrAssign ae ie ve line) rho s = Err RIndexInteger line s3).
Proof. exact (@index_write_spec). Qed.
Print Assumptions C11_index_write_spec.

(** an indexed store keeps the length *)
Theorem C11_set_nth_length :
  forall (A : Type) (n : nat) (v : A) (vs : list A), length (set_nth n v vs) = length vs.
Proof. exact (@set_nth_length). Qed.
Print Assumptions C11_set_nth_length.

(** ...and every other element *)
Theorem C11_nth_error_set_nth_other :
  forall (A : Type) (n m : nat) (v : A) (vs : list A),
         m <> n -> nth_error (set_nth n v vs) m = nth_error vs m.
Proof. exact (@nth_error_set_nth_other). Qed.
Print Assumptions C11_nth_error_set_nth_other.

(** ...and every other array *)
Theorem C11_get_set_arr_other :
  forall (l l' : nat) (vs : list value) (s : state),
         l' <> l -> get_arr l' (set_arr l vs s) = get_arr l' s.
Proof. exact (@get_set_arr_other). Qed.
Print Assumptions C11_get_set_arr_other.

(** len(a) is the element count, as an ordinary number *)
Theorem C11_len_spec :
  forall (libm : N -> f64 -> f64 -> f64) (clock : f64)
           (sched : N -> list (list N * value) -> list (list N * value)) (l : nat) 
           (s : state) (vs : list value),
         get_arr l s = Some vs ->
         call_native libm clock sched NLen [VArr l] s = NOk (VNum (f_of_Z (Z.of_nat (length vs)))) s.
Proof. exact (@len_spec). Qed.
Print Assumptions C11_len_spec.

(** append(a, x...) returns a fresh array holding a's elements followed by x... *)
Theorem C11_append_spec :
  forall (libm : N -> f64 -> f64 -> f64) (clock : f64)
           (sched : N -> list (list N * value) -> list (list N * value)) (l : nat) 
           (s : state) (vs : list value) (x : value) (xs : list value),
         get_arr l s = Some vs ->
         exists s' : state,
           call_native libm clock sched NAppend (VArr l :: x :: xs) s = NOk (VArr (length (arrs s))) s' /\
           get_arr (length (arrs s)) s' = Some (vs ++ x :: xs) /\ get_arr l s' = Some vs.
Proof. exact (@append_spec). Qed.
Print Assumptions C11_append_spec.

(** remove(a, i) returns a fresh array without the i-th element; bad indexes are errors *)
Theorem C11_remove_spec :
  forall (libm : N -> f64 -> f64 -> f64) (clock : f64)
           (sched : N -> list (list N * value) -> list (list N * value)) (l : nat) 
           (s : state) (vs : list value) (i : value),
         get_arr l s = Some vs ->
         (forall z : Z,
          to_int i = Some z ->
          (0 <= z < Z.of_nat (length vs))%Z ->
          exists s' : state,
            call_native libm clock sched NRemove [VArr l; i] s = NOk (VArr (length (arrs s))) s' /\
            get_arr (length (arrs s)) s' = Some (remove_nth (Z.to_nat z) vs) /\ get_arr l s' = Some vs) /\
         (forall z : Z,
          to_int i = Some z ->
          (z < 0)%Z \/ (Z.of_nat (length vs) <= z)%Z ->
          call_native libm clock sched NRemove [VArr l; i] s = NFail NfIndexBounds) /\
         (to_int i = None -> call_native libm clock sched NRemove [VArr l; i] s = NFail NfIndexInt).
Proof. exact (@remove_spec). Qed.
Print Assumptions C11_remove_spec.

(** no built-in changes any existing array (neither a nor any previously returned array) *)
Theorem C11_native_arrays_unchanged :
  forall (libm : N -> f64 -> f64 -> f64) (clock : f64)
           (sched : N -> list (list N * value) -> list (list N * value)) (n : native) 
           (args : list value) (s : state) (v : value) (s' : state),
         call_native libm clock sched n args s = NOk v s' ->
         forall l : nat, (l < length (arrs s))%nat -> get_arr l s' = get_arr l s.
Proof. exact (@native_arrays_unchanged). Qed.
Print Assumptions C11_native_arrays_unchanged.

(** for every program: every array keeps its length forever (arrays never grow, wrap or truncate) *)
Theorem C11_arr_length_preserved :
  forall (libm : N -> f64 -> f64 -> f64) (clock : f64)
           (sched : N -> list (list N * value) -> list (list N * value)) (f : nat) 
           (repl : bool) (st : stmt) (rho : nat) (s s' : state),
         wf_state s ->
         (rho < length (envs s))%nat ->
         final (exec libm clock sched f repl st rho s) = Some s' ->
         (forall (l : nat) (vs : list value),
          get_arr l s = Some vs -> exists vs' : list value, get_arr l s' = Some vs' /\ length vs' = length vs) /\
         (length (arrs s) <= length (arrs s'))%nat /\
         (length (objs s) <= length (objs s'))%nat /\ (exists more : list closure, funs s' = funs s ++ more).
Proof. exact (@arr_length_preserved). Qed.
Print Assumptions C11_arr_length_preserved.

(** an array literal creates a fresh cell; existing cells are untouched *)
Theorem C11_alloc_arr_fresh :
  forall (vs : list value) (s : state) (l : nat) (s' : state),
         alloc_arr vs s = (l, s') ->
         l = length (arrs s) /\
         get_arr l s' = Some vs /\ (forall l' : nat, (l' < l)%nat -> get_arr l' s' = get_arr l' s).
Proof. exact (@alloc_arr_fresh). Qed.
Print Assumptions C11_alloc_arr_fresh.

(** aliasing, element write, append on a concrete program, evaluated inside the kernel (transcript = the real interpreter's) *)
Theorem C11_scenario_array_alias :
  transcript src_array_alias =
         Some
           ([[91; 57; 32; 50; 32; 51; 93]; [91; 57; 32; 50; 32; 51; 93]; [91; 57; 32; 56; 32; 51; 32; 52; 93];
             [51]], 0).
Proof. exact (@scenario_array_alias). Qed.
Print Assumptions C11_scenario_array_alias.
