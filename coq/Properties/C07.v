(** C07 — no program can make the interpreter terminate abnormally (model part: no dangling reference is ever followed).
    Only statements: each theorem is closed by [exact] of a lemma proved in Proofs/*, and its
    axioms are printed.  (Statements generated from the lemmas by tools/mkprops.py, then reviewed.) *)
From Borno Require Import Base.
From Borno Require Import Num.
From Borno Require Import Unicode.
From Borno Require Import Token.
From Borno Require Import Ast.
From Borno Require Import Value.
From Borno Require Import Eval.
From Borno Require Import Cli.
From Borno Require Import EvalSafeDefs.
From Borno Require Import EvalSafe.
From Borno Require Import EvalSafeCrash.
From Borno Require Import FlagEval.
From Borno Require Import FlagCli.
From Borno Require Import FlagSafe.

(** the initial store is well-formed *)
Theorem C07_wf_init :
  forall stdin : list N, wf_state (init_state stdin).
Proof. exact (@wf_init). Qed.
Print Assumptions C07_wf_init.

(** for every program and fuel: from a well-formed store evaluation never follows a dangling scope id or heap location, well-formedness is preserved, returned values are allocated *)
Theorem C07_never_stuck :
  forall (libm : N -> f64 -> f64 -> f64) (clock : f64)
           (sched : N -> list (list N * value) -> list (list N * value)),
         (forall (n : N) (l : list (list N * value)) (x : list N * value), In x (sched n l) -> In x l) ->
         forall f : nat,
         (forall (e : expr) (rho : nat) (s : state),
          wf_state s ->
          (rho < length (envs s))%nat ->
          safe_result (fun (s' : state) (v : value) => wf_value s' v) s (eval libm clock sched f e rho s)) /\
         (forall (es : list expr) (rho : nat) (s : state),
          wf_state s ->
          (rho < length (envs s))%nat ->
          safe_result (fun (s' : state) (vs : list value) => Forall (wf_value s') vs) s
            (eval_list libm clock sched f es rho s)) /\
         (forall (ps : list (list N * expr)) (rho : nat) (s : state),
          wf_state s ->
          (rho < length (envs s))%nat ->
          safe_result
            (fun (s' : state) (kvs : list (list N * value)) =>
             Forall (fun kv : list N * value => wf_value s' (snd kv)) kvs) s
            (eval_props libm clock sched f ps rho s)) /\
         (forall (repl : bool) (st : stmt) (rho : nat) (s : state),
          wf_state s ->
          (rho < length (envs s))%nat -> safe_result Psig s (exec libm clock sched f repl st rho s)) /\
         (forall (d : vdecl) (rho : nat) (s : state),
          wf_state s -> (rho < length (envs s))%nat -> safe_result Psig s (exec_var libm clock sched f d rho s)) /\
         (forall (ds : list vdecl) (rho : nat) (s : state),
          wf_state s ->
          (rho < length (envs s))%nat -> safe_result Psig s (exec_vars libm clock sched f ds rho s)) /\
         (forall (repl : bool) (ss : list stmt) (rho : nat) (s : state),
          wf_state s ->
          (rho < length (envs s))%nat -> safe_result Psig s (exec_list libm clock sched f repl ss rho s)) /\
         (forall (repl : bool) (c : expr) (b : stmt) (rho : nat) (s : state),
          wf_state s ->
          (rho < length (envs s))%nat -> safe_result Psig s (exec_while libm clock sched f repl c b rho s)) /\
         (forall (repl : bool) (c : expr) (inc : option expr) (b : stmt) (rho : nat) (s : state),
          wf_state s ->
          (rho < length (envs s))%nat -> safe_result Psig s (exec_for libm clock sched f repl c inc b rho s)).
Proof. exact (@never_stuck). Qed.
Print Assumptions C07_never_stuck.

(** whole pipeline: lexing, parsing and running any source text never reaches the stuck outcome *)
Theorem C07_run_source_never_stuck :
  forall (libm : N -> f64 -> f64 -> f64) (clock : f64)
           (sched : N -> list (list N * value) -> list (list N * value)),
         (forall (n : N) (l : list (list N * value)) (x : list N * value), In x (sched n l) -> In x l) ->
         forall (fuel : nat) (repl : bool) (src stdin : list N),
         run_source libm clock sched fuel repl src stdin <> RStuck.
Proof. exact (@run_source_never_stuck). Qed.
Print Assumptions C07_run_source_never_stuck.

(** the schedule hypothesis is satisfiable: the driver's schedule is a permutation *)
Theorem C07_rotate_sched_perm :
  forall (seed n : N) (l : list (list N * value)), Permutation.Permutation (rotate_sched seed n l) l.
Proof. exact (@rotate_sched_perm). Qed.
Print Assumptions C07_rotate_sched_perm.

(** the scope-chain walk always terminates within its bound (an undefined-variable answer is never an artefact) *)
Theorem C07_env_lookup_adequate :
  forall (s : state) (rho : nat) (x : list N),
         wf_state s -> (rho < length (envs s))%nat -> env_lookup (S (length (envs s))) rho x s <> None.
Proof. exact (@env_lookup_adequate). Qed.
Print Assumptions C07_env_lookup_adequate.

(** printing an allocated value never follows a dangling location *)
Theorem C07_text_of_not_stuck :
  forall (s : state) (v : value), wf_state s -> wf_value s v -> text_of s v <> TStuck.
Proof. exact (@text_of_not_stuck). Qed.
Print Assumptions C07_text_of_not_stuck.

(** the only host-crash outcome of the model is printing a value that contains itself *)
Theorem C07_crash_only_cyclic :
  forall (libm : N -> f64 -> f64 -> f64) (clock : f64)
           (sched : N -> list (list N * value) -> list (list N * value)) (f : nat) 
           (repl : bool) (st : stmt) (rho : nat) (s s' : state),
         exec libm clock sched f repl st rho s = Crash s' ->
         print_hit libm clock sched s' /\
         (exists v c : value, text_of s' v = TCycle /\ reach s' v c /\ self_containing s' c).
Proof. exact (@crash_only_cyclic). Qed.
Print Assumptions C07_crash_only_cyclic.

(** ...and that outcome arises only if the value really reaches a cell containing itself *)
Theorem C07_text_of_cycle_real :
  forall (s : state) (v : value),
         text_of s v = TCycle -> exists c : value, reach s v c /\ self_containing s c.
Proof. exact (@text_of_cycle_real). Qed.
Print Assumptions C07_text_of_cycle_real.

(** printing any acyclic value terminates normally *)
Theorem C07_text_in_acyclic :
  forall (s : state) (rk : value -> nat),
         (forall v w : value, child s v w -> live s w -> (rk w < rk v)%nat) ->
         forall v : value, text_of s v <> TCycle.
Proof. exact (@text_in_acyclic). Qed.
Print Assumptions C07_text_in_acyclic.

(** the flag-level evaluator (which carries on with nil after an error, as the Go code does) never follows a dangling scope or cell either *)
Theorem C07_frun_source_never_stuck :
  forall (libm : N -> f64 -> f64 -> f64) (clock : f64)
           (sched : N -> list (list N * value) -> list (list N * value)),
         (forall (n : N) (l : list (list N * value)) (x : list N * value), In x (sched n l) -> In x l) ->
         forall (fuel : nat) (repl : bool) (src stdin : list N),
         frun_source libm clock sched fuel repl src stdin <> FRStuck.
Proof. exact (@frun_source_never_stuck). Qed.
Print Assumptions C07_frun_source_never_stuck.
