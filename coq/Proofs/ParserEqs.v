(** Unfolding equations of the fuelled parser, by [reflexivity]. *)
From Borno Require Import Base Num Token Ast Parser.
Open Scope N_scope.

Section Eqs.
Variable eofl : N.

Notation pexpr := (Parser.pexpr eofl).
Notation plevel := (Parser.plevel eofl).
Notation ploop := (Parser.ploop eofl).
Notation punary := (Parser.punary eofl).
Notation pcallloop := (Parser.pcallloop eofl).
Notation pargs := (Parser.pargs eofl).
Notation pprimary := (Parser.pprimary eofl).
Notation pprops := (Parser.pprops eofl).
Notation pvardecls := (Parser.pvardecls eofl).
Notation pparams := (Parser.pparams eofl).
Notation pdecl := (Parser.pdecl eofl).
Notation pstmt := (Parser.pstmt eofl).
Notation pblock := (Parser.pblock eofl).
Notation pprogram := (Parser.pprogram eofl).
Notation pvar := (Parser.pvar eofl).
Notation pexprstmt := (Parser.pexprstmt eofl).
Notation consume := (Parser.consume eofl).
Notation consume_lenient := (Parser.consume_lenient eofl).
Notation perr_at := (Parser.perr_at eofl).
Notation diag_at := (Parser.diag_at eofl).
Notation peek_line := (Parser.peek_line eofl).

Lemma pexpr_0 (ts : list token) : pexpr 0 ts = PFuel. Proof. reflexivity. Qed.
Lemma pexpr_S f (ts : list token) :
  pexpr (S f) ts =
    do (e, r) <- plevel f ladder ts;
    match r with
    | eq :: r1 =>
        if tkind_eqb (tk eq) TEQUAL then
          do (v, r2) <- pexpr f r1;
          match e with
          | EId name nline => POk (EAssign name nline v (tline eq)) r2 []
          | EIndex a i _ => POk (EArrAssign a i v (tline eq)) r2 []
          | EProp o p _ => POk (EPropAssign o p v (tline eq)) r2 []
          | _ => PErr [diag_tok eq PInvalidAssign]
          end
        else POk e r []
    | [] => POk e r []
    end.
Proof. reflexivity. Qed.

Lemma plevel_0 (lv : list (list tkind * bool)) (ts : list token) : plevel 0 lv ts = PFuel. Proof. reflexivity. Qed.
Lemma plevel_S f (lv : list (list tkind * bool)) (ts : list token) :
  plevel (S f) lv ts =
    match lv with
    | [] => punary f ts
    | l :: lv' => do (e, r) <- plevel f lv' ts; ploop f l lv' e r
    end.
Proof. reflexivity. Qed.

Lemma ploop_0 (l : list tkind * bool) (lv' : list (list tkind * bool)) (e : expr) (ts : list token) : ploop 0 l lv' e ts = PFuel. Proof. reflexivity. Qed.
Lemma ploop_S f (l : list tkind * bool) (lv' : list (list tkind * bool)) (e : expr) (ts : list token) :
  ploop (S f) l lv' e ts =
    match ts with
    | op :: r =>
        if kind_in (tk op) (fst l) then
          do (rhs, r') <- plevel f lv' r; ploop f l lv' (mk_bin (snd l) op e rhs) r'
        else POk e ts []
    | [] => POk e ts []
    end.
Proof. reflexivity. Qed.

Lemma punary_0 (ts : list token) : punary 0 ts = PFuel. Proof. reflexivity. Qed.
Lemma punary_S f (ts : list token) :
  punary (S f) ts =
    match ts with
    | op :: r =>
        if kind_in (tk op) unary_ops then
          do (e, r') <- punary f r; POk (EUnary (tk op) e (tline op)) r' []
        else do (e, r') <- pprimary f ts; pcallloop f e r'
    | [] => do (e, r') <- pprimary f ts; pcallloop f e r'
    end.
Proof. reflexivity. Qed.

Lemma pcallloop_0 (e : expr) (ts : list token) : pcallloop 0 e ts = PFuel. Proof. reflexivity. Qed.
Lemma pcallloop_S f (e : expr) (ts : list token) :
  pcallloop (S f) e ts =
    match ts with
    | t :: r =>
        match tk t with
        | TLEFT_PAREN =>
            do (args, r1) <- (if check TRIGHT_PAREN r then POk [] r [] else pargs f r);
            do (paren, r2) <- consume TRIGHT_PAREN PRParenAfterArgs r1;
            pcallloop f (ECall e (tline paren) args) r2
        | TLEFT_BRACKET =>
            do (i, r1) <- pexpr f r;
            do (rb, r2) <- consume TRIGHT_BRACKET PRBracketAfterIndex r1;
            pcallloop f (EIndex e i (tline rb)) r2
        | TDOT =>
            do (nm, r1) <- consume TIDENTIFIER PPropAfterDot r;
            pcallloop f (EProp e (tlex nm) (tline nm)) r1
        | _ => POk e ts []
        end
    | [] => POk e ts []
    end.
Proof. reflexivity. Qed.

Lemma pargs_0 (ts : list token) : pargs 0 ts = PFuel. Proof. reflexivity. Qed.
Lemma pargs_S f (ts : list token) :
  pargs (S f) ts =
    do (a, r) <- pexpr f ts;
    if check TCOMMA r then do (more, r') <- pargs f (tl r); POk (a :: more) r' []
    else POk [a] r [].
Proof. reflexivity. Qed.

Lemma pprimary_0 (ts : list token) : pprimary 0 ts = PFuel. Proof. reflexivity. Qed.
Lemma pprimary_S f (ts : list token) :
  pprimary (S f) ts =
    match ts with
    | t :: r =>
        match tk t with
        | TFALSE => POk (ELit (LitBool false) (tline t)) r []
        | TTRUE => POk (ELit (LitBool true) (tline t)) r []
        | TNIL => POk (ELit LitNil (tline t)) r []
        | TNUMBER => POk (ELit (match tlit t with LNum v => LitNum v | _ => LitNil end) (tline t)) r []
        | TSTRING => POk (ELit (match tlit t with LStr s => LitStr s | _ => LitNil end) (tline t)) r []
        | TIDENTIFIER => POk (EId (tlex t) (tline t)) r []
        | TLEFT_PAREN =>
            do (e, r1) <- pexpr f r;
            do (rp, r2) <- consume TRIGHT_PAREN PRParenAfterExpr r1;
            POk (EGroup e (tline rp)) r2 []
        | TLEFT_BRACKET =>
            do (es, r1) <- (if check TRIGHT_BRACKET r then POk [] r [] else pargs f r);
            do (_rb, r2) <- consume TRIGHT_BRACKET PRBracketAfterElems r1;
            POk (EArray es) r2 []
        | TLEFT_BRACE =>
            do (ps, r1) <- pprops f [] r;
            do (_rb, r2) <- consume TRIGHT_BRACE PRBraceAfterObject r1;
            POk (EObject ps) r2 []
        | _ => perr_at ts PExpectExpr
        end
    | [] => perr_at ts PExpectExpr
    end.
Proof. reflexivity. Qed.

Lemma pprops_0 (acc : list (list N * expr)) (ts : list token) : pprops 0 acc ts = PFuel. Proof. reflexivity. Qed.
Lemma pprops_S f (acc : list (list N * expr)) (ts : list token) :
  pprops (S f) acc ts =
    match ts with
    | [] => POk acc ts []
    | t :: _ =>
        if tkind_eqb (tk t) TRIGHT_BRACE then POk acc ts []
        else
          do (nm, r1) <- consume TIDENTIFIER PPropName ts;
          do (_c, r2) <- consume TCOLON PColonAfterProp r1;
          do (v, r3) <- pexpr f r2;
          let acc' := props_put acc (tlex nm) v in
          if check TCOMMA r3 then pprops f acc' (tl r3) else POk acc' r3 []
    end.
Proof. reflexivity. Qed.

Lemma pvardecls_0 (l0 : N) (ts : list token) : pvardecls 0 l0 ts = PFuel. Proof. reflexivity. Qed.
Lemma pvardecls_S f (l0 : N) (ts : list token) :
  pvardecls (S f) l0 ts =
    do (nm, r1) <- consume TIDENTIFIER PExpectVarName ts;
    if is_reserved (tlex nm) then PErr [diag_tok nm PReservedVar]
    else
      do (init, r2) <- (if check TEQUAL r1 then do (e, r) <- pexpr f (tl r1); POk (Some e) r []
                        else POk None r1 []);
      let d := (tlex nm, init, tline nm) in
      if negb (is_lit_container init) && negb (peek_line r2 =? l0) then perr_at r2 PSemiBeforeNewline
      else if check TCOMMA r2 then do (more, r3) <- pvardecls f l0 (tl r2); POk (d :: more) r3 []
      else POk [d] r2 [].
Proof. reflexivity. Qed.

Lemma pparams_0 (n : nat) (ts : list token) : pparams 0 n ts = PFuel. Proof. reflexivity. Qed.
Lemma pparams_S f (n : nat) (ts : list token) :
  pparams (S f) n ts =
    if Nat.leb max_params n then perr_at ts PTooManyParams
    else
      do (p, r1) <- consume TIDENTIFIER PExpectParam ts;
      if check TCOMMA r1 then do (more, r2) <- pparams f (S n) (tl r1); POk (tlex p :: more) r2 []
      else POk [tlex p] r1 [].
Proof. reflexivity. Qed.

Lemma pdecl_0 (ts : list token) : pdecl 0 ts = PFuel. Proof. reflexivity. Qed.
Lemma pdecl_S f (ts : list token) :
  pdecl (S f) ts =
    match ts with
    | t :: r =>
        match tk t with
        | TFUN =>
            do (nm, r1) <- consume TIDENTIFIER PExpectFunName r;
            if is_reserved (tlex nm) then PErr [diag_tok nm PReservedFun]
            else
              do (_lp, r2) <- consume TLEFT_PAREN PLParenAfterFunName r1;
              do (ps, r3) <- (if check TRIGHT_PAREN r2 then POk [] r2 [] else pparams f 0 r2);
              do (_rp, r4) <- consume TRIGHT_PAREN PRParenAfterParams r3;
              do (_lb, r5) <- consume TLEFT_BRACE PLBraceBeforeBody r4;
              do (body, r6) <- pblock f r5;
              POk (SFun (tlex nm) ps body) r6 []
        | TVAR => pvar f r
        | _ => pstmt f ts
        end
    | [] => pstmt f ts
    end.
Proof. reflexivity. Qed.

Lemma pstmt_0 (ts : list token) : pstmt 0 ts = PFuel. Proof. reflexivity. Qed.
Lemma pstmt_S f (ts : list token) :
  pstmt (S f) ts =
    match ts with
    | t :: r =>
        match tk t with
        | TIF =>
            do (_lp, r1) <- consume TLEFT_PAREN PLParenAfterIf r;
            do (c, r2) <- pexpr f r1;
            do (_rp, r3) <- consume TRIGHT_PAREN PRParenAfterIfCond r2;
            do (th, r4) <- pstmt f r3;
            if check TELSE r4 then do (el, r5) <- pstmt f (tl r4); POk (SIf c th (Some el)) r5 []
            else POk (SIf c th None) r4 []
        | TWHILE =>
            do (_lp, r1) <- consume TLEFT_PAREN PLParenAfterWhile r;
            do (c, r2) <- pexpr f r1;
            do (_rp, r3) <- consume TRIGHT_PAREN PRParenAfterCond r2;
            do (b, r4) <- pstmt f r3;
            POk (SWhile c b) r4 []
        | TFOR =>
            do (_lp, r1) <- consume TLEFT_PAREN PLParenAfterFor r;
            do (init, r2) <- (if check TSEMICOLON r1 then POk None (tl r1) []
                              else if check TVAR r1 then do (s, r') <- pvar f (tl r1); POk (Some s) r' []
                              else do (s, r') <- pexprstmt f r1; POk (Some s) r' []);
            do (c, r3) <- (if check TSEMICOLON r2 then POk None r2 [] else do (e, r') <- pexpr f r2; POk (Some e) r' []);
            do (_s, r4) <- consume TSEMICOLON PSemiAfterLoopCond r3;
            do (inc, r5) <- (if check TRIGHT_PAREN r4 then POk None r4 [] else do (e, r') <- pexpr f r4; POk (Some e) r' []);
            do (_rp, r6) <- consume TRIGHT_PAREN PRParenAfterFor r5;
            do (b, r7) <- pstmt f r6;
            POk (SFor init (match c with Some c => c | None => ELit (LitBool true) 0 end) inc b) r7 []
        | TPRINT =>
            do (e, r1) <- pexpr f r;
            let '(r2, ds) := consume_lenient TSEMICOLON PSemiAfterValue r1 in
            POk (SPrint e) r2 ds
        | TRETURN =>
            do (v, r1) <- (if check TSEMICOLON r then POk None r [] else do (e, r') <- pexpr f r; POk (Some e) r' []);
            do (_s, r2) <- consume TSEMICOLON PSemiAfterReturn r1;
            POk (SReturn (tline t) v) r2 []
        | TBREAK =>
            do (s, r1) <- consume TSEMICOLON PSemiAfterBreak r;
            POk (SBreak (tline s)) r1 []
        | TCONTINUE =>
            do (s, r1) <- consume TSEMICOLON PSemiAfterContinue r;
            POk (SContinue (tline s)) r1 []
        | TLEFT_BRACE =>
            do (ss, r1) <- pblock f r;
            POk (SBlock ss) r1 []
        | _ => pexprstmt f ts
        end
    | [] => pexprstmt f ts
    end.
Proof. reflexivity. Qed.

Lemma pblock_0 (ts : list token) : pblock 0 ts = PFuel. Proof. reflexivity. Qed.
Lemma pblock_S f (ts : list token) :
  pblock (S f) ts =
    match ts with
    | [] => POk [] ts [diag_at ts PRBraceAfterBlock]
    | t :: r =>
        if tkind_eqb (tk t) TRIGHT_BRACE then POk [] r []
        else do (s, r1) <- pdecl f ts; do (ss, r2) <- pblock f r1; POk (s :: ss) r2 []
    end.
Proof. reflexivity. Qed.

Lemma pprogram_0 (ts : list token) : pprogram 0 ts = PFuel. Proof. reflexivity. Qed.
Lemma pprogram_S f (ts : list token) :
  pprogram (S f) ts =
    match ts with
    | [] => POk [] [] []
    | _ => do (s, r1) <- pdecl f ts; do (ss, r2) <- pprogram f r1; POk (s :: ss) r2 []
    end.
Proof. reflexivity. Qed.

End Eqs.
