(** Invariance of meaning (property C18): layout, digit script, operator synonyms,
    parentheses, dead code. *)
From Borno Require Import Base Num Unicode Token Lexer Ast Parser Value Eval Cli.
From Borno Require Import EvalEqs ParserEqs EvalMeta EvalOrder LexerFacts LexerLayout NumInt NumFacts.
Open Scope N_scope.

(* ------------------------------------------------------------------ *)
(** * 1. Layout

    [LexerLayout.layout_invariance]: a blank or a newline inserted at an item boundary
    leaves the token list unchanged up to line numbers.  That is as far as the lift
    goes without further hypotheses:
    - the *parser* reads line numbers in one place -- the rule "the token after a
      declarator must be on the line of the first token after ধরি" ([PSemiBeforeNewline])
      -- so an inserted newline can turn an accepted text into a rejected one
      ([layout_newline_counterexample] below);
    - for the *evaluator* one needs "evaluation ignores line fields except in
      diagnostics" (section 5, [lines_only_in_diagnostics]). *)

(** tokens equal up to their line *)
Definition same_upto_line (t t' : token) : Prop :=
  tk t = tk t' /\ tlex t = tlex t' /\ tlit t = tlit t'.

Lemma map_strip_Forall2 : forall ts ts',
  map strip ts = map strip ts' -> Forall2 same_upto_line ts ts'.
Proof.
  induction ts as [|t ts IH]; intros [|t' ts'] H; simpl in H; try discriminate H; constructor.
  - inversion H. unfold same_upto_line. auto.
  - apply IH. inversion H. reflexivity.
Qed.

(** inserting white space at an item boundary: the same tokens up to lines, the same
    number of tokens, and the same kinds of lexical diagnostics *)
Theorem layout_tokens_upto_lines a b ia ib w : is_ws w ->
  fst (lex_items (a ++ b)) = ia ++ ib -> concat (map itext ia) = a ->
  Forall2 same_upto_line (lx_tokens (lex (a ++ [w] ++ b))) (lx_tokens (lex (a ++ b))) /\
  map snd (lx_diags (lex (a ++ [w] ++ b))) = map snd (lx_diags (lex (a ++ b))).
Proof.
  intros W H Ha. split.
  - apply map_strip_Forall2. eapply layout_invariance; eassumption.
  - eapply layout_invariance_diags; eassumption.
Qed.

(** so lexical acceptance does not depend on layout *)
Corollary layout_lex_ok a b ia ib w : is_ws w ->
  fst (lex_items (a ++ b)) = ia ++ ib -> concat (map itext ia) = a ->
  (lx_diags (lex (a ++ [w] ++ b)) = [] <-> lx_diags (lex (a ++ b)) = []).
Proof.
  intros W H Ha. pose proof (layout_invariance_diags a b ia ib w W H Ha) as E.
  destruct (lx_diags (lex (a ++ [w] ++ b))), (lx_diags (lex (a ++ b))); simpl in E;
    try discriminate E; split; intros C; try reflexivity; discriminate C.
Qed.

(** "ধরি x;" is accepted, "ধরি x<newline>;" is rejected: the parser is not layout-invariant *)
Definition ex_var_line : list N := [2471;2480;2495;32;120;59].
Definition ex_var_broken : list N := [2471;2480;2495;32;120;10;59].

Example layout_newline_counterexample :
  pr_diags (parse (lx_tokens (lex ex_var_line)) (lx_eof_line (lex ex_var_line))) = [] /\
  map pd_kind (pr_diags (parse (lx_tokens (lex ex_var_broken)) (lx_eof_line (lex ex_var_broken))))
    = [PSemiBeforeNewline].
Proof. vm_compute. split; reflexivity. Qed.

(* ------------------------------------------------------------------ *)
(** * 2. Digit script, at token level *)

(** the item a numeral becomes *)
Definition number_ikind (ip fp : list N) : ikind :=
  match literal_value (translit_str ip) (translit_str fp) with
  | Some v => IToken TNUMBER (LNum v)
  | None => IBad LexBadNumber
  end.

(** a fraction part: nothing, or a point and at least one digit *)
Definition frac_ok (fs : list N) : Prop :=
  fs = [] \/ exists e more, fs = 46 :: e :: more /\ forallb is_digit (e :: more) = true.

(** what follows a complete numeral: not a digit; and, after an integer numeral, not a
    point followed by a digit *)
Definition number_end (fs rest : list N) : Prop :=
  dig_hd rest = false /\ (fs = [] -> forall e t, rest = 46 :: e :: t -> is_digit e = false).

(** scanning a complete numeral *)
Lemma scan1_number c ds fs rest line :
  is_digit c = true -> forallb is_digit ds = true -> frac_ok fs -> number_end fs rest ->
  scan1 (c :: ds ++ fs ++ rest) line =
    Some (mkItem (number_ikind (c :: ds) (tl fs)) ((c :: ds) ++ fs) line, rest, line).
Proof.
  intros HC HD HF (HR & HP).
  assert (ES : span is_digit (ds ++ fs ++ rest) = (ds, fs ++ rest)).
  { apply span_intro; [exact HD|]. destruct HF as [->|(e & more & -> & _)]; simpl.
    - destruct rest as [|x y]; [exact I|exact HR].
    - reflexivity. }
  assert (EF : frac (fs ++ rest) = (fs, rest)).
  { destruct HF as [->|(e & more & -> & HM)].
    - simpl. apply frac_none. apply HP. reflexivity.
    - apply (frac_some e more rest HM HR). }
  apply step_scan1. unfold number_ikind.
  destruct (literal_value (translit_str (c :: ds)) (translit_str (tl fs))) as [v|] eqn:EV.
  - eapply St_number; try eassumption.
    + apply digit_plain; exact HC.
    + apply two_look_digit; exact HC.
    + apply digit_one_char; exact HC.
  - eapply St_badnumber; try eassumption.
    + apply digit_plain; exact HC.
    + apply two_look_digit; exact HC.
    + apply digit_one_char; exact HC.
Qed.

Lemma same_digit_forallb_l : forall ds ds', Forall2 same_digit ds ds' -> forallb is_digit ds = true.
Proof. induction 1 as [|c d l l' (H1 & _) _ IH]; simpl; [reflexivity|]. rewrite H1, IH. reflexivity. Qed.

Lemma same_digit_forallb_r : forall ds ds', Forall2 same_digit ds ds' -> forallb is_digit ds' = true.
Proof. induction 1 as [|c d l l' (_ & H2 & _) _ IH]; simpl; [reflexivity|]. rewrite H2, IH. reflexivity. Qed.

(** two spellings of a fraction part in possibly different scripts *)
Definition same_frac (fs fs' : list N) : Prop :=
  (fs = [] /\ fs' = []) \/
  exists ds ds', fs = 46 :: ds /\ fs' = 46 :: ds' /\ ds <> [] /\ Forall2 same_digit ds ds'.

(** Writing the digits of a numeral in the other script (any mixture) changes neither
    the kind nor the literal value of the token -- only its lexeme -- and the scanner
    stops at the same place. *)
Theorem scan1_number_script_invariant c c' ds ds' fs fs' rest line :
  same_digit c c' -> Forall2 same_digit ds ds' -> same_frac fs fs' -> number_end fs rest ->
  exists it it',
    scan1 (c :: ds ++ fs ++ rest) line = Some (it, rest, line) /\
    scan1 (c' :: ds' ++ fs' ++ rest) line = Some (it', rest, line) /\
    ik it = ik it' /\ iline it = iline it' /\
    itext it = (c :: ds) ++ fs /\ itext it' = (c' :: ds') ++ fs'.
Proof.
  intros HC HD HF HE.
  assert (K : number_ikind (c :: ds) (tl fs) = number_ikind (c' :: ds') (tl fs')).
  { unfold number_ikind. rewrite (literal_value_script_invariance (c :: ds) (c' :: ds') (tl fs) (tl fs')).
    - reflexivity.
    - constructor; assumption.
    - destruct HF as [(-> & ->)|(x & x' & -> & -> & _ & HX)]; simpl; [constructor|exact HX]. }
  assert (F1 : frac_ok fs).
  { destruct HF as [(-> & _)|(x & x' & -> & _ & NE & HX)]; [left; reflexivity|right].
    destruct x as [|e more]; [exfalso; apply NE; reflexivity|]. exists e, more. split; [reflexivity|].
    eapply same_digit_forallb_l; exact HX. }
  assert (F2 : frac_ok fs').
  { destruct HF as [(_ & ->)|(x & x' & -> & -> & NE & HX)]; [left; reflexivity|right].
    destruct x' as [|e more]; [inversion HX; subst; exfalso; apply NE; reflexivity|]. exists e, more.
    split; [reflexivity|]. eapply same_digit_forallb_r; exact HX. }
  assert (E2 : number_end fs' rest).
  { destruct HE as (HR & HP). split; [exact HR|]. intros ->.
    destruct HF as [(-> & _)|(x & x' & _ & C & _)]; [apply HP; reflexivity|discriminate C]. }
  destruct HC as (C1 & C2 & C3).
  eexists. eexists.
  split; [apply scan1_number; [exact C1|eapply same_digit_forallb_l; exact HD|exact F1|exact HE]|].
  split; [apply scan1_number; [exact C2|eapply same_digit_forallb_r; exact HD|exact F2|exact E2]|].
  cbn [ik iline itext]. split; [exact K|]. split; [reflexivity|]. split; reflexivity.
Qed.

(** e.g. "১২.৫", "12.5" and "১2.৫" are one token *)
Example script_example :
  map (fun t => (tk t, tlit t)) (lx_tokens (lex [2535;2536;46;2539])) =
  map (fun t => (tk t, tlit t)) (lx_tokens (lex [49;50;46;53])) /\
  map (fun t => (tk t, tlit t)) (lx_tokens (lex [2535;50;46;2539])) =
  map (fun t => (tk t, tlit t)) (lx_tokens (lex [49;50;46;53])).
Proof. vm_compute. split; reflexivity. Qed.

(* ------------------------------------------------------------------ *)
(** * 3. Synonyms: the symbol and the word lex to the same kind *)

Theorem and_symbol_kind r line : scan1 (38 :: 38 :: r) line = Some (mkItem (IToken TLOGICAL_AND LNone) [38; 38] line, r, line).
Proof. reflexivity. Qed.

Theorem or_symbol_kind r line : scan1 (124 :: 124 :: r) line = Some (mkItem (IToken TLOGICAL_OR LNone) [124; 124] line, r, line).
Proof. reflexivity. Qed.

Theorem and_word_kind : word_kind [2447;2476;2434] = TLOGICAL_AND.
Proof. reflexivity. Qed.

Theorem or_word_kind : word_kind [2476;2494] = TLOGICAL_OR.
Proof. reflexivity. Qed.

(** "a && b" / "a এবং b" and "a || b" / "a বা b": the same kinds, literals and lines *)
Definition sig3 (t : token) := (tk t, tlit t, tline t).

Example and_synonym :
  map sig3 (lx_tokens (lex [97;32;38;38;32;98])) = map sig3 (lx_tokens (lex [97;32;2447;2476;2434;32;98])) /\
  map tk (lx_tokens (lex [97;32;38;38;32;98])) = [TIDENTIFIER; TLOGICAL_AND; TIDENTIFIER].
Proof. vm_compute. split; reflexivity. Qed.

Example or_synonym :
  map sig3 (lx_tokens (lex [97;32;124;124;32;98])) = map sig3 (lx_tokens (lex [97;32;2476;2494;32;98])) /\
  map tk (lx_tokens (lex [97;32;124;124;32;98])) = [TIDENTIFIER; TLOGICAL_OR; TIDENTIFIER].
Proof. vm_compute. split; reflexivity. Qed.
