(** Invariance of meaning (property C18): layout, digit script, operator synonyms,
    parentheses, dead code. *)
From Borno Require Import Base Num Unicode Token Lexer Ast Parser Value Eval Cli.
From Borno Require Import EvalEqs ParserEqs ParserTotal EvalMeta EvalOrder LexerFacts LexerLayout NumInt NumFacts.
From Borno Require Import Grammar.
Open Scope N_scope.

(* ------------------------------------------------------------------ *)
(** * 1. Layout

    [LexerLayout.layout_invariance]: a blank or a newline inserted at an item boundary
    leaves the token list unchanged up to line numbers.  That is as far as the lift
    goes without further hypotheses:
    - the *parser* reads line numbers in one place -- the rule "the token after a
      declarator must be on the line of the first token after ধরি" ([PSemiBeforeNewline])
      -- so an inserted newline can turn an accepted text into a rejected one
      ([layout_newline_counterexample] below);
    - for the *evaluator* one needs "evaluation ignores line fields except in
      diagnostics" (section 5, [lines_only_in_diagnostics]). *)

(** tokens equal up to their line *)
Definition same_upto_line (t t' : token) : Prop :=
  tk t = tk t' /\ tlex t = tlex t' /\ tlit t = tlit t'.

Lemma map_strip_Forall2 : forall ts ts',
  map strip ts = map strip ts' -> Forall2 same_upto_line ts ts'.
Proof.
  induction ts as [|t ts IH]; intros [|t' ts'] H; simpl in H; try discriminate H; constructor.
  - inversion H. unfold same_upto_line. auto.
  - apply IH. inversion H. reflexivity.
Qed.

(** inserting white space at an item boundary: the same tokens up to lines, the same
    number of tokens, and the same kinds of lexical diagnostics *)
Theorem layout_tokens_upto_lines a b ia ib w : is_ws w ->
  fst (lex_items (a ++ b)) = ia ++ ib -> concat (map itext ia) = a ->
  Forall2 same_upto_line (lx_tokens (lex (a ++ [w] ++ b))) (lx_tokens (lex (a ++ b))) /\
  map snd (lx_diags (lex (a ++ [w] ++ b))) = map snd (lx_diags (lex (a ++ b))).
Proof.
  intros W H Ha. split.
  - apply map_strip_Forall2. eapply layout_invariance; eassumption.
  - eapply layout_invariance_diags; eassumption.
Qed.

(** so lexical acceptance does not depend on layout *)
Corollary layout_lex_ok a b ia ib w : is_ws w ->
  fst (lex_items (a ++ b)) = ia ++ ib -> concat (map itext ia) = a ->
  (lx_diags (lex (a ++ [w] ++ b)) = [] <-> lx_diags (lex (a ++ b)) = []).
Proof.
  intros W H Ha. pose proof (layout_invariance_diags a b ia ib w W H Ha) as E.
  destruct (lx_diags (lex (a ++ [w] ++ b))), (lx_diags (lex (a ++ b))); simpl in E;
    try discriminate E; split; intros C; try reflexivity; discriminate C.
Qed.

(** "ধরি x;" is accepted, "ধরি x<newline>;" is rejected: the parser is not layout-invariant *)
Definition ex_var_line : list N := [2471;2480;2495;32;120;59].
Definition ex_var_broken : list N := [2471;2480;2495;32;120;10;59].

Example layout_newline_counterexample :
  pr_diags (parse (lx_tokens (lex ex_var_line)) (lx_eof_line (lex ex_var_line))) = [] /\
  map pd_kind (pr_diags (parse (lx_tokens (lex ex_var_broken)) (lx_eof_line (lex ex_var_broken))))
    = [PSemiBeforeNewline].
Proof. vm_compute. split; reflexivity. Qed.

(* ------------------------------------------------------------------ *)
(** * 2. Digit script, at token level *)

(** the item a numeral becomes *)
Definition number_ikind (ip fp : list N) : ikind :=
  match literal_value (translit_str ip) (translit_str fp) with
  | Some v => IToken TNUMBER (LNum v)
  | None => IBad LexBadNumber
  end.

(** a fraction part: nothing, or a point and at least one digit *)
Definition frac_ok (fs : list N) : Prop :=
  fs = [] \/ exists e more, fs = 46 :: e :: more /\ forallb is_digit (e :: more) = true.

(** what follows a complete numeral: not a digit; and, after an integer numeral, not a
    point followed by a digit *)
Definition number_end (fs rest : list N) : Prop :=
  dig_hd rest = false /\ (fs = [] -> forall e t, rest = 46 :: e :: t -> is_digit e = false).

(** scanning a complete numeral *)
Lemma scan1_number c ds fs rest line :
  is_digit c = true -> forallb is_digit ds = true -> frac_ok fs -> number_end fs rest ->
  scan1 (c :: ds ++ fs ++ rest) line =
    Some (mkItem (number_ikind (c :: ds) (tl fs)) ((c :: ds) ++ fs) line, rest, line).
Proof.
  intros HC HD HF (HR & HP).
  assert (ES : span is_digit (ds ++ fs ++ rest) = (ds, fs ++ rest)).
  { apply span_intro; [exact HD|]. destruct HF as [->|(e & more & -> & _)]; simpl.
    - destruct rest as [|x y]; [exact I|exact HR].
    - reflexivity. }
  assert (EF : frac (fs ++ rest) = (fs, rest)).
  { destruct HF as [->|(e & more & -> & HM)].
    - simpl. apply frac_none. apply HP. reflexivity.
    - apply (frac_some e more rest HM HR). }
  apply step_scan1. unfold number_ikind.
  destruct (literal_value (translit_str (c :: ds)) (translit_str (tl fs))) as [v|] eqn:EV.
  - eapply St_number; try eassumption.
    + apply digit_plain; exact HC.
    + apply two_look_digit; exact HC.
    + apply digit_one_char; exact HC.
  - eapply St_badnumber; try eassumption.
    + apply digit_plain; exact HC.
    + apply two_look_digit; exact HC.
    + apply digit_one_char; exact HC.
Qed.

Lemma same_digit_forallb_l : forall ds ds', Forall2 same_digit ds ds' -> forallb is_digit ds = true.
Proof. induction 1 as [|c d l l' (H1 & _) _ IH]; simpl; [reflexivity|]. rewrite H1, IH. reflexivity. Qed.

Lemma same_digit_forallb_r : forall ds ds', Forall2 same_digit ds ds' -> forallb is_digit ds' = true.
Proof. induction 1 as [|c d l l' (_ & H2 & _) _ IH]; simpl; [reflexivity|]. rewrite H2, IH. reflexivity. Qed.

(** two spellings of a fraction part in possibly different scripts *)
Definition same_frac (fs fs' : list N) : Prop :=
  (fs = [] /\ fs' = []) \/
  exists ds ds', fs = 46 :: ds /\ fs' = 46 :: ds' /\ ds <> [] /\ Forall2 same_digit ds ds'.

(** Writing the digits of a numeral in the other script (any mixture) changes neither
    the kind nor the literal value of the token -- only its lexeme -- and the scanner
    stops at the same place. *)
Theorem scan1_number_script_invariant c c' ds ds' fs fs' rest line :
  same_digit c c' -> Forall2 same_digit ds ds' -> same_frac fs fs' -> number_end fs rest ->
  exists it it',
    scan1 (c :: ds ++ fs ++ rest) line = Some (it, rest, line) /\
    scan1 (c' :: ds' ++ fs' ++ rest) line = Some (it', rest, line) /\
    ik it = ik it' /\ iline it = iline it' /\
    itext it = (c :: ds) ++ fs /\ itext it' = (c' :: ds') ++ fs'.
Proof.
  intros HC HD HF HE.
  assert (K : number_ikind (c :: ds) (tl fs) = number_ikind (c' :: ds') (tl fs')).
  { unfold number_ikind. rewrite (literal_value_script_invariance (c :: ds) (c' :: ds') (tl fs) (tl fs')).
    - reflexivity.
    - constructor; assumption.
    - destruct HF as [(-> & ->)|(x & x' & -> & -> & _ & HX)]; simpl; [constructor|exact HX]. }
  assert (F1 : frac_ok fs).
  { destruct HF as [(-> & _)|(x & x' & -> & _ & NE & HX)]; [left; reflexivity|right].
    destruct x as [|e more]; [exfalso; apply NE; reflexivity|]. exists e, more. split; [reflexivity|].
    eapply same_digit_forallb_l; exact HX. }
  assert (F2 : frac_ok fs').
  { destruct HF as [(_ & ->)|(x & x' & -> & -> & NE & HX)]; [left; reflexivity|right].
    destruct x' as [|e more]; [inversion HX; subst; exfalso; apply NE; reflexivity|]. exists e, more.
    split; [reflexivity|]. eapply same_digit_forallb_r; exact HX. }
  assert (E2 : number_end fs' rest).
  { destruct HE as (HR & HP). split; [exact HR|]. intros ->.
    destruct HF as [(-> & _)|(x & x' & _ & C & _)]; [apply HP; reflexivity|discriminate C]. }
  destruct HC as (C1 & C2 & C3).
  eexists. eexists.
  split; [apply scan1_number; [exact C1|eapply same_digit_forallb_l; exact HD|exact F1|exact HE]|].
  split; [apply scan1_number; [exact C2|eapply same_digit_forallb_r; exact HD|exact F2|exact E2]|].
  cbn [ik iline itext]. split; [exact K|]. split; [reflexivity|]. split; reflexivity.
Qed.

(** e.g. "১২.৫" and "12.5" are one NUMBER token (or both the same bad number) *)
Example script_example : exists it it',
  scan1 [2535;2536;46;2539] 1 = Some (it, [], 1) /\ scan1 [49;50;46;53] 1 = Some (it', [], 1) /\
  ik it = ik it'.
Proof.
  assert (D : forall c d, (is_digit c && is_digit d && (translit c =? translit d)) = true -> same_digit c d).
  { intros c d H. apply andb_prop in H. destruct H as (H & H3). apply andb_prop in H. destruct H as (H1 & H2).
    apply N.eqb_eq in H3. unfold same_digit. auto. }
  destruct (scan1_number_script_invariant 2535 49 [2536] [50] [46;2539] [46;53] [] 1)
    as (it & it' & E1 & E2 & K & _).
  - apply D. vm_compute. reflexivity.
  - constructor; [apply D; vm_compute; reflexivity|constructor].
  - right. exists [2539], [53]. split; [reflexivity|]. split; [reflexivity|]. split; [discriminate|].
    constructor; [apply D; vm_compute; reflexivity|constructor].
  - split; [reflexivity|]. intros C. discriminate C.
  - exists it, it'. split; [exact E1|]. split; [exact E2|exact K].
Qed.

(* ------------------------------------------------------------------ *)
(** * 3. Synonyms: the symbol and the word lex to the same kind *)

Theorem and_symbol_kind r line : scan1 (38 :: 38 :: r) line = Some (mkItem (IToken TLOGICAL_AND LNone) [38; 38] line, r, line).
Proof. reflexivity. Qed.

Theorem or_symbol_kind r line : scan1 (124 :: 124 :: r) line = Some (mkItem (IToken TLOGICAL_OR LNone) [124; 124] line, r, line).
Proof. reflexivity. Qed.

Theorem and_word_kind : word_kind [2447;2476;2434] = TLOGICAL_AND.
Proof. reflexivity. Qed.

Theorem or_word_kind : word_kind [2476;2494] = TLOGICAL_OR.
Proof. reflexivity. Qed.

(** "a && b" / "a এবং b" and "a || b" / "a বা b": the same kinds, literals and lines *)
Definition sig3 (t : token) := (tk t, tlit t, tline t).

Example and_synonym :
  map sig3 (lx_tokens (lex [97;32;38;38;32;98])) = map sig3 (lx_tokens (lex [97;32;2447;2476;2434;32;98])) /\
  map tk (lx_tokens (lex [97;32;38;38;32;98])) = [TIDENTIFIER; TLOGICAL_AND; TIDENTIFIER].
Proof. vm_compute. split; reflexivity. Qed.

Example or_synonym :
  map sig3 (lx_tokens (lex [97;32;124;124;32;98])) = map sig3 (lx_tokens (lex [97;32;2476;2494;32;98])) /\
  map tk (lx_tokens (lex [97;32;124;124;32;98])) = [TIDENTIFIER; TLOGICAL_OR; TIDENTIFIER].
Proof. vm_compute. split; reflexivity. Qed.

(* ------------------------------------------------------------------ *)
(** * small list facts about scopes (kept local: no dependency on the scope-law files) *)

Lemma nth_set_nth_same {A} (x : A) : forall l n, (n < length l)%nat -> nth_error (set_nth n x l) n = Some x.
Proof.
  induction l as [|y l IH]; intros n H; simpl in H; [lia|].
  destruct n as [|n]; simpl; [reflexivity|]. apply IH. lia.
Qed.

Lemma nth_set_nth_other {A} (x : A) : forall l n m, m <> n -> nth_error (set_nth n x l) m = nth_error l m.
Proof.
  induction l as [|y l IH]; intros n m H; simpl; [destruct n; reflexivity|].
  destruct n as [|n], m as [|m]; simpl; try reflexivity; [exfalso; apply H; reflexivity|].
  apply IH. intros C. apply H. f_equal. exact C.
Qed.

Lemma set_nth_len {A} (x : A) : forall l n, length (set_nth n x l) = length l.
Proof. induction l as [|y l IH]; intros n; [destruct n; reflexivity|]. destruct n; simpl; [reflexivity|]. f_equal. apply IH. Qed.

Lemma str_eqb_true_eq : forall a b : list N, str_eqb a b = true -> a = b.
Proof.
  induction a as [|x a IHa]; intros [|y b] Hab; simpl in Hab; try discriminate Hab; [reflexivity|].
  apply andb_prop in Hab. destruct Hab as (H1 & H2). apply N.eqb_eq in H1. subst y. f_equal. apply IHa. exact H2.
Qed.

Lemma str_eqb_same : forall a : list N, str_eqb a a = true.
Proof. induction a as [|x a IHa]; simpl; [reflexivity|]. rewrite N.eqb_refl. exact IHa. Qed.

Lemma assoc_set_other {A} k (v : A) : forall l k', str_eqb k' k = false -> assoc k' (alist_set k v l) = assoc k' l.
Proof.
  induction l as [|[k0 v0] l IH]; intros k' H; simpl.
  - rewrite H. reflexivity.
  - destruct (str_eqb k k0) eqn:E; simpl.
    + destruct (str_eqb k' k0) eqn:E2; [|reflexivity].
      exfalso. apply str_eqb_true_eq in E. apply str_eqb_true_eq in E2. subst k0 k'.
      rewrite str_eqb_same in H. discriminate H.
    + destruct (str_eqb k' k0); [reflexivity|]. apply IH. exact H.
Qed.

Lemma assoc_set_same {A} k (v : A) : forall l, assoc k (alist_set k v l) = Some v.
Proof.
  induction l as [|[k0 v0] l IH]; simpl.
  - rewrite str_eqb_same. reflexivity.
  - destruct (str_eqb k k0) eqn:E; simpl; rewrite E; [reflexivity|exact IH].
Qed.

Section Inv.
Variable libm : N -> f64 -> f64 -> f64.
Variable clock : f64.
Variable sched : N -> list (list N * value) -> list (list N * value).

Notation eval := (Eval.eval libm clock sched).
Notation eval_list := (Eval.eval_list libm clock sched).
Notation eval_props := (Eval.eval_props libm clock sched).
Notation exec := (Eval.exec libm clock sched).
Notation exec_var := (Eval.exec_var libm clock sched).
Notation exec_vars := (Eval.exec_vars libm clock sched).
Notation exec_list := (Eval.exec_list libm clock sched).
Notation exec_while := (Eval.exec_while libm clock sched).
Notation exec_for := (Eval.exec_for libm clock sched).
Notation run_stmts := (Eval.run_stmts libm clock sched).

(* ------------------------------------------------------------------ *)
(** * 4. Parentheses are transparent *)

Theorem group_transparent f e line rho s : eval (S f) (EGroup e line) rho s = eval f e rho s.
Proof. apply EvalOrder.group_transparent. Qed.

(** whatever [e] evaluates to, [(e)] evaluates to, one unit of fuel later *)
Corollary group_same_result f e line rho s r :
  eval f e rho s = r -> r <> Fuel -> eval (S f) (EGroup e line) rho s = r.
Proof. intros E _. rewrite group_transparent. exact E. Qed.

(** up to fuel, [e] and [(e)] have the same results *)
Corollary group_same_result_iff e line rho s r : r <> Fuel ->
  ((exists f, eval f (EGroup e line) rho s = r) <-> (exists f, eval f e rho s = r)).
Proof.
  intros NF. split; intros (f & E).
  - destruct f as [|f]; [rewrite eval_0 in E; exfalso; apply NF; symmetry; exact E|].
    rewrite group_transparent in E. eauto.
  - exists (S f). rewrite group_transparent. exact E.
Qed.

(** with one common budget: *)
Corollary group_same_result_mono f e line rho s r :
  eval f (EGroup e line) rho s = r -> r <> Fuel -> eval f e rho s = r.
Proof.
  intros E NF. destruct f as [|f]; [rewrite eval_0 in E; exfalso; apply NF; symmetry; exact E|].
  rewrite group_transparent in E. eapply eval_mono; [|exact E|exact NF]. lia.
Qed.

(* ------------------------------------------------------------------ *)
(** * 6. Dead code *)

(** a conditional whose test is false does not run its then-branch, whatever it is *)
Theorem dead_if_false f rp c t rho s cv s1 :
  eval f c rho s = Ok cv s1 -> truthy cv = false ->
  exec (S f) rp (SIf c t None) rho s = Ok SigNone s1.
Proof. intros E T. rewrite exec_S, E. cbn [bind]. rewrite T. reflexivity. Qed.

Theorem dead_if_false_else f rp c t e' rho s cv s1 :
  eval f c rho s = Ok cv s1 -> truthy cv = false ->
  exec (S f) rp (SIf c t (Some e')) rho s = exec f rp e' rho s1.
Proof. intros E T. rewrite exec_S, E. cbn [bind]. rewrite T. reflexivity. Qed.

(** ... so the then-branch can be replaced by any statement *)
Corollary dead_then_irrelevant f rp c t t' e rho s cv s1 :
  eval f c rho s = Ok cv s1 -> truthy cv = false ->
  exec (S f) rp (SIf c t e) rho s = exec (S f) rp (SIf c t' e) rho s.
Proof. intros E T. rewrite !exec_S, E. cbn [bind]. rewrite T. reflexivity. Qed.

(** and symmetrically for the else-branch of a true test *)
Theorem dead_else_true f rp c t e rho s cv s1 :
  eval f c rho s = Ok cv s1 -> truthy cv = true ->
  exec (S f) rp (SIf c t e) rho s = exec f rp t rho s1.
Proof. intros E T. rewrite exec_S, E. cbn [bind]. rewrite T. reflexivity. Qed.

(** statements after an executed return are not run *)
Theorem dead_after_return rp f ss1 rho s l v s' :
  exec_list f rp ss1 rho s = Ok (SigReturn l v) s' ->
  forall ss2, exec_list f rp (ss1 ++ ss2) rho s = Ok (SigReturn l v) s'.
Proof. intros H ss2. eapply exec_list_skips_after_signal; [exact H|discriminate]. Qed.

(** in particular right after the return statement itself *)
Corollary dead_after_return_stmt rp f kw ve rho s v s' ss2 :
  exec f rp (SReturn kw ve) rho s = Ok (SigReturn kw v) s' ->
  exec_list (S f) rp (SReturn kw ve :: ss2) rho s = Ok (SigReturn kw v) s'.
Proof. intros H. rewrite exec_list_S, H. reflexivity. Qed.

(** Declaring a function only allocates: one closure, one (empty) scope, and the
    binding of its name in the current scope.  Nothing is printed or read, no
    array or object changes, and every other binding of every scope is as before;
    the body is not looked at. *)
Theorem dead_unreferenced_function f rp name ps body rho s b p :
  nth_error (envs s) rho = Some (b, p) ->
  exists s3,
    exec (S f) rp (SFun name ps body) rho s = Ok SigNone s3 /\
    out s3 = out s /\ inp s3 = inp s /\ arrs s3 = arrs s /\ objs s3 = objs s /\ tick s3 = tick s /\
    funs s3 = funs s ++ [mkClo name ps body (length (envs s))] /\
    length (envs s3) = S (length (envs s)) /\
    nth_error (envs s3) (length (envs s)) = Some ([], Some rho) /\
    nth_error (envs s3) rho = Some (alist_set name (VFun (length (funs s))) b, p) /\
    (forall i, i <> rho -> (i < length (envs s))%nat -> nth_error (envs s3) i = nth_error (envs s) i) /\
    env_get_here rho name s3 = Some (Some (VFun (length (funs s)))) /\
    (forall x, str_eqb x name = false -> env_get_here rho x s3 = env_get_here rho x s).
Proof.
  intros E. assert (L : (rho < length (envs s))%nat) by (apply nth_error_Some; rewrite E; discriminate).
  rewrite exec_S. unfold alloc_env, alloc_fun, env_define. cbn [envs funs arrs objs out inp tick].
  rewrite nth_error_app1 by exact L. rewrite E.
  eexists. split; [reflexivity|]. unfold set_envs. cbn [envs funs arrs objs out inp tick].
  assert (L' : (rho < length (envs s ++ [([], Some rho)]))%nat) by (rewrite app_length; simpl; lia).
  repeat (split; [reflexivity|]).
  split; [rewrite set_nth_len, app_length; simpl; lia|].
  split.
  { rewrite nth_set_nth_other by lia. rewrite nth_error_app2 by lia. rewrite Nat.sub_diag. reflexivity. }
  split; [apply nth_set_nth_same; exact L'|].
  split.
  { intros i Hi Hl. rewrite nth_set_nth_other by exact Hi. apply nth_error_app1. exact Hl. }
  unfold env_get_here. cbn [envs]. rewrite (nth_set_nth_same _ _ _ L'), E.
  split; [rewrite assoc_set_same; reflexivity|].
  intros x Hx. rewrite (assoc_set_other _ _ _ _ Hx). reflexivity.
Qed.

(** two declarations that differ only in the body behave alike until the function is called *)
Corollary dead_function_body_irrelevant f rp name ps body body' rho s s3 s3' :
  exec (S f) rp (SFun name ps body) rho s = Ok SigNone s3 ->
  exec (S f) rp (SFun name ps body') rho s = Ok SigNone s3' ->
  envs s3 = envs s3' /\ arrs s3 = arrs s3' /\ objs s3 = objs s3' /\ out s3 = out s3' /\ inp s3 = inp s3' /\
  tick s3 = tick s3' /\ length (funs s3) = length (funs s3').
Proof.
  rewrite !exec_S. unfold alloc_env, alloc_fun, env_define. cbn [envs funs arrs objs out inp tick].
  destruct (nth_error (envs s ++ [([], Some rho)]) rho) as [[b p]|]; [|discriminate].
  intros H H'. inversion H; inversion H'; subst. unfold set_envs. cbn [envs funs arrs objs out inp tick].
  rewrite !app_length. repeat (split; [reflexivity|]). reflexivity.
Qed.

End Inv.

(* ------------------------------------------------------------------ *)
(** * 3b. The parser never looks at the lexeme of a non-identifier token *)

(** two tokens with the same kind, literal and line, and -- for identifiers -- the same lexeme *)
Definition same_sig (t t' : token) : Prop :=
  tk t = tk t' /\ tlit t = tlit t' /\ tline t = tline t' /\ (tk t = TIDENTIFIER -> tlex t = tlex t').

(** a diagnostic without the lexeme it quotes *)
Definition pd_sig (d : pdiag) : N * pkind := (pd_line d, pd_kind d).
Definition sameds (ds ds' : list pdiag) : Prop := map pd_sig ds = map pd_sig ds'.

Lemma sameds_app a a' b b' : sameds a a' -> sameds b b' -> sameds (a ++ b) (a' ++ b').
Proof. unfold sameds. intros H1 H2. rewrite !map_app, H1, H2. reflexivity. Qed.

Lemma sameds_nil : sameds [] [].
Proof. reflexivity. Qed.

(** results related: same shape, related values, related rests, same diagnostics up to lexemes *)
Definition rel {A} (RA : A -> A -> Prop) (r r' : pres A) : Prop :=
  match r, r' with
  | POk a rest ds, POk a' rest' ds' => RA a a' /\ Forall2 same_sig rest rest' /\ sameds ds ds'
  | PErr ds, PErr ds' => sameds ds ds'
  | PFuel, PFuel => True
  | _, _ => False
  end.

Lemma rel_bind {A B} (RA : A -> A -> Prop) (RB : B -> B -> Prop) (r r' : pres A) (k k' : A -> list token -> pres B) :
  rel RA r r' ->
  (forall a a' rest rest', RA a a' -> Forall2 same_sig rest rest' -> rel RB (k a rest) (k' a' rest')) ->
  rel RB (pbind r k) (pbind r' k').
Proof.
  intros H K. destruct r as [a rest ds|ds|], r' as [a' rest' ds'|ds'|]; simpl in H |- *; try contradiction; try exact H.
  destruct H as (Ha & Hr & Hd). specialize (K a a' rest rest' Ha Hr).
  destruct (k a rest) as [b r2 d2|d2|], (k' a' rest') as [b' r2' d2'|d2'|]; simpl in K |- *; try contradiction; try exact I.
  - destruct K as (Kb & Kr & Kd). split; [exact Kb|]. split; [exact Kr|]. apply sameds_app; assumption.
  - apply sameds_app; assumption.
Qed.

Lemma rel_ok {A} (RA : A -> A -> Prop) a a' r r' : RA a a' -> Forall2 same_sig r r' -> rel RA (POk a r []) (POk a' r' []).
Proof. intros H1 H2. simpl. split; [exact H1|]. split; [exact H2|reflexivity]. Qed.

Lemma Forall2_tl_sig r r' : Forall2 same_sig r r' -> Forall2 same_sig (tl r) (tl r').
Proof. intros H. destruct H; simpl; [constructor|assumption]. Qed.

Lemma same_sig_refl t : same_sig t t.
Proof. unfold same_sig. auto. Qed.

Lemma same_sig_sym t t' : same_sig t t' -> same_sig t' t.
Proof.
  intros (H1 & H2 & H3 & H4). unfold same_sig.
  split; [symmetry; exact H1|]. split; [symmetry; exact H2|]. split; [symmetry; exact H3|].
  intros K. symmetry. apply H4. rewrite H1. exact K.
Qed.

Section Lexeme.
Variable eofl : N.

Notation pexpr := (Parser.pexpr eofl).
Notation plevel := (Parser.plevel eofl).
Notation ploop := (Parser.ploop eofl).
Notation punary := (Parser.punary eofl).
Notation pcallloop := (Parser.pcallloop eofl).
Notation pargs := (Parser.pargs eofl).
Notation pprimary := (Parser.pprimary eofl).
Notation pprops := (Parser.pprops eofl).
Notation pvardecls := (Parser.pvardecls eofl).
Notation pparams := (Parser.pparams eofl).
Notation pdecl := (Parser.pdecl eofl).
Notation pstmt := (Parser.pstmt eofl).
Notation pblock := (Parser.pblock eofl).
Notation pprogram := (Parser.pprogram eofl).
Notation pvar := (Parser.pvar eofl).
Notation pexprstmt := (Parser.pexprstmt eofl).
Notation consume := (Parser.consume eofl).
Notation consume_lenient := (Parser.consume_lenient eofl).
Notation perr_at := (Parser.perr_at eofl).
Notation diag_at := (Parser.diag_at eofl).
Notation peek_line := (Parser.peek_line eofl).

Lemma check_sig k r r' : Forall2 same_sig r r' -> check k r' = check k r.
Proof. intros H. destruct H as [|t t' r r' (Hk & _) _]; simpl; [reflexivity|]. rewrite Hk. reflexivity. Qed.

Lemma peek_line_sig r r' : Forall2 same_sig r r' -> peek_line r' = peek_line r.
Proof. intros H. destruct H as [|t t' r r' (_ & _ & Hn & _) _]; simpl; [reflexivity|]. symmetry. exact Hn. Qed.

Lemma diag_at_sig k r r' : Forall2 same_sig r r' -> pd_sig (diag_at r k) = pd_sig (diag_at r' k).
Proof. intros H. destruct H as [|t t' r r' (_ & _ & Hn & _) _]; simpl; [reflexivity|]. unfold pd_sig. simpl. rewrite Hn. reflexivity. Qed.

Lemma rel_perr_at {A} (RA : A -> A -> Prop) k r r' : Forall2 same_sig r r' -> rel RA (perr_at r k) (perr_at r' k).
Proof. intros H. unfold Parser.perr_at. simpl. unfold sameds. simpl. rewrite (diag_at_sig k r r' H). reflexivity. Qed.

Lemma rel_consume k pk r r' : Forall2 same_sig r r' ->
  rel (fun t t' => same_sig t t' /\ tk t = k) (consume k pk r) (consume k pk r').
Proof.
  intros H. pose proof (rel_perr_at (fun t t' => same_sig t t' /\ tk t = k) pk r r' H) as E.
  destruct H as [|t t' r r' Ht Hr]; [exact E|].
  unfold Parser.consume. pose proof Ht as (Hk & _). rewrite <- Hk.
  destruct (tkind_eqb (tk t) k) eqn:K; [|exact E].
  simpl. split; [|split; [exact Hr|reflexivity]]. split; [exact Ht|].
  unfold tkind_eqb in K. apply N.eqb_eq in K.
  destruct (tk t), k; try reflexivity; discriminate K.
Qed.

Lemma rel_lenient {A} k pk (a : A) r r' : Forall2 same_sig r r' ->
  rel eq (let '(r2, ds) := consume_lenient k pk r in POk a r2 ds)
         (let '(r2, ds) := consume_lenient k pk r' in POk a r2 ds).
Proof.
  intros H. pose proof (diag_at_sig pk r r' H) as D.
  destruct H as [|t t' r r' Ht Hr]; simpl.
  - split; [reflexivity|]. split; [constructor|reflexivity].
  - pose proof Ht as (Hk & _). rewrite <- Hk. destruct (tkind_eqb (tk t) k).
    + split; [reflexivity|]. split; [exact Hr|reflexivity].
    + split; [reflexivity|]. split; [constructor; assumption|]. unfold sameds. simpl. simpl in D. rewrite D. reflexivity.
Qed.


(** open a [same_sig] fact: rewrite the fields of the primed token into those of the other *)
Ltac open_sig Ht :=
  let Hk := fresh "Hk" in let Hl := fresh "Hl" in let Hn := fresh "Hn" in let Hx := fresh "Hx" in
  pose proof Ht as (Hk & Hl & Hn & Hx);
  rewrite <- ?Hk, <- ?Hl, <- ?Hn.

Ltac ident_fix :=
  repeat match goal with
  | Hx : tk ?t = TIDENTIFIER -> tlex ?t = tlex ?t', K : tk ?t = TIDENTIFIER |- _ =>
      rewrite <- ?(Hx K); clear Hx
  | Hx : TIDENTIFIER = TIDENTIFIER -> tlex ?t = tlex ?t' |- _ =>
      rewrite <- ?(Hx eq_refl); clear Hx
  end.

Ltac side := first [ assumption | apply Forall2_tl_sig; assumption | constructor; assumption ].

Ltac use_rests :=
  repeat match goal with
  | HR : Forall2 same_sig ?r ?r' |- context [check ?k ?r'] => rewrite (check_sig k r r' HR)
  | HR : Forall2 same_sig ?r ?r' |- context [peek_line ?r'] => rewrite (peek_line_sig r r' HR)
  end.

Ltac rel_leaf :=
  first
  [ exact I
  | match goal with IH : forall _, _ |- rel _ _ _ => apply IH; side end
  | apply rel_consume; side
  | apply rel_perr_at; side
  | apply rel_lenient; side
  | apply rel_ok; [ first [reflexivity | split; [assumption|reflexivity] ] | side ]
  | solve [ simpl; unfold sameds, pd_sig, diag_tok; simpl; first [reflexivity | congruence] ]
  | solve [ simpl; split; [reflexivity|]; split; [side|]; unfold sameds, pd_sig, diag_tok; simpl; first [reflexivity | congruence] ] ].

(** continuation of a bind: name the related values and rests, normalise the primed side *)
Ltac open_ra HA :=
  first
  [ match type of HA with ?a = ?b => subst b end
  | let Hs := fresh "Hs" in let K := fresh "K" in
    destruct HA as (Hs & K); open_sig Hs; ident_fix ].

Ltac rel_step :=
  cbv zeta;
  match goal with
  | |- rel _ (pbind _ _) (pbind _ _) =>
      let a := fresh "a" in let a' := fresh "a'" in let r := fresh "r" in let r' := fresh "r'" in
      let HA := fresh "HA" in let HR := fresh "HR" in
      first [ eapply rel_bind; [ solve [rel_leaf] | intros a a' r r' HA HR; open_ra HA; use_rests ]
            | eapply (rel_bind eq); [ | intros a a' r r' HA HR; open_ra HA; use_rests ] ]
  | HR : Forall2 same_sig ?x ?y |- rel _ (match ?x with _ => _ end) (match ?y with _ => _ end) =>
      let t := fresh "t" in let t' := fresh "t'" in let r := fresh "r" in let r' := fresh "r'" in
      let Ht := fresh "Ht" in let Hr := fresh "Hr" in
      destruct HR as [|t t' r r' Ht Hr]; [ | open_sig Ht; use_rests ]
  | |- rel _ (match ?x with _ => _ end) (match ?x with _ => _ end) =>
      let K := fresh "K" in destruct x eqn:K; ident_fix
  | |- rel _ (if ?x then _ else _) (if ?x then _ else _) =>
      let K := fresh "K" in destruct x eqn:K; ident_fix
  | |- rel _ _ _ => rel_leaf
  end.

Ltac rel_go := use_rests; repeat rel_step.

Definition ExprRel (f : nat) : Prop :=
  (forall ts ts', Forall2 same_sig ts ts' -> rel eq (pexpr f ts) (pexpr f ts')) /\
  (forall lv ts ts', Forall2 same_sig ts ts' -> rel eq (plevel f lv ts) (plevel f lv ts')) /\
  (forall l lv e ts ts', Forall2 same_sig ts ts' -> rel eq (ploop f l lv e ts) (ploop f l lv e ts')) /\
  (forall ts ts', Forall2 same_sig ts ts' -> rel eq (punary f ts) (punary f ts')) /\
  (forall e ts ts', Forall2 same_sig ts ts' -> rel eq (pcallloop f e ts) (pcallloop f e ts')) /\
  (forall ts ts', Forall2 same_sig ts ts' -> rel eq (pargs f ts) (pargs f ts')) /\
  (forall ts ts', Forall2 same_sig ts ts' -> rel eq (pprimary f ts) (pprimary f ts')) /\
  (forall acc ts ts', Forall2 same_sig ts ts' -> rel eq (pprops f acc ts) (pprops f acc ts')).

Lemma expr_rel_all : forall f, ExprRel f.
Proof.
  induction f as [|f IH].
  - unfold ExprRel. repeat split; intros; exact I.
  - destruct IH as (Ie & Il & Ilo & Iu & Ic & Ia & Ipr & Ipp).
    unfold ExprRel. split; [|split; [|split; [|split; [|split; [|split; [|split]]]]]].
    + intros ts ts' H. rewrite !pexpr_S. rel_go.
    + intros lv ts ts' H. rewrite !plevel_S. rel_go.
    + intros l lv e ts ts' H. rewrite !ploop_S. unfold mk_bin. rel_go.
    + intros ts ts' H. rewrite !punary_S. rel_go.
    + intros e ts ts' H. rewrite !pcallloop_S. rel_go.
    + intros ts ts' H. rewrite !pargs_S. rel_go.
    + intros ts ts' H. rewrite !pprimary_S. rel_go.
    + intros acc ts ts' H. rewrite !pprops_S. rel_go.
Qed.

Lemma pexpr_rel f ts ts' : Forall2 same_sig ts ts' -> rel eq (pexpr f ts) (pexpr f ts').
Proof. apply (expr_rel_all f). Qed.

Lemma pvardecls_rel : forall f l0 ts ts', Forall2 same_sig ts ts' -> rel eq (pvardecls f l0 ts) (pvardecls f l0 ts').
Proof.
  induction f as [|f IH]; intros l0 ts ts' H; [exact I|].
  pose proof (pexpr_rel f) as Ie. specialize (IH l0).
  rewrite !pvardecls_S. rel_go.
Qed.

Lemma pvar_rel f ts ts' : Forall2 same_sig ts ts' -> rel eq (pvar f ts) (pvar f ts').
Proof.
  intros H. pose proof (pvardecls_rel f) as Iv. unfold Parser.pvar. rel_go.
Qed.

Lemma pexprstmt_rel f ts ts' : Forall2 same_sig ts ts' -> rel eq (pexprstmt f ts) (pexprstmt f ts').
Proof.
  intros H. pose proof (pexpr_rel f) as Ie. unfold Parser.pexprstmt. rel_go.
Qed.

Lemma pparams_rel : forall f n ts ts', Forall2 same_sig ts ts' -> rel eq (pparams f n ts) (pparams f n ts').
Proof.
  induction f as [|f IH]; intros n ts ts' H; [exact I|].
  rewrite !pparams_S. rel_go.
Qed.

Definition StmtRel (f : nat) : Prop :=
  (forall ts ts', Forall2 same_sig ts ts' -> rel eq (pdecl f ts) (pdecl f ts')) /\
  (forall ts ts', Forall2 same_sig ts ts' -> rel eq (pstmt f ts) (pstmt f ts')) /\
  (forall ts ts', Forall2 same_sig ts ts' -> rel eq (pblock f ts) (pblock f ts')).

Lemma stmt_rel_all : forall f, StmtRel f.
Proof.
  induction f as [|f IH].
  - unfold StmtRel. repeat split; intros; exact I.
  - destruct IH as (Id & Is & Ib).
    pose proof (pexpr_rel f) as Ie. pose proof (pvar_rel f) as Iv.
    pose proof (pexprstmt_rel f) as Ix. pose proof (pparams_rel f) as Ip.
    unfold StmtRel. split; [|split].
    + intros ts ts' H. rewrite !pdecl_S. rel_go.
    + intros ts ts' H. rewrite !pstmt_S. rel_go.
    + intros ts ts' H. rewrite !pblock_S. rel_go.
Qed.

Lemma pprogram_rel : forall f ts ts', Forall2 same_sig ts ts' -> rel eq (pprogram f ts) (pprogram f ts').
Proof.
  induction f as [|f IH]; intros ts ts' H; [exact I|].
  pose proof (proj1 (stmt_rel_all f)) as Id.
  rewrite !pprogram_S. rel_go.
Qed.

(** The parser never looks at the lexeme of a non-identifier token: on two token lists
    that agree on kind, literal, line (and lexeme for identifiers) every parser
    function returns the same tree, related rests, and the same diagnostics up to the
    lexeme they quote. *)
Theorem pexpr_lexeme_irrelevant f ts ts' :
  Forall2 same_sig ts ts' ->
  match pexpr f ts, pexpr f ts' with
  | POk e rest ds, POk e' rest' ds' => e = e' /\ Forall2 same_sig rest rest' /\ map pd_sig ds = map pd_sig ds'
  | PErr ds, PErr ds' => map pd_sig ds = map pd_sig ds'
  | PFuel, PFuel => True
  | _, _ => False
  end.
Proof. intros H. exact (pexpr_rel f ts ts' H). Qed.

Theorem pprogram_lexeme_irrelevant f ts ts' :
  Forall2 same_sig ts ts' ->
  match pprogram f ts, pprogram f ts' with
  | POk ss rest ds, POk ss' rest' ds' => ss = ss' /\ Forall2 same_sig rest rest' /\ map pd_sig ds = map pd_sig ds'
  | PErr ds, PErr ds' => map pd_sig ds = map pd_sig ds'
  | PFuel, PFuel => True
  | _, _ => False
  end.
Proof. intros H. exact (pprogram_rel f ts ts' H). Qed.

End Lexeme.

Lemma Forall2_len {A B} (R : A -> B -> Prop) l l' : Forall2 R l l' -> length l = length l'.
Proof. induction 1; simpl; [reflexivity|f_equal; assumption]. Qed.

(** at the level of [parse]: the same tree (or none), the same diagnostics up to lexemes *)
Theorem parse_lexeme_irrelevant ts ts' eofl :
  Forall2 same_sig ts ts' ->
  pr_prog (parse ts eofl) = pr_prog (parse ts' eofl) /\
  map pd_sig (pr_diags (parse ts eofl)) = map pd_sig (pr_diags (parse ts' eofl)) /\
  pr_fuel_out (parse ts eofl) = pr_fuel_out (parse ts' eofl).
Proof.
  intros H. unfold parse, parse_fuel. rewrite <- (Forall2_len _ _ _ H).
  pose proof (pprogram_lexeme_irrelevant eofl (40 * (length ts + 2)) ts ts' H) as R.
  destruct (pprogram eofl (40 * (length ts + 2)) ts) as [ss r ds|ds|],
           (pprogram eofl (40 * (length ts + 2)) ts') as [ss' r' ds'|ds'|]; simpl; try contradiction.
  - destruct R as (-> & _ & D). auto.
  - auto.
  - auto.
Qed.

(** a computable sufficient test for [Forall2 same_sig] *)
Definition sig4 (t : token) : tkind * literal * N * list N :=
  (tk t, tlit t, tline t, if tkind_eqb (tk t) TIDENTIFIER then tlex t else []).

Lemma sig4_same_sig : forall ts ts', map sig4 ts = map sig4 ts' -> Forall2 same_sig ts ts'.
Proof.
  induction ts as [|t ts IH]; intros [|t' ts'] H; simpl in H; try discriminate H; constructor.
  - inversion H as [[Hk Hl Hn Hx Hr]]. unfold same_sig. repeat (split; [assumption|]).
    intros K. repeat rewrite <- Hk in Hx. rewrite K in Hx. exact Hx.
  - apply IH. inversion H. reflexivity.
Qed.

Section LexemeRun.
Variable libm : N -> f64 -> f64 -> f64.
Variable clock : f64.
Variable sched : N -> list (list N * value) -> list (list N * value).
Variable fuel : nat.
Notation run_source := (Cli.run_source libm clock sched fuel).

(** Two texts whose token lists agree up to the lexemes of non-identifier tokens (for
    instance [&&] written এবং) run alike: the same result -- state, output, runtime
    diagnostic -- or, if they are rejected, the same syntax diagnostics up to the
    lexeme quoted. *)
Theorem lexeme_irrelevant_run rp a b stdin :
  Forall2 same_sig (lx_tokens (lex a)) (lx_tokens (lex b)) ->
  lx_eof_line (lex a) = lx_eof_line (lex b) ->
  lx_diags (lex a) = [] -> lx_diags (lex b) = [] ->
  match run_source rp a stdin, run_source rp b stdin with
  | RFront ld pd, RFront ld' pd' => ld = [] /\ ld' = [] /\ map pd_sig pd = map pd_sig pd'
  | r, r' => r = r'
  end.
Proof.
  intros HT HE La Lb. unfold Cli.run_source. cbv zeta.
  rewrite !parse_never_out_of_fuel, La, Lb, <- HE.
  destruct (parse_lexeme_irrelevant _ _ (lx_eof_line (lex a)) HT) as (P & D & _).
  rewrite <- P.
  destruct (pr_diags (parse (lx_tokens (lex a)) (lx_eof_line (lex a)))) as [|d pd],
           (pr_diags (parse (lx_tokens (lex b)) (lx_eof_line (lex a)))) as [|d' pd']; simpl in D; try discriminate D.
  - destruct (pr_prog (parse (lx_tokens (lex a)) (lx_eof_line (lex a)))) as [prog|].
    + destruct (Eval.run_stmts libm clock sched fuel rp prog (init_state stdin)); reflexivity.
    + split; [reflexivity|]. split; reflexivity.
  - split; [reflexivity|]. split; [reflexivity|exact D].
Qed.

(** "দেখাও সত্য && মিথ্যা;" and "দেখাও সত্য এবং মিথ্যা;" *)
Definition ex_and_sym : list N :=
  [2470;2503;2454;2494;2451;32;2488;2468;2509;2479;32;38;38;32;2478;2495;2469;2509;2479;2494;59].
Definition ex_and_word : list N :=
  [2470;2503;2454;2494;2451;32;2488;2468;2509;2479;32;2447;2476;2434;32;2478;2495;2469;2509;2479;2494;59].

Example and_synonym_run rp stdin :
  match run_source rp ex_and_sym stdin, run_source rp ex_and_word stdin with
  | RFront ld pd, RFront ld' pd' => ld = [] /\ ld' = [] /\ map pd_sig pd = map pd_sig pd'
  | r, r' => r = r'
  end.
Proof.
  apply lexeme_irrelevant_run.
  - apply sig4_same_sig. vm_compute. reflexivity.
  - vm_compute. reflexivity.
  - vm_compute. reflexivity.
  - vm_compute. reflexivity.
Qed.

End LexemeRun.

(* ------------------------------------------------------------------ *)
(** * 5. Line numbers matter only in diagnostics *)

Definition erase_clo (c : closure) : closure :=
  mkClo (c_name c) (c_params c) (map erase_s (c_body c)) (c_env c).

(** the same store with the line numbers in the stored function bodies erased *)
Definition erase_st (s : state) : state :=
  mkState (envs s) (arrs s) (objs s) (map erase_clo (funs s)) (out s) (inp s) (tick s).

Definition erase_sig (g : signal) : signal :=
  match g with
  | SigNone => SigNone
  | SigBreak _ => SigBreak 0
  | SigContinue _ => SigContinue 0
  | SigReturn _ v => SigReturn 0 v
  end.

(** the same outcome with every line number erased: the line of a diagnostic, the lines in
    the final store's function bodies, and (through [h]) the line carried by a signal *)
Definition erase_res {A} (h : A -> A) (r : res A) : res A :=
  match r with
  | Ok a s => Ok (h a) (erase_st s)
  | Err e _ s => Err e 0 (erase_st s)
  | Fuel => Fuel
  | Stuck => Stuck
  | Crash s => Crash (erase_st s)
  end.

Definition idv {A} (a : A) : A := a.

Lemma erase_bind {A B} (h : A -> A) (g : B -> B) (r : res A) (k k' : A -> state -> res B) :
  (forall a s, k' (h a) (erase_st s) = erase_res g (k a s)) ->
  bind (erase_res h r) k' = erase_res g (bind r k).
Proof. intros H. destruct r; simpl; try reflexivity. apply H. Qed.

(** ** the store primitives commute with erasure *)

Lemma env_lookup_erase n : forall rho x s, env_lookup n rho x (erase_st s) = env_lookup n rho x s.
Proof.
  induction n as [|n IH]; intros rho x s; simpl; [reflexivity|].
  destruct (nth_error (envs s) rho) as [[b p]|]; [|reflexivity].
  destruct (assoc x b); [reflexivity|]. destruct p; [apply IH|reflexivity].
Qed.

Lemma env_get_erase rho x s : env_get rho x (erase_st s) = env_get rho x s.
Proof. unfold env_get. cbn [erase_st envs]. rewrite env_lookup_erase. reflexivity. Qed.

Lemma env_get_here_erase rho x s : env_get_here rho x (erase_st s) = env_get_here rho x s.
Proof. reflexivity. Qed.

Lemma env_define_erase rho x v s :
  env_define rho x v (erase_st s) = option_map erase_st (env_define rho x v s).
Proof. unfold env_define. cbn [erase_st envs]. destruct (nth_error (envs s) rho) as [[b p]|]; reflexivity. Qed.

Lemma env_assign_erase rho x v s :
  env_assign rho x v (erase_st s) = option_map (option_map erase_st) (env_assign rho x v s).
Proof.
  unfold env_assign. cbn [erase_st envs]. rewrite env_lookup_erase.
  destruct (env_lookup (S (length (envs s))) rho x s) as [[[q w]|]|]; try reflexivity.
  rewrite env_define_erase. destruct (env_define q x v s); reflexivity.
Qed.

Lemma bind_params_erase act : forall ps vs s,
  bind_params act ps vs (erase_st s) = option_map erase_st (bind_params act ps vs s).
Proof.
  induction ps as [|p ps IH]; intros vs s; simpl; [reflexivity|].
  destruct vs as [|v vs]; [reflexivity|]. rewrite env_define_erase.
  destruct (env_define act p v s) as [s1|]; simpl; [apply IH|reflexivity].
Qed.

Lemma get_arr_erase l s : get_arr l (erase_st s) = get_arr l s.
Proof. reflexivity. Qed.
Lemma get_obj_erase l s : get_obj l (erase_st s) = get_obj l s.
Proof. reflexivity. Qed.
Lemma get_fun_erase l s : get_fun l (erase_st s) = option_map erase_clo (get_fun l s).
Proof. unfold get_fun. cbn [erase_st funs]. apply nth_error_map. Qed.

Lemma text_in_erase n : forall s v, text_in n (erase_st s) v = text_in n s v.
Proof.
  induction n as [|n IH]; intros s v; [reflexivity|].
  destruct v as [| | | |l|l|l|nv]; cbn [text_in]; try reflexivity.
  - rewrite get_arr_erase. destruct (get_arr l s) as [vs|]; [|reflexivity]. f_equal.
    induction vs as [|v vs IHv]; [reflexivity|].
    destruct vs as [|v2 vs]; [apply IH|]. rewrite IH. destruct (text_in n s v); try reflexivity.
    rewrite IHv. reflexivity.
  - rewrite get_obj_erase. destruct (get_obj l s) as [ps|]; [|reflexivity]. f_equal.
    induction ps as [|[k v] ps IHp]; [reflexivity|].
    destruct ps as [|kv2 ps]; [rewrite IH; reflexivity|]. rewrite IH. destruct (text_in n s v); try reflexivity.
    rewrite IHp. reflexivity.
  - rewrite get_fun_erase. destruct (get_fun l s) as [c|]; reflexivity.
Qed.

Lemma text_of_erase s v : text_of (erase_st s) v = text_of s v.
Proof. unfold text_of, print_fuel. cbn [erase_st arrs objs]. destruct v; try reflexivity; apply text_in_erase. Qed.

Lemma alloc_env_erase p s :
  alloc_env p (erase_st s) = let '(r, s1) := alloc_env p s in (r, erase_st s1).
Proof. reflexivity. Qed.
Lemma alloc_arr_erase vs s :
  alloc_arr vs (erase_st s) = let '(r, s1) := alloc_arr vs s in (r, erase_st s1).
Proof. reflexivity. Qed.
Lemma alloc_obj_erase ps s :
  alloc_obj ps (erase_st s) = let '(r, s1) := alloc_obj ps s in (r, erase_st s1).
Proof. reflexivity. Qed.
Lemma alloc_fun_erase c s :
  alloc_fun (erase_clo c) (erase_st s) = let '(r, s1) := alloc_fun c s in (r, erase_st s1).
Proof. unfold alloc_fun, erase_st. cbn [funs envs arrs objs out inp tick]. rewrite map_length, map_app. reflexivity. Qed.
Lemma set_arr_erase l vs s : set_arr l vs (erase_st s) = erase_st (set_arr l vs s).
Proof. reflexivity. Qed.
Lemma set_obj_erase l ps s : set_obj l ps (erase_st s) = erase_st (set_obj l ps s).
Proof. reflexivity. Qed.
Lemma emit_erase ev s : emit ev (erase_st s) = erase_st (emit ev s).
Proof. reflexivity. Qed.

Section Erase.
Variable libm : N -> f64 -> f64 -> f64.
Variable clock : f64.
Variable sched : N -> list (list N * value) -> list (list N * value).

Notation eval := (Eval.eval libm clock sched).
Notation eval_list := (Eval.eval_list libm clock sched).
Notation eval_props := (Eval.eval_props libm clock sched).
Notation exec := (Eval.exec libm clock sched).
Notation exec_var := (Eval.exec_var libm clock sched).
Notation exec_vars := (Eval.exec_vars libm clock sched).
Notation exec_list := (Eval.exec_list libm clock sched).
Notation exec_while := (Eval.exec_while libm clock sched).
Notation exec_for := (Eval.exec_for libm clock sched).
Notation run_stmts := (Eval.run_stmts libm clock sched).
Notation call_native := (Eval.call_native libm clock sched).
Notation binop := (Eval.binop libm).

Lemma binop_erase s op a b : binop (erase_st s) op a b = binop s op a b.
Proof. reflexivity. Qed.

Definition erase_nres (r : nres) : nres :=
  match r with NOk v s => NOk v (erase_st s) | NFail w => NFail w | NStuck => NStuck end.

Ltac unerase :=
  repeat match goal with
  | |- context [get_arr ?l (erase_st ?s)] => change (get_arr l (erase_st s)) with (get_arr l s)
  | |- context [get_obj ?l (erase_st ?s)] => change (get_obj l (erase_st s)) with (get_obj l s)
  | |- context [inp (erase_st ?s)] => change (inp (erase_st s)) with (inp s)
  | |- context [tick (erase_st ?s)] => change (tick (erase_st s)) with (tick s)
  | |- context [arrs (erase_st ?s)] => change (arrs (erase_st s)) with (arrs s)
  | |- context [objs (erase_st ?s)] => change (objs (erase_st s)) with (objs s)
  | |- context [emit ?e (erase_st ?s)] => change (emit e (erase_st s)) with (erase_st (emit e s))
  end.

Lemma call_native_erase n vs s : call_native n vs (erase_st s) = erase_nres (call_native n vs s).
Proof.
  unfold Eval.call_native, math1, min_max, iterate_sorted, alloc_arr.
  destruct n;
  repeat (cbv beta iota; unerase;
    match goal with
    | |- context [match ?x with _ => _ end] => is_var x; destruct x
    | |- context [match ?x with _ => _ end] => destruct x eqn:?
    end); reflexivity.
Qed.

Lemma native_fail_state_erase n vs s : native_fail_state n vs (erase_st s) = erase_st (native_fail_state n vs s).
Proof.
  unfold native_fail_state. destruct n; try reflexivity.
  repeat match goal with |- context [match ?x with _ => _ end] => destruct x end; reflexivity.
Qed.

Local Notation erase_kv := (fun kv : list N * expr => let '(k, v) := kv in (k, erase_e v)).

Definition erase_at (f : nat) : Prop :=
  (forall e rho s, eval f (erase_e e) rho (erase_st s) = erase_res idv (eval f e rho s)) /\
  (forall es rho s, eval_list f (map erase_e es) rho (erase_st s) = erase_res idv (eval_list f es rho s)) /\
  (forall ps rho s, eval_props f (map erase_kv ps) rho (erase_st s) = erase_res idv (eval_props f ps rho s)) /\
  (forall rp st rho s, exec f rp (erase_s st) rho (erase_st s) = erase_res erase_sig (exec f rp st rho s)) /\
  (forall d rho s, exec_var f (erase_d d) rho (erase_st s) = erase_res erase_sig (exec_var f d rho s)) /\
  (forall ds rho s, exec_vars f (map erase_d ds) rho (erase_st s) = erase_res erase_sig (exec_vars f ds rho s)) /\
  (forall rp ss rho s, exec_list f rp (map erase_s ss) rho (erase_st s) = erase_res erase_sig (exec_list f rp ss rho s)) /\
  (forall rp c b rho s, exec_while f rp (erase_e c) (erase_s b) rho (erase_st s) =
                        erase_res erase_sig (exec_while f rp c b rho s)) /\
  (forall rp c inc b rho s, exec_for f rp (erase_e c) (option_map erase_e inc) (erase_s b) rho (erase_st s) =
                            erase_res erase_sig (exec_for f rp c inc b rho s)).

Ltac er_prims :=
  unerase; cbn [erase_clo c_params c_name c_env c_body]; rewrite ?map_length;
  repeat match goal with
  | |- context [alloc_fun (mkClo ?n ?p (map erase_s ?b) ?c) (erase_st ?s)] =>
      change (alloc_fun (mkClo n p (map erase_s b) c) (erase_st s))
        with (alloc_fun (erase_clo (mkClo n p b c)) (erase_st s))
  end;
  rewrite ?env_get_erase, ?env_assign_erase, ?env_define_erase, ?get_fun_erase, ?text_of_erase,
    ?call_native_erase, ?native_fail_state_erase, ?bind_params_erase, ?alloc_env_erase, ?alloc_arr_erase,
    ?alloc_obj_erase, ?alloc_fun_erase;
  repeat match goal with
  | |- context [binop (erase_st ?s) ?op ?a ?b] => change (binop (erase_st s) op a b) with (binop s op a b)
  | |- context [set_arr ?l ?v (erase_st ?s)] => change (set_arr l v (erase_st s)) with (erase_st (set_arr l v s))
  | |- context [set_obj ?l ?v (erase_st ?s)] => change (set_obj l v (erase_st s)) with (erase_st (set_obj l v s))
  | |- context [env_get_here ?r ?x (erase_st ?s)] => change (env_get_here r x (erase_st s)) with (env_get_here r x s)
  end.

Ltac er_bind :=
  match goal with
  | |- bind (erase_res _ _) _ = erase_res _ (bind _ _) =>
      let a := fresh "a" in let s0 := fresh "s0" in
      apply erase_bind; intros a s0
  end.

Ltac er_match :=
  match goal with
  | |- context [alloc_env ?p ?s] => destruct (alloc_env p s) eqn:?
  | |- context [alloc_arr ?p ?s] => destruct (alloc_arr p s) eqn:?
  | |- context [alloc_obj ?p ?s] => destruct (alloc_obj p s) eqn:?
  | |- context [alloc_fun ?p ?s] => destruct (alloc_fun p s) eqn:?
  | |- context [match option_map _ ?x with _ => _ end] => destruct x eqn:?; cbn [option_map]
  | |- context [erase_nres ?x] => destruct x eqn:?; cbn [erase_nres]
  | |- context [erase_sig ?x] => is_var x; destruct x; cbn [erase_sig]
  | |- context [match ?x with _ => _ end] => is_var x; destruct x
  | |- context [match ?x with _ => _ end] => destruct x eqn:?
  end.

Ltac er_ih := repeat match goal with H : forall _, _ |- _ => rewrite H end.

Ltac er_for :=
  match goal with
  | H : _ |- exec_for _ ?rp (erase_e ?c) (Some (erase_e ?e)) (erase_s ?b) ?rho (erase_st ?s) = _ =>
      exact (H rp c (Some e) b rho s)
  | H : _ |- exec_for _ ?rp (erase_e ?c) None (erase_s ?b) ?rho (erase_st ?s) = _ =>
      exact (H rp c None b rho s)
  end.

Ltac er_go :=
  unfold lift_ores;
  repeat (unfold idv; cbn [bind]; cbv beta iota; er_ih; er_prims; first [reflexivity | er_for | er_bind | er_match]).

Lemma erase_all : forall f, erase_at f.
Proof.
  induction f as [|f IH].
  - unfold erase_at. repeat split; intros; reflexivity.
  - destruct IH as (Hev & Hel & Hep & Hex & Hxv & Hxvs & Hxl & Hxw & Hxf).
    unfold erase_at.
    split; [|split; [|split; [|split; [|split; [|split; [|split; [|split]]]]]]].
    + intros e rho s. destruct e; cbn [erase_e]; rewrite !eval_S; er_go.
    + intros es rho s. destruct es; cbn [map]; rewrite !eval_list_S; er_go.
    + intros ps rho s. destruct ps as [|[k e] ps]; cbn [map]; rewrite !eval_props_S; er_go.
    + intros rp st rho s. destruct st; cbn [erase_s]; rewrite !exec_S; er_go.
    + intros d rho s. destruct d as [[x init] line]; cbn [erase_d]; rewrite !exec_var_S; er_go.
    + intros ds rho s. destruct ds; cbn [map]; rewrite !exec_vars_S; er_go.
    + intros rp ss rho s. destruct ss; cbn [map]; rewrite !exec_list_S; er_go.
    + intros rp c b rho s. rewrite !exec_while_S; er_go.
    + intros rp c inc b rho s. rewrite !exec_for_S; er_go.
Qed.

Lemma run_stmts_erase f rp : forall p s,
  run_stmts f rp (map erase_s p) (erase_st s) = erase_res idv (run_stmts f rp p s).
Proof.
  destruct (erase_all f) as (_ & _ & _ & Hex & _).
  induction p as [|st p IHp]; intros s; simpl; [reflexivity|].
  rewrite Hex. apply erase_bind. intros sig s0. destruct sig; cbn [erase_sig]; try reflexivity. apply IHp.
Qed.

Lemma erase_st_init stdin : erase_st (init_state stdin) = init_state stdin.
Proof. reflexivity. Qed.

(** Evaluation reads line numbers only to put them into diagnostics (and into the
    signals that become the stray-break/continue/return diagnostics): running the
    tree with all line fields erased, in the store with the stored function bodies
    erased, gives the same outcome -- same kind, same value, same output, input and
    store, same error kind -- with line 0 in place of every line. *)
Theorem lines_only_in_diagnostics f :
  (forall e rho s, eval f (erase_e e) rho (erase_st s) = erase_res idv (eval f e rho s)) /\
  (forall rp st rho s, exec f rp (erase_s st) rho (erase_st s) = erase_res erase_sig (exec f rp st rho s)) /\
  (forall rp p s, run_stmts f rp (map erase_s p) (erase_st s) = erase_res idv (run_stmts f rp p s)).
Proof.
  destruct (erase_all f) as (Hev & _ & _ & Hex & _).
  split; [exact Hev|]. split; [exact Hex|]. intros rp p s. apply run_stmts_erase.
Qed.

(** readable forms for expressions *)
Corollary erased_eval_ok f e rho s v s1 :
  eval f e rho s = Ok v s1 -> eval f (erase_e e) rho (erase_st s) = Ok v (erase_st s1).
Proof. intros H. destruct (erase_all f) as (Hev & _). rewrite Hev, H. reflexivity. Qed.

Corollary erased_eval_err f e rho s er l s1 :
  eval f e rho s = Err er l s1 -> eval f (erase_e e) rho (erase_st s) = Err er 0 (erase_st s1).
Proof. intros H. destruct (erase_all f) as (Hev & _). rewrite Hev, H. reflexivity. Qed.

(** what two outcomes have in common when they are equal after erasure *)
Definition same_but_lines {A} (r r' : res A) : Prop :=
  match r, r' with
  | Ok a s, Ok a' s' => a = a' /\ erase_st s = erase_st s'
  | Err e _ s, Err e' _ s' => e = e' /\ erase_st s = erase_st s'
  | Crash s, Crash s' => erase_st s = erase_st s'
  | Fuel, Fuel => True
  | Stuck, Stuck => True
  | _, _ => False
  end.

Lemma erase_res_same {A} (r r' : res A) : erase_res idv r = erase_res idv r' -> same_but_lines r r'.
Proof.
  destruct r, r'; unfold idv; simpl; intros H; try discriminate H; try exact I;
    remember (erase_st s) as x eqn:Ex; remember (erase_st s0) as y eqn:Ey; inversion H; auto.
Qed.

Lemma erase_st_obs s s' : erase_st s = erase_st s' ->
  out s = out s' /\ inp s = inp s' /\ envs s = envs s' /\ arrs s = arrs s' /\ objs s = objs s' /\ tick s = tick s' /\
  length (funs s) = length (funs s').
Proof.
  intros H.
  split; [exact (f_equal out H)|]. split; [exact (f_equal inp H)|]. split; [exact (f_equal envs H)|].
  split; [exact (f_equal arrs H)|]. split; [exact (f_equal objs H)|]. split; [exact (f_equal tick H)|].
  pose proof (f_equal (fun x => length (funs x)) H) as L. cbn [erase_st funs] in L.
  rewrite !map_length in L. exact L.
Qed.

(** Two programs that differ only in line fields behave alike: the same kind of outcome,
    the same output, the same unread input, the same store up to the lines in stored
    function bodies, the same error kind; only the line of the diagnostic may differ. *)
Theorem lines_only_in_diagnostics_prog f rp p q stdin :
  map erase_s p = map erase_s q ->
  same_but_lines (run_stmts f rp p (init_state stdin)) (run_stmts f rp q (init_state stdin)).
Proof.
  intros H. apply erase_res_same.
  rewrite <- !run_stmts_erase, H. reflexivity.
Qed.

End Erase.

Print Assumptions layout_tokens_upto_lines.
Print Assumptions scan1_number_script_invariant.
Print Assumptions pprogram_lexeme_irrelevant.
Print Assumptions lexeme_irrelevant_run.
Print Assumptions group_same_result_iff.
Print Assumptions dead_unreferenced_function.
Print Assumptions lines_only_in_diagnostics.
Print Assumptions lines_only_in_diagnostics_prog.
