(** Layout invariance of the scanner (property C18a): inserting a blank (32, 9, 13) or a
    newline (10) at an item boundary changes neither the tokens (kind, lexeme, literal)
    nor the kinds of the diagnostics; only line numbers may move.

    Scheme: [scan1] is the relation [step] ([LexerFacts.scan1_iff]).  Three per-step lemmas:
    - [step_line_indep]: kind, text and rest of a step do not depend on the line counter;
    - [step_local]: a step that stopped before a non-empty follower [c :: t] is unchanged when
      [t] is replaced by [t2] (only condition: [t2] may start with a digit only if [t] does --
      the two-character look-ahead of the fraction point);
    - [step_insert_ws_stable] / [step_insert_ws_open]: a blank put right after an item leaves
      the item unchanged, except that a line comment (for 32/9/13) and an unterminated
      string/comment absorb it -- these are not tokens and keep their kind.
    Then an induction over the items before the insertion point. *)
From Borno Require Import Base Num Unicode Token Lexer.
From Borno.Proofs Require Import LexerFacts.
Open Scope N_scope.

Arguments is_alpha : simpl never.
Arguments is_digit : simpl never.
Arguments is_alnum : simpl never.
Arguments literal_value : simpl never.
Arguments keyword_of : simpl never.
Arguments two_char : simpl never.
Arguments one_char : simpl never.
Arguments count_nl : simpl never.

(* ------------------------------------------------------------------ *)
(** * What is observed of an item list: tokens without lines, diagnostic kinds *)

Definition strip (t : token) : tkind * list N * literal := (tk t, tlex t, tlit t).

Definition obs1 (it : item) : list ((tkind * list N * literal) + lexdiag) :=
  match ik it with
  | IToken k l => [inl (k, itext it, l)]
  | IBad d => [inr d]
  | _ => []
  end.

Definition obs (its : list item) : list ((tkind * list N * literal) + lexdiag) := flat_map obs1 its.

Lemma obs_cons it its : obs (it :: its) = obs1 it ++ obs its.
Proof. reflexivity. Qed.

Lemma obs_app a b : obs (a ++ b) = obs a ++ obs b.
Proof. apply flat_map_app. Qed.

Lemma obs1_same it it' : ik it' = ik it -> (forall k l, ik it <> IToken k l) -> obs1 it' = obs1 it.
Proof. unfold obs1. intros E NT. rewrite E. destruct (ik it) as [k l| | | | |d]; try reflexivity. destruct (NT k l eq_refl). Qed.

Lemma strip_tokens_obs its :
  map strip (tokens_of its) = flat_map (fun o => match o with inl t => [t] | inr _ => [] end) (obs its).
Proof.
  induction its as [|it its IH]; [reflexivity|]. rewrite obs_cons, flat_map_app, <- IH. simpl.
  unfold token_of_item, obs1. destruct (ik it); reflexivity.
Qed.

Lemma diag_kinds_obs its :
  map snd (lexdiags_of its) = flat_map (fun o => match o with inl _ => [] | inr d => [d] end) (obs its).
Proof.
  induction its as [|it its IH]; [reflexivity|]. rewrite obs_cons, flat_map_app, <- IH. simpl.
  unfold diag_of_item, obs1. destruct (ik it); reflexivity.
Qed.

(* ------------------------------------------------------------------ *)
(** * Small look-ahead facts *)

Lemma two_look_digit c r : is_digit c = true -> two_look c r = None.
Proof.
  intros HD. unfold two_look. destruct r as [|d r]; [reflexivity|]. destruct (two_char c d) as [k|] eqn:E; [|reflexivity].
  destruct (two_char_chars _ _ _ E) as [Hc _]. simpl in Hc.
  repeat (destruct Hc as [Hc|Hc]; [subst c; vm_compute in HD; discriminate HD|]). contradiction.
Qed.

Lemma two_look_alpha c r : is_alpha c = true -> two_look c r = None.
Proof.
  intros HA. unfold two_look. destruct r as [|d r]; [reflexivity|]. destruct (two_char c d) as [k|] eqn:E; [|reflexivity].
  rewrite (two_char_not_alpha _ _ _ E) in HA. discriminate.
Qed.

Lemma two_look_hd c d t t2 : two_look c (d :: t) = None -> two_look c (d :: t2) = None.
Proof. unfold two_look. destruct (two_char c d); [discriminate|reflexivity]. Qed.

Lemma two_look_ws c w r : is_ws w -> two_look c (w :: r) = None.
Proof. intros W. unfold two_look. destruct (ws_facts w W) as (_ & _ & _ & _ & _ & _ & _ & T). rewrite T. reflexivity. Qed.

(** the number look-ahead ([span is_digit] then [frac]) depends only on the follower's first
    character and on whether its second one is a digit *)
Lemma num_local r ds rest0 fs c0 t t2 :
  span is_digit r = (ds, rest0) -> frac rest0 = (fs, c0 :: t) -> (dig_hd t2 = true -> dig_hd t = true) ->
  span is_digit (ds ++ fs ++ c0 :: t2) = (ds, fs ++ c0 :: t2) /\ frac (fs ++ c0 :: t2) = (fs, c0 :: t2).
Proof.
  intros ES EF HT. pose proof (span_forallb _ _ _ _ ES) as SF. pose proof (span_rest_hd _ _ _ _ ES) as SR.
  destruct (frac_spec _ _ _ EF) as (FA & [(-> & FN)|(e & more & -> & HF & HR)]).
  - simpl in FA. subst rest0. simpl app. split.
    + apply span_intro; [exact SF|exact SR].
    + apply frac_none. intros e t' Heq. inv_some Heq.
      destruct (is_digit e) eqn:De; [|reflexivity].
      assert (HT' : dig_hd t = true) by (apply HT; exact De).
      destruct t as [|e' t'']; [discriminate HT'|]. simpl in HT'.
      rewrite (FN e' t'' eq_refl) in HT'. discriminate.
  - split.
    + apply span_intro; [exact SF|]. reflexivity.
    + change ((46 :: e :: more) ++ c0 :: t2) with (46 :: (e :: more) ++ c0 :: t2). apply frac_some; [exact HF|exact HR].
Qed.

Lemma num_insert_ws r ds rest0 fs rest' w :
  span is_digit r = (ds, rest0) -> frac rest0 = (fs, rest') -> is_ws w ->
  span is_digit (ds ++ fs ++ w :: rest') = (ds, fs ++ w :: rest') /\ frac (fs ++ w :: rest') = (fs, w :: rest').
Proof.
  intros ES EF W. pose proof (span_forallb _ _ _ _ ES) as SF.
  destruct (ws_facts w W) as (_ & WD & _ & W46 & _).
  destruct (frac_spec _ _ _ EF) as (FA & [(-> & FN)|(e & more & -> & HF & HR)]).
  - simpl app. split.
    + apply span_intro; [exact SF|exact WD].
    + apply frac_none. intros e t' Heq. inv_some Heq. discriminate W46.
  - split.
    + apply span_intro; [exact SF|]. reflexivity.
    + change ((46 :: e :: more) ++ w :: rest') with (46 :: (e :: more) ++ w :: rest'). apply frac_some; [exact HF|exact WD].
Qed.

(* ------------------------------------------------------------------ *)
(** * The line counter does not influence what is scanned *)

Lemma step_line_indep l line1 it rest line1' : step l line1 it rest line1' ->
  forall line2, exists il line2', step l line2 (mkItem (ik it) (itext it) il) rest line2'.
Proof.
  intros S line2. destruct S; cbn [ik itext]; eexists _, _; econstructor; eassumption.
Qed.

Lemma scan_all_obs_line_indep : forall n l, (length l <= n)%nat -> forall line1 line2,
  obs (fst (scan_all l line1)) = obs (fst (scan_all l line2)).
Proof.
  induction n as [|n IH]; intros l HL line1 line2.
  - destruct l; [reflexivity|simpl in HL; lia].
  - destruct (scan1 l line1) as [[[it rest] line1']|] eqn:E.
    + pose proof (scan1_shorter _ _ _ _ _ E) as HS.
      apply scan1_step_rel in E. destruct (step_line_indep _ _ _ _ _ E line2) as (il & line2' & S2).
      apply step_scan1 in E. apply step_scan1 in S2.
      destruct (scan_all_step _ _ _ _ _ E) as [-> _]. destruct (scan_all_step _ _ _ _ _ S2) as [-> _].
      rewrite !obs_cons. rewrite (IH rest ltac:(lia) line1' line2'). reflexivity.
    + apply scan1_none in E. subst l. reflexivity.
Qed.

Lemma obs_line_indep l line1 line2 : obs (fst (scan_all l line1)) = obs (fst (scan_all l line2)).
Proof. apply (scan_all_obs_line_indep (length l)). lia. Qed.

(* ------------------------------------------------------------------ *)
(** * Locality of a step *)

(** A step that stopped in front of [c :: t] stops in the same way in front of [c :: t2]. *)
Lemma step_local l line it rest line' : step l line it rest line' ->
  forall c t t2, rest = c :: t -> (dig_hd t2 = true -> dig_hd t = true) ->
  step (itext it ++ c :: t2) line it (c :: t2) line'.
Proof.
  intros S. destruct S as
    [ r line | c r line H10 HB | r' body rest line ES | r' body rest line EC | r' line EC
    | r line HS | r body rest' line ES | r body line ES
    | c d r' k line P ET | c r k line P E2 E1
    | c r ds rest fs rest' v line P E2 E1 ED ES EF EV
    | c r ds rest fs rest' line P E2 E1 ED ES EF EV
    | c r cs rest line P E2 E1 ED EA ES
    | c r line P E2 E1 ED EA ]; intros c0 t t2 HR HT; cbn [itext]; try discriminate HR; subst.
  - apply St_newline.
  - apply St_blank; assumption.
  - simpl app. apply St_linecomment. apply span_intro; [eapply span_forallb; exact ES|].
    exact (span_rest_hd _ _ _ _ ES).
  - simpl app. apply St_blockcomment. eapply block_comment_local; exact EC.
  - apply St_slash. exact HS.
  - simpl app. rewrite <- app_assoc. apply St_string. simpl app.
    apply span_intro; [eapply span_forallb; exact ES|reflexivity].
  - apply St_two; assumption.
  - apply St_one; [assumption| |assumption]. eapply two_look_hd; exact E2.
  - destruct (num_local _ _ _ _ _ _ t2 ES EF HT) as [S1 S2].
    rewrite <- app_assoc. simpl app. eapply St_number; try eassumption. apply two_look_digit; exact ED.
  - destruct (num_local _ _ _ _ _ _ t2 ES EF HT) as [S1 S2].
    rewrite <- app_assoc. simpl app. eapply St_badnumber; try eassumption. apply two_look_digit; exact ED.
  - simpl app. apply St_word; try assumption; [apply two_look_alpha; exact EA|].
    apply span_intro; [eapply span_forallb; exact ES|]. exact (span_rest_hd _ _ _ _ ES).
  - apply St_badchar; try assumption. eapply two_look_hd; exact E2.
Qed.

Lemma scan1_local x c t t2 line it line' :
  scan1 (x ++ c :: t) line = Some (it, c :: t, line') -> (dig_hd t2 = true -> dig_hd t = true) ->
  scan1 (x ++ c :: t2) line = Some (it, c :: t2, line').
Proof.
  intros H HT. destruct (scan1_step _ _ _ _ _ H) as (P & _). apply app_inv_tail in P. subst x.
  apply step_scan1. eapply step_local; [apply scan1_step_rel; exact H|reflexivity|exact HT].
Qed.

(* ------------------------------------------------------------------ *)
(** * A blank or newline right after an item *)

(** items that absorb what follows them *)
Definition absorbs (it : item) (w : N) : Prop :=
  (ik it = ILineComment /\ w <> 10) \/ ik it = IBad LexUnterminatedString \/ ik it = IBad LexUnterminatedComment.

(** the key step lemma: every other item is unchanged, the blank becomes the next thing to scan *)
Lemma step_insert_ws_stable l line it rest line' w : step l line it rest line' -> is_ws w -> ~ absorbs it w ->
  step (itext it ++ w :: rest) line it (w :: rest) line'.
Proof.
  intros S W NA. destruct (ws_facts w W) as (WAN & WD & WA & W46 & W47 & W42 & W34 & WT).
  destruct S as
    [ r line | c r line H10 HB | r' body rest line ES | r' body rest line EC | r' line EC
    | r line HS | r body rest' line ES | r body line ES
    | c d r' k line P ET | c r k line P E2 E1
    | c r ds rest fs rest' v line P E2 E1 ED ES EF EV
    | c r ds rest fs rest' line P E2 E1 ED ES EF EV
    | c r cs rest line P E2 E1 ED EA ES
    | c r line P E2 E1 ED EA ]; cbn [itext].
  - apply St_newline.
  - apply St_blank; assumption.
  - assert (w = 10) as ->.
    { destruct (N.eq_dec w 10) as [e|ne]; [exact e|]. exfalso. apply NA. left. split; [reflexivity|exact ne]. }
    simpl app. apply St_linecomment. apply span_intro; [eapply span_forallb; exact ES|reflexivity].
  - simpl app. apply St_blockcomment. eapply block_comment_local; exact EC.
  - exfalso. apply NA. right. right. reflexivity.
  - apply St_slash. split; assumption.
  - simpl app. rewrite <- app_assoc. apply St_string. simpl app.
    apply span_intro; [eapply span_forallb; exact ES|reflexivity].
  - exfalso. apply NA. right. left. reflexivity.
  - apply St_two; assumption.
  - apply St_one; [assumption| |assumption]. apply two_look_ws; exact W.
  - destruct (num_insert_ws _ _ _ _ _ w ES EF W) as [S1 S2].
    rewrite <- app_assoc. simpl app. eapply St_number; try eassumption. apply two_look_digit; exact ED.
  - destruct (num_insert_ws _ _ _ _ _ w ES EF W) as [S1 S2].
    rewrite <- app_assoc. simpl app. eapply St_badnumber; try eassumption. apply two_look_digit; exact ED.
  - simpl app. apply St_word; try assumption; [apply two_look_alpha; exact EA|].
    apply span_intro; [eapply span_forallb; exact ES|exact WAN].
  - apply St_badchar; try assumption. apply two_look_ws; exact W.
Qed.

(** the absorbing items take the blank into their own text and keep their kind (none is a token) *)
Lemma step_insert_ws_open l line it rest line' w : step l line it rest line' -> is_ws w -> absorbs it w ->
  exists il line'', step (itext it ++ w :: rest) line (mkItem (ik it) (itext it ++ [w]) il) rest line''.
Proof.
  intros S W A. destruct (ws_facts w W) as (WAN & WD & WA & W46 & W47 & W42 & W34 & WT).
  destruct S as
    [ r line | c r line H10 HB | r' body rest line ES | r' body rest line EC | r' line EC
    | r line HS | r body rest' line ES | r body line ES
    | c d r' k line P ET | c r k line P E2 E1
    | c r ds rest fs rest' v line P E2 E1 ED ES EF EV
    | c r ds rest fs rest' line P E2 E1 ED ES EF EV
    | c r cs rest line P E2 E1 ED EA ES
    | c r line P E2 E1 ED EA ]; cbn [itext ik] in *;
    try (exfalso; destruct A as [[A _]|[A|A]]; discriminate A).
  - destruct A as [[_ A]|[A|A]]; try discriminate A.
    eexists _, _. simpl app. replace (body ++ w :: rest) with ((body ++ [w]) ++ rest) by (rewrite <- app_assoc; reflexivity).
    apply St_linecomment. apply span_intro.
    + rewrite forallb_app. rewrite (span_forallb _ _ _ _ ES). simpl. unfold not_nl.
      destruct (N.eqb_spec w 10) as [e|_]; [contradiction|reflexivity].
    + exact (span_rest_hd _ _ _ _ ES).
  - eexists _, _. simpl app. apply St_untermcomment. apply block_comment_none_snoc; assumption.
  - eexists _, _. simpl app. apply St_untermstring.
    rewrite <- (app_nil_r (body ++ [w])) at 1. apply span_intro; [|exact I].
    rewrite forallb_app. rewrite (span_forallb _ _ _ _ ES). simpl. unfold not_quote. rewrite W34. reflexivity.
Qed.

Lemma absorbs_dec it w : absorbs it w \/ ~ absorbs it w.
Proof.
  unfold absorbs. destruct (ik it) as [k l| | | | |d].
  - right. intros [[A _]|[A|A]]; discriminate A.
  - right. intros [[A _]|[A|A]]; discriminate A.
  - right. intros [[A _]|[A|A]]; discriminate A.
  - destruct (N.eq_dec w 10) as [e|ne]; [right; intros [[_ A]|[A|A]]; [contradiction|discriminate A|discriminate A]|left; left; auto].
  - right. intros [[A _]|[A|A]]; discriminate A.
  - destruct d; [right; intros [[A _]|[A|A]]; discriminate A|right; intros [[A _]|[A|A]]; discriminate A|auto|auto].
Qed.

Lemma absorbs_not_token it w : absorbs it w -> forall k l, ik it <> IToken k l.
Proof. intros [[A _]|[A|A]] k l; rewrite A; discriminate. Qed.

(** the step lemma in the form of the task: a complete (non-absorbing) item followed by [r]
    is scanned identically when a blank or newline is put between it and [r] *)
Theorem scan1_insert_ws x r w line it line' :
  scan1 (x ++ r) line = Some (it, r, line') -> is_ws w -> ~ absorbs it w ->
  scan1 (x ++ w :: r) line = Some (it, w :: r, line').
Proof.
  intros H W NA. destruct (scan1_step _ _ _ _ _ H) as (P & _). apply app_inv_tail in P. subst x.
  apply step_scan1. eapply step_insert_ws_stable; [apply scan1_step_rel; exact H|exact W|exact NA].
Qed.

(** scanning the inserted character itself *)
Lemma scan1_ws w b line : is_ws w -> exists it lw, scan1 (w :: b) line = Some (it, b, lw) /\ obs1 it = [].
Proof.
  intros [->|[->|[->| ->]]]; eexists _, _; (split; [reflexivity|reflexivity]).
Qed.

(* ------------------------------------------------------------------ *)
(** * Layout invariance *)

Theorem layout_scan w : is_ws w -> forall ia ib a b line,
  fst (scan_all (a ++ b) line) = ia ++ ib -> concat (map itext ia) = a ->
  obs (fst (scan_all (a ++ w :: b) line)) = obs (ia ++ ib).
Proof.
  intros W. induction ia as [|it ia IH]; intros ib a b line H Ha.
  - simpl in Ha. subst a. simpl app in *.
    destruct (scan1_ws w b line W) as (wit & lw & Ew & Ow).
    destruct (scan_all_step _ _ _ _ _ Ew) as [-> _]. rewrite obs_cons, Ow. simpl app.
    rewrite (obs_line_indep b lw line), H. reflexivity.
  - cbn [map concat] in Ha. simpl app in H.
    destruct (scan_all_cons_inv _ _ _ _ H) as (rest & line' & E & Hr & _).
    destruct (scan1_step _ _ _ _ _ E) as (P & _).
    set (a' := concat (map itext ia)) in *.
    assert (R : rest = a' ++ b).
    { rewrite <- Ha, <- app_assoc in P. apply app_inv_head in P. symmetry. exact P. }
    subst rest. subst a. rewrite <- app_assoc in E |- *.
    destruct ia as [|it2 ia2].
    + (* [it] is the item just before the insertion point *)
      subst a'. simpl app in *. apply scan1_step_rel in E.
      destruct (absorbs_dec it w) as [A|NA].
      * destruct (step_insert_ws_open _ _ _ _ _ w E W A) as (il & line'' & S2). apply step_scan1 in S2.
        destruct (scan_all_step _ _ _ _ _ S2) as [-> _]. rewrite !obs_cons.
        rewrite (obs1_same it (mkItem (ik it) (itext it ++ [w]) il) eq_refl (absorbs_not_token it w A)).
        rewrite (obs_line_indep b line'' line'), Hr. reflexivity.
      * pose proof (step_insert_ws_stable _ _ _ _ _ w E W NA) as S2. apply step_scan1 in S2.
        destruct (scan_all_step _ _ _ _ _ S2) as [-> _].
        destruct (scan1_ws w b line' W) as (wit & lw & Ew & Ow).
        destruct (scan_all_step _ _ _ _ _ Ew) as [-> _]. rewrite !obs_cons, Ow. simpl app.
        rewrite (obs_line_indep b lw line'), Hr. reflexivity.
    + (* a later item of [ia] follows: the follower of [it] keeps its first character *)
      assert (NE : exists c a'', a' = c :: a'').
      { simpl app in Hr. destruct (scan_all_cons_inv _ _ _ _ Hr) as (rest2 & line2 & E2 & _ & _).
        destruct (scan1_step _ _ _ _ _ E2) as (_ & NE2 & _). subst a'. cbn [map concat].
        destruct (itext it2) as [|c x]; [congruence|]. exists c, (x ++ concat (map itext ia2)). reflexivity. }
      destruct NE as (c & a'' & Ea'). rewrite Ea' in E |- *. simpl app in E |- *.
      assert (E' : scan1 (itext it ++ c :: a'' ++ w :: b) line = Some (it, c :: a'' ++ w :: b, line')).
      { apply (scan1_local (itext it) c (a'' ++ b) (a'' ++ w :: b) line it line' E).
        destruct a'' as [|y a3]; simpl; [|auto]. destruct (ws_facts w W) as (_ & WD & _). rewrite WD. discriminate. }
      destruct (scan_all_step _ _ _ _ _ E') as [-> _]. rewrite !obs_cons. f_equal.
      change (c :: a'' ++ w :: b) with ((c :: a'') ++ w :: b). rewrite <- Ea'.
      apply IH; [exact Hr|reflexivity].
Qed.

(** C18a.  If [a | b] is a split of the source at an item boundary, then putting a blank
    (32, 9, 13) or a newline (10) at the split changes neither the token list up to line
    numbers nor the list of diagnostic kinds.  No side condition on the item before the
    split is needed: a line comment or an unterminated string/comment absorbs the blank,
    but these are not tokens and keep their (diagnostic) kind. *)
Theorem layout_invariance_obs a b ia ib w : is_ws w ->
  fst (lex_items (a ++ b)) = ia ++ ib -> concat (map itext ia) = a ->
  obs (fst (lex_items (a ++ [w] ++ b))) = obs (fst (lex_items (a ++ b))).
Proof.
  intros W H Ha. rewrite !lex_items_scan_all in *. rewrite H. simpl app. eapply layout_scan; eassumption.
Qed.

Theorem layout_invariance a b ia ib w : is_ws w ->
  fst (lex_items (a ++ b)) = ia ++ ib -> concat (map itext ia) = a ->
  map strip (lx_tokens (lex (a ++ [w] ++ b))) = map strip (lx_tokens (lex (a ++ b))).
Proof.
  intros W H Ha. rewrite !tokens_of_lex, !strip_tokens_obs. rewrite (layout_invariance_obs a b ia ib w W H Ha). reflexivity.
Qed.

Theorem layout_invariance_diags a b ia ib w : is_ws w ->
  fst (lex_items (a ++ b)) = ia ++ ib -> concat (map itext ia) = a ->
  map snd (lx_diags (lex (a ++ [w] ++ b))) = map snd (lx_diags (lex (a ++ b))).
Proof.
  intros W H Ha. rewrite !diags_of_lex, !diag_kinds_obs. rewrite (layout_invariance_obs a b ia ib w W H Ha). reflexivity.
Qed.

(** the end-of-input line moves by one exactly for an inserted newline *)
Theorem layout_eof_line a b w : is_ws w ->
  lx_eof_line (lex (a ++ [w] ++ b)) = lx_eof_line (lex (a ++ b)) + (if w =? 10 then 1 else 0).
Proof.
  intros W. rewrite !eof_line, !count_nl_app.
  destruct W as [->|[->|[->| ->]]].
  - change (count_nl [32]) with 0. change (32 =? 10) with false. cbv iota. lia.
  - change (count_nl [9]) with 0. change (9 =? 10) with false. cbv iota. lia.
  - change (count_nl [13]) with 0. change (13 =? 10) with false. cbv iota. lia.
  - change (count_nl [10]) with 1. change (10 =? 10) with true. cbv iota. lia.
Qed.

Print Assumptions layout_invariance.
Print Assumptions scan1_insert_ws.
Print Assumptions scan1_local.
