(** Minimality of the digits found by [shortest_from] (Model/Num.v): pure integer /
    rational arithmetic, no reals, no floats.  Rationals ([Q]) are used only as a
    uniform language for "d * 10^x" with x of either sign; every statement exported
    at the end is about [Z] and the model's own boolean tests.

    Contents:
      - [q10], [fr], [dq]: powers of ten, fractions, decimals as rationals;
      - [in_interval_Q], [floor_Q]: the model's tests read as rational inequalities;
      - [grid_none], [step_excludes]: if neither the floor nor the ceiling of
        value*10^s is in the rounding interval, no decimal with that few digits is;
      - [sigdigits] and its characterisation;
      - [shortest_from_inv], [shortest_from_minimal];
      - [fix_log10_correct], [log10_floor_ratio]: floor(log10) of a double. *)
From Coq Require Import ZArith NArith List Bool Lia QArith Qpower Lqa.
From Borno Require Import Base Num NumSweep.
Import ListNotations.
Open Scope Z_scope.

(* ------------------------------------------------------------------ *)
(** * Rational toolkit *)

Definition q10 (x : Z) : Q := ((10 # 1) ^ x)%Q.
Definition fr (a b : Z) : Q := (inject_Z a / inject_Z b)%Q.
(** the decimal [d * 10^x] *)
Definition dq (d x : Z) : Q := (inject_Z d * q10 x)%Q.

Lemma ten_nz : ~ ((10 # 1) == 0)%Q.
Proof. intro H. discriminate H. Qed.

Lemma q10_pos : forall x, (0 < q10 x)%Q.
Proof. intros x. unfold q10. apply Qpower_0_lt. reflexivity. Qed.

Lemma q10_add : forall x y, (q10 (x + y) == q10 x * q10 y)%Q.
Proof. intros x y. unfold q10. apply Qpower_plus. exact ten_nz. Qed.

Lemma q10_nonneg_Z : forall x, 0 <= x -> (q10 x == inject_Z (10 ^ x))%Q.
Proof. intros x Hx. unfold q10. rewrite Zpower_Qpower by exact Hx. reflexivity. Qed.

Lemma q10_neg_Z : forall x, x <= 0 -> (q10 x == / inject_Z (10 ^ (- x)))%Q.
Proof.
  intros x Hx. unfold q10. replace x with (- (- x)) at 1 by lia.
  rewrite Qpower_opp. rewrite Zpower_Qpower by lia. reflexivity.
Qed.

Lemma q10_le : forall x y, x <= y -> (q10 x <= q10 y)%Q.
Proof. intros x y H. unfold q10. apply Qpower_le_compat_l; [exact H|]. discriminate. Qed.

Lemma q10_lt : forall x y, x < y -> (q10 x < q10 y)%Q.
Proof. intros x y H. unfold q10. apply Qpower_lt_compat_l; [exact H|]. reflexivity. Qed.

Lemma pow10_gt0 : forall k, 0 <= k -> 0 < 10 ^ k.
Proof. intros k Hk. apply Z.pow_pos_nonneg; lia. Qed.

Lemma injZ_pos : forall z, 0 < z -> (0 < inject_Z z)%Q.
Proof. intros z Hz. change 0%Q with (inject_Z 0). rewrite <- Zlt_Qlt. exact Hz. Qed.

Lemma injZ_nz : forall z, z <> 0 -> ~ (inject_Z z == 0)%Q.
Proof. intros z Hz H. change 0%Q with (inject_Z 0) in H. apply (proj1 (inject_Z_injective z 0)) in H. lia. Qed.

(** comparing two fractions with positive denominators = cross-multiplication *)
Lemma fr_le : forall a b c d, 0 < b -> 0 < d -> ((fr a b <= fr c d)%Q <-> a * d <= c * b).
Proof.
  intros a b c d Hb Hd. unfold fr.
  destruct b as [|pb|pb]; try lia. destruct d as [|pd|pd]; try lia.
  unfold Qle, Qdiv, Qmult, Qinv, inject_Z. cbn [Qnum Qden].
  rewrite !Z.mul_1_r, !Pos.mul_1_l. reflexivity.
Qed.

Lemma fr_lt : forall a b c d, 0 < b -> 0 < d -> ((fr a b < fr c d)%Q <-> a * d < c * b).
Proof.
  intros a b c d Hb Hd. unfold fr.
  destruct b as [|pb|pb]; try lia. destruct d as [|pd|pd]; try lia.
  unfold Qlt, Qdiv, Qmult, Qinv, inject_Z. cbn [Qnum Qden].
  rewrite !Z.mul_1_r, !Pos.mul_1_l. reflexivity.
Qed.

Lemma fr_1 : forall a, (fr a 1 == inject_Z a)%Q.
Proof. intros a. unfold fr. change (inject_Z 1) with 1%Q. field. Qed.

(** a decimal as a fraction of integers, with the same case split as the model *)
Definition decfrac (d x : Z) : Z * Z := if 0 <=? x then (d * 10 ^ x, 1) else (d, 10 ^ (- x)).

Lemma decfrac_den_pos : forall d x, 0 < snd (decfrac d x).
Proof.
  intros d x. unfold decfrac. destruct (Z.leb_spec 0 x) as [H|H]; cbn [snd]; [lia|].
  apply pow10_gt0. lia.
Qed.

Lemma dq_fr : forall d x, (dq d x == fr (fst (decfrac d x)) (snd (decfrac d x)))%Q.
Proof.
  intros d x. unfold dq, decfrac. destruct (Z.leb_spec 0 x) as [H|H]; cbn [fst snd].
  - rewrite fr_1, inject_Z_mult, q10_nonneg_Z by exact H. reflexivity.
  - rewrite q10_neg_Z by lia. unfold fr. unfold Qdiv. reflexivity.
Qed.

(* ------------------------------------------------------------------ *)
(** * The rounding interval as a set of rationals *)

Definition inI (a b : Q) (incl : bool) (r : Q) : Prop :=
  if incl then (a <= r /\ r <= b)%Q else (a < r /\ r < b)%Q.

Lemma inI_convex : forall a b incl r1 r2 r,
  inI a b incl r1 -> inI a b incl r2 -> (r1 <= r)%Q -> (r <= r2)%Q -> inI a b incl r.
Proof. intros a b incl r1 r2 r H1 H2 Ha Hb. unfold inI in *. destruct incl; lra. Qed.

Lemma inI_eq : forall a b incl r r', (r == r')%Q -> inI a b incl r -> inI a b incl r'.
Proof. intros a b incl r r' E H. unfold inI in *. destruct incl; lra. Qed.

(** [in_interval] is membership of the decimal in the (closed or open) interval *)
Lemma in_interval_Q : forall lo hi den incl d x, 0 < den ->
  (in_interval lo hi den incl d x = true <-> inI (fr lo den) (fr hi den) incl (dq d x)).
Proof.
  intros lo hi den incl d x Hden.
  assert (E : forall a b, inI a b incl (dq d x) <->
                          inI a b incl (fr (fst (decfrac d x)) (snd (decfrac d x)))).
  { intros a b. split; apply inI_eq; [apply dq_fr|symmetry; apply dq_fr]. }
  rewrite E. clear E.
  pose proof (decfrac_den_pos d x) as Hb.
  unfold in_interval, inI. unfold decfrac in *.
  destruct (0 <=? x); cbn [fst snd] in *.
  - destruct incl.
    + rewrite andb_true_iff, !Z.leb_le, !fr_le by lia. lia.
    + rewrite andb_true_iff, !Z.ltb_lt, !fr_lt by lia. lia.
  - destruct incl.
    + rewrite andb_true_iff, !Z.leb_le, !fr_le by lia. lia.
    + rewrite andb_true_iff, !Z.ltb_lt, !fr_lt by lia. lia.
Qed.

(* ------------------------------------------------------------------ *)
(** * One step of the search: floor of value * 10^s *)

(** the scaled value [mid/den * 10^s] as numerator and denominator, as in [shortest_from] *)
Definition sf_frac (mid den s : Z) : Z * Z :=
  if 0 <=? s then (mid * 10 ^ s, den) else (mid, den * 10 ^ (- s)).
(** the digits tried with [n] digits: the floor of value * 10^(n-1-E) *)
Definition sf_dfl (mid den E n : Z) : Z :=
  let '(num, dn) := sf_frac mid den (n - 1 - E) in num / dn.

Lemma sf_frac_den_pos : forall mid den s, 0 < den -> 0 < snd (sf_frac mid den s).
Proof.
  intros mid den s Hd. unfold sf_frac. destruct (Z.leb_spec 0 s) as [H|H]; cbn [snd]; [exact Hd|].
  apply Z.mul_pos_pos; [exact Hd|apply pow10_gt0; lia].
Qed.

Lemma sf_frac_Q : forall mid den s, 0 < den ->
  (fr mid den * q10 s == fr (fst (sf_frac mid den s)) (snd (sf_frac mid den s)))%Q.
Proof.
  intros mid den s Hd. unfold sf_frac.
  assert (Hdn : ~ (inject_Z den == 0)%Q) by (apply injZ_nz; lia).
  destruct (Z.leb_spec 0 s) as [H|H]; cbn [fst snd].
  - rewrite q10_nonneg_Z by exact H. unfold fr. rewrite inject_Z_mult. field. exact Hdn.
  - rewrite q10_neg_Z by lia. unfold fr. rewrite inject_Z_mult.
    assert (Hp : ~ (inject_Z (10 ^ (- s)) == 0)%Q).
    { apply injZ_nz. pose proof (pow10_gt0 (- s)). lia. }
    field. split; assumption.
Qed.

(** floor:  dfl <= value * 10^s < dfl + 1 *)
Lemma floor_Q : forall mid den E n, 0 < den ->
  let s := n - 1 - E in
  let dfl := sf_dfl mid den E n in
  (inject_Z dfl <= fr mid den * q10 s)%Q /\ (fr mid den * q10 s < inject_Z (dfl + 1))%Q.
Proof.
  intros mid den E n Hd s dfl. subst dfl. unfold sf_dfl. fold s.
  rewrite (sf_frac_Q mid den s Hd).
  pose proof (sf_frac_den_pos mid den s Hd) as Hp.
  destruct (sf_frac mid den s) as [num dn]. cbn [fst snd] in *.
  rewrite <- !fr_1. rewrite fr_le, fr_lt by lia.
  pose proof (Z.mul_div_le num dn Hp). pose proof (Z.mul_succ_div_gt num dn Hp). lia.
Qed.

(** the same on the grid of step 10^(-s):  dfl*10^(-s) <= value < (dfl+1)*10^(-s) *)
Lemma floor_grid : forall mid den E n, 0 < den ->
  let s := n - 1 - E in
  let dfl := sf_dfl mid den E n in
  (dq dfl (- s) <= fr mid den)%Q /\ (fr mid den < dq (dfl + 1) (- s))%Q.
Proof.
  intros mid den E n Hd s dfl.
  destruct (floor_Q mid den E n Hd) as [H1 H2]. fold s dfl in H1, H2.
  pose proof (q10_pos (- s)) as Hg.
  assert (E1 : (fr mid den == fr mid den * q10 s * q10 (- s))%Q).
  { rewrite <- Qmult_assoc, <- q10_add. replace (s + - s) with 0 by lia.
    change (q10 0) with 1%Q. ring. }
  unfold dq. split.
  - rewrite E1. apply Qmult_le_compat_r; [exact H1|lra].
  - rewrite E1 at 1. apply Qmult_lt_compat_r; [exact Hg|exact H2].
Qed.

(* ------------------------------------------------------------------ *)
(** * The grid argument *)

Section Grid.
Variables (a b : Q) (incl : bool) (v : Q).
Hypothesis Hv : inI a b incl v.

(** between the floor and the ceiling grid points there is no other grid point, and the
    interval is convex and contains [v]: if neither is inside, no grid point is. *)
Lemma grid_none : forall (g : Q) (fl : Z), (0 < g)%Q ->
  (inject_Z fl * g <= v)%Q -> (v < inject_Z (fl + 1) * g)%Q ->
  ~ inI a b incl (inject_Z fl * g) -> ~ inI a b incl (inject_Z (fl + 1) * g) ->
  forall t : Z, ~ inI a b incl (inject_Z t * g).
Proof.
  intros g fl Hg Hlo Hhi Nf Nc t Ht.
  destruct (Z_le_gt_dec t fl) as [Hle|Hgt].
  - apply Nf. apply (inI_convex a b incl (inject_Z t * g) v); [exact Ht|exact Hv| |exact Hlo].
    apply Qmult_le_compat_r; [|lra]. rewrite <- Zle_Qle. exact Hle.
  - apply Nc. apply (inI_convex a b incl v (inject_Z t * g)); [exact Hv|exact Ht|lra|].
    apply Qmult_le_compat_r; [|lra]. rewrite <- Zle_Qle. lia.
Qed.

(** If the step with [k] digits fails (neither floor nor ceiling of v*10^(k-1-E) is in the
    interval) and 10^E <= v, then no decimal c*10^j with 0 < c < 10^k is in the interval:
    those with j >= E+1-k are grid points; the others are below 10^E <= v, and 10^E is
    itself a grid point. *)
Lemma step_excludes : forall (E k fl : Z), 1 <= k ->
  (q10 E <= v)%Q ->
  let s := k - 1 - E in
  (dq fl (- s) <= v)%Q -> (v < dq (fl + 1) (- s))%Q ->
  ~ inI a b incl (dq fl (- s)) -> ~ inI a b incl (dq (fl + 1) (- s)) ->
  forall c j, 0 < c < 10 ^ k -> ~ inI a b incl (dq c j).
Proof.
  intros E k fl Hk HE s Hlo Hhi Nf Nc c j Hc Hin.
  pose proof (grid_none (q10 (- s)) fl (q10_pos _) Hlo Hhi Nf Nc) as G.
  destruct (Z_le_gt_dec (- s) j) as [Hj|Hj].
  - (* a grid point *)
    apply (G (c * 10 ^ (j + s))).
    apply (inI_eq a b incl (dq c j)); [|exact Hin].
    unfold dq. rewrite inject_Z_mult. rewrite <- (q10_nonneg_Z (j + s)) by lia.
    rewrite <- Qmult_assoc, <- q10_add. replace (j + s + - s) with j by lia. reflexivity.
  - (* below 10^E *)
    assert (Hlt : (dq c j <= q10 E)%Q).
    { unfold dq.
      assert (H1 : (inject_Z c <= q10 k)%Q).
      { rewrite q10_nonneg_Z by lia. rewrite <- Zle_Qle. lia. }
      assert (H2 : (q10 j <= q10 (E - k))%Q) by (apply q10_le; lia).
      assert (H3 : (q10 E == q10 k * q10 (E - k))%Q).
      { rewrite <- q10_add. replace (k + (E - k)) with E by lia. reflexivity. }
      rewrite H3.
      apply Qle_trans with (inject_Z c * q10 (E - k))%Q.
      - rewrite !(Qmult_comm (inject_Z c)). apply Qmult_le_compat_r; [exact H2|].
        change 0%Q with (inject_Z 0). rewrite <- Zle_Qle. lia.
      - apply Qmult_le_compat_r; [exact H1|]. pose proof (q10_pos (E - k)). lra. }
    apply (G (10 ^ (k - 1))).
    apply (inI_eq a b incl (q10 E)).
    + rewrite <- (q10_nonneg_Z (k - 1)) by lia. rewrite <- q10_add.
      replace (k - 1 + - s) with E by lia. reflexivity.
    + apply (inI_convex a b incl (dq c j) v); assumption.
Qed.

End Grid.

(* ------------------------------------------------------------------ *)
(** * Number of significant digits *)

(** number of decimal digits of d > 0, exactly as the model prints them *)
Definition ndigits (d : Z) : Z := Z.of_nat (length (decimal_of_Z d)).
(** d without its trailing zeros (the model's [strip0] with enough fuel) *)
Definition strip_all (d : Z) : Z := fst (strip0 (S (Z.to_nat (Z.log2 d))) d 0).
(** number of significant digits: digits left after removing trailing zeros *)
Definition sigdigits (d : Z) : Z := ndigits (strip_all d).

Lemma digits_of_pos_fuel_length : forall fuel z acc, 0 < z < 2 ^ Z.of_nat fuel ->
  exists k, 1 <= k /\ Z.of_nat (length (digits_of_pos_fuel fuel z acc)) = k + Z.of_nat (length acc) /\
            10 ^ (k - 1) <= z < 10 ^ k.
Proof.
  induction fuel as [|fuel IH]; intros z acc Hz.
  - change (2 ^ Z.of_nat 0) with 1 in Hz. lia.
  - cbn [digits_of_pos_fuel]. destruct (Z.ltb_spec z 10) as [Hlt|Hge].
    + exists 1. cbn [length]. change (10 ^ (1 - 1)) with 1. change (10 ^ 1) with 10. lia.
    + assert (Hq : 0 < z / 10 < 2 ^ Z.of_nat fuel).
      { rewrite Nat2Z.inj_succ, Z.pow_succ_r in Hz by lia.
        pose proof (Z.div_mod z 10 ltac:(lia)). pose proof (Z.mod_pos_bound z 10 ltac:(lia)). lia. }
      destruct (IH (z / 10) ((Z.to_N (z mod 10) + 48)%N :: acc) Hq) as (k & Hk & Hl & Hb).
      exists (k + 1). split; [lia|]. split.
      * rewrite Hl. cbn [length]. lia.
      * replace (k + 1 - 1) with k by lia. rewrite (Z.pow_add_r 10 k 1) by lia. change (10 ^ 1) with 10.
        assert (Ek : 10 ^ k = 10 * 10 ^ (k - 1)).
        { replace k with (Z.succ (k - 1)) at 1 by lia. apply Z.pow_succ_r. lia. }
        pose proof (Z.div_mod z 10 ltac:(lia)). pose proof (Z.mod_pos_bound z 10 ltac:(lia)). lia.
Qed.

Lemma log2_fuel : forall z, 0 < z -> z < 2 ^ Z.of_nat (S (Z.to_nat (Z.log2 z))).
Proof.
  intros z Hz. rewrite Nat2Z.inj_succ, Z2Nat.id by apply Z.log2_nonneg.
  apply Z.log2_spec. exact Hz.
Qed.

(** [ndigits d] is the k with 10^(k-1) <= d < 10^k *)
Lemma ndigits_spec : forall d, 0 < d ->
  1 <= ndigits d /\ 10 ^ (ndigits d - 1) <= d < 10 ^ ndigits d.
Proof.
  intros d Hd. unfold ndigits, decimal_of_Z.
  assert (E : (d <? 0) = false) by (apply Z.ltb_ge; lia). rewrite E.
  destruct (digits_of_pos_fuel_length (S (Z.to_nat (Z.log2 d))) d [])
    as (k & Hk & Hl & Hb); [split; [exact Hd|apply log2_fuel; exact Hd]|].
  cbn [length] in Hl. rewrite Hl. replace (k + Z.of_nat 0) with k by lia. split; assumption.
Qed.

Lemma pow10_inj_bounds : forall c k k', 10 ^ (k - 1) <= c < 10 ^ k -> 10 ^ (k' - 1) <= c < 10 ^ k' ->
  1 <= k -> 1 <= k' -> k = k'.
Proof.
  intros c k k' H1 H2 Hk Hk'.
  destruct (Z.lt_trichotomy k k') as [H|[H|H]]; [|exact H|].
  - assert (10 ^ k <= 10 ^ (k' - 1)) by (apply Z.pow_le_mono_r; lia). lia.
  - assert (10 ^ k' <= 10 ^ (k - 1)) by (apply Z.pow_le_mono_r; lia). lia.
Qed.

Lemma ndigits_char : forall c k, 1 <= k -> 10 ^ (k - 1) <= c < 10 ^ k -> ndigits c = k.
Proof.
  intros c k Hk Hb. assert (Hc : 0 < c). { pose proof (pow10_gt0 (k - 1)). lia. }
  destruct (ndigits_spec c Hc) as [H1 H2].
  apply (pow10_inj_bounds c); assumption.
Qed.

(** [strip0] with enough fuel removes every trailing zero *)
Lemma strip0_full : forall fuel d x c y, 0 < d < 10 ^ Z.of_nat fuel ->
  strip0 fuel d x = (c, y) ->
  exists j, 0 <= j /\ y = x + j /\ d = c * 10 ^ j /\ 0 < c /\ c mod 10 <> 0.
Proof.
  induction fuel as [|fuel IH]; intros d x c y Hd H.
  - change (10 ^ Z.of_nat 0) with 1 in Hd. lia.
  - cbn [strip0] in H. destruct ((d mod 10 =? 0) && negb (d =? 0)) eqn:Eb.
    + apply andb_true_iff in Eb. destruct Eb as [Eb _]. apply Z.eqb_eq in Eb.
      pose proof (Z.div_mod d 10 ltac:(lia)) as Hdm. rewrite Eb in Hdm.
      assert (Hq : 0 < d / 10 < 10 ^ Z.of_nat fuel).
      { rewrite Nat2Z.inj_succ, Z.pow_succ_r in Hd by lia. lia. }
      destruct (IH (d / 10) (x + 1) c y Hq H) as (j & Hj & Hy & Hc & Hc0 & Hc10).
      exists (j + 1). split; [lia|]. split; [lia|]. split; [|split; assumption].
      rewrite Z.pow_add_r by lia. change (10 ^ 1) with 10. lia.
    + inversion H. subst c y. exists 0. split; [lia|]. split; [lia|]. split; [simpl; lia|].
      split; [lia|]. apply andb_false_iff in Eb. destruct Eb as [Eb|Eb].
      * apply Z.eqb_neq in Eb. exact Eb.
      * apply negb_false_iff, Z.eqb_eq in Eb. lia.
Qed.

Lemma log2_fuel10 : forall z, 0 < z -> z < 10 ^ Z.of_nat (S (Z.to_nat (Z.log2 z))).
Proof.
  intros z Hz. eapply Z.lt_le_trans; [apply log2_fuel; exact Hz|].
  apply Z.pow_le_mono_l. lia.
Qed.

(** decomposition d = c * 10^j with c not divisible by 10 is unique *)
Lemma decomp_unique : forall c j c' j', 0 <= j -> 0 <= j' -> c mod 10 <> 0 -> c' mod 10 <> 0 ->
  c * 10 ^ j = c' * 10 ^ j' -> c = c' /\ j = j'.
Proof.
  assert (W : forall c j c' j', 0 <= j <= j' -> c mod 10 <> 0 ->
              c * 10 ^ j = c' * 10 ^ j' -> c = c' /\ j = j').
  { intros c j c' j' Hj Hc He.
    replace j' with (j + (j' - j)) in He by lia. rewrite Z.pow_add_r in He by lia.
    pose proof (pow10_gt0 j ltac:(lia)) as Hp.
    assert (E : c = c' * 10 ^ (j' - j)) by nia.
    destruct (Z.eq_dec j j') as [->|Hn].
    - rewrite Z.sub_diag in E. simpl in E. lia.
    - exfalso. apply Hc. rewrite E.
      replace (j' - j) with (Z.succ (j' - j - 1)) by lia. rewrite Z.pow_succ_r by lia.
      replace (c' * (10 * 10 ^ (j' - j - 1))) with (c' * 10 ^ (j' - j - 1) * 10) by ring.
      apply Z.mod_mul. lia. }
  intros c j c' j' Hj Hj' Hc Hc' He.
  destruct (Z_le_gt_dec j j') as [H|H].
  - apply W; [lia|exact Hc|exact He].
  - destruct (W c' j' c j ltac:(lia) Hc' (eq_sym He)) as [-> ->]. split; reflexivity.
Qed.

(** Characterisation: [sigdigits d] is the number of digits of the c with d = c*10^j, 10 ∤ c. *)
Lemma sigdigits_spec : forall d, 0 < d ->
  exists c j, 0 <= j /\ d = c * 10 ^ j /\ 0 < c /\ c mod 10 <> 0 /\
              1 <= sigdigits d /\ 10 ^ (sigdigits d - 1) <= c < 10 ^ sigdigits d.
Proof.
  intros d Hd. unfold sigdigits, strip_all.
  destruct (strip0 (S (Z.to_nat (Z.log2 d))) d 0) as [c y] eqn:Es.
  destruct (strip0_full _ d 0 c y (conj Hd (log2_fuel10 d Hd)) Es) as (j & Hj & _ & Hc & Hc0 & Hc10).
  cbn [fst]. exists c, j. pose proof (ndigits_spec c Hc0) as [H1 H2]. auto 10.
Qed.

Lemma sigdigits_char : forall c j k, 0 <= j -> c mod 10 <> 0 -> 1 <= k ->
  10 ^ (k - 1) <= c < 10 ^ k -> sigdigits (c * 10 ^ j) = k.
Proof.
  intros c j k Hj Hc Hk Hb.
  assert (Hc0 : 0 < c). { pose proof (pow10_gt0 (k - 1)). lia. }
  assert (Hd : 0 < c * 10 ^ j). { apply Z.mul_pos_pos; [exact Hc0|apply pow10_gt0; exact Hj]. }
  destruct (sigdigits_spec _ Hd) as (c' & j' & Hj' & He & Hc0' & Hc' & Hs1 & Hs2).
  destruct (decomp_unique c j c' j' Hj Hj' Hc Hc' He) as [<- _].
  apply (pow10_inj_bounds c); assumption.
Qed.

(** d with at most n digits, or d = 10^n, has at most n significant digits *)
Lemma sigdigits_le : forall d n, 1 <= n -> 0 < d <= 10 ^ n -> sigdigits d <= n.
Proof.
  intros d n Hn Hd.
  destruct (sigdigits_spec d ltac:(lia)) as (c & j & Hj & He & Hc0 & Hc & Hs1 & Hs2).
  destruct (Z_le_gt_dec (sigdigits d) n) as [H|H]; [exact H|exfalso].
  assert (H1 : 10 ^ n <= 10 ^ (sigdigits d - 1)) by (apply Z.pow_le_mono_r; lia).
  pose proof (pow10_gt0 j Hj) as Hp.
  assert (Hcd : c <= d) by nia.
  assert (Ec : c = 10 ^ n) by lia.
  apply Hc. rewrite Ec. replace n with (Z.succ (n - 1)) by lia. rewrite Z.pow_succ_r by lia.
  rewrite Z.mul_comm. apply Z.mod_mul. lia.
Qed.

(** every d > 0 is c * 10^j with 0 < c < 10^(sigdigits d) *)
Lemma sigdigits_decomp : forall d, 0 < d ->
  exists c j, 0 <= j /\ d = c * 10 ^ j /\ 0 < c < 10 ^ sigdigits d /\ 1 <= sigdigits d.
Proof.
  intros d Hd. destruct (sigdigits_spec d Hd) as (c & j & Hj & He & Hc0 & _ & Hs1 & Hs2).
  exists c, j. repeat split; try assumption; lia.
Qed.

(** removing trailing zeros (any fuel) does not change the number of significant digits *)
Lemma sigdigits_strip0 : forall fuel d x d' x', 0 < d ->
  strip0 fuel d x = (d', x') -> sigdigits d' = sigdigits d.
Proof.
  induction fuel as [|fuel IH]; intros d x d' x' Hd H; cbn [strip0] in H.
  - inversion H. reflexivity.
  - destruct ((d mod 10 =? 0) && negb (d =? 0)) eqn:Eb.
    + apply andb_true_iff in Eb. destruct Eb as [Eb _]. apply Z.eqb_eq in Eb.
      pose proof (Z.div_mod d 10 ltac:(lia)) as Hdm. rewrite Eb in Hdm.
      assert (Hq : 0 < d / 10) by lia.
      rewrite (IH _ _ _ _ Hq H).
      destruct (sigdigits_spec (d / 10) Hq) as (c & j & Hj & He & Hc0 & Hc & Hs1 & Hs2).
      assert (E : d = c * 10 ^ (j + 1)).
      { rewrite Z.pow_add_r by lia. change (10 ^ 1) with 10. lia. }
      rewrite E at 2. symmetry. apply sigdigits_char; try assumption. lia.
    + inversion H. reflexivity.
Qed.

Lemma strip0_pos' : forall fuel d x d' x', 0 < d -> strip0 fuel d x = (d', x') -> 0 < d'.
Proof.
  induction fuel as [|fuel IH]; intros d x d' x' Hd H; cbn [strip0] in H.
  - inversion H. lia.
  - destruct ((d mod 10 =? 0) && negb (d =? 0)) eqn:Eb.
    + apply andb_true_iff in Eb. destruct Eb as [Eb _]. apply Z.eqb_eq in Eb.
      apply IH in H; [exact H|]. pose proof (Z.div_mod d 10 ltac:(lia)). lia.
    + inversion H. lia.
Qed.

(** [strip0] keeps the decimal's value (any starting exponent) *)
Lemma strip0_dq : forall fuel d x d' x', strip0 fuel d x = (d', x') -> (dq d' x' == dq d x)%Q.
Proof.
  induction fuel as [|fuel IH]; intros d x d' x' H; cbn [strip0] in H.
  - inversion H. reflexivity.
  - destruct ((d mod 10 =? 0) && negb (d =? 0)) eqn:Eb.
    + apply andb_true_iff in Eb. destruct Eb as [Eb _]. apply Z.eqb_eq in Eb.
      pose proof (Z.div_mod d 10 ltac:(lia)) as Hdm. rewrite Eb in Hdm.
      rewrite (IH _ _ _ _ H). unfold dq. rewrite q10_add.
      replace d with (d / 10 * 10) at 2 by lia. rewrite inject_Z_mult.
      change (q10 1) with (inject_Z 10). ring.
    + inversion H. reflexivity.
Qed.

(* ------------------------------------------------------------------ *)
(** * [shortest_from]: what a successful search tells *)

Lemma shortest_from_S : forall fuel n lo mid hi den incl E,
  shortest_from (S fuel) n lo mid hi den incl E =
  let s := n - 1 - E in
  let '(num, dn) := sf_frac mid den s in
  let dfl := num / dn in
  let rem := num mod dn in
  let okf := in_interval lo hi den incl dfl (- s) in
  let okc := in_interval lo hi den incl (dfl + 1) (- s) in
  if (rem =? 0) && okf then Some (dfl, - s)
  else if okf && okc then
    (if 2 * rem <? dn then Some (dfl, - s)
     else if dn <? 2 * rem then Some (dfl + 1, - s)
     else if Z.even dfl then Some (dfl, - s) else Some (dfl + 1, - s))
  else if okf then Some (dfl, - s)
  else if okc then Some (dfl + 1, - s)
  else shortest_from fuel (n + 1) lo mid hi den incl E.
Proof. reflexivity. Qed.

(** A successful search stopped at some digit count n' >= n: the result is the floor or the
    ceiling tried there, it is in the interval, and at every earlier count both the floor
    and the ceiling were outside. *)
Lemma shortest_from_inv : forall fuel n lo mid hi den incl E d x,
  shortest_from fuel n lo mid hi den incl E = Some (d, x) ->
  exists n', n <= n' < n + Z.of_nat fuel /\ x = - (n' - 1 - E) /\
    (d = sf_dfl mid den E n' \/ d = sf_dfl mid den E n' + 1) /\
    in_interval lo hi den incl d x = true /\
    forall k, n <= k < n' ->
      in_interval lo hi den incl (sf_dfl mid den E k) (- (k - 1 - E)) = false /\
      in_interval lo hi den incl (sf_dfl mid den E k + 1) (- (k - 1 - E)) = false.
Proof.
  induction fuel as [|fuel IH]; intros n lo mid hi den incl E d x H; [discriminate|].
  rewrite shortest_from_S in H. cbv zeta in H.
  assert (Edfl : sf_dfl mid den E n =
                 fst (sf_frac mid den (n - 1 - E)) / snd (sf_frac mid den (n - 1 - E))).
  { unfold sf_dfl. destruct (sf_frac mid den (n - 1 - E)); reflexivity. }
  destruct (sf_frac mid den (n - 1 - E)) as [num dn]. cbn [fst snd] in Edfl.
  rewrite <- Edfl in H.
  set (dfl := sf_dfl mid den E n) in *.
  destruct (in_interval lo hi den incl dfl (- (n - 1 - E))) eqn:Ef;
  destruct (in_interval lo hi den incl (dfl + 1) (- (n - 1 - E))) eqn:Ec;
  rewrite ?andb_true_r, ?andb_false_r in H; cbn [andb] in H.
  - (* both inside *)
    assert (Hd : (d = dfl \/ d = dfl + 1) /\ x = - (n - 1 - E)).
    { repeat match type of H with
             | (if ?c then _ else _) = _ => destruct c
             end; inversion H; auto. }
    destruct Hd as [Hd ->]. exists n. split; [lia|]. split; [reflexivity|]. split; [exact Hd|].
    split; [destruct Hd as [->| ->]; assumption|]. intros k Hk. lia.
  - (* floor only *)
    assert (Hd : d = dfl /\ x = - (n - 1 - E)).
    { destruct (num mod dn =? 0); inversion H; auto. }
    destruct Hd as [-> ->]. exists n. split; [lia|]. split; [reflexivity|]. split; [left; reflexivity|].
    split; [exact Ef|]. intros k Hk. lia.
  - (* ceiling only *)
    inversion H. subst d x. exists n. split; [lia|]. split; [reflexivity|]. split; [right; reflexivity|].
    split; [exact Ec|]. intros k Hk. lia.
  - (* neither: one more digit *)
    destruct (IH _ _ _ _ _ _ _ _ _ H) as (n' & Hn & Hx & Hd & Hin & Hprev).
    exists n'. split; [lia|]. split; [exact Hx|]. split; [exact Hd|]. split; [exact Hin|].
    intros k Hk. destruct (Z.eq_dec k n) as [->|Hne].
    + fold dfl. split; assumption.
    + apply Hprev. lia.
Qed.

(** the model's tests "10^g <= p/q" and "p/q < 10^g" (as written inside [fix_log10]) *)
Definition le10b (g p q : Z) : bool := if 0 <=? g then q * 10 ^ g <=? p else q <=? p * 10 ^ (- g).
Definition lt10b (g p q : Z) : bool := if 0 <=? g then p <? q * 10 ^ g else p * 10 ^ (- g) <? q.

Lemma q10_dq : forall g, (q10 g == dq 1 g)%Q.
Proof. intros g. unfold dq. change (inject_Z 1) with 1%Q. ring. Qed.

Lemma le10b_Q : forall g p q, 0 < q -> (le10b g p q = true <-> (q10 g <= fr p q)%Q).
Proof.
  intros g p q Hq. rewrite q10_dq, dq_fr. pose proof (decfrac_den_pos 1 g) as Hp.
  unfold le10b, decfrac in *. destruct (0 <=? g); cbn [fst snd] in *.
  - rewrite fr_le, Z.leb_le by lia. lia.
  - rewrite fr_le, Z.leb_le by lia. lia.
Qed.

Lemma lt10b_Q : forall g p q, 0 < q -> (lt10b g p q = true <-> (fr p q < q10 g)%Q).
Proof.
  intros g p q Hq. rewrite q10_dq, dq_fr. pose proof (decfrac_den_pos 1 g) as Hp.
  unfold lt10b, decfrac in *. destruct (0 <=? g); cbn [fst snd] in *.
  - rewrite fr_lt, Z.ltb_lt by lia. lia.
  - rewrite fr_lt, Z.ltb_lt by lia. lia.
Qed.

(** with E = floor(log10 v), the floor of v*10^(n-1-E) has exactly n digits *)
Lemma sf_dfl_bounds : forall mid den E n, 0 < den ->
  (q10 E <= fr mid den)%Q -> (fr mid den < q10 (E + 1))%Q -> 1 <= n ->
  10 ^ (n - 1) <= sf_dfl mid den E n < 10 ^ n.
Proof.
  intros mid den E n Hden HE1 HE2 Hn.
  set (v := fr mid den) in *.
  destruct (floor_Q mid den E n Hden) as [F1 F2]. cbv zeta in F1, F2. fold v in F1, F2.
  set (dfl := sf_dfl mid den E n) in *. set (s := n - 1 - E) in *.
  pose proof (q10_pos s) as Hs.
  split.
  - assert (L : (inject_Z (10 ^ (n - 1)) < inject_Z (dfl + 1))%Q).
    { apply Qle_lt_trans with (v * q10 s)%Q; [|exact F2].
      rewrite <- q10_nonneg_Z by lia. replace (n - 1) with (E + s) by (unfold s; lia).
      rewrite q10_add. apply Qmult_le_compat_r; [exact HE1|lra]. }
    rewrite <- Zlt_Qlt in L. lia.
  - assert (L : (inject_Z dfl < inject_Z (10 ^ n))%Q).
    { apply Qle_lt_trans with (v * q10 s)%Q; [exact F1|].
      rewrite <- q10_nonneg_Z by lia.
      assert (En : (q10 n == q10 (E + 1) * q10 s)%Q).
      { rewrite <- q10_add. replace (E + 1 + s) with n by (unfold s; lia). reflexivity. }
      rewrite En. apply Qmult_lt_compat_r; [exact Hs|exact HE2]. }
    rewrite <- Zlt_Qlt in L. exact L.
Qed.

(** the digits found by a search with [fuel] steps from one digit are at most 10^fuel *)
Lemma shortest_from_digits_bound : forall fuel n lo mid hi den incl E d x, 0 < den -> 1 <= n ->
  (q10 E <= fr mid den)%Q -> (fr mid den < q10 (E + 1))%Q ->
  shortest_from fuel n lo mid hi den incl E = Some (d, x) ->
  0 < d <= 10 ^ (n + Z.of_nat fuel - 1).
Proof.
  intros fuel n lo mid hi den incl E d x Hden Hn1 HE1 HE2 H.
  destruct (shortest_from_inv _ _ _ _ _ _ _ _ _ _ H) as (n' & Hn & _ & Hd & _ & _).
  destruct (sf_dfl_bounds mid den E n' Hden HE1 HE2 ltac:(lia)) as [B1 B2].
  pose proof (pow10_gt0 (n' - 1) ltac:(lia)) as Hp.
  assert (Hle : 10 ^ n' <= 10 ^ (n + Z.of_nat fuel - 1)) by (apply Z.pow_le_mono_r; lia).
  destruct Hd as [->| ->]; lia.
Qed.

(** Rational form of the main theorem. *)
Lemma shortest_from_minimal_Q : forall fuel lo mid hi den incl E d x,
  0 < den -> lo < mid < hi ->
  (q10 E <= fr mid den)%Q -> (fr mid den < q10 (E + 1))%Q ->
  shortest_from fuel 1 lo mid hi den incl E = Some (d, x) ->
  0 < d /\ in_interval lo hi den incl d x = true /\
  forall d' x', 0 < d' -> in_interval lo hi den incl d' x' = true -> sigdigits d <= sigdigits d'.
Proof.
  intros fuel lo mid hi den incl E d x Hden Hord HE1 HE2 H.
  destruct (shortest_from_inv _ _ _ _ _ _ _ _ _ _ H) as (n & Hn & Hx & Hd & Hin & Hprev).
  set (v := fr mid den) in *.
  assert (Hv : inI (fr lo den) (fr hi den) incl v).
  { unfold inI, v. destruct incl; rewrite ?fr_le, ?fr_lt by lia; nia. }
  destruct (sf_dfl_bounds mid den E n Hden HE1 HE2 ltac:(lia)) as [B1 B2]. fold v in HE1, HE2.
  set (dfl := sf_dfl mid den E n) in *.
  pose proof (pow10_gt0 (n - 1) ltac:(lia)) as Hp.
  assert (Hd0 : 0 < d <= 10 ^ n) by (destruct Hd as [->| ->]; lia).
  split; [lia|]. split; [exact Hin|].
  intros d' x' Hd' Hin'.
  apply Z.le_trans with n; [apply sigdigits_le; [lia|exact Hd0]|].
  destruct (Z_le_gt_dec n (sigdigits d')) as [Hle|Hgt]; [exact Hle|exfalso].
  destruct (sigdigits_decomp d' Hd') as (c & j & Hj & Ed' & Hc & Hk).
  set (k := sigdigits d') in *.
  destruct (Hprev k ltac:(lia)) as [Nf Nc].
  destruct (floor_grid mid den E k Hden) as [G1 G2]. cbv zeta in G1, G2. fold v in G1, G2.
  apply (step_excludes (fr lo den) (fr hi den) incl v Hv E k (sf_dfl mid den E k) Hk HE1 G1 G2)
    with (c := c) (j := j + x').
  - intro Hc'. apply (in_interval_Q lo hi den incl _ _ Hden) in Hc'. congruence.
  - intro Hc'. apply (in_interval_Q lo hi den incl _ _ Hden) in Hc'. congruence.
  - exact Hc.
  - apply (in_interval_Q lo hi den incl _ _ Hden) in Hin'.
    apply (inI_eq _ _ _ (dq d' x')); [|exact Hin'].
    unfold dq. rewrite Ed', inject_Z_mult, q10_add, <- (q10_nonneg_Z j) by exact Hj. ring.
Qed.

(** Level 1, integers only.  [lo/den < mid/den < hi/den] is the rounding interval of the
    positive number mid/den, closed iff [incl]; [E] is floor(log10(mid/den)), stated with the
    model's own tests.  If the search started at one digit returns (d, x), then d*10^x is in
    the interval and no decimal d'*10^x' in the interval has fewer significant digits. *)
Theorem shortest_from_minimal : forall fuel lo mid hi den incl E d x,
  0 < den -> lo < mid < hi ->
  le10b E mid den = true -> lt10b (E + 1) mid den = true ->
  shortest_from fuel 1 lo mid hi den incl E = Some (d, x) ->
  0 < d /\ in_interval lo hi den incl d x = true /\
  forall d' x', 0 < d' -> in_interval lo hi den incl d' x' = true -> sigdigits d <= sigdigits d'.
Proof.
  intros fuel lo mid hi den incl E d x Hden Hord HE1 HE2 H.
  apply (shortest_from_minimal_Q fuel lo mid hi den incl E d x Hden Hord); [| |exact H].
  - apply le10b_Q; assumption.
  - apply lt10b_Q; assumption.
Qed.

(* ------------------------------------------------------------------ *)
(** * floor(log10) of a double: [log10_floor] on [ratio m e] *)

Lemma fix_log10_S : forall f p q g,
  fix_log10 (S f) p q g =
  if negb (le10b g p q) then fix_log10 f p q (g - 1)
  else if negb (lt10b (g + 1) p q) then fix_log10 f p q (g + 1) else g.
Proof. reflexivity. Qed.

(** started within [a] below / [b] above of the answer, with more than a+b fuel, the
    correction loop stops at the answer *)
Lemma fix_log10_correct : forall fuel p q g a b, 0 < q -> 0 <= a -> 0 <= b ->
  a + b < Z.of_nat fuel ->
  (q10 (g - a) <= fr p q)%Q -> (fr p q < q10 (g + 1 + b))%Q ->
  le10b (fix_log10 fuel p q g) p q = true /\ lt10b (fix_log10 fuel p q g + 1) p q = true.
Proof.
  induction fuel as [|fuel IH]; intros p q g a b Hq Ha Hb Hf H1 H2; [simpl in Hf; lia|].
  rewrite fix_log10_S.
  destruct (le10b g p q) eqn:E1; cbn [negb].
  - destruct (lt10b (g + 1) p q) eqn:E2; cbn [negb]; [split; assumption|].
    assert (N2 : ~ (fr p q < q10 (g + 1))%Q).
    { intro K. apply (lt10b_Q _ _ _ Hq) in K. congruence. }
    apply Qnot_lt_le in N2.
    assert (Hb1 : 1 <= b).
    { destruct (Z_le_gt_dec 1 b) as [K|K]; [exact K|exfalso].
      replace (g + 1 + b) with (g + 1) in H2 by lia. lra. }
    apply (IH p q (g + 1) 0 (b - 1)); try lia.
    + replace (g + 1 - 0) with (g + 1) by lia. exact N2.
    + replace (g + 1 + 1 + (b - 1)) with (g + 1 + b) by lia. exact H2.
  - assert (N1 : ~ (q10 g <= fr p q)%Q).
    { intro K. apply (le10b_Q _ _ _ Hq) in K. congruence. }
    apply Qnot_le_lt in N1.
    assert (Ha1 : 1 <= a).
    { destruct (Z_le_gt_dec 1 a) as [K|K]; [exact K|exfalso].
      replace (g - a) with g in H1 by lia. lra. }
    apply (IH p q (g - 1) (a - 1) 0); try lia.
    + replace (g - 1 - (a - 1)) with (g - a) by lia. exact H1.
    + replace (g - 1 + 1 + 0) with g by lia. exact N1.
Qed.

(** 2^t as a fraction, and the starting guess of [log10_floor] for a number in [2^t, 2^(t+1)) *)
Definition pow2frac (t : Z) : Z * Z := if 0 <=? t then (2 ^ t, 1) else (1, 2 ^ (- t)).
Definition log10_guess (t : Z) : Z := t * 30103 / 100000.
(** 10^(guess-1) <= 2^t  and  2^(t+1) < 10^(guess+2) *)
Definition guess_ok (t : Z) : bool :=
  let g := log10_guess t in
  le10b (g - 1) (fst (pow2frac t)) (snd (pow2frac t)) &&
  lt10b (g + 2) (fst (pow2frac (t + 1))) (snd (pow2frac (t + 1))).

(** checked by computation for every binary exponent of a double:
    t in [-1074, 974) and [974, 1038)  (about 20 s) *)
Lemma guess_sweep : check_range guess_ok 11 (-1074) && check_range guess_ok 6 974 = true.
Proof. vm_cast_no_check (eq_refl true). Qed.

Lemma guess_ok_range : forall t, -1074 <= t <= 1023 -> guess_ok t = true.
Proof.
  intros t Ht. pose proof guess_sweep as S. apply andb_true_iff in S. destruct S as [S1 S2].
  destruct (Z_lt_le_dec t 974) as [Hlt|Hge].
  - apply (check_range_sound guess_ok 11 (-1074) S1).
    change (2 ^ Z.of_nat 11) with 2048. lia.
  - apply (check_range_sound guess_ok 6 974 S2).
    change (2 ^ Z.of_nat 6) with 64. lia.
Qed.

Lemma pow2_gt0 : forall k, 0 <= k -> 0 < 2 ^ k.
Proof. intros k Hk. apply Z.pow_pos_nonneg; lia. Qed.

Lemma pow2frac_den_pos : forall t, 0 < snd (pow2frac t).
Proof.
  intros t. unfold pow2frac. destruct (Z.leb_spec 0 t); cbn [snd]; [lia|apply pow2_gt0; lia].
Qed.

(** the value p/q of [ratio m e] lies in [2^t, 2^(t+1)) for t = log2 m + e, and
    [log2 p - log2 q = t] *)
Lemma ratio_pow2 : forall m e,
  let p := fst (ratio m e) in let q := snd (ratio m e) in
  let t := Z.log2 (Zpos m) + e in
  0 < p /\ 0 < q /\ Z.log2 p - Z.log2 q = t /\
  (fr (fst (pow2frac t)) (snd (pow2frac t)) <= fr p q)%Q /\
  (fr p q < fr (fst (pow2frac (t + 1))) (snd (pow2frac (t + 1))))%Q.
Proof.
  intros m e p q t. subst p q.
  pose proof (Z.log2_spec (Zpos m) ltac:(lia)) as HL.
  pose proof (Z.log2_nonneg (Zpos m)) as HL0.
  set (L := Z.log2 (Zpos m)) in *.
  pose proof (pow2frac_den_pos t) as D1. pose proof (pow2frac_den_pos (t + 1)) as D2.
  unfold ratio. destruct (Z.leb_spec 0 e) as [He|He]; cbn [fst snd].
  - pose proof (pow2_gt0 e He) as Pe.
    split; [lia|]. split; [lia|]. split.
    { rewrite Z.log2_mul_pow2 by lia. change (Z.log2 1) with 0. fold L. lia. }
    rewrite fr_le, fr_lt by lia. unfold pow2frac in *.
    assert (T0 : (0 <=? t) = true) by (apply Z.leb_le; lia).
    assert (T1 : (0 <=? t + 1) = true) by (apply Z.leb_le; lia).
    rewrite T0, T1. cbn [fst snd].
    unfold t. rewrite !Z.pow_add_r by lia.
    replace (Z.succ L) with (L + 1) in HL by lia. rewrite Z.pow_add_r in HL by lia.
    change (2 ^ 1) with 2 in *. nia.
  - assert (Pe : 0 < 2 ^ (- e)) by (apply pow2_gt0; lia).
    split; [lia|]. split; [exact Pe|]. split.
    { rewrite Z.log2_pow2 by lia. fold L. lia. }
    rewrite fr_le, fr_lt by lia.
    replace (Z.succ L) with (L + 1) in HL by lia. rewrite Z.pow_add_r in HL by lia.
    change (2 ^ 1) with 2 in HL.
    unfold pow2frac in *. split.
    + destruct (Z.leb_spec 0 t) as [Ht|Ht]; cbn [fst snd].
      * assert (E2 : 2 ^ L = 2 ^ t * 2 ^ (- e)).
        { rewrite <- Z.pow_add_r by lia. f_equal. lia. }
        lia.
      * assert (E2 : 2 ^ (- e) = 2 ^ L * 2 ^ (- t)).
        { rewrite <- Z.pow_add_r by lia. f_equal. lia. }
        assert (0 < 2 ^ (- t)) by (apply pow2_gt0; lia). nia.
    + destruct (Z.leb_spec 0 (t + 1)) as [Ht|Ht]; cbn [fst snd].
      * assert (E2 : 2 * 2 ^ L = 2 ^ (t + 1) * 2 ^ (- e)).
        { rewrite <- Z.pow_add_r by lia. replace (t + 1 + - e) with (Z.succ L) by lia.
          rewrite Z.pow_succ_r by lia. reflexivity. }
        lia.
      * assert (E2 : 2 ^ (- e) = 2 * 2 ^ L * 2 ^ (- (t + 1))).
        { rewrite <- Z.pow_succ_r, <- Z.pow_add_r by lia. f_equal. lia. }
        assert (0 < 2 ^ (- (t + 1))) by (apply pow2_gt0; lia). nia.
Qed.

(** [log10_floor] is floor(log10(p/q)) on every double:  10^E <= p/q < 10^(E+1) *)
Theorem log10_floor_ratio : forall m e, -1074 <= Z.log2 (Zpos m) + e <= 1023 ->
  let p := fst (ratio m e) in let q := snd (ratio m e) in
  let E := log10_floor p q in
  0 < q /\ le10b E p q = true /\ lt10b (E + 1) p q = true.
Proof.
  intros m e Ht p q E.
  destruct (ratio_pow2 m e) as (Hp & Hq & Hl & B1 & B2). fold p q in Hp, Hq, Hl, B1, B2.
  set (t := Z.log2 (Zpos m) + e) in *.
  pose proof (guess_ok_range t Ht) as G. unfold guess_ok in G.
  apply andb_true_iff in G. destruct G as [G1 G2].
  apply (le10b_Q _ _ _ (pow2frac_den_pos t)) in G1.
  apply (lt10b_Q _ _ _ (pow2frac_den_pos (t + 1))) in G2.
  split; [exact Hq|].
  subst E. unfold log10_floor. rewrite Hl. fold (log10_guess t).
  assert (Hfuel : 1 + 1 < Z.of_nat 8) by (change (Z.of_nat 8) with 8; lia).
  apply (fix_log10_correct 8 p q (log10_guess t) 1 1 Hq ltac:(lia) ltac:(lia) Hfuel).
  - eapply Qle_trans; [exact G1|exact B1].
  - replace (log10_guess t + 1 + 1) with (log10_guess t + 2) by lia.
    eapply Qlt_trans; [exact B2|exact G2].
Qed.

(* ------------------------------------------------------------------ *)
(** * The rounding interval of a double *)

Lemma fr_eq : forall a b c d, 0 < b -> 0 < d -> a * d = c * b -> (fr a b == fr c d)%Q.
Proof.
  intros a b c d Hb Hd H. apply Qle_antisym; apply fr_le; lia.
Qed.

(** [interval m e] = (mid - down, mid, mid + up, den, m even) with down, up > 0 and
    mid/den = p/q, the exact value of the double *)
Lemma interval_spec : forall m e,
  let '(lo, mid, hi, den, incl) := interval m e in
  let p := fst (ratio m e) in let q := snd (ratio m e) in
  0 < den /\ lo < mid < hi /\ 0 < q /\ mid * q = p * den /\ incl = Z.even (Zpos m).
Proof.
  intros m e. unfold interval, ratio.
  destruct (Z.leb_spec 0 e) as [He|He]; cbn [fst snd].
  - destruct (Z.leb_spec 0 (e - 2)) as [He2|He2].
    + pose proof (pow2_gt0 (e - 2) He2).
      rewrite Z.mul_1_r, Z.div_1_r.
      destruct (Pos.eqb m 4503599627370496 && negb (e =? -1074))%bool; repeat split; lia.
    + pose proof (pow2_gt0 (2 - e) ltac:(lia)).
      rewrite Z.div_1_r.
      destruct (Pos.eqb m 4503599627370496 && negb (e =? -1074))%bool; repeat split; lia.
  - assert (E2 : (0 <=? e - 2) = false) by (apply Z.leb_gt; lia). rewrite E2.
    pose proof (pow2_gt0 (- e) ltac:(lia)) as Pq.
    assert (Ed : 2 ^ (2 - e) = 4 * 2 ^ (- e)).
    { replace (2 - e) with (2 + - e) by lia. rewrite Z.pow_add_r by lia. reflexivity. }
    rewrite Ed.
    replace (Z.pos m * (4 * 2 ^ (- e)) / 2 ^ (- e)) with (Z.pos m * 4)
      by (rewrite Z.mul_assoc, Z.div_mul by lia; reflexivity).
    destruct (Pos.eqb m 4503599627370496 && negb (e =? -1074))%bool; repeat split; lia.
Qed.

Lemma Some_inj : forall (A : Type) (a b : A), Some a = Some b -> a = b.
Proof. intros A a b H. congruence. Qed.

(** Level 1 for a double m * 2^e: the candidate digits are inside the rounding interval
    and no decimal inside it has fewer significant digits. *)
Theorem shortest_candidate_minimal : forall m e d x,
  -1074 <= Z.log2 (Zpos m) + e <= 1023 ->
  shortest_candidate m e = Some (d, x) ->
  let '(lo, mid, hi, den, incl) := interval m e in
  0 < d /\ in_interval lo hi den incl d x = true /\
  forall d' x', 0 < d' -> in_interval lo hi den incl d' x' = true -> sigdigits d <= sigdigits d'.
Proof.
  intros m e d x Ht H. unfold shortest_candidate in H.
  pose proof (interval_spec m e) as HI.
  destruct (log10_floor_ratio m e Ht) as (Hq & L1 & L2).
  destruct (interval m e) as [[[[lo mid] hi] den] incl].
  destruct (ratio m e) as [p q]. cbn [fst snd] in *.
  destruct HI as (Hden & Hord & _ & Hmid & _).
  set (E := log10_floor p q) in *.
  destruct (shortest_from 18 1 lo mid hi den incl E) as [[d0 x0]|] eqn:Es; [|discriminate].
  pose proof (Some_inj _ _ _ H) as Hs. clear H.
  assert (Ev : (fr mid den == fr p q)%Q) by (apply fr_eq; assumption).
  apply (le10b_Q _ _ _ Hq) in L1. apply (lt10b_Q _ _ _ Hq) in L2.
  rewrite <- Ev in L1, L2.
  destruct (shortest_from_minimal_Q 18 lo mid hi den incl E d0 x0 Hden Hord L1 L2 Es)
    as (Hd0 & Hin0 & Hmin).
  split; [apply (strip0_pos' 25 d0 x0 d x Hd0 Hs)|]. split.
  - apply (in_interval_Q _ _ _ _ _ _ Hden). apply (in_interval_Q _ _ _ _ _ _ Hden) in Hin0.
    apply (inI_eq _ _ _ (dq d0 x0)); [|exact Hin0]. symmetry. apply (strip0_dq 25). exact Hs.
  - intros d' x' Hd' Hin'. rewrite (sigdigits_strip0 25 d0 x0 d x Hd0 Hs).
    apply (Hmin d' x' Hd' Hin').
Qed.

Print Assumptions shortest_from_minimal.
Print Assumptions log10_floor_ratio.
Print Assumptions shortest_candidate_minimal.
