(** Common ground of the parser soundness / completeness proofs:
    token kinds and symbols, consumed prefixes ([SymPre]), the facts about the
    ladder table (by computation), inversion of [pbind], tree size and induction
    principles, first symbols, elementary properties of [WFk]. *)
From Borno Require Import Base Num Token Ast Parser ParserEqs ParserMono Grammar.
Local Open Scope nat_scope.

Ltac inv H := inversion H; subst; clear H.

(** * Token kinds *)

Lemma tkind_code_inj a b : tkind_code a = tkind_code b -> a = b.
Proof.
  intros H.
  assert (D : forall k, nth (N.to_nat (tkind_code k)) all_tkinds TLEFT_PAREN = k)
    by (intros k; destruct k; reflexivity).
  rewrite <- (D a), <- (D b), H. reflexivity.
Qed.

Lemma tkind_eqb_eq a b : tkind_eqb a b = true <-> a = b.
Proof.
  unfold tkind_eqb. rewrite N.eqb_eq. split; [apply tkind_code_inj|intros ->; reflexivity].
Qed.
Lemma tkind_eqb_refl a : tkind_eqb a a = true.
Proof. apply tkind_eqb_eq. reflexivity. Qed.
Lemma tkind_eqb_neq a b : a <> b -> tkind_eqb a b = false.
Proof. intros H. destruct (tkind_eqb a b) eqn:E; [apply tkind_eqb_eq in E; contradiction|reflexivity]. Qed.
Lemma tkind_eqb_false a b : tkind_eqb a b = false -> a <> b.
Proof. intros E ->. rewrite tkind_eqb_refl in E. discriminate. Qed.

Lemma kind_in_In k l : kind_in k l = true <-> In k l.
Proof.
  unfold kind_in. rewrite existsb_exists. split.
  - intros (x & Hx & E). apply tkind_eqb_eq in E. subst x. exact Hx.
  - intros H. exists k. split; [exact H|apply tkind_eqb_refl].
Qed.

Lemma all_tkinds_complete k : In k all_tkinds.
Proof. apply kind_in_In. destruct k; reflexivity. Qed.

(** a boolean property checked on the table of all kinds holds of every kind *)
Lemma forall_tkinds (P : tkind -> bool) : forallb P all_tkinds = true -> forall k, P k = true.
Proof. intros H k. rewrite forallb_forall in H. apply H, all_tkinds_complete. Qed.

Lemma str_eqb_eq a b : str_eqb a b = true <-> a = b.
Proof.
  revert b. induction a as [|x a IH]; intros [|y b]; simpl; split; intros H; try discriminate; try reflexivity.
  - apply andb_true_iff in H. destruct H as (H1 & H2). apply N.eqb_eq in H1. apply IH in H2. subst. reflexivity.
  - inv H. rewrite N.eqb_refl. simpl. apply IH. reflexivity.
Qed.
Lemma str_eqb_refl a : str_eqb a a = true.
Proof. apply str_eqb_eq. reflexivity. Qed.
Lemma str_eqb_neq a b : a <> b -> str_eqb a b = false.
Proof. intros H. destruct (str_eqb a b) eqn:E; [apply str_eqb_eq in E; contradiction|reflexivity]. Qed.

(** * Token symbols *)

(** kinds whose tokens carry nothing but the kind *)
Definition plain (k : tkind) : bool :=
  match k with TIDENTIFIER | TNUMBER | TSTRING => false | _ => true end.

Lemma sym_of_plain t : plain (tk t) = true -> sym_of t = Sym (tk t).
Proof. unfold sym_of. destruct (tk t); try reflexivity; discriminate. Qed.

Lemma sym_of_tk t k : tk t = k -> plain k = true -> sym_of t = Sym k.
Proof. intros <- H. apply sym_of_plain, H. Qed.

Lemma kind_of_sym_of t : kind_of_sym (sym_of t) = tk t.
Proof.
  unfold sym_of. destruct (tk t) eqn:E; try reflexivity.
  - destruct (tlit t); reflexivity.
  - destruct (tlit t); reflexivity.
Qed.

Lemma sym_of_kind t x : sym_of t = x -> tk t = kind_of_sym x.
Proof. intros <-. symmetry. apply kind_of_sym_of. Qed.

Lemma sym_of_SymId t x : sym_of t = SymId x -> tk t = TIDENTIFIER /\ tlex t = x.
Proof.
  intros H. split; [apply (sym_of_kind _ _ H)|].
  unfold sym_of in H. destruct (tk t); try discriminate.
  - inv H. reflexivity.
  - destruct (tlit t); discriminate.
  - destruct (tlit t); discriminate.
Qed.
Lemma sym_of_SymNum t v : sym_of t = SymNum v -> tk t = TNUMBER /\ tlit t = LNum v.
Proof.
  intros H. split; [apply (sym_of_kind _ _ H)|].
  unfold sym_of in H. destruct (tk t); try discriminate.
  - destruct (tlit t); try discriminate.
  - destruct (tlit t); try discriminate. inv H. reflexivity.
Qed.
Lemma sym_of_SymStr t s : sym_of t = SymStr s -> tk t = TSTRING /\ tlit t = LStr s.
Proof.
  intros H. split; [apply (sym_of_kind _ _ H)|].
  unfold sym_of in H. destruct (tk t); try discriminate.
  - destruct (tlit t); try discriminate. inv H. reflexivity.
  - destruct (tlit t); try discriminate.
Qed.

Lemma sym_of_ident t : tk t = TIDENTIFIER -> sym_of t = SymId (tlex t).
Proof. unfold sym_of. intros ->. reflexivity. Qed.

Definition good_sym (s : tsym) : Prop := s <> Sym TIDENTIFIER.

Lemma sym_of_tok_of_sym l s : good_sym s -> sym_of (tok_of_sym l s) = s.
Proof.
  unfold good_sym. destruct s as [k| | |]; try reflexivity.
  destruct k; intros H; try reflexivity. contradiction H. reflexivity.
Qed.
Lemma tline_tok_of_sym l s : tline (tok_of_sym l s) = l.
Proof. destruct s; reflexivity. Qed.

Lemma map_sym_of_tok_of_sym l s : Forall good_sym s -> map sym_of (map (tok_of_sym l) s) = s.
Proof.
  induction 1 as [|x s Hx Hs IH]; simpl; [reflexivity|].
  rewrite sym_of_tok_of_sym by exact Hx. rewrite IH. reflexivity.
Qed.

(** * Consumed prefixes

    [SymPre s ts r]: going from [ts] to [r] consumes tokens whose symbols are [s]. *)
Definition SymPre (s : list tsym) (ts r : list token) : Prop :=
  exists pre, ts = pre ++ r /\ map sym_of pre = s.

Lemma SymPre_nil ts : SymPre [] ts ts.
Proof. exists []. split; reflexivity. Qed.

Lemma SymPre_nil_inv ts r : SymPre [] ts r -> ts = r.
Proof. intros (pre & -> & E). apply map_eq_nil in E. subst pre. reflexivity. Qed.

Lemma SymPre_cons t x s ts r : sym_of t = x -> SymPre s ts r -> SymPre (x :: s) (t :: ts) r.
Proof. intros <- (pre & -> & <-). exists (t :: pre). split; reflexivity. Qed.

Lemma SymPre_cons_inv x s ts r :
  SymPre (x :: s) ts r -> exists t ts', ts = t :: ts' /\ sym_of t = x /\ SymPre s ts' r.
Proof.
  intros (pre & -> & E). destruct pre as [|t pre]; [discriminate|]. simpl in E. inv E.
  exists t, (pre ++ r). split; [reflexivity|split; [reflexivity|]]. exists pre. split; reflexivity.
Qed.

Lemma SymPre_app s1 s2 ts mid r : SymPre s1 ts mid -> SymPre s2 mid r -> SymPre (s1 ++ s2) ts r.
Proof.
  intros (p1 & -> & <-) (p2 & -> & <-). exists (p1 ++ p2). split.
  - rewrite app_assoc. reflexivity.
  - rewrite map_app. reflexivity.
Qed.

Lemma SymPre_app_inv s1 s2 ts r :
  SymPre (s1 ++ s2) ts r -> exists mid, SymPre s1 ts mid /\ SymPre s2 mid r.
Proof.
  intros (pre & -> & E). apply map_eq_app in E. destruct E as (p1 & p2 & -> & <- & <-).
  exists (p2 ++ r). split.
  - exists p1. split; [rewrite app_assoc; reflexivity|reflexivity].
  - exists p2. split; reflexivity.
Qed.

Lemma SymPre_one t x r : sym_of t = x -> SymPre [x] (t :: r) r.
Proof. intros H. apply SymPre_cons; [exact H|apply SymPre_nil]. Qed.

Lemma SymPre_Forall (P : token -> Prop) s ts r : SymPre s ts r -> Forall P ts -> Forall P r.
Proof. intros (pre & -> & _) H. apply Forall_app in H. apply H. Qed.

(** * The ladder table *)

Definition lvl (k : nat) : list tkind * bool := nth k ladder ([], false).

Lemma skipn_nth {A} (d : A) (l : list A) k : k < length l -> skipn k l = nth k l d :: skipn (S k) l.
Proof.
  revert k. induction l as [|x l IH]; intros k H; simpl in H; [lia|].
  destruct k as [|k]; [reflexivity|]. simpl. apply IH. lia.
Qed.

Lemma ladder_skipn k : k < nlev -> skipn k ladder = lvl k :: skipn (S k) ladder.
Proof. intros H. apply skipn_nth. exact H. Qed.

Lemma ladder_skipn_all : skipn nlev ladder = [].
Proof. apply skipn_all. Qed.

Lemma level_logical_lvl k : level_logical k = snd (lvl k).
Proof. reflexivity. Qed.

(** the operator sets of the levels are pairwise disjoint and [op_level] finds the level *)
Definition ladder_check : bool :=
  forallb (fun op =>
    forallb (fun k => Bool.eqb (kind_in op (fst (lvl k)))
                               (match op_level op with Some j => Nat.eqb j k | None => false end))
            (seq 0 nlev)) all_tkinds.

Lemma ladder_check_ok : ladder_check = true.
Proof. vm_compute. reflexivity. Qed.

Lemma level_ops_spec op k : k < nlev -> (kind_in op (fst (lvl k)) = true <-> op_level op = Some k).
Proof.
  intros Hk. pose proof ladder_check_ok as H. unfold ladder_check in H.
  rewrite forallb_forall in H. specialize (H op (all_tkinds_complete op)).
  rewrite forallb_forall in H. specialize (H k).
  assert (Hin : In k (seq 0 nlev)) by (apply in_seq; lia).
  specialize (H Hin). apply Bool.eqb_prop in H. rewrite H.
  destruct (op_level op) as [j|]; split; intros E; try discriminate.
  - apply Nat.eqb_eq in E. subst. reflexivity.
  - inv E. apply Nat.eqb_refl.
Qed.

Lemma op_level_lt op j : op_level op = Some j -> j < nlev.
Proof.
  intros H.
  pose proof (forall_tkinds (fun op => match op_level op with Some j => Nat.ltb j nlev | None => true end)
                            ltac:(vm_compute; reflexivity) op) as P.
  cbv beta in P. rewrite H in P. apply Nat.ltb_lt in P. exact P.
Qed.

Lemma op_level_plain op j : op_level op = Some j -> plain op = true.
Proof.
  intros H.
  pose proof (forall_tkinds (fun op => match op_level op with Some _ => plain op | None => true end)
                            ltac:(vm_compute; reflexivity) op) as P.
  cbv beta in P. rewrite H in P. exact P.
Qed.

Lemma is_unop_plain op : is_unop op = true -> plain op = true.
Proof. destruct op; intros H; try reflexivity; discriminate H. Qed.

(** separators and brackets are not binary operators *)
Lemma op_level_not_sep op j :
  op_level op = Some j ->
  op <> TLEFT_PAREN /\ op <> TLEFT_BRACKET /\ op <> TDOT /\ op <> TEQUAL.
Proof.
  intros H. repeat split; intros ->; vm_compute in H; discriminate H.
Qed.

Lemma nlev_pos : 0 < nlev.
Proof. vm_compute. lia. Qed.

(** * [pbind] *)

Lemma pbind_ok {A B} (x : pres A) (k : A -> list token -> pres B) b r ds :
  pbind x k = POk b r ds ->
  exists a r1 ds1 ds2, x = POk a r1 ds1 /\ k a r1 = POk b r ds2 /\ ds = ds1 ++ ds2.
Proof.
  destruct x as [a r1 ds1| |]; simpl; try discriminate.
  destruct (k a r1) as [b' r' ds2| |] eqn:E; try discriminate.
  intros H. inv H. exists a, r1, ds1, ds2. split; [reflexivity|split; [exact E|reflexivity]].
Qed.

Lemma pbind_nil {A B} (x : pres A) (k : A -> list token -> pres B) a r :
  x = POk a r [] -> pbind x k = k a r.
Proof. intros ->. simpl. destruct (k a r); reflexivity. Qed.

Tactic Notation "bd" hyp(H) "as" ident(a) ident(r) ident(d1) ident(d2) ident(E) ident(Ed) :=
  apply pbind_ok in H; destruct H as (a & r & d1 & d2 & E & H & Ed); cbv beta in H.

Section Consume.
Variable eofl : N.
Notation consume := (Parser.consume eofl).

Lemma consume_ok k pk ts t r ds : consume k pk ts = POk t r ds -> ts = t :: r /\ tk t = k /\ ds = [].
Proof.
  unfold Parser.consume. destruct ts as [|t0 ts0]; [discriminate|].
  destruct (tkind_eqb (tk t0) k) eqn:E; [|discriminate].
  intros H. inv H. apply tkind_eqb_eq in E. auto.
Qed.

Lemma consume_hit k pk t r : tk t = k -> consume k pk (t :: r) = POk t r [].
Proof. intros <-. unfold Parser.consume. rewrite tkind_eqb_refl. reflexivity. Qed.

Lemma consume_lenient_hit k pk t r : tk t = k -> consume_lenient eofl k pk (t :: r) = (r, []).
Proof. intros <-. unfold Parser.consume_lenient. rewrite tkind_eqb_refl. reflexivity. Qed.

Lemma consume_lenient_nil k pk ts r : consume_lenient eofl k pk ts = (r, []) -> exists t, ts = t :: r /\ tk t = k.
Proof.
  unfold Parser.consume_lenient. destruct ts as [|t0 ts0]; [discriminate|].
  destruct (tkind_eqb (tk t0) k) eqn:E; [|discriminate].
  intros H. inv H. apply tkind_eqb_eq in E. eauto.
Qed.
End Consume.

Lemma check_cons k t r : check k (t :: r) = tkind_eqb (tk t) k.
Proof. reflexivity. Qed.
Lemma check_true k ts : check k ts = true -> exists t r, ts = t :: r /\ tk t = k.
Proof. destruct ts as [|t r]; [discriminate|]. simpl. intros E. apply tkind_eqb_eq in E. eauto. Qed.
Lemma check_hit k t r : tk t = k -> check k (t :: r) = true.
Proof. intros <-. apply tkind_eqb_refl. Qed.
Lemma check_miss k t r : tk t <> k -> check k (t :: r) = false.
Proof. intros H. apply tkind_eqb_neq, H. Qed.

(** * Size of a tree; induction principles *)

Fixpoint esize (e : expr) : nat :=
  match e with
  | ELit _ _ | EId _ _ => 1
  | EGroup e _ | EUnary _ e _ => S (esize e)
  | EBinary _ l r _ | ELogical _ l r => S (esize l + esize r)
  | EAssign _ _ v _ => S (esize v)
  | EArrAssign a i v _ => S (esize a + esize i + esize v)
  | EPropAssign o _ v _ => S (esize o + esize v)
  | ECall c _ args => S (esize c + list_sum (map esize args))
  | EIndex a i _ => S (esize a + esize i)
  | EProp o _ _ => S (esize o)
  | EArray es => S (list_sum (map esize es))
  | EObject ps => S (list_sum (map (fun kv => let '(_, v) := kv in esize v) ps))
  end.

Lemma esize_pos e : 0 < esize e.
Proof. destruct e; simpl; lia. Qed.

Lemma esize_object ps : esize (EObject ps) = S (list_sum (map esize (map snd ps))).
Proof.
  simpl. f_equal. f_equal. rewrite map_map. apply map_ext. intros [k v]. reflexivity.
Qed.

Lemma list_sum_in (l : list nat) x : In x l -> x <= list_sum l.
Proof. induction l as [|y l IH]; simpl; intros H; [contradiction|]. destruct H as [->|H]; [lia|]. apply IH in H. lia. Qed.

Lemma esize_in e es : In e es -> esize e <= list_sum (map esize es).
Proof. intros H. apply list_sum_in. apply in_map, H. Qed.

Section ExprInd.
Variable P : expr -> Prop.
Hypothesis H_lit : forall v ln, P (ELit v ln).
Hypothesis H_id : forall x ln, P (EId x ln).
Hypothesis H_group : forall e ln, P e -> P (EGroup e ln).
Hypothesis H_unary : forall op e ln, P e -> P (EUnary op e ln).
Hypothesis H_binary : forall op l r ln, P l -> P r -> P (EBinary op l r ln).
Hypothesis H_logical : forall op l r, P l -> P r -> P (ELogical op l r).
Hypothesis H_assign : forall x nl v ln, P v -> P (EAssign x nl v ln).
Hypothesis H_arrassign : forall a i v ln, P a -> P i -> P v -> P (EArrAssign a i v ln).
Hypothesis H_propassign : forall o p v ln, P o -> P v -> P (EPropAssign o p v ln).
Hypothesis H_call : forall c pl args, P c -> Forall P args -> P (ECall c pl args).
Hypothesis H_index : forall a i ln, P a -> P i -> P (EIndex a i ln).
Hypothesis H_prop : forall o p ln, P o -> P (EProp o p ln).
Hypothesis H_array : forall es, Forall P es -> P (EArray es).
Hypothesis H_object : forall ps, Forall P (map snd ps) -> P (EObject ps).

(** structural induction on trees, through the lists *)
Fixpoint expr_ind' (e : expr) : P e :=
  match e with
  | ELit v ln => H_lit v ln
  | EId x ln => H_id x ln
  | EGroup e ln => H_group e ln (expr_ind' e)
  | EUnary op e ln => H_unary op e ln (expr_ind' e)
  | EBinary op l r ln => H_binary op l r ln (expr_ind' l) (expr_ind' r)
  | ELogical op l r => H_logical op l r (expr_ind' l) (expr_ind' r)
  | EAssign x nl v ln => H_assign x nl v ln (expr_ind' v)
  | EArrAssign a i v ln => H_arrassign a i v ln (expr_ind' a) (expr_ind' i) (expr_ind' v)
  | EPropAssign o p v ln => H_propassign o p v ln (expr_ind' o) (expr_ind' v)
  | ECall c pl args =>
      H_call c pl args (expr_ind' c)
        ((fix go (l : list expr) : Forall P l :=
            match l with [] => Forall_nil _ | x :: l' => Forall_cons x (expr_ind' x) (go l') end) args)
  | EIndex a i ln => H_index a i ln (expr_ind' a) (expr_ind' i)
  | EProp o p ln => H_prop o p ln (expr_ind' o)
  | EArray es =>
      H_array es
        ((fix go (l : list expr) : Forall P l :=
            match l with [] => Forall_nil _ | x :: l' => Forall_cons x (expr_ind' x) (go l') end) es)
  | EObject ps =>
      H_object ps
        ((fix go (l : list (list N * expr)) : Forall P (map snd l) :=
            match l with
            | [] => Forall_nil _
            | kv :: l' => Forall_cons (snd kv) (let '(_, v) as kv0 := kv return P (snd kv0) in expr_ind' v) (go l')
            end) ps)
  end.
End ExprInd.

(** induction on well-formed trees (all children) *)
Section WFInd.
Variable P : expr -> Prop.
Hypothesis H_lit : forall v ln, P (ELit v ln).
Hypothesis H_id : forall x ln, P (EId x ln).
Hypothesis H_group : forall e ln, WFfull e -> P e -> P (EGroup e ln).
Hypothesis H_unary : forall op e ln, is_unop op = true -> WFk nlev e -> P e -> P (EUnary op e ln).
Hypothesis H_binary : forall op j l r ln,
  op_level op = Some j -> level_logical j = false -> WFk j l -> WFk (S j) r -> P l -> P r -> P (EBinary op l r ln).
Hypothesis H_logical : forall op j l r,
  op_level op = Some j -> level_logical j = true -> WFk j l -> WFk (S j) r -> P l -> P r -> P (ELogical op l r).
Hypothesis H_assign : forall x nl v ln, WFfull v -> P v -> P (EAssign x nl v ln).
Hypothesis H_arrassign : forall a i v ln,
  WFk (S nlev) a -> WFfull i -> WFfull v -> P a -> P i -> P v -> P (EArrAssign a i v ln).
Hypothesis H_propassign : forall o p v ln, WFk (S nlev) o -> WFfull v -> P o -> P v -> P (EPropAssign o p v ln).
Hypothesis H_call : forall c pl args, WFk (S nlev) c -> Forall WFfull args -> P c -> Forall P args -> P (ECall c pl args).
Hypothesis H_index : forall a i ln, WFk (S nlev) a -> WFfull i -> P a -> P i -> P (EIndex a i ln).
Hypothesis H_prop : forall o p ln, WFk (S nlev) o -> P o -> P (EProp o p ln).
Hypothesis H_array : forall es, Forall WFfull es -> Forall P es -> P (EArray es).
Hypothesis H_object : forall ps,
  NoDup (map fst ps) -> Forall WFfull (map snd ps) -> Forall P (map snd ps) -> P (EObject ps).

Lemma WF_ind_size : forall n e, esize e <= n -> (WFfull e -> P e) /\ (forall k, WFk k e -> P e).
Proof.
  induction n as [|n IH]; intros e Hs. { pose proof (esize_pos e). lia. }
  assert (FA : forall es, list_sum (map esize es) <= n -> Forall WFfull es -> Forall P es).
  { intros es Hle HF. apply Forall_forall. intros x Hx.
    rewrite Forall_forall in HF. apply (IH x); [|apply HF, Hx].
    pose proof (esize_in x es Hx). lia. }
  assert (K : forall k, WFk k e -> P e).
  { intros k W. inv W; try rewrite esize_object in Hs; cbn [esize] in Hs.
    - apply H_lit.
    - apply H_id.
    - apply H_group; [assumption|]. apply (IH e0); [lia|assumption].
    - apply H_array; [assumption|]. apply FA; [lia|assumption].
    - apply H_object; [assumption|assumption|]. apply FA; [lia|assumption].
    - apply H_unary; [assumption|assumption|]. apply (proj2 (IH e0 ltac:(lia)) nlev). assumption.
    - eapply H_binary; try eassumption.
      + apply (proj2 (IH l ltac:(lia)) j). assumption.
      + apply (proj2 (IH r ltac:(lia)) (S j)). assumption.
    - eapply H_logical; try eassumption.
      + apply (proj2 (IH l ltac:(lia)) j). assumption.
      + apply (proj2 (IH r ltac:(lia)) (S j)). assumption.
    - apply H_call; try assumption.
      + apply (proj2 (IH c ltac:(lia)) (S nlev)). assumption.
      + apply FA; [lia|assumption].
    - apply H_index; try assumption.
      + apply (proj2 (IH a ltac:(lia)) (S nlev)). assumption.
      + apply (IH i); [lia|assumption].
    - apply H_prop; try assumption. apply (proj2 (IH o ltac:(lia)) (S nlev)). assumption. }
  split; [|exact K].
  intros W. inv W; simpl in Hs.
  - apply H_assign; [assumption|]. apply (IH v); [lia|assumption].
  - apply H_arrassign; try assumption.
    + apply (proj2 (IH a ltac:(lia)) (S nlev)). assumption.
    + apply (IH i); [lia|assumption].
    + apply (IH v); [lia|assumption].
  - apply H_propassign; try assumption.
    + apply (proj2 (IH o ltac:(lia)) (S nlev)). assumption.
    + apply (IH v); [lia|assumption].
  - eapply K. eassumption.
Qed.

Lemma WFfull_ind_all e : WFfull e -> P e.
Proof. apply (WF_ind_size (esize e) e (le_n _)). Qed.
Lemma WFk_ind_all k e : WFk k e -> P e.
Proof. apply (WF_ind_size (esize e) e (le_n _)). Qed.
End WFInd.

(** * Elementary properties of [WFk] *)

Lemma WFk_le k k' e : WFk k e -> k' <= k -> WFk k' e.
Proof. intros H Hle. inv H; econstructor; eauto; lia. Qed.

(** a level-[k] tree that is not a level-[k] operator node is a level-[k+1] tree *)
Lemma WFk_up k e : WFk k e -> k < nlev ->
  (exists op l r ln, e = EBinary op l r ln /\ op_level op = Some k /\ level_logical k = false /\ WFk k l /\ WFk (S k) r) \/
  (exists op l r, e = ELogical op l r /\ op_level op = Some k /\ level_logical k = true /\ WFk k l /\ WFk (S k) r) \/
  WFk (S k) e.
Proof.
  intros H Hk. inv H; try (right; right; constructor; auto; lia).
  - destruct (Nat.eq_dec k j) as [->|Hne].
    + left. eauto 10.
    + right; right. econstructor; eauto. lia.
  - destruct (Nat.eq_dec k j) as [->|Hne].
    + right; left. eauto 10.
    + right; right. econstructor; eauto. lia.
Qed.

(** a unary-level tree is a unary node or a postfix-level tree *)
Lemma WFk_unary_cases e : WFk nlev e ->
  (exists op e0 ln, e = EUnary op e0 ln /\ is_unop op = true /\ WFk nlev e0) \/ WFk (S nlev) e.
Proof.
  intros H. inv H; try (right; constructor; auto; fail).
  - left. eauto 10.
  - exfalso. match goal with HO : op_level _ = Some _ |- _ => apply op_level_lt in HO end. lia.
  - exfalso. match goal with HO : op_level _ = Some _ |- _ => apply op_level_lt in HO end. lia.
Qed.

(** * First symbols *)

Definition first_sym : expr -> tsym :=
  fix go (e : expr) : tsym :=
  match e with
  | ELit v _ => flat_lit v
  | EId x _ => SymId x
  | EGroup _ _ => Sym TLEFT_PAREN
  | EUnary op _ _ => Sym op
  | EBinary _ l _ _ | ELogical _ l _ => go l
  | EAssign x _ _ _ => SymId x
  | EArrAssign a _ _ _ => go a
  | EPropAssign o _ _ _ => go o
  | ECall c _ _ => go c
  | EIndex a _ _ => go a
  | EProp o _ _ => go o
  | EArray _ => Sym TLEFT_BRACKET
  | EObject _ => Sym TLEFT_BRACE
  end.

Lemma flat_first e : exists s, flat_e e = first_sym e :: s.
Proof.
  induction e; simpl; try (eexists; reflexivity);
    try (destruct IHe as (s & ->); simpl; eexists; reflexivity);
    try (destruct IHe1 as (s & ->); simpl; eexists; reflexivity).
Qed.

(** kinds that begin a postfix-level expression *)
Definition pstarter_kind (k : tkind) : bool :=
  match k with
  | TFALSE | TTRUE | TNIL | TNUMBER | TSTRING | TIDENTIFIER | TLEFT_PAREN | TLEFT_BRACKET | TLEFT_BRACE => true
  | _ => false
  end.
(** kinds that begin an expression *)
Definition starter_kind (k : tkind) : bool := pstarter_kind k || is_unop k.

Lemma flat_lit_pstarter v : pstarter_kind (kind_of_sym (flat_lit v)) = true.
Proof. destruct v as [|[|]| |]; reflexivity. Qed.

Lemma first_sym_post e : WFk (S nlev) e -> pstarter_kind (kind_of_sym (first_sym e)) = true.
Proof.
  induction e; intros W; inv W; simpl; try reflexivity; auto using flat_lit_pstarter.
  - exfalso; lia.
  - exfalso. match goal with HO : op_level _ = Some _ |- _ => apply op_level_lt in HO end. lia.
  - exfalso. match goal with HO : op_level _ = Some _ |- _ => apply op_level_lt in HO end. lia.
Qed.

Lemma first_sym_level e : forall k, WFk k e -> starter_kind (kind_of_sym (first_sym e)) = true.
Proof.
  unfold starter_kind.
  induction e; intros k W; inv W; simpl; try reflexivity; eauto;
    try (rewrite first_sym_post by assumption; reflexivity).
  - rewrite flat_lit_pstarter. reflexivity.
  - match goal with HU : is_unop _ = true |- _ => rewrite HU end. apply orb_true_r.
Qed.

Lemma first_sym_full e : WFfull e -> starter_kind (kind_of_sym (first_sym e)) = true.
Proof.
  intros W. inv W; simpl; try reflexivity.
  - unfold starter_kind. rewrite first_sym_post by assumption. reflexivity.
  - unfold starter_kind. rewrite first_sym_post by assumption. reflexivity.
  - eapply first_sym_level. eassumption.
Qed.

Lemma pstarter_not_unop k : pstarter_kind k = true -> is_unop k = false.
Proof. destruct k; intros H; try discriminate H; reflexivity. Qed.

(** * Erasure *)

Definition erase_kv (kv : list N * expr) : list N * expr := let '(k, v) := kv in (k, erase_e v).

Lemma erase_object ps : erase_e (EObject ps) = EObject (map erase_kv ps).
Proof. reflexivity. Qed.

Lemma props_put_map {A B} (g : A -> B) (ps : list (list N * A)) k v :
  map (fun kv => let '(k, v) := kv in (k, g v)) (props_put ps k v) =
  props_put (map (fun kv => let '(k, v) := kv in (k, g v)) ps) k (g v).
Proof.
  induction ps as [|[k' v'] ps IH]; simpl; [reflexivity|].
  destruct (str_eqb k k'); simpl; [reflexivity|]. rewrite IH. reflexivity.
Qed.

Lemma fold_put_map (g : expr -> expr) raw : forall acc,
  map (fun kv => let '(k, v) := kv in (k, g v)) (fold_left put_kv raw acc) =
  fold_left put_kv (map (fun kv => let '(k, v) := kv in (k, g v)) raw)
            (map (fun kv => let '(k, v) := kv in (k, g v)) acc).
Proof.
  induction raw as [|[k v] raw IH]; intros acc; simpl; [reflexivity|].
  rewrite IH. unfold put_kv at 2 4. simpl. rewrite props_put_map. reflexivity.
Qed.

Lemma map_fst_erase ps : map fst (map erase_kv ps) = map fst ps.
Proof. rewrite map_map. apply map_ext. intros [k v]. reflexivity. Qed.
Lemma map_snd_erase ps : map snd (map erase_kv ps) = map erase_e (map snd ps).
Proof. rewrite !map_map. apply map_ext. intros [k v]. reflexivity. Qed.

(** * Object property tables *)

Lemma props_put_fresh {A} (ps : list (list N * A)) k v :
  ~ In k (map fst ps) -> props_put ps k v = ps ++ [(k, v)].
Proof.
  induction ps as [|[k' v'] ps IH]; simpl; intros H; [reflexivity|].
  rewrite str_eqb_neq by (intros ->; apply H; left; reflexivity).
  rewrite IH by (intros H1; apply H; right; exact H1). reflexivity.
Qed.

Lemma fold_put_nodup ps : forall acc,
  NoDup (map fst (acc ++ ps)) -> fold_left put_kv ps acc = acc ++ ps.
Proof.
  induction ps as [|[k v] ps IH]; intros acc H; simpl; [rewrite app_nil_r; reflexivity|].
  unfold put_kv at 2. simpl.
  rewrite map_app in H. simpl in H.
  rewrite props_put_fresh.
  - rewrite IH; [rewrite <- app_assoc; reflexivity|].
    rewrite <- app_assoc. simpl. rewrite map_app. simpl. exact H.
  - apply NoDup_remove_2 in H. intros Hin. apply H. apply in_or_app. left. exact Hin.
Qed.

Lemma props_put_keys {A} (ps : list (list N * A)) k v :
  map fst (props_put ps k v) = if existsb (str_eqb k) (map fst ps) then map fst ps else map fst ps ++ [k].
Proof.
  induction ps as [|[k' v'] ps IH]; simpl; [reflexivity|].
  destruct (str_eqb k k') eqn:E; simpl; [reflexivity|]. rewrite IH.
  destruct (existsb (str_eqb k) (map fst ps)); reflexivity.
Qed.

Lemma NoDup_snoc {A} (l : list A) x : NoDup l -> ~ In x l -> NoDup (l ++ [x]).
Proof.
  induction l as [|y l IH]; simpl; intros H Hn.
  - constructor; [intros []|constructor].
  - inv H. constructor.
    + intros Hin. apply in_app_or in Hin. destruct Hin as [Hin|[->|[]]]; [contradiction|].
      apply Hn. left. reflexivity.
    + apply IH; [assumption|]. intros Hin. apply Hn. right. exact Hin.
Qed.

Lemma props_put_nodup {A} (ps : list (list N * A)) k v :
  NoDup (map fst ps) -> NoDup (map fst (props_put ps k v)).
Proof.
  intros H. rewrite props_put_keys. destruct (existsb (str_eqb k) (map fst ps)) eqn:E; [exact H|].
  apply NoDup_snoc; [exact H|].
  intros Hin. assert (existsb (str_eqb k) (map fst ps) = true); [|congruence].
  apply existsb_exists. exists k. split; [exact Hin|apply str_eqb_refl].
Qed.

(** * Inversion of well-formedness by node form *)

Lemma WFk_post_cases e : WFk (S nlev) e ->
  match e with
  | ELit _ _ | EId _ _ => True
  | EGroup e0 _ => WFfull e0
  | EArray es => Forall WFfull es
  | EObject ps => NoDup (map fst ps) /\ Forall WFfull (map snd ps)
  | ECall c _ args => WFk (S nlev) c /\ Forall WFfull args
  | EIndex a i _ => WFk (S nlev) a /\ WFfull i
  | EProp o _ _ => WFk (S nlev) o
  | _ => False
  end.
Proof.
  intros W. inv W; auto.
  - lia.
  - match goal with HO : op_level _ = Some _ |- _ => apply op_level_lt in HO end. lia.
  - match goal with HO : op_level _ = Some _ |- _ => apply op_level_lt in HO end. lia.
Qed.

Lemma WFfull_cases e : WFfull e ->
  match e with
  | EAssign _ _ v _ => WFfull v
  | EArrAssign a i v _ => WFk (S nlev) a /\ WFfull i /\ WFfull v
  | EPropAssign o _ v _ => WFk (S nlev) o /\ WFfull v
  | _ => WFk 0 e
  end.
Proof.
  intros W. inv W; auto.
  match goal with HW : WFk 0 ?e |- _ => inversion HW; subst; auto; constructor; auto end.
Qed.

Lemma erase_mk_bin b op l r :
  erase_e (mk_bin b op l r) =
  if b then ELogical (tk op) (erase_e l) (erase_e r) else EBinary (tk op) (erase_e l) (erase_e r) 0%N.
Proof. destruct b; reflexivity. Qed.
