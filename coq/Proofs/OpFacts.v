(** Property C02 -- the operators of the evaluator compute the documented result for
    every combination of operand values (Model/Eval.v: [binop], [unop], [add], [arith],
    [bitwise], [val_eqb]).  The number-level meaning of [f_add], [f_sub], ... (exactly the
    IEEE-754 binary64 result, round to nearest even) is in Proofs/NumFacts.v; the
    int64 facts are in Proofs/NumInt.v. *)
From Coq Require Import ZArith NArith List Bool Lia Reals.
From Flocq Require Import Core BinarySingleNaN.
From Borno Require Import Base Num Unicode Token Ast Value Eval EvalEqs NumInt NumFacts.
Import ListNotations.
Open Scope N_scope.

(* ------------------------------------------------------------------ *)
(** * Small local facts on strings and natives *)

Lemma loc_str_eqb_eq : forall a b : list N, str_eqb a b = true <-> a = b.
Proof.
  induction a as [|x a IH]; intros [|y b]; cbn [str_eqb]; split; intros H;
    try reflexivity; try discriminate.
  - apply andb_true_iff in H. destruct H as [H1 H2].
    apply N.eqb_eq in H1. apply IH in H2. subst. reflexivity.
  - inversion H; subst. apply andb_true_iff. split; [apply N.eqb_refl|].
    apply IH. reflexivity.
Qed.

Lemma loc_str_eqb_sym : forall a b : list N, str_eqb a b = str_eqb b a.
Proof.
  induction a as [|x a IH]; intros [|y b]; cbn [str_eqb]; try reflexivity.
  rewrite (N.eqb_sym x y), (IH b). reflexivity.
Qed.

Lemma loc_native_eqb_eq : forall a b : native, native_eqb a b = true <-> a = b.
Proof.
  intros a b. split.
  - destruct a, b; intros H; try reflexivity; discriminate H.
  - intros E. subst b. unfold native_eqb. apply N.eqb_refl.
Qed.

Lemma loc_bool_eqb_sym : forall a b : bool, Bool.eqb a b = Bool.eqb b a.
Proof. intros [|] [|]; reflexivity. Qed.

(* ------------------------------------------------------------------ *)
(** * The operator classes *)

(** the nine purely numeric binary operators: - * / % ** < <= > >= *)
Definition is_arith_op (op : tkind) : Prop :=
  In op [TMINUS; TSTAR; TSLASH; TMODULO; TPOWER; TLESS; TLESS_EQUAL; TGREATER; TGREATER_EQUAL].

(** the five int64 binary operators: & | ^ << >> *)
Definition is_bitwise_op (op : tkind) : Prop :=
  In op [TAND; TOR; TXOR; TLEFT_SHIFT; TRIGHT_SHIFT].

(** the kind (dynamic type) of a value *)
Definition kind_of (v : value) : nat :=
  match v with
  | VNil => 0 | VBool _ => 1 | VNum _ => 2 | VStr _ => 3
  | VArr _ => 4 | VObj _ => 5 | VFun _ => 6 | VNative _ => 7
  end%nat.

(** the operand combinations [+] accepts *)
Definition add_supported (a b : value) : Prop :=
  match a, b with
  | VNum _, VNum _ | VNum _, VStr _
  | VStr _, VStr _ | VStr _, VNum _ | VStr _, VBool _ => True
  | _, _ => False
  end.

Section Ops.
Variable libm : N -> f64 -> f64 -> f64.
Variable clock : f64.
Variable sched : N -> list (list N * value) -> list (list N * value).

Notation eval := (eval libm clock sched).
Notation binop := (binop libm).
Notation arith := (arith libm).

(* ------------------------------------------------------------------ *)
(** * A.1  Numbers: each operator is the corresponding IEEE-754 operation *)

Lemma add_num s a b : binop s TPLUS (VNum a) (VNum b) = OVal (VNum (f_add a b)).
Proof. reflexivity. Qed.
Lemma sub_num s a b : binop s TMINUS (VNum a) (VNum b) = OVal (VNum (f_sub a b)).
Proof. reflexivity. Qed.
Lemma mul_num s a b : binop s TSTAR (VNum a) (VNum b) = OVal (VNum (f_mul a b)).
Proof. reflexivity. Qed.
Lemma div_num s a b : f_is_zero b = false ->
  binop s TSLASH (VNum a) (VNum b) = OVal (VNum (f_div a b)).
Proof. intros Hz. cbn [Eval.binop Eval.arith to_number]. rewrite Hz. reflexivity. Qed.
Lemma mod_num s a b : f_is_zero b = false ->
  binop s TMODULO (VNum a) (VNum b) = OVal (VNum (f_mod a b)).
Proof. intros Hz. cbn [Eval.binop Eval.arith to_number]. rewrite Hz. reflexivity. Qed.
Lemma pow_num s a b : binop s TPOWER (VNum a) (VNum b) = OVal (VNum (libm 0 a b)).
Proof. reflexivity. Qed.
Lemma neg_num a : unop TMINUS (VNum a) = OVal (VNum (f_neg a)).
Proof. reflexivity. Qed.
Lemma lt_num s a b : binop s TLESS (VNum a) (VNum b) = OVal (VBool (f_ltb a b)).
Proof. reflexivity. Qed.
Lemma le_num s a b : binop s TLESS_EQUAL (VNum a) (VNum b) = OVal (VBool (f_leb a b)).
Proof. reflexivity. Qed.
Lemma gt_num s a b : binop s TGREATER (VNum a) (VNum b) = OVal (VBool (f_gtb a b)).
Proof. reflexivity. Qed.
Lemma ge_num s a b : binop s TGREATER_EQUAL (VNum a) (VNum b) = OVal (VBool (f_geb a b)).
Proof. reflexivity. Qed.

(** The same for any operands that coerce to numbers (numeric strings included):
    the operation is applied to the coerced doubles. *)
Lemma arith_coerced s op a b x y :
  is_arith_op op -> to_number a = Some x -> to_number b = Some y ->
  binop s op a b =
    match op with
    | TMINUS => OVal (VNum (f_sub x y))
    | TSTAR => OVal (VNum (f_mul x y))
    | TSLASH => if f_is_zero y then OErr RDivZero else OVal (VNum (f_div x y))
    | TMODULO => if f_is_zero y then OErr RDivZero else OVal (VNum (f_mod x y))
    | TPOWER => OVal (VNum (libm 0 x y))
    | TLESS => OVal (VBool (f_ltb x y))
    | TLESS_EQUAL => OVal (VBool (f_leb x y))
    | TGREATER => OVal (VBool (f_gtb x y))
    | _ => OVal (VBool (f_geb x y))
    end.
Proof.
  intros Hop Ha Hb. unfold is_arith_op in Hop. cbn [In] in Hop.
  destruct Hop as [E|[E|[E|[E|[E|[E|[E|[E|[E|[]]]]]]]]]]; subst op;
    unfold Eval.binop, Eval.arith; rewrite Ha, Hb; reflexivity.
Qed.

Lemma neg_coerced a x : to_number a = Some x -> unop TMINUS a = OVal (VNum (f_neg x)).
Proof. intros Ha. unfold unop. rewrite Ha. reflexivity. Qed.

(* ------------------------------------------------------------------ *)
(** * A.2  Errors never yield a value *)

(** division and remainder by (plus or minus) zero *)
Lemma div_zero s a b : f_is_zero b = true -> to_number a <> None ->
  binop s TSLASH a (VNum b) = OErr RDivZero.
Proof.
  intros Hz Ha. unfold Eval.binop, Eval.arith.
  destruct (to_number a) as [x|]; [|exfalso; apply Ha; reflexivity].
  cbn [to_number]. rewrite Hz. reflexivity.
Qed.

Lemma mod_zero s a b : f_is_zero b = true -> to_number a <> None ->
  binop s TMODULO a (VNum b) = OErr RDivZero.
Proof.
  intros Hz Ha. unfold Eval.binop, Eval.arith.
  destruct (to_number a) as [x|]; [|exfalso; apply Ha; reflexivity].
  cbn [to_number]. rewrite Hz. reflexivity.
Qed.

(** the same with a right operand that merely coerces to a zero *)
Lemma div_zero_coerced s a b x y : to_number a = Some x -> to_number b = Some y ->
  f_is_zero y = true ->
  binop s TSLASH a b = OErr RDivZero /\ binop s TMODULO a b = OErr RDivZero.
Proof.
  intros Ha Hb Hz. unfold Eval.binop, Eval.arith. rewrite Ha, Hb, Hz. split; reflexivity.
Qed.

(** a negative shift count *)
Lemma neg_shift s a b x y : to_int a = Some x -> to_int b = Some y -> (y < 0)%Z ->
  binop s TLEFT_SHIFT a b = OErr RNegShift.
Proof.
  intros Ha Hb Hy. unfold Eval.binop, bitwise. rewrite Ha, Hb.
  apply Z.ltb_lt in Hy. rewrite Hy. reflexivity.
Qed.

Lemma neg_shift_right s a b x y : to_int a = Some x -> to_int b = Some y -> (y < 0)%Z ->
  binop s TRIGHT_SHIFT a b = OErr RNegShift.
Proof.
  intros Ha Hb Hy. unfold Eval.binop, bitwise. rewrite Ha, Hb.
  apply Z.ltb_lt in Hy. rewrite Hy. reflexivity.
Qed.

(** non-numeric operands of the numeric operators: left operand reported first *)
Lemma arith_unsupported s op a b : is_arith_op op ->
  (to_number a = None -> binop s op a b = OErr RLeftNumber) /\
  (to_number a <> None -> to_number b = None -> binop s op a b = OErr RRightNumber).
Proof.
  intros Hop. unfold is_arith_op in Hop. cbn [In] in Hop.
  assert (E : binop s op a b = arith op a b).
  { destruct Hop as [E|[E|[E|[E|[E|[E|[E|[E|[E|[]]]]]]]]]]; subst op; reflexivity. }
  rewrite E. unfold Eval.arith. split.
  - intros Ha. rewrite Ha. reflexivity.
  - intros Ha Hb. destruct (to_number a) as [x|]; [|exfalso; apply Ha; reflexivity].
    rewrite Hb. reflexivity.
Qed.

(** unary minus on a non-number *)
Lemma neg_unsupported a : to_number a = None -> unop TMINUS a = OErr RUnaryNumber.
Proof. intros Ha. unfold unop. rewrite Ha. reflexivity. Qed.

(** non-integral operands of the bitwise operators *)
Lemma bitwise_unsupported s op a b : is_bitwise_op op ->
  (to_int a = None -> binop s op a b = OErr RLeftInteger) /\
  (to_int a <> None -> to_int b = None -> binop s op a b = OErr RRightInteger).
Proof.
  intros Hop. unfold is_bitwise_op in Hop. cbn [In] in Hop.
  assert (E : binop s op a b = bitwise op a b).
  { destruct Hop as [E|[E|[E|[E|[E|[]]]]]]; subst op; reflexivity. }
  rewrite E. unfold bitwise. split.
  - intros Ha. rewrite Ha. reflexivity.
  - intros Ha Hb. destruct (to_int a) as [x|]; [|exfalso; apply Ha; reflexivity].
    rewrite Hb. reflexivity.
Qed.

Lemma not_unsupported a : to_int a = None -> unop TNOT a = OErr RUnaryInteger.
Proof. intros Ha. unfold unop. rewrite Ha. reflexivity. Qed.

(** which values are integers: [to_int] is [to_int64] of the coerced number ... *)
Lemma to_int_num x : to_int (VNum x) = to_int64 x.
Proof. reflexivity. Qed.

Lemma to_int_coerced a x : to_number a = Some x -> to_int a = to_int64 x.
Proof. intros Ha. unfold to_int. rewrite Ha. reflexivity. Qed.

Lemma to_int_not_number a : to_number a = None -> to_int a = None.
Proof. intros Ha. unfold to_int. rewrite Ha. reflexivity. Qed.

(** ... and [to_int64] accepts exactly the integral doubles in [-2^63, 2^63): a number
    is rejected as a bitwise operand iff it is not one of those. *)
Lemma to_int_num_some_iff x z :
  to_int (VNum x) = Some z <->
  is_finite x = true /\ B2R x = IZR z /\ (- two63 <= z < two63)%Z.
Proof. rewrite to_int_num. apply to_int64_spec. Qed.

Lemma to_int_num_none_iff x :
  to_int (VNum x) = None <->
  ~ exists z, is_finite x = true /\ B2R x = IZR z /\ (- two63 <= z < two63)%Z.
Proof.
  rewrite to_int_num. split.
  - intros Hn [z Hz]. apply to_int64_spec in Hz. congruence.
  - intros Hn. destruct (to_int64 x) as [z|] eqn:E; [|reflexivity].
    exfalso. apply Hn. exists z. apply to_int64_spec. exact E.
Qed.

Lemma to_int_nan : to_int (VNum B754_nan) = None.
Proof. reflexivity. Qed.
Lemma to_int_inf sg : to_int (VNum (B754_infinity sg)) = None.
Proof. reflexivity. Qed.

(** [+]: the exact case table, by the kinds of the two operands *)
Lemma add_cases a b :
  add a b =
    match a, b with
    | VNum x, VNum y => OVal (VNum (f_add x y))
    | VNum x, VStr t => match num_text x with Some tx => OVal (VStr (tx ++ t)) | None => ONoText end
    | VStr t, VStr u => OVal (VStr (t ++ u))
    | VStr t, VNum y => match num_text y with Some ty => OVal (VStr (t ++ ty)) | None => ONoText end
    | VStr t, VBool c => OVal (VStr (t ++ (if c then s_true else s_false)))
    | VStr _, _ => OErr RRightStrNum
    | _, _ => OErr ROperandsNumStr
    end.
Proof. destruct a, b; reflexivity. Qed.

(** [+] is an error exactly on the unsupported combinations *)
Lemma plus_unsupported a b : (exists e, add a b = OErr e) <-> ~ add_supported a b.
Proof.
  rewrite add_cases. split.
  - intros [e He] Hs. destruct a, b; cbn [add_supported] in Hs; try contradiction;
      try discriminate He.
    + destruct (num_text f); discriminate He.
    + destruct (num_text f); discriminate He.
  - intros Hs. destruct a, b; cbn [add_supported] in Hs;
      try (exfalso; apply Hs; exact I); eexists; reflexivity.
Qed.

Lemma plus_unsupported_binop s a b :
  (exists e, binop s TPLUS a b = OErr e) <-> ~ add_supported a b.
Proof. apply plus_unsupported. Qed.

(** which error *)
Lemma plus_error_kind a b e : add a b = OErr e ->
  match a with VStr _ => e = RRightStrNum | _ => e = ROperandsNumStr end.
Proof.
  rewrite add_cases. intros H. destruct a, b; try (inversion H; reflexivity); try discriminate H.
  - destruct (num_text f); discriminate H.
  - destruct (num_text f); discriminate H.
Qed.

(* ------------------------------------------------------------------ *)
(** * A.3  Concatenation *)

Lemma plus_concat_str_str t u : add (VStr t) (VStr u) = OVal (VStr (t ++ u)).
Proof. reflexivity. Qed.

Lemma plus_concat_str_num t y ty : num_text y = Some ty ->
  add (VStr t) (VNum y) = OVal (VStr (t ++ ty)).
Proof. intros H. cbn [add]. rewrite H. reflexivity. Qed.

Lemma plus_concat_num_str x t tx : num_text x = Some tx ->
  add (VNum x) (VStr t) = OVal (VStr (tx ++ t)).
Proof. intros H. cbn [add]. rewrite H. reflexivity. Qed.

Lemma plus_concat_str_bool t c :
  add (VStr t) (VBool c) = OVal (VStr (t ++ (if c then s_true else s_false))).
Proof. reflexivity. Qed.

(** the text spliced for a number is the text printing uses ([text_num], see PrintFacts) *)
Lemma num_text_is_text_num x : num_text x = text_num x.
Proof. reflexivity. Qed.

(** a string operand is never coerced to a number by [+], even when it looks like one *)
Lemma plus_never_coerces_string x t v : add (VNum x) (VStr t) = OVal v -> exists u, v = VStr u.
Proof.
  cbn [add]. destruct (num_text x) as [tx|]; intros H; [|discriminate H].
  inversion H. eexists. reflexivity.
Qed.

(* ------------------------------------------------------------------ *)
(** * A.4  Bitwise operators act on 64-bit two's-complement integers *)

Lemma band s a b x y : to_int a = Some x -> to_int b = Some y ->
  binop s TAND a b = OVal (VNum (f_of_Z (Z.land x y))).
Proof. intros Ha Hb. unfold Eval.binop, bitwise. rewrite Ha, Hb. reflexivity. Qed.
Lemma bor s a b x y : to_int a = Some x -> to_int b = Some y ->
  binop s TOR a b = OVal (VNum (f_of_Z (Z.lor x y))).
Proof. intros Ha Hb. unfold Eval.binop, bitwise. rewrite Ha, Hb. reflexivity. Qed.
Lemma bxor s a b x y : to_int a = Some x -> to_int b = Some y ->
  binop s TXOR a b = OVal (VNum (f_of_Z (Z.lxor x y))).
Proof. intros Ha Hb. unfold Eval.binop, bitwise. rewrite Ha, Hb. reflexivity. Qed.
Lemma bnot a x : to_int a = Some x -> unop TNOT a = OVal (VNum (f_of_Z (Z.lnot x))).
Proof. intros Ha. unfold unop. rewrite Ha. reflexivity. Qed.
Lemma shl s a b x y : to_int a = Some x -> to_int b = Some y -> (0 <= y)%Z ->
  binop s TLEFT_SHIFT a b = OVal (VNum (f_of_Z (i64_shl x y))).
Proof.
  intros Ha Hb Hy. unfold Eval.binop, bitwise. rewrite Ha, Hb.
  destruct (Z.ltb_spec y 0) as [H|H]; [lia|reflexivity].
Qed.
Lemma shr s a b x y : to_int a = Some x -> to_int b = Some y -> (0 <= y)%Z ->
  binop s TRIGHT_SHIFT a b = OVal (VNum (f_of_Z (i64_shr x y))).
Proof.
  intros Ha Hb Hy. unfold Eval.binop, bitwise. rewrite Ha, Hb.
  destruct (Z.ltb_spec y 0) as [H|H]; [lia|reflexivity].
Qed.

(** operands are int64 values ... *)
Lemma to_int64_range x z : to_int64 x = Some z -> (- two63 <= z < two63)%Z.
Proof.
  unfold to_int64. destruct (f_to_Z x) as [z'|]; [|discriminate].
  destruct (Z.leb_spec (- two63) z') as [H1|H1], (Z.ltb_spec z' two63) as [H2|H2];
    cbn [andb]; intros H; inversion H; subst; lia.
Qed.

Lemma to_int_range a x : to_int a = Some x -> (- two63 <= x < two63)%Z.
Proof.
  unfold to_int. destruct (to_number a) as [v|]; [|discriminate]. apply to_int64_range.
Qed.

(** ... and so are the results: no wrap-around is needed for & | ^ ~ and >>, and << wraps *)
Lemma land_in_range x y : (- two63 <= x < two63)%Z -> (- two63 <= y < two63)%Z ->
  (- two63 <= Z.land x y < two63)%Z.
Proof. apply i64_and_range. Qed.
Lemma lor_in_range x y : (- two63 <= x < two63)%Z -> (- two63 <= y < two63)%Z ->
  (- two63 <= Z.lor x y < two63)%Z.
Proof. apply i64_or_range. Qed.
Lemma lxor_in_range x y : (- two63 <= x < two63)%Z -> (- two63 <= y < two63)%Z ->
  (- two63 <= Z.lxor x y < two63)%Z.
Proof. apply i64_xor_range. Qed.
Lemma lnot_in_range x : (- two63 <= x < two63)%Z -> (- two63 <= Z.lnot x < two63)%Z.
Proof. apply i64_not_range. Qed.
Lemma shl_in_range x y : (- two63 <= i64_shl x y < two63)%Z.
Proof. apply i64_shl_range. Qed.
Lemma shr_in_range x y : (0 <= y)%Z -> (- two63 <= x < two63)%Z ->
  (- two63 <= i64_shr x y < two63)%Z.
Proof. apply i64_shr_range. Qed.

(** Summary: whenever a bitwise operator yields a value, that value is the double nearest
    to an int64 computed from two int64 operands. *)
Theorem bitwise_int64 s op a b v : is_bitwise_op op -> binop s op a b = OVal v ->
  exists x y z, to_int a = Some x /\ to_int b = Some y /\
    (- two63 <= x < two63)%Z /\ (- two63 <= y < two63)%Z /\
    v = VNum (f_of_Z z) /\ (- two63 <= z < two63)%Z /\
    z = match op with
        | TAND => Z.land x y | TOR => Z.lor x y | TXOR => Z.lxor x y
        | TLEFT_SHIFT => i64_shl x y | _ => i64_shr x y
        end.
Proof.
  intros Hop H.
  destruct (to_int a) as [x|] eqn:Ea.
  2:{ rewrite (proj1 (bitwise_unsupported s op a b Hop) Ea) in H. discriminate H. }
  destruct (to_int b) as [y|] eqn:Eb.
  2:{ rewrite (proj2 (bitwise_unsupported s op a b Hop)) in H; [discriminate H| |exact Eb].
      rewrite Ea. discriminate. }
  pose proof (to_int_range a x Ea) as Rx. pose proof (to_int_range b y Eb) as Ry.
  unfold is_bitwise_op in Hop. cbn [In] in Hop.
  destruct Hop as [E|[E|[E|[E|[E|[]]]]]]; subst op.
  - rewrite (band s a b x y Ea Eb) in H. inversion H.
    exists x, y, (Z.land x y). repeat (split; [assumption || reflexivity|]).
    split; [apply land_in_range; assumption|reflexivity].
  - rewrite (bor s a b x y Ea Eb) in H. inversion H.
    exists x, y, (Z.lor x y). repeat (split; [assumption || reflexivity|]).
    split; [apply lor_in_range; assumption|reflexivity].
  - rewrite (bxor s a b x y Ea Eb) in H. inversion H.
    exists x, y, (Z.lxor x y). repeat (split; [assumption || reflexivity|]).
    split; [apply lxor_in_range; assumption|reflexivity].
  - destruct (Z.ltb_spec y 0) as [Hy|Hy].
    + rewrite (neg_shift s a b x y Ea Eb Hy) in H. discriminate H.
    + rewrite (shl s a b x y Ea Eb Hy) in H. inversion H.
      exists x, y, (i64_shl x y). repeat (split; [assumption || reflexivity|]).
      split; [apply shl_in_range|reflexivity].
  - destruct (Z.ltb_spec y 0) as [Hy|Hy].
    + rewrite (neg_shift_right s a b x y Ea Eb Hy) in H. discriminate H.
    + rewrite (shr s a b x y Ea Eb Hy) in H. inversion H.
      exists x, y, (i64_shr x y). repeat (split; [assumption || reflexivity|]).
      split; [apply shr_in_range; assumption|reflexivity].
Qed.

(* ------------------------------------------------------------------ *)
(** * A.5  Equality *)

Lemma eq_result s a b : binop s TEQUAL_EQUAL a b = OVal (VBool (val_eqb s a b)).
Proof. reflexivity. Qed.
Lemma neq_result s a b : binop s TBANG_EQUAL a b = OVal (VBool (negb (val_eqb s a b))).
Proof. reflexivity. Qed.

(** [==] and [!=] never fail, whatever the operands *)
Lemma eq_total s a b :
  (exists r, binop s TEQUAL_EQUAL a b = OVal (VBool r)) /\
  (exists r, binop s TBANG_EQUAL a b = OVal (VBool r)).
Proof. split; eexists; reflexivity. Qed.

Lemma arr_eqb_sym s x y : arr_eqb s x y = arr_eqb s y x.
Proof.
  unfold arr_eqb. rewrite (Nat.eqb_sym x y). f_equal.
  destruct (get_arr x s) as [[|? ?]|], (get_arr y s) as [[|? ?]|]; reflexivity.
Qed.

Theorem val_eqb_sym s a b : val_eqb s a b = val_eqb s b a.
Proof.
  destruct a, b; cbn [val_eqb]; try reflexivity.
  - apply loc_bool_eqb_sym.
  - apply f_eqb_sym.
  - apply loc_str_eqb_sym.
  - apply arr_eqb_sym.
  - apply Nat.eqb_sym.
  - apply Nat.eqb_sym.
  - unfold native_eqb. apply N.eqb_sym.
Qed.

(** reflexive on every value except the number NaN *)
Theorem val_eqb_refl_not_nan s a : a <> VNum B754_nan -> val_eqb s a a = true.
Proof.
  intros Hn. destruct a; cbn [val_eqb].
  - reflexivity.
  - apply Bool.eqb_reflx.
  - apply f_eqb_refl. intros E. apply Hn. rewrite E. reflexivity.
  - apply loc_str_eqb_eq. reflexivity.
  - unfold arr_eqb. rewrite Nat.eqb_refl. reflexivity.
  - apply Nat.eqb_refl.
  - apply Nat.eqb_refl.
  - unfold native_eqb. apply N.eqb_refl.
Qed.

Theorem val_eqb_refl s a : (forall x, a <> VNum x \/ x <> B754_nan) -> val_eqb s a a = true.
Proof.
  intros H. apply val_eqb_refl_not_nan. intros E.
  destruct (H B754_nan) as [H1|H1]; [apply H1; exact E|apply H1; reflexivity].
Qed.

Lemma eq_nan_irrefl s : val_eqb s (VNum B754_nan) (VNum B754_nan) = false.
Proof. reflexivity. Qed.

(** numbers are compared by value: +0 = -0, NaN differs from everything *)
Lemma eq_num_by_value s x y : val_eqb s (VNum x) (VNum y) = f_eqb x y.
Proof. reflexivity. Qed.
Lemma eq_zeros s sg sg' : val_eqb s (VNum (B754_zero sg)) (VNum (B754_zero sg')) = true.
Proof. reflexivity. Qed.
Lemma eq_nan_l s y : val_eqb s (VNum B754_nan) (VNum y) = false.
Proof. cbn [val_eqb]. apply f_eqb_nan. Qed.
Lemma eq_nan_r s x : val_eqb s (VNum x) (VNum B754_nan) = false.
Proof. cbn [val_eqb]. apply f_eqb_nan_r. Qed.
Lemma eq_num_finite s x y : is_finite x = true -> is_finite y = true ->
  (val_eqb s (VNum x) (VNum y) = true <-> B2R x = B2R y).
Proof. intros Hx Hy. cbn [val_eqb]. apply f_eqb_true_iff; assumption. Qed.

(** strings by content, booleans by value *)
Lemma eq_str_by_content s x y : val_eqb s (VStr x) (VStr y) = true <-> x = y.
Proof. cbn [val_eqb]. apply loc_str_eqb_eq. Qed.
Lemma eq_bool_by_value s x y : val_eqb s (VBool x) (VBool y) = true <-> x = y.
Proof. cbn [val_eqb]. split; [apply Bool.eqb_prop|intros E; subst; apply Bool.eqb_reflx]. Qed.

(** objects, functions and built-ins by identity; arrays by identity, except that any two
    empty arrays are equal *)
Lemma eq_obj_by_identity s x y : val_eqb s (VObj x) (VObj y) = true <-> x = y.
Proof. cbn [val_eqb]. apply Nat.eqb_eq. Qed.
Lemma eq_fun_by_identity s x y : val_eqb s (VFun x) (VFun y) = true <-> x = y.
Proof. cbn [val_eqb]. apply Nat.eqb_eq. Qed.
Lemma eq_native_by_identity s x y : val_eqb s (VNative x) (VNative y) = true <-> x = y.
Proof. cbn [val_eqb]. apply loc_native_eqb_eq. Qed.
Lemma eq_arr_cases s x y :
  val_eqb s (VArr x) (VArr y) = true <->
  x = y \/ (get_arr x s = Some [] /\ get_arr y s = Some []).
Proof.
  cbn [val_eqb]. unfold arr_eqb. rewrite orb_true_iff, Nat.eqb_eq. split.
  - intros [H|H]; [left; exact H|right].
    destruct (get_arr x s) as [[|? ?]|], (get_arr y s) as [[|? ?]|];
      try discriminate H. split; reflexivity.
  - intros [H|[H1 H2]]; [left; exact H|right]. rewrite H1, H2. reflexivity.
Qed.

(** values of different kinds are never equal *)
Theorem eq_types_differ s a b : kind_of a <> kind_of b -> val_eqb s a b = false.
Proof.
  intros H. destruct a, b; cbn [kind_of] in H; try reflexivity; exfalso; apply H; reflexivity.
Qed.

(* ------------------------------------------------------------------ *)
(** * A.6  Logical not *)

Lemma truthy_unop_bang a : unop TBANG a = OVal (VBool (negb (truthy a))).
Proof. reflexivity. Qed.

(** [!] never fails *)
Lemma bang_total a : exists r, unop TBANG a = OVal (VBool r).
Proof. eexists. reflexivity. Qed.

(* ------------------------------------------------------------------ *)
(** * The evaluator applies exactly these functions *)

(** a binary expression whose operands evaluate yields the operator's value ... *)
Theorem eval_binary_val f op l r line rho s a s1 b s2 v :
  eval f l rho s = Ok a s1 -> eval f r rho s1 = Ok b s2 ->
  binop s2 op a b = OVal v ->
  eval (S f) (EBinary op l r line) rho s = Ok v s2.
Proof.
  intros Hl Hr Hv. rewrite eval_S. rewrite Hl. cbn [bind]. rewrite Hr. cbn [bind].
  rewrite Hv. reflexivity.
Qed.

(** ... and an operator error is a run-time error at the operator's line: no value *)
Theorem eval_binary_err f op l r line rho s a s1 b s2 e :
  eval f l rho s = Ok a s1 -> eval f r rho s1 = Ok b s2 ->
  binop s2 op a b = OErr e ->
  eval (S f) (EBinary op l r line) rho s = Err e line s2.
Proof.
  intros Hl Hr Hv. rewrite eval_S. rewrite Hl. cbn [bind]. rewrite Hr. cbn [bind].
  rewrite Hv. reflexivity.
Qed.

Theorem eval_unary_val f op e line rho s a s1 v :
  eval f e rho s = Ok a s1 -> unop op a = OVal v ->
  eval (S f) (EUnary op e line) rho s = Ok v s1.
Proof. intros He Hv. rewrite eval_S. rewrite He. cbn [bind]. rewrite Hv. reflexivity. Qed.

Theorem eval_unary_err f op e line rho s a s1 err :
  eval f e rho s = Ok a s1 -> unop op a = OErr err ->
  eval (S f) (EUnary op e line) rho s = Err err line s1.
Proof. intros He Hv. rewrite eval_S. rewrite He. cbn [bind]. rewrite Hv. reflexivity. Qed.

End Ops.

Print Assumptions arith_coerced.
Print Assumptions add_cases.
Print Assumptions plus_unsupported.
Print Assumptions bitwise_int64.
Print Assumptions val_eqb_sym.
Print Assumptions val_eqb_refl.
Print Assumptions eq_types_differ.
Print Assumptions eval_binary_err.
