(** The flag-level evaluator (Model/FlagEval.v) never reaches [FStuck]: from a
    well-formed store every one of its ten functions -- with the flag up or down, so also
    while it goes on with nil after an error -- returns a well-formed, only-grown store
    and well-formed values.  Mirrors Proofs/EvalSafe.v (same definitions, same primitive
    lemmas, from Proofs/EvalSafeDefs.v). *)
From Borno Require Import Base Num Unicode Token Lexer Ast Parser Value Eval Cli FlagEval FlagCli.
From Borno.Proofs Require Import EvalEqs EvalSafeDefs EvalSafe FlagEqs.
From Coq Require Import Lia List Arith Permutation.
Local Open Scope nat_scope.

(** [FGood P s r]: started in store [s], the result [r] is not [FStuck]; a final store is
    well-formed and has only grown; a returned value satisfies [P] in the final store *)
Definition FGood {A} (P : state -> A -> Prop) (s : state) (r : fres A) : Prop :=
  match r with
  | FOk a fs' => wf_state (fs_st fs') /\ grows s (fs_st fs') /\ P (fs_st fs') a
  | FCrash fs' => wf_state (fs_st fs') /\ grows s (fs_st fs')
  | FFuel => True
  | FStuck => False
  end.

Lemma FGood_bind {A B} (P : state -> A -> Prop) (Q : state -> B -> Prop) s r k :
  FGood P s r ->
  (forall a fs1, wf_state (fs_st fs1) -> grows s (fs_st fs1) -> P (fs_st fs1) a -> FGood Q (fs_st fs1) (k a fs1)) ->
  FGood Q s (fbind r k).
Proof.
  destruct r as [a fs0| | |fs0]; simpl; auto.
  intros (W & G & Pa) Hk. specialize (Hk _ _ W G Pa).
  destruct (k a fs0) as [b fs1| | |fs1]; simpl in *; auto.
  - destruct Hk as (W' & G' & Q'). split; [exact W'|split; [exact (grows_trans _ _ _ G G')|exact Q']].
  - destruct Hk as (W' & G'). split; [exact W'|exact (grows_trans _ _ _ G G')].
Qed.

Lemma FGood_ok {A} (P : state -> A -> Prop) s a fs' :
  wf_state (fs_st fs') -> grows s (fs_st fs') -> P (fs_st fs') a -> FGood P s (FOk a fs').
Proof. simpl; auto. Qed.
Lemma FGood_crash {A} (P : state -> A -> Prop) s fs' :
  wf_state (fs_st fs') -> grows s (fs_st fs') -> FGood P s (FCrash fs').
Proof. simpl; auto. Qed.

Lemma FGood_rebase {A} (P : state -> A -> Prop) s0 s r : grows s0 s -> FGood P s r -> FGood P s0 r.
Proof.
  intros G. destruct r as [a fs1| | |fs1]; simpl; auto.
  - intros (W & G' & Pa). split; [exact W|split; [exact (grows_trans _ _ _ G G')|exact Pa]].
  - intros (W & G'). split; [exact W|exact (grows_trans _ _ _ G G')].
Qed.

Section Safe.
Variable libm : N -> f64 -> f64 -> f64.
Variable clock : f64.
Variable sched : N -> list (list N * value) -> list (list N * value).
(** as in EvalSafe.v: the host's map-iteration order invents no entries *)
Hypothesis sched_incl : forall n l x, In x (sched n l) -> In x l.

Notation feval := (feval libm clock sched).
Notation feval_list := (feval_list libm clock sched).
Notation feval_props := (feval_props libm clock sched).
Notation fexec := (fexec libm clock sched).
Notation fexec_var := (fexec_var libm clock sched).
Notation fexec_vars := (fexec_vars libm clock sched).
Notation fexec_list := (fexec_list libm clock sched).
Notation fexec_body := (fexec_body libm clock sched).
Notation fexec_while := (fexec_while libm clock sched).
Notation fexec_for := (fexec_for libm clock sched).
Notation frun_stmts := (frun_stmts libm clock sched).

Definition FSafeAt (f : nat) : Prop :=
  (forall e rho fs, wf_state (fs_st fs) -> rho < length (envs (fs_st fs)) ->
     FGood Pv (fs_st fs) (feval f e rho fs)) /\
  (forall es rho fs, wf_state (fs_st fs) -> rho < length (envs (fs_st fs)) ->
     FGood Pvs (fs_st fs) (feval_list f es rho fs)) /\
  (forall ps rho fs, wf_state (fs_st fs) -> rho < length (envs (fs_st fs)) ->
     FGood Pkvs (fs_st fs) (feval_props f ps rho fs)) /\
  (forall repl st rho fs, wf_state (fs_st fs) -> rho < length (envs (fs_st fs)) ->
     FGood Psig (fs_st fs) (fexec f repl st rho fs)) /\
  (forall d rho fs, wf_state (fs_st fs) -> rho < length (envs (fs_st fs)) ->
     FGood Psig (fs_st fs) (fexec_var f d rho fs)) /\
  (forall ds rho fs, wf_state (fs_st fs) -> rho < length (envs (fs_st fs)) ->
     FGood Psig (fs_st fs) (fexec_vars f ds rho fs)) /\
  (forall repl ss rho fs, wf_state (fs_st fs) -> rho < length (envs (fs_st fs)) ->
     FGood Psig (fs_st fs) (fexec_list f repl ss rho fs)) /\
  (forall ss rho fs, wf_state (fs_st fs) -> rho < length (envs (fs_st fs)) ->
     FGood Psig (fs_st fs) (fexec_body f ss rho fs)) /\
  (forall repl c b rho fs, wf_state (fs_st fs) -> rho < length (envs (fs_st fs)) ->
     FGood Psig (fs_st fs) (fexec_while f repl c b rho fs)) /\
  (forall repl c inc b rho fs, wf_state (fs_st fs) -> rho < length (envs (fs_st fs)) ->
     FGood Psig (fs_st fs) (fexec_for f repl c inc b rho fs)).

Ltac rho_ok := unfold grows in *; lia.
Ltac fok := apply FGood_ok; [assumption|auto using grows_refl|try exact I; try assumption].
Tactic Notation "fgb" constr(IH) "as" ident(a) ident(s1) ident(W1) ident(G1) ident(P1) :=
  eapply FGood_bind; [apply IH; [assumption|rho_ok]|intros a s1 W1 G1 P1].

Lemma fsafe_all : forall f, FSafeAt f.
Proof.
  induction f as [|f (IHe & IHl & IHp & IHs & IHv & IHvs & IHss & IHb & IHw & IHf)]; unfold FSafeAt.
  { repeat apply conj; intros; try exact I.
    - destruct (fs_flag fs) eqn:F; [rewrite feval_flag by exact F; fok|rewrite feval_0 by exact F; exact I].
    - destruct (fs_flag fs) eqn:F; [rewrite fexec_flag by exact F; fok|rewrite fexec_0 by exact F; exact I].
    - destruct (fs_flag fs) eqn:F; [rewrite fexec_var_flag by exact F; fok|rewrite fexec_var_0 by exact F; exact I]. }
  repeat apply conj.
  - (* feval *)
    intros e rho fs W Hr. rewrite feval_unfold. destruct (fs_flag fs) eqn:F0; [fok|].
    destruct e as [l ln|x ln|e' ln|op e' ln|op l r ln|op l r|x nl ve ln|ae ie ve ln|oe p ve ln|ce pl args|ae ie ln|oe p ln|es|ps];
      cbv beta iota.
    + (* ELit *) fok. apply scalar_wf, value_of_lit_scalar.
    + (* EId *)
      pose proof (env_get_safe (fs_st fs) rho x W Hr) as G.
      destruct (env_get rho x (fs_st fs)) as [[v|]|]; [fok|fok|exact G].
    + (* EGroup *) apply IHe; assumption.
    + (* EUnary *)
      fgb IHe as v fs1 W1 G1 P1. destruct (fs_flag fs1) eqn:F1; [fok|].
      unfold funop. rewrite F1. destruct (unop op v) as [r|er0|] eqn:U; [|fok|exact I].
      fok. apply scalar_wf. eapply unop_scalar; exact U.
    + (* EBinary *)
      fgb IHe as a fs1 W1 G1 P1. destruct (fs_flag fs1) eqn:F1; [fok|].
      fgb IHe as b fs2 W2 G2 P2. destruct (fs_flag fs2) eqn:F2; [fok|].
      unfold fbinop. rewrite F2.
      destruct (binop libm (fs_st fs2) op a b) as [v|er0|] eqn:U; [|fok|exact I].
      fok. apply scalar_wf. eapply binop_scalar; exact U.
    + (* ELogical *)
      fgb IHe as a fs1 W1 G1 P1.
      destruct (tkind_eqb op TLOGICAL_OR); destruct (truthy a);
        first [fok | apply IHe; [assumption|rho_ok]].
    + (* EAssign *)
      fgb IHe as v fs1 W1 G1 P1. destruct (fs_flag fs1) eqn:F1; [fok|].
      pose proof (env_assign_safe (fs_st fs1) rho x v W1 ltac:(rho_ok) P1) as A.
      destruct (env_assign rho x v (fs_st fs1)) as [[s2|]|]; [|fok|exact A].
      destruct A as (W2 & G2). apply FGood_ok; [exact W2|exact G2|]. exact (wf_value_mono _ _ _ G2 P1).
    + (* EArrAssign *)
      fgb IHe as a fs1 W1 G1 P1. fgb IHe as i fs2 W2 G2 P2. fgb IHe as v fs3 W3 G3 P3.
      destruct a as [|b|x|t|l|l|l|n]; try fok.
      assert (Pl : wf_value (fs_st fs3) (VArr l)).
      { apply (wf_value_mono (fs_st fs2) (fs_st fs3) _ G3). apply (wf_value_mono (fs_st fs1) (fs_st fs2) _ G2). exact P1. }
      destruct (get_arr_some _ _ Pl) as [vs E]. rewrite E.
      destruct (index_of vs i) as [[n|]|]; [|fok|fok].
      destruct (wf_set_arr (fs_st fs3) l (set_nth n v vs) W3) as (W4 & G4).
      { apply Forall_set_nth; [exact P3|]. exact (wf_arrs _ W3 _ _ E). }
      apply FGood_ok; [exact W4|exact G4|]. exact (wf_value_mono _ _ _ G4 P3).
    + (* EPropAssign *)
      fgb IHe as o fs1 W1 G1 P1.
      destruct o as [|b|x|t|l|l|l|n]; try fok.
      fgb IHe as v fs2 W2 G2 P2.
      assert (Pl : wf_value (fs_st fs2) (VObj l)) by exact (wf_value_mono (fs_st fs1) (fs_st fs2) _ G2 P1).
      destruct (get_obj_some _ _ Pl) as [ps E]. rewrite E.
      destruct (wf_set_obj (fs_st fs2) l (sorted_put p v ps) W2) as (W3 & G3).
      { apply (sorted_put_Forall (wf_value (fs_st fs2))); [exact P2|]. exact (wf_objs _ W2 _ _ E). }
      apply FGood_ok; [exact W3|exact G3|]. exact (wf_value_mono _ _ _ G3 P2).
    + (* ECall *)
      fgb IHe as c fs1 W1 G1 P1.
      destruct c as [|b|x|t|l|l|l|n]; try fok.
      * (* a closure *)
        destruct (get_fun_some _ _ P1) as [clo EC]. rewrite EC.
        destruct (negb (length (c_params clo) =? length args)); [fok|].
        fgb IHl as vs fs2 W2 G2 P2. destruct (fs_flag fs2) eqn:F2; [fok|].
        pose proof (wf_funs _ W1 _ _ EC) as Hcenv.
        destruct (alloc_env (Some (c_env clo)) (fs_st fs2)) as [act s3] eqn:EA.
        assert (Hpar : forall q, Some (c_env clo) = Some q -> q < length (envs (fs_st fs2)))
          by (intros q Hq; inv Hq; rho_ok).
        destruct (wf_alloc_env (fs_st fs2) (Some (c_env clo)) act s3 W2 Hpar EA) as (W3 & G3 & Hact & L3).
        cbv beta iota.
        destruct (env_define_total act (c_name clo) (VFun l) s3 L3) as [s4 ED]. rewrite ED.
        assert (Pl : wf_value s3 (VFun l)).
        { apply (wf_value_mono (fs_st fs2) s3 _ G3). apply (wf_value_mono (fs_st fs1) (fs_st fs2) _ G2). exact P1. }
        destruct (wf_env_define s3 act (c_name clo) (VFun l) s4 W3 Pl ED) as (W4 & G4 & L4).
        assert (Hact4 : act < length (envs s4)) by lia.
        destruct (bind_params_total act (c_params clo) vs s4 Hact4) as [s5 EB]. rewrite EB.
        assert (Pvs4 : wf_vals s4 vs).
        { apply (wf_vals_mono s3 s4 _ G4). apply (wf_vals_mono (fs_st fs2) s3 _ G3). exact P2. }
        destruct (wf_bind_params act (c_params clo) vs s4 s5 W4 Pvs4 EB) as (W5 & G5).
        assert (G25 : grows (fs_st fs2) s5) by exact (grows_trans _ _ _ G3 (grows_trans _ _ _ G4 G5)).
        apply (FGood_rebase Pv (fs_st fs2) s5 _ G25).
        eapply FGood_bind; [apply (IHb (c_body clo) act (upd fs2 s5)); [exact W5|simpl; rho_ok]|].
        intros sg fs6 W6 G6 P6.
        destruct sg as [|bl|cl|rl rv]; fok.
      * (* a built-in *)
        destruct (negb (arity_ok (native_arity n) (length args))); [fok|].
        fgb IHl as vs fs2 W2 G2 P2. destruct (fs_flag fs2) eqn:F2; [fok|].
        pose proof (call_native_safe libm clock sched sched_incl n vs (fs_st fs2) W2 P2) as NG.
        destruct (call_native libm clock sched n vs (fs_st fs2)) as [v s3|why|]; [| |exact NG].
        -- destruct NG as (W3 & G3 & P3). apply FGood_ok; assumption.
        -- destruct (wf_native_fail_state n vs (fs_st fs2) W2) as (W3 & G3).
           apply FGood_ok; [exact W3|exact G3|exact I].
    + (* EIndex *)
      fgb IHe as a fs1 W1 G1 P1. fgb IHe as i fs2 W2 G2 P2.
      destruct a as [|b|x|t|l|l|l|n]; try fok.
      assert (Pl : wf_value (fs_st fs2) (VArr l)) by exact (wf_value_mono (fs_st fs1) (fs_st fs2) _ G2 P1).
      destruct (get_arr_some _ _ Pl) as [vs E]. rewrite E.
      destruct (index_of vs i) as [[n|]|] eqn:EI; [|fok|fok].
      destruct (nth_error_ex vs n (index_of_bound _ _ _ EI)) as [v EN]. rewrite EN.
      fok. exact (Forall_nth_error _ _ _ _ (wf_arrs _ W2 _ _ E) EN).
    + (* EProp *)
      fgb IHe as o fs1 W1 G1 P1.
      destruct o as [|b|x|t|l|l|l|n]; try fok.
      destruct (get_obj_some _ _ P1) as [ps E]. rewrite E.
      destruct (assoc p ps) as [v|] eqn:EA; [|fok].
      fok. exact (assoc_Forall (wf_value (fs_st fs1)) p ps v (wf_objs _ W1 _ _ E) EA).
    + (* EArray *)
      fgb IHl as vs fs1 W1 G1 P1.
      destruct (alloc_arr vs (fs_st fs1)) as [l s2] eqn:EA. cbv beta iota.
      destruct (wf_alloc_arr (fs_st fs1) vs l s2 W1 P1 EA) as (W2 & G2 & V2). apply FGood_ok; assumption.
    + (* EObject *)
      fgb IHp as kvs fs1 W1 G1 P1.
      destruct (alloc_obj (build_obj kvs) (fs_st fs1)) as [l s2] eqn:EA. cbv beta iota.
      destruct (wf_alloc_obj (fs_st fs1) (build_obj kvs) l s2 W1 (build_obj_Forall (wf_value (fs_st fs1)) kvs P1) EA)
        as (W2 & G2 & V2). apply FGood_ok; assumption.
  - (* feval_list *)
    intros es rho fs W Hr. rewrite feval_list_S. destruct es as [|e r].
    + fok. constructor.
    + fgb IHe as v fs1 W1 G1 P1. fgb IHl as vs fs2 W2 G2 P2.
      fok. constructor; [exact (wf_value_mono _ _ _ G2 P1)|exact P2].
  - (* feval_props *)
    intros ps rho fs W Hr. rewrite feval_props_S. destruct ps as [|[k e] r].
    + fok. constructor.
    + fgb IHe as v fs1 W1 G1 P1. fgb IHp as kvs fs2 W2 G2 P2.
      fok. constructor; [exact (wf_value_mono _ _ _ G2 P1)|exact P2].
  - (* fexec *)
    intros repl st rho fs W Hr. rewrite fexec_unfold. destruct (fs_flag fs) eqn:F0; [fok|].
    destruct st as [e|e|d|ds|ss|c t e|c b|init c inc b|ln|ln|kw ve|name params body]; cbv beta iota.
    + (* SExpr *)
      fgb IHe as v fs1 W1 G1 P1. destruct (repl && negb (fs_flag fs1))%bool; [|fok].
      unfold fprint.
      pose proof (text_of_not_stuck (fs_st fs1) v W1 P1) as T.
      destruct (text_of (fs_st fs1) v) as [t| | |]; [|apply FGood_crash; auto using grows_refl|congruence|exact I].
      destruct (wf_emit (EvEcho t) (fs_st fs1) W1) as (W2 & G2). apply FGood_ok; [exact W2|exact G2|exact I].
    + (* SPrint *)
      fgb IHe as v fs1 W1 G1 P1. destruct (fs_flag fs1) eqn:F1; [fok|].
      unfold fprint.
      pose proof (text_of_not_stuck (fs_st fs1) v W1 P1) as T.
      destruct (text_of (fs_st fs1) v) as [t| | |]; [|apply FGood_crash; auto using grows_refl|congruence|exact I].
      destruct (wf_emit (EvPrint t) (fs_st fs1) W1) as (W2 & G2). apply FGood_ok; [exact W2|exact G2|exact I].
    + apply IHv; assumption.
    + apply IHvs; assumption.
    + (* SBlock *)
      destruct (alloc_env (Some rho) (fs_st fs)) as [rho' s1] eqn:EA.
      assert (Hpar : forall q, Some rho = Some q -> q < length (envs (fs_st fs))) by (intros q Hq; inv Hq; exact Hr).
      destruct (wf_alloc_env (fs_st fs) (Some rho) rho' s1 W Hpar EA) as (W1 & G1 & _ & L1). cbv beta iota.
      apply (FGood_rebase Psig (fs_st fs) s1 _ G1). apply (IHss repl ss rho' (upd fs s1)); assumption.
    + (* SIf *)
      fgb IHe as cv fs1 W1 G1 P1.
      destruct (truthy cv); [apply IHs; [assumption|rho_ok]|].
      destruct e as [e'|]; [apply IHs; [assumption|rho_ok]|fok].
    + apply IHw; assumption.
    + (* SFor *)
      destruct (alloc_env (Some rho) (fs_st fs)) as [rho' s1] eqn:EA.
      assert (Hpar : forall q, Some rho = Some q -> q < length (envs (fs_st fs))) by (intros q Hq; inv Hq; exact Hr).
      destruct (wf_alloc_env (fs_st fs) (Some rho) rho' s1 W Hpar EA) as (W1 & G1 & _ & L1). cbv beta iota.
      apply (FGood_rebase Psig (fs_st fs) s1 _ G1).
      eapply (FGood_bind Psig);
        [destruct init as [i|]; [apply (IHs repl i rho' (upd fs s1)); assumption|fok]|].
      intros sg fs2 W2 G2 P2.
      destruct sg as [|bl|cl|rl rv]; [apply IHf; [assumption|simpl in G2; rho_ok]|fok|fok|fok].
    + fok.
    + fok.
    + (* SReturn *)
      destruct ve as [e|]; [|fok]. fgb IHe as v fs1 W1 G1 P1. fok.
    + (* SFun *)
      destruct (alloc_env (Some rho) (fs_st fs)) as [cenv s1] eqn:EA.
      assert (Hpar : forall q, Some rho = Some q -> q < length (envs (fs_st fs))) by (intros q Hq; inv Hq; exact Hr).
      destruct (wf_alloc_env (fs_st fs) (Some rho) cenv s1 W Hpar EA) as (W1 & G1 & _ & L1). cbv beta iota.
      destruct (alloc_fun (mkClo name params body cenv) s1) as [l s2] eqn:EF.
      destruct (wf_alloc_fun s1 (mkClo name params body cenv) l s2 W1 L1 EF) as (W2 & G2 & V2 & L2).
      cbv beta iota.
      assert (Hr2 : rho < length (envs s2)) by rho_ok.
      destruct (env_define_total rho name (VFun l) s2 Hr2) as [s3 ED]. rewrite ED.
      destruct (wf_env_define s2 rho name (VFun l) s3 W2 V2 ED) as (W3 & G3 & _).
      apply FGood_ok; [exact W3|exact (grows_trans _ _ _ G1 (grows_trans _ _ _ G2 G3))|exact I].
  - (* fexec_var *)
    intros d rho fs W Hr. rewrite fexec_var_unfold. destruct (fs_flag fs) eqn:F0; [fok|].
    destruct d as [[x init] ln]. cbv beta iota.
    eapply (FGood_bind Pv); [destruct init as [e|]; [apply IHe; assumption|fok]|].
    intros v fs1 W1 G1 P1. destruct (fs_flag fs1) eqn:F1; [fok|].
    assert (Hr1 : rho < length (envs (fs_st fs1))) by rho_ok.
    pose proof (env_get_here_total rho x (fs_st fs1) Hr1) as T.
    destruct (env_get_here rho x (fs_st fs1)) as [[w|]|]; [fok| |congruence].
    destruct (env_define_total rho x v (fs_st fs1) Hr1) as [s2 ED]. rewrite ED.
    destruct (wf_env_define (fs_st fs1) rho x v s2 W1 P1 ED) as (W2 & G2 & _).
    apply FGood_ok; [exact W2|exact G2|exact I].
  - (* fexec_vars *)
    intros ds rho fs W Hr. rewrite fexec_vars_S. destruct ds as [|d r]; [fok|].
    fgb IHv as sg fs1 W1 G1 P1. destruct (fs_flag fs1) eqn:F1; [fok|]. apply IHvs; [assumption|rho_ok].
  - (* fexec_list *)
    intros repl ss rho fs W Hr. rewrite fexec_list_S. destruct ss as [|st r]; [fok|].
    fgb IHs as sg fs1 W1 G1 P1.
    destruct sg as [|bl|cl|rl rv]; [|fok|fok|fok].
    destruct (fs_flag fs1) eqn:F1; [fok|]. apply IHss; [assumption|rho_ok].
  - (* fexec_body *)
    intros ss rho fs W Hr. rewrite fexec_body_S. destruct ss as [|st r]; [fok|].
    fgb IHs as sg fs1 W1 G1 P1.
    destruct sg as [|bl|cl|rl rv]; [apply IHb; [assumption|rho_ok]|fok|fok|fok].
  - (* fexec_while *)
    intros repl c b rho fs W Hr. rewrite fexec_while_S.
    fgb IHe as cv fs1 W1 G1 P1. destruct (truthy cv); [|fok].
    fgb IHs as sg fs2 W2 G2 P2.
    destruct sg as [|bl|cl|rl rv]; [apply IHw; [assumption|rho_ok]|fok|apply IHw; [assumption|rho_ok]|fok].
  - (* fexec_for *)
    intros repl c inc b rho fs W Hr. rewrite fexec_for_S.
    fgb IHe as cv fs1 W1 G1 P1. destruct (truthy cv); [|fok].
    fgb IHs as sg fs2 W2 G2 P2.
    destruct sg as [|bl|cl|rl rv]; [|fok| |fok].
    + eapply (FGood_bind Pv); [destruct inc as [i|]; [apply IHe; [assumption|rho_ok]|fok]|].
      intros v3 fs3 W3 G3 P3. apply IHf; [assumption|rho_ok].
    + eapply (FGood_bind Pv); [destruct inc as [i|]; [apply IHe; [assumption|rho_ok]|fok]|].
      intros v3 fs3 W3 G3 P3. apply IHf; [assumption|rho_ok].
Qed.

(* ---------------------------------------------------------------- *)
(** ** whole programs *)

Lemma frun_stmts_good f repl : forall prog fs, wf_state (fs_st fs) -> top_env < length (envs (fs_st fs)) ->
  FGood (fun _ (_ : unit) => True) (fs_st fs) (frun_stmts f repl prog fs).
Proof.
  induction prog as [|st r IH]; intros fs W Ht; cbn [FlagEval.frun_stmts].
  - apply FGood_ok; [exact W|apply grows_refl|exact I].
  - eapply FGood_bind; [apply (fsafe_all f); assumption|]. intros sg fs1 W1 G1 P1.
    destruct sg as [|bl|cl|rl rv]; [|fok|fok|fok].
    destruct (fs_flag fs1); [fok|].
    apply IH; [exact W1|]. unfold grows in G1. lia.
Qed.

(** A program run by the flag-level evaluator from a well-formed store never gets stuck,
    not even while it goes on with nil after an error; its final store is well-formed. *)
Theorem frun_stmts_safe f repl prog fs : wf_state (fs_st fs) -> top_env < length (envs (fs_st fs)) ->
  frun_stmts f repl prog fs <> FStuck /\
  (forall a fs', frun_stmts f repl prog fs = FOk a fs' -> wf_state (fs_st fs') /\ grows (fs_st fs) (fs_st fs')) /\
  (forall fs', frun_stmts f repl prog fs = FCrash fs' -> wf_state (fs_st fs') /\ grows (fs_st fs) (fs_st fs')).
Proof.
  intros W Ht. pose proof (frun_stmts_good f repl prog fs W Ht) as H.
  split; [intros E; rewrite E in H; exact H|]. split.
  - intros a fs' E. rewrite E in H. destruct H as (W' & G' & _). auto.
  - intros fs' E. rewrite E in H. exact H.
Qed.

Theorem frun_never_stuck f repl prog stdin : frun_stmts f repl prog (fclean (init_state stdin)) <> FStuck.
Proof. apply (frun_stmts_safe f repl prog (fclean (init_state stdin)) (wf_init stdin) (top_env_init stdin)). Qed.

(** ... hence the command-line pipeline over FlagEval never yields [FRStuck]. *)
Theorem frun_source_never_stuck fuel repl src stdin :
  frun_source libm clock sched fuel repl src stdin <> FRStuck.
Proof.
  unfold frun_source.
  destruct (pr_fuel_out (parse (lx_tokens (lex src)) (lx_eof_line (lex src)))); [discriminate|].
  destruct (lx_diags (lex src)); [|discriminate].
  destruct (pr_diags (parse (lx_tokens (lex src)) (lx_eof_line (lex src)))); [|discriminate].
  destruct (pr_prog (parse (lx_tokens (lex src)) (lx_eof_line (lex src)))) as [prog|]; [|discriminate].
  pose proof (frun_never_stuck fuel repl prog stdin) as H.
  destruct (FlagEval.frun_stmts libm clock sched fuel repl prog (fclean (init_state stdin))); try discriminate.
  congruence.
Qed.

End Safe.

Print Assumptions fsafe_all.
Print Assumptions frun_source_never_stuck.
