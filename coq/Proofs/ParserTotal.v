(** Totality of the parser model: with [parse_fuel ts = 40 * (length ts + 2)]
    units of fuel [pprogram] never answers [PFuel].

    Scheme: every function gets a rank (how many nested calls can happen before
    a token is consumed); by induction on the fuel, "fuel >= rank + 40 * length ts"
    implies that the result is not [PFuel] and that the remaining token list is
    strictly shorter than the input (functions that must consume) or not longer
    (the loops, [pblock], [pprogram]).  The ranks used:

      pprimary 1, pcallloop 1, pprops 1, punary 2, plevel lv  3 + length lv,
      ploop l lv  1 + length lv, pexpr 15 (the ladder has 11 levels), pargs 16,
      pvardecls 1, pparams 1, pvar 1, pexprstmt 15, pstmt 16, pdecl 17,
      pblock 18, pprogram 18.

    The per-token constant must be at least the largest rank; 40 leaves room. *)
From Borno Require Import Base Num Token Ast Parser.
From Borno Require Import ParserEqs ParserMono.
Open Scope nat_scope.

(** * The outcome predicate *)

(** not out of fuel, and on success fewer than [n] tokens remain *)
Definition okLt {A} (n : nat) (r : pres A) : Prop :=
  match r with PFuel => False | PErr _ => True | POk _ rest _ => length rest < n end.

Lemma okLt_ok {A} n (a : A) rest ds : length rest < n -> okLt n (POk a rest ds).
Proof. intros H. exact H. Qed.

Lemma okLt_ok_inv {A} n (a : A) rest ds : okLt n (POk a rest ds) -> length rest < n.
Proof. intros H. exact H. Qed.

Lemma okLt_not_fuel {A} n (r : pres A) : okLt n r -> r <> PFuel.
Proof. intros H E. subst r. exact H. Qed.

Lemma okLt_bind {A B} m n (r : pres A) (k : A -> list token -> pres B) :
  okLt m r -> (forall a rest, length rest < m -> okLt n (k a rest)) -> okLt n (pbind r k).
Proof.
  intros Hr Hk. destruct r as [a rest ds| ds|]; simpl in *.
  - specialize (Hk a rest Hr). destruct (k a rest) as [b rest' ds'| ds'|]; simpl in *; auto.
  - exact I.
  - exact Hr.
Qed.

Lemma okLt_weaken {A} m n (r : pres A) : okLt m r -> m <= n -> okLt n r.
Proof. intros Hr Hle. destruct r as [a rest ds| ds|]; simpl in *; auto. lia. Qed.

Lemma tl_le {A} (r : list A) : length (tl r) <= length r.
Proof. destruct r as [|x r]; simpl; lia. Qed.

(** * Proof automation *)

(** record [length (tl r) <= length r] for every [tl r] in sight *)
Ltac tl_facts :=
  repeat match goal with
  | |- context [tl ?r] =>
      lazymatch goal with
      | _ : length (tl r) <= length r |- _ => fail
      | _ => pose proof (tl_le r)
      end
  | _ : context [tl ?r] |- _ =>
      lazymatch goal with
      | _ : length (tl r) <= length r |- _ => fail
      | _ => pose proof (tl_le r)
      end
  end.

(** arithmetic side conditions *)
Ltac fin :=
  tl_facts; cbn [length] in *;
  try change (length ladder) with 11 in *; lia.

(** close the goal with some fact of the context (induction hypotheses and
    earlier totality lemmas are posed there) *)
Ltac use_hyp := match goal with H : _ |- _ => apply H; fin end.

Ltac tot_leaf :=
  lazymatch goal with
  | |- okLt _ (POk _ _ _) => apply okLt_ok; fin
  | |- okLt _ (PErr _) => exact I
  | |- okLt _ (Parser.perr_at _ _ _) => exact I
  | |- okLt ?n _ => first [ is_evar n; use_hyp | eapply okLt_weaken; [use_hyp | fin] ]
  end.

Ltac tot_step :=
  lazymatch goal with
  | |- okLt _ (pbind (if check _ ?r then _ else _) _) =>
      eapply okLt_bind with (m := S (length r)); [| intros ? ? ?; cbv beta zeta]
  | |- okLt _ (pbind _ _) =>
      eapply okLt_bind; [tot_leaf | intros ? ? ?; cbv beta zeta]
  | |- okLt _ (match Parser.consume_lenient ?e ?k ?pk ?r with _ => _ end) =>
      let H := fresh "Hcl" in
      assert (H : length (fst (Parser.consume_lenient e k pk r)) <= length r)
        by (unfold Parser.consume_lenient; destruct r as [|? ?]; [|destruct (tkind_eqb _ _)]; simpl; lia);
      destruct (Parser.consume_lenient e k pk r); cbn [fst] in H
  | |- okLt _ (match ?x with _ => _ end) => destruct x
  | |- okLt _ _ => tot_leaf
  end.
Ltac tot := cbv beta zeta; repeat tot_step.

Section Total.
Variable eofl : N.

Notation pexpr := (Parser.pexpr eofl).
Notation plevel := (Parser.plevel eofl).
Notation ploop := (Parser.ploop eofl).
Notation punary := (Parser.punary eofl).
Notation pcallloop := (Parser.pcallloop eofl).
Notation pargs := (Parser.pargs eofl).
Notation pprimary := (Parser.pprimary eofl).
Notation pprops := (Parser.pprops eofl).
Notation pvardecls := (Parser.pvardecls eofl).
Notation pparams := (Parser.pparams eofl).
Notation pdecl := (Parser.pdecl eofl).
Notation pstmt := (Parser.pstmt eofl).
Notation pblock := (Parser.pblock eofl).
Notation pprogram := (Parser.pprogram eofl).
Notation pvar := (Parser.pvar eofl).
Notation pexprstmt := (Parser.pexprstmt eofl).
Notation consume := (Parser.consume eofl).
Notation consume_lenient := (Parser.consume_lenient eofl).
Notation perr_at := (Parser.perr_at eofl).
Notation diag_at := (Parser.diag_at eofl).
Notation peek_line := (Parser.peek_line eofl).

(** a successful [consume] takes one token *)
Lemma consume_okLt k pk ts : okLt (length ts) (consume k pk ts).
Proof.
  unfold Parser.consume. destruct ts as [|t r]; [exact I|].
  destruct (tkind_eqb (tk t) k); [|exact I]. simpl. lia.
Qed.

(** * The expression block *)

Definition ExprTotal (f : nat) : Prop :=
  (forall ts, 15 + 40 * length ts <= f -> okLt (length ts) (pexpr f ts)) /\
  (forall lv ts, 3 + length lv + 40 * length ts <= f -> okLt (length ts) (plevel f lv ts)) /\
  (forall l lv e ts, 1 + length lv + 40 * length ts <= f -> okLt (S (length ts)) (ploop f l lv e ts)) /\
  (forall ts, 2 + 40 * length ts <= f -> okLt (length ts) (punary f ts)) /\
  (forall e ts, 1 + 40 * length ts <= f -> okLt (S (length ts)) (pcallloop f e ts)) /\
  (forall ts, 16 + 40 * length ts <= f -> okLt (length ts) (pargs f ts)) /\
  (forall ts, 1 + 40 * length ts <= f -> okLt (length ts) (pprimary f ts)) /\
  (forall acc ts, 1 + 40 * length ts <= f -> okLt (S (length ts)) (pprops f acc ts)).

Lemma expr_total_all : forall f, ExprTotal f.
Proof.
  induction f as [|f (Ie & Il & Ilo & Iu & Ic & Ia & Ipr & Ipp)].
  - split; [|split; [|split; [|split; [|split; [|split; [|split]]]]]]; intros; lia.
  - pose proof consume_okLt as Hcons.
    split; [|split; [|split; [|split; [|split; [|split; [|split]]]]]].
    + intros ts Hf. rewrite pexpr_S. tot.
    + intros lv ts Hf. rewrite plevel_S. tot.
    + intros l lv e ts Hf. rewrite ploop_S. tot.
    + intros ts Hf. rewrite punary_S. tot.
    + intros e ts Hf. rewrite pcallloop_S. tot.
    + intros ts Hf. rewrite pargs_S. tot.
    + intros ts Hf. rewrite pprimary_S. tot.
    + intros acc ts Hf. rewrite pprops_S. tot.
Qed.

Lemma pexpr_total f ts : 15 + 40 * length ts <= f -> okLt (length ts) (pexpr f ts).
Proof. apply (expr_total_all f). Qed.
Lemma plevel_total f lv ts : 3 + length lv + 40 * length ts <= f -> okLt (length ts) (plevel f lv ts).
Proof. apply (expr_total_all f). Qed.
Lemma ploop_total f l lv e ts : 1 + length lv + 40 * length ts <= f -> okLt (S (length ts)) (ploop f l lv e ts).
Proof. apply (expr_total_all f). Qed.
Lemma punary_total f ts : 2 + 40 * length ts <= f -> okLt (length ts) (punary f ts).
Proof. apply (expr_total_all f). Qed.
Lemma pcallloop_total f e ts : 1 + 40 * length ts <= f -> okLt (S (length ts)) (pcallloop f e ts).
Proof. apply (expr_total_all f). Qed.
Lemma pargs_total f ts : 16 + 40 * length ts <= f -> okLt (length ts) (pargs f ts).
Proof. apply (expr_total_all f). Qed.
Lemma pprimary_total f ts : 1 + 40 * length ts <= f -> okLt (length ts) (pprimary f ts).
Proof. apply (expr_total_all f). Qed.
Lemma pprops_total f acc ts : 1 + 40 * length ts <= f -> okLt (S (length ts)) (pprops f acc ts).
Proof. apply (expr_total_all f). Qed.

(** * Declarators, parameters, the two wrappers *)

Lemma pvardecls_total : forall f l0 ts, 1 + 40 * length ts <= f -> okLt (length ts) (pvardecls f l0 ts).
Proof.
  induction f as [|f IH]; intros l0 ts Hf; [lia|].
  pose proof consume_okLt as Hcons. pose proof (pexpr_total f) as He.
  rewrite pvardecls_S. tot.
Qed.

Lemma pparams_total : forall f n ts, 1 + 40 * length ts <= f -> okLt (length ts) (pparams f n ts).
Proof.
  induction f as [|f IH]; intros n ts Hf; [lia|].
  pose proof consume_okLt as Hcons.
  rewrite pparams_S. tot.
Qed.

Lemma pvar_total f ts : 1 + 40 * length ts <= f -> okLt (length ts) (pvar f ts).
Proof.
  intros Hf. pose proof consume_okLt as Hcons. pose proof (pvardecls_total f) as Hv.
  unfold Parser.pvar. tot.
Qed.

Lemma pexprstmt_total f ts : 15 + 40 * length ts <= f -> okLt (length ts) (pexprstmt f ts).
Proof.
  intros Hf. pose proof (pexpr_total f) as He.
  unfold Parser.pexprstmt. tot.
Qed.

(** * The statement block *)

Definition StmtTotal (f : nat) : Prop :=
  (forall ts, 17 + 40 * length ts <= f -> okLt (length ts) (pdecl f ts)) /\
  (forall ts, 16 + 40 * length ts <= f -> okLt (length ts) (pstmt f ts)) /\
  (forall ts, 18 + 40 * length ts <= f -> okLt (S (length ts)) (pblock f ts)).

Lemma stmt_total_all : forall f, StmtTotal f.
Proof.
  induction f as [|f (Id & Is & Ib)].
  - split; [|split]; intros; lia.
  - pose proof consume_okLt as Hcons. pose proof (pexpr_total f) as He.
    pose proof (pparams_total f) as Hp. pose proof (pvar_total f) as Hv.
    pose proof (pexprstmt_total f) as Hx.
    split; [|split].
    + intros ts Hf. rewrite pdecl_S. tot.
    + intros ts Hf. rewrite pstmt_S. tot.
    + intros ts Hf. rewrite pblock_S. tot.
Qed.

Lemma pdecl_total f ts : 17 + 40 * length ts <= f -> okLt (length ts) (pdecl f ts).
Proof. apply (stmt_total_all f). Qed.
Lemma pstmt_total f ts : 16 + 40 * length ts <= f -> okLt (length ts) (pstmt f ts).
Proof. apply (stmt_total_all f). Qed.
Lemma pblock_total f ts : 18 + 40 * length ts <= f -> okLt (S (length ts)) (pblock f ts).
Proof. apply (stmt_total_all f). Qed.

Lemma pprogram_total : forall f ts, 18 + 40 * length ts <= f -> okLt (S (length ts)) (pprogram f ts).
Proof.
  induction f as [|f IH]; intros ts Hf; [lia|].
  pose proof (pdecl_total f) as Hd.
  rewrite pprogram_S. tot.
Qed.

(** * Main theorem: the fuel computed by the model is always enough *)

Theorem parse_total ts : pprogram (parse_fuel ts) ts <> PFuel.
Proof.
  apply okLt_not_fuel with (n := S (length ts)). apply pprogram_total.
  unfold parse_fuel. lia.
Qed.

(** * By-products: how much input a successful call consumes (any fuel) *)

Lemma okLt_of_mono {A} (F : nat -> pres A) n b :
  (forall f f', f <= f' -> ple (F f) (F f')) -> (forall f, b <= f -> okLt n (F f)) ->
  forall f a r ds, F f = POk a r ds -> length r < n.
Proof.
  intros Hm Ht f a r ds E.
  assert (E' : F (max f b) = POk a r ds).
  { apply (ple_elim (F f) (F (max f b))); [apply Hm; lia | exact E | discriminate]. }
  specialize (Ht (max f b) ltac:(lia)). rewrite E' in Ht. exact Ht.
Qed.

(** a successful call of these returns a strictly shorter token list *)
Lemma pexpr_consumes f ts a r ds : pexpr f ts = POk a r ds -> length r < length ts.
Proof.
  intros E.
  assert (H : length r < length ts).
  { apply (okLt_of_mono (fun f0 => pexpr f0 ts) (length ts) (15 + 40 * length ts)) with (f := f) (a := a) (ds := ds).
    - intros f1 f2 Hle. apply pexpr_ple. exact Hle.
    - intros f1 Hle. apply pexpr_total. exact Hle.
    - exact E. }
  exact H.
Qed.
Lemma plevel_consumes f lv ts a r ds : plevel f lv ts = POk a r ds -> length r < length ts.
Proof.
  intros E.
  assert (H : length r < length ts).
  { apply (okLt_of_mono (fun f0 => plevel f0 lv ts) (length ts) (3 + length lv + 40 * length ts)) with (f := f) (a := a) (ds := ds).
    - intros f1 f2 Hle. apply plevel_ple. exact Hle.
    - intros f1 Hle. apply plevel_total. exact Hle.
    - exact E. }
  exact H.
Qed.
Lemma punary_consumes f ts a r ds : punary f ts = POk a r ds -> length r < length ts.
Proof.
  intros E.
  assert (H : length r < length ts).
  { apply (okLt_of_mono (fun f0 => punary f0 ts) (length ts) (2 + 40 * length ts)) with (f := f) (a := a) (ds := ds).
    - intros f1 f2 Hle. apply punary_ple. exact Hle.
    - intros f1 Hle. apply punary_total. exact Hle.
    - exact E. }
  exact H.
Qed.
Lemma pargs_consumes f ts a r ds : pargs f ts = POk a r ds -> length r < length ts.
Proof.
  intros E.
  assert (H : length r < length ts).
  { apply (okLt_of_mono (fun f0 => pargs f0 ts) (length ts) (16 + 40 * length ts)) with (f := f) (a := a) (ds := ds).
    - intros f1 f2 Hle. apply pargs_ple. exact Hle.
    - intros f1 Hle. apply pargs_total. exact Hle.
    - exact E. }
  exact H.
Qed.
Lemma pprimary_consumes f ts a r ds : pprimary f ts = POk a r ds -> length r < length ts.
Proof.
  intros E.
  assert (H : length r < length ts).
  { apply (okLt_of_mono (fun f0 => pprimary f0 ts) (length ts) (1 + 40 * length ts)) with (f := f) (a := a) (ds := ds).
    - intros f1 f2 Hle. apply pprimary_ple. exact Hle.
    - intros f1 Hle. apply pprimary_total. exact Hle.
    - exact E. }
  exact H.
Qed.
Lemma pvardecls_consumes f l0 ts a r ds : pvardecls f l0 ts = POk a r ds -> length r < length ts.
Proof.
  intros E.
  assert (H : length r < length ts).
  { apply (okLt_of_mono (fun f0 => pvardecls f0 l0 ts) (length ts) (1 + 40 * length ts)) with (f := f) (a := a) (ds := ds).
    - intros f1 f2 Hle. apply pvardecls_ple. exact Hle.
    - intros f1 Hle. apply pvardecls_total. exact Hle.
    - exact E. }
  exact H.
Qed.
Lemma pparams_consumes f n ts a r ds : pparams f n ts = POk a r ds -> length r < length ts.
Proof.
  intros E.
  assert (H : length r < length ts).
  { apply (okLt_of_mono (fun f0 => pparams f0 n ts) (length ts) (1 + 40 * length ts)) with (f := f) (a := a) (ds := ds).
    - intros f1 f2 Hle. apply pparams_ple. exact Hle.
    - intros f1 Hle. apply pparams_total. exact Hle.
    - exact E. }
  exact H.
Qed.
Lemma pvar_consumes f ts a r ds : pvar f ts = POk a r ds -> length r < length ts.
Proof.
  intros E.
  assert (H : length r < length ts).
  { apply (okLt_of_mono (fun f0 => pvar f0 ts) (length ts) (1 + 40 * length ts)) with (f := f) (a := a) (ds := ds).
    - intros f1 f2 Hle. apply pvar_ple. exact Hle.
    - intros f1 Hle. apply pvar_total. exact Hle.
    - exact E. }
  exact H.
Qed.
Lemma pexprstmt_consumes f ts a r ds : pexprstmt f ts = POk a r ds -> length r < length ts.
Proof.
  intros E.
  assert (H : length r < length ts).
  { apply (okLt_of_mono (fun f0 => pexprstmt f0 ts) (length ts) (15 + 40 * length ts)) with (f := f) (a := a) (ds := ds).
    - intros f1 f2 Hle. apply pexprstmt_ple. exact Hle.
    - intros f1 Hle. apply pexprstmt_total. exact Hle.
    - exact E. }
  exact H.
Qed.
Lemma pdecl_consumes f ts a r ds : pdecl f ts = POk a r ds -> length r < length ts.
Proof.
  intros E.
  assert (H : length r < length ts).
  { apply (okLt_of_mono (fun f0 => pdecl f0 ts) (length ts) (17 + 40 * length ts)) with (f := f) (a := a) (ds := ds).
    - intros f1 f2 Hle. apply pdecl_ple. exact Hle.
    - intros f1 Hle. apply pdecl_total. exact Hle.
    - exact E. }
  exact H.
Qed.
Lemma pstmt_consumes f ts a r ds : pstmt f ts = POk a r ds -> length r < length ts.
Proof.
  intros E.
  assert (H : length r < length ts).
  { apply (okLt_of_mono (fun f0 => pstmt f0 ts) (length ts) (16 + 40 * length ts)) with (f := f) (a := a) (ds := ds).
    - intros f1 f2 Hle. apply pstmt_ple. exact Hle.
    - intros f1 Hle. apply pstmt_total. exact Hle.
    - exact E. }
  exact H.
Qed.

(** the loops, [pblock] and [pprogram] never return a longer token list *)
Lemma ploop_no_grow f l lv e0 ts a r ds : ploop f l lv e0 ts = POk a r ds -> length r <= length ts.
Proof.
  intros E.
  assert (H : length r < S (length ts)).
  { apply (okLt_of_mono (fun f0 => ploop f0 l lv e0 ts) (S (length ts)) (1 + length lv + 40 * length ts)) with (f := f) (a := a) (ds := ds).
    - intros f1 f2 Hle. apply ploop_ple. exact Hle.
    - intros f1 Hle. apply ploop_total. exact Hle.
    - exact E. }
  lia.
Qed.
Lemma pcallloop_no_grow f e0 ts a r ds : pcallloop f e0 ts = POk a r ds -> length r <= length ts.
Proof.
  intros E.
  assert (H : length r < S (length ts)).
  { apply (okLt_of_mono (fun f0 => pcallloop f0 e0 ts) (S (length ts)) (1 + 40 * length ts)) with (f := f) (a := a) (ds := ds).
    - intros f1 f2 Hle. apply pcallloop_ple. exact Hle.
    - intros f1 Hle. apply pcallloop_total. exact Hle.
    - exact E. }
  lia.
Qed.
Lemma pprops_no_grow f acc ts a r ds : pprops f acc ts = POk a r ds -> length r <= length ts.
Proof.
  intros E.
  assert (H : length r < S (length ts)).
  { apply (okLt_of_mono (fun f0 => pprops f0 acc ts) (S (length ts)) (1 + 40 * length ts)) with (f := f) (a := a) (ds := ds).
    - intros f1 f2 Hle. apply pprops_ple. exact Hle.
    - intros f1 Hle. apply pprops_total. exact Hle.
    - exact E. }
  lia.
Qed.
Lemma pblock_no_grow f ts a r ds : pblock f ts = POk a r ds -> length r <= length ts.
Proof.
  intros E.
  assert (H : length r < S (length ts)).
  { apply (okLt_of_mono (fun f0 => pblock f0 ts) (S (length ts)) (18 + 40 * length ts)) with (f := f) (a := a) (ds := ds).
    - intros f1 f2 Hle. apply pblock_ple. exact Hle.
    - intros f1 Hle. apply pblock_total. exact Hle.
    - exact E. }
  lia.
Qed.
Lemma pprogram_no_grow f ts a r ds : pprogram f ts = POk a r ds -> length r <= length ts.
Proof.
  intros E.
  assert (H : length r < S (length ts)).
  { apply (okLt_of_mono (fun f0 => pprogram f0 ts) (S (length ts)) (18 + 40 * length ts)) with (f := f) (a := a) (ds := ds).
    - intros f1 f2 Hle. apply pprogram_ple. exact Hle.
    - intros f1 Hle. apply pprogram_total. exact Hle.
    - exact E. }
  lia.
Qed.

End Total.

Theorem parse_never_out_of_fuel ts eofl : pr_fuel_out (parse ts eofl) = false.
Proof.
  unfold parse. pose proof (parse_total eofl ts) as H.
  destruct (Parser.pprogram eofl (parse_fuel ts) ts) as [ss rest ds| ds|]; [reflexivity|reflexivity|].
  exfalso. apply H. reflexivity.
Qed.

Print Assumptions parse_total.
Print Assumptions parse_never_out_of_fuel.
Print Assumptions pexpr_consumes.
Print Assumptions pdecl_consumes.
Print Assumptions pblock_no_grow.
