(** Laws of the heap: array cells and object cells.
    1. primitive laws ([str_eqb], [str_ltb], cells, [set_nth], [remove_nth], sorted association lists);
    2. one-step laws of the evaluator for index reads and writes;
    3. the built-ins do not disturb existing cells, and specifications of the array/object built-ins. *)
From Borno Require Import Base Num Unicode Token Ast Value Eval EvalEqs.
From Coq Require Import Permutation Sorted.
Open Scope N_scope.

(* ================================================================ *)
(** * 1. Primitive laws *)

(** ** string equality and order *)

Lemma str_eqb_refl a : str_eqb a a = true.
Proof.
  induction a as [|x a IH]; simpl; [reflexivity|].
  rewrite N.eqb_refl, IH. reflexivity.
Qed.

(** [str_eqb] decides equality of strings *)
Lemma str_eqb_eq a b : str_eqb a b = true <-> a = b.
Proof.
  split.
  - revert b. induction a as [|x a IH]; intros [|y b] H; simpl in H; try discriminate; [reflexivity|].
    apply andb_true_iff in H. destruct H as [Hx Hr].
    apply N.eqb_eq in Hx. apply IH in Hr. subst. reflexivity.
  - intros E. subst. apply str_eqb_refl.
Qed.

Lemma str_eqb_neq a b : str_eqb a b = false <-> a <> b.
Proof.
  split.
  - intros H E. apply str_eqb_eq in E. rewrite E in H. discriminate.
  - intros H. destruct (str_eqb a b) eqn:E; [|reflexivity].
    apply str_eqb_eq in E. contradiction.
Qed.

Lemma str_eqb_sym a b : str_eqb a b = str_eqb b a.
Proof.
  destruct (str_eqb a b) eqn:E.
  - apply str_eqb_eq in E. subst. symmetry. apply str_eqb_refl.
  - symmetry. apply str_eqb_neq. apply str_eqb_neq in E. intros E'. apply E. symmetry. exact E'.
Qed.

Lemma str_ltb_irrefl a : str_ltb a a = false.
Proof.
  induction a as [|x a IH]; simpl; [reflexivity|].
  rewrite N.ltb_irrefl. exact IH.
Qed.

Lemma str_ltb_trans a b c : str_ltb a b = true -> str_ltb b c = true -> str_ltb a c = true.
Proof.
  revert b c. induction a as [|x a IH]; intros [|y b] [|z c] Hab Hbc; simpl in *; try discriminate; try reflexivity.
  destruct (N.ltb_spec x y) as [Hxy|Hxy].
  - destruct (N.ltb_spec y z) as [Hyz|Hyz].
    + destruct (N.ltb_spec x z) as [Hxz|Hxz]; [reflexivity|lia].
    + destruct (N.ltb_spec z y) as [Hzy|Hzy]; [discriminate|].
      assert (y = z) as E by lia. subst z.
      destruct (N.ltb_spec x y) as [Hxz|Hxz]; [reflexivity|lia].
  - destruct (N.ltb_spec y x) as [Hyx|Hyx]; [discriminate|].
    assert (x = y) as E by lia. subst y.
    destruct (N.ltb_spec x z) as [Hxz|Hxz]; [reflexivity|].
    destruct (N.ltb_spec z x) as [Hzx|Hzx]; [discriminate|].
    eapply IH; eassumption.
Qed.

Lemma str_ltb_trichotomy a b : str_ltb a b = true \/ a = b \/ str_ltb b a = true.
Proof.
  revert b. induction a as [|x a IH]; intros [|y b]; simpl.
  - right. left. reflexivity.
  - left. reflexivity.
  - right. right. reflexivity.
  - destruct (N.ltb_spec x y) as [Hxy|Hxy]; [left; reflexivity|].
    destruct (N.ltb_spec y x) as [Hyx|Hyx]; [right; right; reflexivity|].
    assert (x = y) as E by lia. subst y.
    destruct (IH b) as [H|[H|H]].
    + left. exact H.
    + right. left. subst. reflexivity.
    + right. right. exact H.
Qed.

Lemma str_ltb_asym a b : str_ltb a b = true -> str_ltb b a = false.
Proof.
  intros H. destruct (str_ltb b a) eqn:E; [|reflexivity].
  pose proof (str_ltb_trans _ _ _ H E) as C. rewrite str_ltb_irrefl in C. discriminate.
Qed.

Lemma str_ltb_neq a b : str_ltb a b = true -> a <> b.
Proof.
  intros H E. subst. rewrite str_ltb_irrefl in H. discriminate.
Qed.

(** exactly one of the three cases holds *)
Lemma str_ltb_exactly_one a b :
  (str_ltb a b = true /\ a <> b /\ str_ltb b a = false) \/
  (str_ltb a b = false /\ a = b /\ str_ltb b a = false) \/
  (str_ltb a b = false /\ a <> b /\ str_ltb b a = true).
Proof.
  destruct (str_ltb_trichotomy a b) as [H|[H|H]].
  - left. split; [exact H|split; [apply str_ltb_neq; exact H|apply str_ltb_asym; exact H]].
  - right. left. subst. rewrite str_ltb_irrefl. split; [reflexivity|split; reflexivity].
  - right. right. split; [apply str_ltb_asym; exact H|split; [|exact H]].
    intros E. symmetry in E. revert E. apply str_ltb_neq. exact H.
Qed.

(** [str_ltb a b = false] with [a <> b] means [b < a] *)
Lemma str_ltb_false_neq a b : str_ltb a b = false -> a <> b -> str_ltb b a = true.
Proof.
  intros H Hn. destruct (str_ltb_trichotomy a b) as [C|[C|C]]; [rewrite C in H; discriminate|contradiction|exact C].
Qed.

(* ---------------------------------------------------------------- *)
(** ** [set_nth] and [remove_nth] *)

Lemma set_nth_length {A} (n : nat) (v : A) (vs : list A) : length (set_nth n v vs) = length vs.
Proof.
  revert n. induction vs as [|y vs IH]; intros [|n]; simpl; try reflexivity.
  rewrite IH. reflexivity.
Qed.

Lemma nth_error_set_nth_same {A} (n : nat) (v : A) (vs : list A) :
  (n < length vs)%nat -> nth_error (set_nth n v vs) n = Some v.
Proof.
  revert n. induction vs as [|y vs IH]; intros [|n] H; simpl in *; try lia; [reflexivity|].
  apply IH. lia.
Qed.

Lemma nth_error_set_nth_other {A} (n m : nat) (v : A) (vs : list A) :
  m <> n -> nth_error (set_nth n v vs) m = nth_error vs m.
Proof.
  revert n m. induction vs as [|y vs IH]; intros [|n] [|m] H; simpl; try reflexivity; try congruence.
  apply IH. congruence.
Qed.

(** writing outside the list is a no-op *)
Lemma set_nth_out_of_range {A} (n : nat) (v : A) (vs : list A) :
  (length vs <= n)%nat -> set_nth n v vs = vs.
Proof.
  revert n. induction vs as [|y vs IH]; intros [|n] H; simpl in *; try reflexivity; try lia.
  rewrite IH; [reflexivity|lia].
Qed.

Lemma remove_nth_length {A} (n : nat) (vs : list A) :
  (n < length vs)%nat -> length (remove_nth n vs) = pred (length vs).
Proof.
  revert n. induction vs as [|y vs IH]; intros [|n] H; simpl in *; try lia.
  rewrite IH by lia. destruct vs; simpl in *; lia.
Qed.

Lemma nth_error_remove_nth {A} (n m : nat) (vs : list A) :
  nth_error (remove_nth n vs) m = if (m <? n)%nat then nth_error vs m else nth_error vs (S m).
Proof.
  revert n m. induction vs as [|y vs IH]; intros n m.
  - assert (remove_nth n (@nil A) = []) as E by (destruct n; reflexivity). rewrite E.
    assert (forall k, nth_error (@nil A) k = None) as E' by (intros [|k]; reflexivity).
    rewrite !E'. destruct (m <? n)%nat; reflexivity.
  - destruct n as [|n]; simpl.
    + reflexivity.
    + destruct m as [|m]; simpl; [reflexivity|].
      rewrite IH. change (S m <? S n)%nat with (m <? n)%nat. reflexivity.
Qed.

(* ---------------------------------------------------------------- *)
(** ** array and object cells *)

Lemma get_set_arr_same l vs s : (l < length (arrs s))%nat -> get_arr l (set_arr l vs s) = Some vs.
Proof. intros H. unfold get_arr, set_arr. simpl. apply nth_error_set_nth_same. exact H. Qed.

Lemma get_set_arr_other l l' vs s : l' <> l -> get_arr l' (set_arr l vs s) = get_arr l' s.
Proof. intros H. unfold get_arr, set_arr. simpl. apply nth_error_set_nth_other. exact H. Qed.

Lemma alloc_arr_fresh vs s l s' :
  alloc_arr vs s = (l, s') ->
  l = length (arrs s) /\ get_arr l s' = Some vs /\ forall l', (l' < l)%nat -> get_arr l' s' = get_arr l' s.
Proof.
  unfold alloc_arr. intros H. inversion H as [[Hl Hs]]. clear H. unfold get_arr. simpl.
  split; [reflexivity|split].
  - rewrite nth_error_app2 by lia. rewrite Nat.sub_diag. reflexivity.
  - intros l' Hl'. apply nth_error_app1. exact Hl'.
Qed.

Lemma get_set_obj_same l ps s : (l < length (objs s))%nat -> get_obj l (set_obj l ps s) = Some ps.
Proof. intros H. unfold get_obj, set_obj. simpl. apply nth_error_set_nth_same. exact H. Qed.

Lemma get_set_obj_other l l' ps s : l' <> l -> get_obj l' (set_obj l ps s) = get_obj l' s.
Proof. intros H. unfold get_obj, set_obj. simpl. apply nth_error_set_nth_other. exact H. Qed.

Lemma alloc_obj_fresh ps s l s' :
  alloc_obj ps s = (l, s') ->
  l = length (objs s) /\ get_obj l s' = Some ps /\ forall l', (l' < l)%nat -> get_obj l' s' = get_obj l' s.
Proof.
  unfold alloc_obj. intros H. inversion H as [[Hl Hs]]. clear H. unfold get_obj. simpl.
  split; [reflexivity|split].
  - rewrite nth_error_app2 by lia. rewrite Nat.sub_diag. reflexivity.
  - intros l' Hl'. apply nth_error_app1. exact Hl'.
Qed.

Lemma get_arr_Some_lt l s vs : get_arr l s = Some vs -> (l < length (arrs s))%nat.
Proof. unfold get_arr. intros H. apply nth_error_Some. rewrite H. discriminate. Qed.

Lemma get_obj_Some_lt l s ps : get_obj l s = Some ps -> (l < length (objs s))%nat.
Proof. unfold get_obj. intros H. apply nth_error_Some. rewrite H. discriminate. Qed.

(* ---------------------------------------------------------------- *)
(** ** association lists: [assoc] against [sorted_put] and [alist_remove] *)

Lemma assoc_sorted_put_same {A} k (v : A) l : assoc k (sorted_put k v l) = Some v.
Proof.
  induction l as [|[k' v'] r IH]; simpl.
  - rewrite str_eqb_refl. reflexivity.
  - destruct (str_eqb k k') eqn:E.
    + simpl. rewrite E. reflexivity.
    + destruct (str_ltb k k') eqn:L; simpl.
      * rewrite str_eqb_refl. reflexivity.
      * rewrite E. exact IH.
Qed.

Lemma assoc_sorted_put_other {A} k k' (v : A) l : k' <> k -> assoc k' (sorted_put k v l) = assoc k' l.
Proof.
  intros Hn. induction l as [|[k0 v0] r IH]; simpl.
  - apply str_eqb_neq in Hn. rewrite Hn. reflexivity.
  - destruct (str_eqb k k0) eqn:E.
    + apply str_eqb_eq in E. subst k0. simpl.
      apply str_eqb_neq in Hn. rewrite Hn. reflexivity.
    + destruct (str_ltb k k0) eqn:L; simpl.
      * pose proof Hn as Hn'. apply str_eqb_neq in Hn'. rewrite Hn'. reflexivity.
      * rewrite IH. reflexivity.
Qed.

Lemma assoc_notin_None {A} k (l : list (list N * A)) : ~ In k (map fst l) -> assoc k l = None.
Proof.
  induction l as [|[k' v'] r IH]; simpl; intros H; [reflexivity|].
  destruct (str_eqb k k') eqn:E.
  - apply str_eqb_eq in E. subst. exfalso. apply H. left. reflexivity.
  - apply IH. intros Hin. apply H. right. exact Hin.
Qed.

Lemma assoc_Some_in {A} k (v : A) l : assoc k l = Some v -> In (k, v) l.
Proof.
  induction l as [|[k' v'] r IH]; simpl; intros H; [discriminate|].
  destruct (str_eqb k k') eqn:E.
  - apply str_eqb_eq in E. inversion H. subst. left. reflexivity.
  - right. apply IH. exact H.
Qed.

Lemma assoc_alist_remove_same_nodup {A} k (l : list (list N * A)) :
  NoDup (map fst l) -> assoc k (alist_remove k l) = None.
Proof.
  induction l as [|[k' v'] r IH]; simpl; intros H; [reflexivity|].
  inversion H as [|x xs Hnotin Hnd]. subst.
  destruct (str_eqb k k') eqn:E.
  - apply str_eqb_eq in E. subst k'. apply assoc_notin_None. exact Hnotin.
  - simpl. rewrite E. apply IH. exact Hnd.
Qed.

Lemma assoc_alist_remove_other {A} k k' (l : list (list N * A)) :
  k' <> k -> assoc k' (alist_remove k l) = assoc k' l.
Proof.
  intros Hn. induction l as [|[k0 v0] r IH]; simpl; [reflexivity|].
  destruct (str_eqb k k0) eqn:E.
  - apply str_eqb_eq in E. subst k0. apply str_eqb_neq in Hn. rewrite Hn. reflexivity.
  - simpl. rewrite IH. reflexivity.
Qed.

(* ---------------------------------------------------------------- *)
(** ** key-sorted association lists *)

(** keys strictly increasing under [str_ltb] (every element is below all later ones) *)
Definition key_lt {A} (p q : list N * A) : Prop := str_ltb (fst p) (fst q) = true.
Definition sorted_keys {A} (l : list (list N * A)) : Prop := StronglySorted key_lt l.

Lemma sorted_keys_nil {A} : sorted_keys (@nil (list N * A)).
Proof. constructor. Qed.

Lemma sorted_keys_cons {A} (p : list N * A) l :
  sorted_keys (p :: l) <-> sorted_keys l /\ Forall (key_lt p) l.
Proof.
  split.
  - intros H. inversion H. subst. split; assumption.
  - intros [H1 H2]. constructor; assumption.
Qed.

Lemma sorted_keys_NoDup {A} (l : list (list N * A)) : sorted_keys l -> NoDup (map fst l).
Proof.
  induction l as [|p l IH]; intros H; simpl; [constructor|].
  apply sorted_keys_cons in H. destruct H as [Hs Hf]. constructor; [|apply IH; exact Hs].
  intros Hin. apply in_map_iff in Hin. destruct Hin as [q [Eq Hq]].
  rewrite Forall_forall in Hf. specialize (Hf q Hq). unfold key_lt in Hf.
  rewrite Eq, str_ltb_irrefl in Hf. discriminate.
Qed.

Lemma assoc_alist_remove_same {A} k (l : list (list N * A)) :
  sorted_keys l -> assoc k (alist_remove k l) = None.
Proof. intros H. apply assoc_alist_remove_same_nodup. apply sorted_keys_NoDup. exact H. Qed.

(** a property of keys holds of [sorted_put k v l] if it holds of [k] and of [l] *)
Lemma Forall_sorted_put {A} (Q : list N -> Prop) k (v : A) l :
  Q k -> Forall (fun q => Q (fst q)) l -> Forall (fun q => Q (fst q)) (sorted_put k v l).
Proof.
  intros Hk. induction l as [|[k' v'] r IH]; intros Hl; simpl.
  - constructor; [exact Hk|constructor].
  - inversion Hl as [|x xs Hx Hr]. subst.
    destruct (str_eqb k k') eqn:E.
    + constructor; [exact Hx|exact Hr].
    + destruct (str_ltb k k').
      * constructor; [exact Hk|exact Hl].
      * constructor; [exact Hx|apply IH; exact Hr].
Qed.

Lemma Forall_alist_remove {A} (P : list N * A -> Prop) k l :
  Forall P l -> Forall P (alist_remove k l).
Proof.
  induction l as [|[k' v'] r IH]; intros Hl; simpl; [constructor|].
  inversion Hl as [|x xs Hx Hr]. subst.
  destruct (str_eqb k k'); [exact Hr|constructor; [exact Hx|apply IH; exact Hr]].
Qed.

(** [sorted_put] keeps a cell sorted *)
Lemma sorted_put_sorted {A} k (v : A) l : sorted_keys l -> sorted_keys (sorted_put k v l).
Proof.
  induction l as [|[k' v'] r IH]; intros H; simpl.
  - constructor; constructor.
  - apply sorted_keys_cons in H. destruct H as [Hs Hf].
    destruct (str_eqb k k') eqn:E.
    + apply sorted_keys_cons. split; [exact Hs|exact Hf].
    + destruct (str_ltb k k') eqn:L.
      * apply sorted_keys_cons. split; [apply sorted_keys_cons; split; assumption|].
        constructor; [exact L|].
        eapply Forall_impl; [|exact Hf]. intros q Hq. unfold key_lt in *. simpl in *.
        eapply str_ltb_trans; eassumption.
      * apply sorted_keys_cons. split; [apply IH; exact Hs|].
        apply (Forall_sorted_put (fun x => str_ltb k' x = true)).
        -- apply str_ltb_false_neq; [exact L|]. apply str_eqb_neq. exact E.
        -- exact Hf.
Qed.

(** [alist_remove] keeps a cell sorted *)
Lemma alist_remove_sorted {A} k (l : list (list N * A)) : sorted_keys l -> sorted_keys (alist_remove k l).
Proof.
  induction l as [|[k' v'] r IH]; intros H; simpl; [constructor|].
  apply sorted_keys_cons in H. destruct H as [Hs Hf].
  destruct (str_eqb k k'); [exact Hs|].
  apply sorted_keys_cons. split; [apply IH; exact Hs|apply Forall_alist_remove; exact Hf].
Qed.

(** an object literal builds a sorted cell *)
Lemma build_obj_sorted kvs : sorted_keys (build_obj kvs).
Proof.
  unfold build_obj.
  assert (forall acc : list (list N * value), sorted_keys acc ->
          sorted_keys (fold_left (fun acc kv => sorted_put (fst kv) (snd kv) acc) kvs acc)) as G.
  { induction kvs as [|kv kvs IH]; intros acc Hacc; simpl; [exact Hacc|].
    apply IH. apply sorted_put_sorted. exact Hacc. }
  apply G. constructor.
Qed.

(** permutations of strictly key-sorted lists *)

Lemma insert_prop_perm p l : Permutation (insert_prop p l) (p :: l).
Proof.
  induction l as [|q r IH]; simpl; [apply Permutation_refl|].
  destruct (str_ltb (fst q) (fst p)).
  - eapply perm_trans; [apply perm_skip; exact IH|apply perm_swap].
  - apply Permutation_refl.
Qed.

Lemma sort_props_perm l : Permutation (sort_props l) l.
Proof.
  induction l as [|p l IH]; simpl; [constructor|].
  eapply perm_trans; [apply insert_prop_perm|]. apply perm_skip. exact IH.
Qed.

(** inserting a new key into a strictly sorted list keeps it strictly sorted *)
Lemma insert_prop_sorted p l :
  sorted_keys l -> ~ In (fst p) (map fst l) -> sorted_keys (insert_prop p l).
Proof.
  induction l as [|q r IH]; intros Hs Hn; simpl.
  - constructor; constructor.
  - apply sorted_keys_cons in Hs. destruct Hs as [Hs Hf].
    destruct (str_ltb (fst q) (fst p)) eqn:L.
    + apply sorted_keys_cons. split.
      * apply IH; [exact Hs|]. intros Hin. apply Hn. simpl. right. exact Hin.
      * eapply Permutation_Forall; [apply Permutation_sym; apply insert_prop_perm|].
        constructor; [exact L|exact Hf].
    + assert (str_ltb (fst p) (fst q) = true) as Lpq.
      { apply str_ltb_false_neq; [exact L|]. intros E. apply Hn. simpl. left. exact E. }
      apply sorted_keys_cons. split; [apply sorted_keys_cons; split; assumption|].
      constructor; [exact Lpq|].
      eapply Forall_impl; [|exact Hf]. intros x Hx. unfold key_lt in *.
      eapply str_ltb_trans; eassumption.
Qed.

Lemma sort_props_sorted l : NoDup (map fst l) -> sorted_keys (sort_props l).
Proof.
  induction l as [|p l IH]; simpl; intros Hnd; [constructor|].
  inversion Hnd as [|x xs Hnotin Hnd']. subst.
  apply insert_prop_sorted; [apply IH; exact Hnd'|].
  intros Hin. apply Hnotin.
  eapply Permutation_in; [|exact Hin]. apply Permutation_map. apply sort_props_perm.
Qed.

(** two strictly sorted lists with the same elements are equal *)
Lemma sorted_keys_perm_eq {A} (l1 l2 : list (list N * A)) :
  sorted_keys l1 -> sorted_keys l2 -> Permutation l1 l2 -> l1 = l2.
Proof.
  revert l2. induction l1 as [|a l1 IH]; intros l2 H1 H2 P.
  - apply Permutation_nil in P. subst. reflexivity.
  - destruct l2 as [|b l2]; [apply Permutation_sym in P; apply Permutation_nil in P; discriminate|].
    apply sorted_keys_cons in H1. destruct H1 as [Hs1 Hf1].
    apply sorted_keys_cons in H2. destruct H2 as [Hs2 Hf2].
    assert (a = b) as E.
    { assert (In a (b :: l2)) as Ia by (eapply Permutation_in; [exact P|left; reflexivity]).
      assert (In b (a :: l1)) as Ib by (eapply Permutation_in; [apply Permutation_sym; exact P|left; reflexivity]).
      destruct Ia as [Ea|Ia]; [symmetry; exact Ea|].
      destruct Ib as [Eb|Ib]; [exact Eb|].
      rewrite Forall_forall in Hf1, Hf2.
      pose proof (Hf1 b Ib) as L1. pose proof (Hf2 a Ia) as L2. unfold key_lt in *.
      apply str_ltb_asym in L1. rewrite L1 in L2. discriminate. }
    subst b. f_equal. apply IH; [exact Hs1|exact Hs2|].
    eapply Permutation_cons_inv. exact P.
Qed.

(** sorting any permutation of a strictly sorted list gives that list back *)
Theorem sort_props_perm_sorted l ps : sorted_keys ps -> Permutation l ps -> sort_props l = ps.
Proof.
  intros Hs P. apply sorted_keys_perm_eq.
  - apply sort_props_sorted. eapply Permutation_NoDup.
    + apply Permutation_map. apply Permutation_sym. exact P.
    + apply sorted_keys_NoDup. exact Hs.
  - exact Hs.
  - eapply perm_trans; [apply sort_props_perm|exact P].
Qed.

(* ---------------------------------------------------------------- *)
(** ** [index_of] *)

Lemma index_of_spec vs i n :
  index_of vs i = Some (Some n) <->
  exists z, to_int i = Some z /\ (0 <= z < Z.of_nat (length vs))%Z /\ n = Z.to_nat z.
Proof.
  unfold index_of. split.
  - destruct (to_int i) as [z|]; [|discriminate].
    destruct ((z <? 0) || (Z.of_nat (length vs) <=? z))%Z eqn:C; [discriminate|].
    intros H. inversion H. subst. apply orb_false_iff in C. destruct C as [C1 C2].
    apply Z.ltb_ge in C1. apply Z.leb_gt in C2.
    exists z. split; [reflexivity|split; [lia|reflexivity]].
  - intros [z [Ez [Hr En]]]. rewrite Ez.
    assert (((z <? 0) || (Z.of_nat (length vs) <=? z))%Z = false) as C.
    { apply orb_false_iff. split; [apply Z.ltb_ge; lia|apply Z.leb_gt; lia]. }
    rewrite C. subst. reflexivity.
Qed.

Lemma index_of_lt vs i n : index_of vs i = Some (Some n) -> (n < length vs)%nat.
Proof.
  intros H. apply index_of_spec in H. destruct H as [z [_ [Hr En]]]. subst. lia.
Qed.

Lemma index_of_bounds vs i z :
  to_int i = Some z -> (z < 0 \/ Z.of_nat (length vs) <= z)%Z -> index_of vs i = Some None.
Proof.
  intros Ez Hr. unfold index_of. rewrite Ez.
  assert (((z <? 0) || (Z.of_nat (length vs) <=? z))%Z = true) as C.
  { apply orb_true_iff. destruct Hr as [Hr|Hr]; [left; apply Z.ltb_lt; exact Hr|right; apply Z.leb_le; exact Hr]. }
  rewrite C. reflexivity.
Qed.

Lemma index_of_nonint vs i : to_int i = None -> index_of vs i = None.
Proof. intros Ez. unfold index_of. rewrite Ez. reflexivity. Qed.

Lemma index_of_nth vs i n : index_of vs i = Some (Some n) -> nth_error vs n = Some (nth n vs VNil).
Proof. intros H. apply nth_error_nth'. eapply index_of_lt. exact H. Qed.

(* ================================================================ *)
(** * 2. One-step laws of the evaluator *)

Section Heap.
Variable libm : N -> f64 -> f64 -> f64.
Variable clock : f64.
Variable sched : N -> list (list N * value) -> list (list N * value).

Notation eval := (eval libm clock sched).
Notation call_native := (call_native libm clock sched).

(** reading [a[i]], the array and the index having been evaluated *)
Lemma index_read_ok f ae ie line rho s l s1 i s2 vs n :
  eval f ae rho s = Ok (VArr l) s1 -> eval f ie rho s1 = Ok i s2 -> get_arr l s2 = Some vs ->
  index_of vs i = Some (Some n) ->
  nth_error vs n = Some (nth n vs VNil) /\
  eval (S f) (EIndex ae ie line) rho s = Ok (nth n vs VNil) s2.
Proof.
  intros Ha Hi Hg Hx. pose proof (index_of_nth _ _ _ Hx) as Hn. split; [exact Hn|].
  rewrite eval_S. rewrite Ha. cbn [bind]. rewrite Hi. cbn [bind]. rewrite Hg, Hx, Hn. reflexivity.
Qed.

Lemma index_read_bounds f ae ie line rho s l s1 i s2 vs z :
  eval f ae rho s = Ok (VArr l) s1 -> eval f ie rho s1 = Ok i s2 -> get_arr l s2 = Some vs ->
  to_int i = Some z -> (z < 0 \/ Z.of_nat (length vs) <= z)%Z ->
  eval (S f) (EIndex ae ie line) rho s = Err RIndexBounds line s2.
Proof.
  intros Ha Hi Hg Ez Hr.
  rewrite eval_S. rewrite Ha. cbn [bind]. rewrite Hi. cbn [bind].
  rewrite Hg, (index_of_bounds _ _ _ Ez Hr). reflexivity.
Qed.

Lemma index_read_nonint f ae ie line rho s l s1 i s2 vs :
  eval f ae rho s = Ok (VArr l) s1 -> eval f ie rho s1 = Ok i s2 -> get_arr l s2 = Some vs ->
  to_int i = None ->
  eval (S f) (EIndex ae ie line) rho s = Err RIndexInteger line s2.
Proof.
  intros Ha Hi Hg Ez.
  rewrite eval_S. rewrite Ha. cbn [bind]. rewrite Hi. cbn [bind].
  rewrite Hg, (index_of_nonint _ _ Ez). reflexivity.
Qed.

(** indexing something that is not an array *)
Lemma index_read_not_array f ae ie line rho s a s1 i s2 :
  eval f ae rho s = Ok a s1 -> (forall l, a <> VArr l) -> eval f ie rho s1 = Ok i s2 ->
  eval (S f) (EIndex ae ie line) rho s = Err RNotArrayAccess line s2.
Proof.
  intros Ha Hna Hi.
  rewrite eval_S. rewrite Ha. cbn [bind]. rewrite Hi. cbn [bind].
  destruct a; try reflexivity. exfalso. eapply Hna. reflexivity.
Qed.

(** the three outcomes of an index read on an array *)
Theorem index_read_spec f ae ie line rho s l s1 i s2 vs :
  eval f ae rho s = Ok (VArr l) s1 -> eval f ie rho s1 = Ok i s2 -> get_arr l s2 = Some vs ->
  (forall n, index_of vs i = Some (Some n) ->
     nth_error vs n = Some (nth n vs VNil) /\
     eval (S f) (EIndex ae ie line) rho s = Ok (nth n vs VNil) s2) /\
  (forall z, to_int i = Some z -> (z < 0 \/ Z.of_nat (length vs) <= z)%Z ->
     eval (S f) (EIndex ae ie line) rho s = Err RIndexBounds line s2) /\
  (to_int i = None -> eval (S f) (EIndex ae ie line) rho s = Err RIndexInteger line s2).
Proof.
  intros Ha Hi Hg. split; [|split].
  - intros n Hx. eapply index_read_ok; eassumption.
  - intros z Ez Hr. eapply index_read_bounds; eassumption.
  - intros Ez. eapply index_read_nonint; eassumption.
Qed.

(** writing [a[i] = v] *)
Lemma index_write_ok f ae ie ve line rho s l s1 i s2 v s3 vs n :
  eval f ae rho s = Ok (VArr l) s1 -> eval f ie rho s1 = Ok i s2 -> eval f ve rho s2 = Ok v s3 ->
  get_arr l s3 = Some vs -> index_of vs i = Some (Some n) ->
  let s' := set_arr l (set_nth n v vs) s3 in
  eval (S f) (EArrAssign ae ie ve line) rho s = Ok v s' /\
  get_arr l s' = Some (set_nth n v vs) /\
  length (set_nth n v vs) = length vs /\
  (forall m, m <> n -> nth_error (set_nth n v vs) m = nth_error vs m) /\
  nth_error (set_nth n v vs) n = Some v /\
  (forall l', l' <> l -> get_arr l' s' = get_arr l' s3) /\
  objs s' = objs s3 /\ envs s' = envs s3 /\ funs s' = funs s3 /\ out s' = out s3 /\ inp s' = inp s3 /\
  tick s' = tick s3.
Proof.
  intros Ha Hi Hv Hg Hx s'. subst s'.
  split; [|split; [|split; [|split; [|split; [|split]]]]].
  - rewrite eval_S. rewrite Ha. cbn [bind]. rewrite Hi. cbn [bind]. rewrite Hv. cbn [bind].
    rewrite Hg, Hx. reflexivity.
  - apply get_set_arr_same. eapply get_arr_Some_lt. exact Hg.
  - apply set_nth_length.
  - intros m Hm. apply nth_error_set_nth_other. exact Hm.
  - apply nth_error_set_nth_same. eapply index_of_lt. exact Hx.
  - intros l' Hl'. apply get_set_arr_other. exact Hl'.
  - unfold set_arr. simpl. repeat split; reflexivity.
Qed.

Lemma index_write_bounds f ae ie ve line rho s l s1 i s2 v s3 vs z :
  eval f ae rho s = Ok (VArr l) s1 -> eval f ie rho s1 = Ok i s2 -> eval f ve rho s2 = Ok v s3 ->
  get_arr l s3 = Some vs -> to_int i = Some z -> (z < 0 \/ Z.of_nat (length vs) <= z)%Z ->
  eval (S f) (EArrAssign ae ie ve line) rho s = Err RIndexBounds line s3.
Proof.
  intros Ha Hi Hv Hg Ez Hr.
  rewrite eval_S. rewrite Ha. cbn [bind]. rewrite Hi. cbn [bind]. rewrite Hv. cbn [bind].
  rewrite Hg, (index_of_bounds _ _ _ Ez Hr). reflexivity.
Qed.

Lemma index_write_nonint f ae ie ve line rho s l s1 i s2 v s3 vs :
  eval f ae rho s = Ok (VArr l) s1 -> eval f ie rho s1 = Ok i s2 -> eval f ve rho s2 = Ok v s3 ->
  get_arr l s3 = Some vs -> to_int i = None ->
  eval (S f) (EArrAssign ae ie ve line) rho s = Err RIndexInteger line s3.
Proof.
  intros Ha Hi Hv Hg Ez.
  rewrite eval_S. rewrite Ha. cbn [bind]. rewrite Hi. cbn [bind]. rewrite Hv. cbn [bind].
  rewrite Hg, (index_of_nonint _ _ Ez). reflexivity.
Qed.

(** assigning into something that is not an array: the store is the one after the
    three sub-evaluations *)
Lemma index_write_not_array f ae ie ve line rho s a s1 i s2 v s3 :
  eval f ae rho s = Ok a s1 -> (forall l, a <> VArr l) ->
  eval f ie rho s1 = Ok i s2 -> eval f ve rho s2 = Ok v s3 ->
  eval (S f) (EArrAssign ae ie ve line) rho s = Err RNotArrayAssign line s3.
Proof.
  intros Ha Hna Hi Hv.
  rewrite eval_S. rewrite Ha. cbn [bind]. rewrite Hi. cbn [bind]. rewrite Hv. cbn [bind].
  destruct a; try reflexivity. exfalso. eapply Hna. reflexivity.
Qed.

(** the outcomes of an index write on an array; a failed write leaves the store [s3] *)
Theorem index_write_spec f ae ie ve line rho s l s1 i s2 v s3 vs :
  eval f ae rho s = Ok (VArr l) s1 -> eval f ie rho s1 = Ok i s2 -> eval f ve rho s2 = Ok v s3 ->
  get_arr l s3 = Some vs ->
  (forall n, index_of vs i = Some (Some n) ->
     let s' := set_arr l (set_nth n v vs) s3 in
     eval (S f) (EArrAssign ae ie ve line) rho s = Ok v s' /\
     get_arr l s' = Some (set_nth n v vs) /\
     length (set_nth n v vs) = length vs /\
     (forall m, m <> n -> nth_error (set_nth n v vs) m = nth_error vs m) /\
     nth_error (set_nth n v vs) n = Some v /\
     (forall l', l' <> l -> get_arr l' s' = get_arr l' s3) /\
     objs s' = objs s3 /\ envs s' = envs s3 /\ funs s' = funs s3 /\ out s' = out s3 /\ inp s' = inp s3 /\
     tick s' = tick s3) /\
  (forall z, to_int i = Some z -> (z < 0 \/ Z.of_nat (length vs) <= z)%Z ->
     eval (S f) (EArrAssign ae ie ve line) rho s = Err RIndexBounds line s3) /\
  (to_int i = None -> eval (S f) (EArrAssign ae ie ve line) rho s = Err RIndexInteger line s3).
Proof.
  intros Ha Hi Hv Hg. split; [|split].
  - intros n Hx. eapply index_write_ok; eassumption.
  - intros z Ez Hr. eapply index_write_bounds; eassumption.
  - intros Ez. eapply index_write_nonint; eassumption.
Qed.

End Heap.

(* ================================================================ *)
(** * 3. Built-ins *)

Section Natives.
Variable libm : N -> f64 -> f64 -> f64.
Variable clock : f64.
Variable sched : N -> list (list N * value) -> list (list N * value).

Notation call_native := (call_native libm clock sched).
Notation iterate_sorted := (iterate_sorted sched).

Lemma math1_ok fn args s v s' : math1 fn args s = NOk v s' -> s' = s.
Proof.
  unfold math1. intros H.
  destruct args as [|a [|b r]]; try discriminate.
  destruct (to_number a); try discriminate. inversion H. reflexivity.
Qed.

Lemma min_max_ok b args s v s' : min_max b args s = NOk v s' -> s' = s.
Proof.
  unfold min_max. intros H.
  destruct args as [|a r]; [discriminate|].
  match type of H with (match ?flat with _ => _ end) = _ => destruct flat as [[|w ws]|]; try discriminate end.
  destruct (numbers_of (w :: ws)) as [[|x xs]|]; try discriminate.
  inversion H. reflexivity.
Qed.

(** what a successful built-in can do to the store: nothing; or allocate one array
    (possibly after one map iteration, which bumps the tick); or rewrite one object
    cell (delete); or consume input (after emitting a prompt) *)
Inductive native_effect (n : native) (s s' : state) : Prop :=
  | NE_same : s' = s -> native_effect n s s'
  | NE_alloc vs : s' = snd (alloc_arr vs s) -> native_effect n s s'
  | NE_iter vs : s' = snd (alloc_arr vs (bump_tick s)) -> native_effect n s s'
  | NE_delete l ps : n = NDelete -> (l < length (objs s))%nat -> s' = set_obj l ps s -> native_effect n s s'
  | NE_input o i : s' = mkState (envs s) (arrs s) (objs s) (funs s) o i (tick s) -> native_effect n s s'.

Lemma native_effect_of n args s v s' : call_native n args s = NOk v s' -> native_effect n s s'.
Proof.
  intros H. destruct n; unfold Eval.call_native in H;
    try (apply math1_ok in H; apply NE_same; exact H);
    try (apply min_max_ok in H; apply NE_same; exact H).
  - (* clock *) inversion H. apply NE_same. reflexivity.
  - (* len *)
    destruct args as [|a [|b r]]; try discriminate;
      destruct a as [|b0|x|str|l|l|l|nn]; try discriminate.
    destruct (get_arr l s); try discriminate. inversion H. apply NE_same. reflexivity.
  - (* append *)
    destruct args as [|a [|b r]]; try discriminate;
      destruct a as [|b0|x|str|l|l|l|nn]; try discriminate.
    destruct (get_arr l s) as [vs|]; try discriminate.
    unfold alloc_arr in H. inversion H. eapply NE_alloc. reflexivity.
  - (* remove *)
    destruct args as [|a [|b [|c r]]]; try discriminate;
      destruct a as [|b0|x|str|l|l|l|nn]; try discriminate.
    destruct (get_arr l s) as [vs|]; try discriminate.
    destruct (to_int b) as [z|]; try discriminate.
    destruct ((z <? 0) || (Z.of_nat (length vs) <=? z))%Z; try discriminate.
    unfold alloc_arr in H. inversion H. eapply NE_alloc. reflexivity.
  - (* delete *)
    destruct args as [|a [|b [|c r]]]; try discriminate;
      destruct a as [|b0|x|str|l|l|l|nn]; try discriminate.
    destruct (get_obj l s) as [ps|] eqn:G; try discriminate.
    destruct b as [|b0|x|key|l0|l0|l0|nn]; try discriminate.
    destruct (assoc key ps); try discriminate.
    inversion H. eapply NE_delete; [reflexivity| |reflexivity].
    eapply get_obj_Some_lt. exact G.
  - (* keys *)
    destruct args as [|a [|b r]]; try discriminate;
      destruct a as [|b0|x|str|l|l|l|nn]; try discriminate.
    destruct (get_obj l s) as [ps|]; try discriminate.
    unfold Eval.iterate_sorted, alloc_arr in H. inversion H. eapply NE_iter. reflexivity.
  - (* values *)
    destruct args as [|a [|b r]]; try discriminate;
      destruct a as [|b0|x|str|l|l|l|nn]; try discriminate.
    destruct (get_obj l s) as [ps|]; try discriminate.
    unfold Eval.iterate_sorted, alloc_arr in H. inversion H. eapply NE_iter. reflexivity.
  - (* pow *)
    destruct args as [|a [|b [|c r]]]; try discriminate.
    destruct (to_number a); try discriminate. destruct (to_number b); try discriminate.
    inversion H. apply NE_same. reflexivity.
  - (* input *)
    destruct args as [|a [|b r]]; try discriminate.
    + destruct (inp s) as [|c cs] eqn:I; try discriminate.
      destruct (read_line (c :: cs)) as [line rest]. inversion H.
      eapply NE_input. unfold set_inp. reflexivity.
    + destruct a as [|b0|x|str|l|l|l|nn]; try discriminate.
      simpl in H. destruct (inp s) as [|c cs] eqn:I; try discriminate.
      destruct (read_line (c :: cs)) as [line rest]. inversion H.
      eapply NE_input. unfold set_inp, emit. simpl. reflexivity.
Qed.

(** built-ins never touch scopes or closures *)
Theorem native_envs_unchanged n args s v s' :
  call_native n args s = NOk v s' -> envs s' = envs s /\ funs s' = funs s.
Proof.
  intros H. apply native_effect_of in H.
  destruct H as [E|vs E|vs E|l ps En Hl E|o i E]; subst s'; simpl; split; reflexivity.
Qed.

(** the array store only grows (by at most one cell) *)
Theorem native_arrs_grow n args s v s' :
  call_native n args s = NOk v s' -> exists more, arrs s' = arrs s ++ more.
Proof.
  intros H. apply native_effect_of in H.
  destruct H as [E|vs E|vs E|l ps En Hl E|o i E]; subst s'; simpl;
    try (exists []; rewrite app_nil_r; reflexivity); exists [vs]; reflexivity.
Qed.

(** existing array cells are not modified by any built-in *)
Theorem native_arrays_unchanged n args s v s' :
  call_native n args s = NOk v s' -> forall l, (l < length (arrs s))%nat -> get_arr l s' = get_arr l s.
Proof.
  intros H l Hl. destruct (native_arrs_grow _ _ _ _ _ H) as [more E].
  unfold get_arr. rewrite E. apply nth_error_app1. exact Hl.
Qed.

(** only কি_রিমুভ (delete) modifies the object store *)
Theorem native_objs_unchanged n args s v s' :
  n <> NDelete -> call_native n args s = NOk v s' -> objs s' = objs s.
Proof.
  intros Hn H. apply native_effect_of in H.
  destruct H as [E|vs E|vs E|l ps En Hl E|o i E]; subst s'; simpl; try reflexivity.
  contradiction.
Qed.

(** inversion of a successful delete: one cell rewritten in place, the others untouched *)
Theorem native_delete_inv args s v s' :
  call_native NDelete args s = NOk v s' ->
  exists l key ps old,
    args = [VObj l; VStr key] /\ v = VObj l /\ get_obj l s = Some ps /\ assoc key ps = Some old /\
    s' = set_obj l (alist_remove key ps) s /\
    get_obj l s' = Some (alist_remove key ps) /\
    length (objs s') = length (objs s) /\
    (forall l', l' <> l -> get_obj l' s' = get_obj l' s) /\
    arrs s' = arrs s.
Proof.
  intros H. unfold Eval.call_native in H.
  destruct args as [|a [|b [|c r]]]; try discriminate;
    destruct a as [|b0|x|str|l|l|l|nn]; try discriminate.
  destruct (get_obj l s) as [ps|] eqn:G; try discriminate.
  destruct b as [|b0|x|key|l0|l0|l0|nn]; try discriminate.
  destruct (assoc key ps) as [old|] eqn:Ea; try discriminate.
  inversion H as [[Ev Es]]. subst v s'. clear H.
  exists l, key, ps, old.
  split; [reflexivity|split; [reflexivity|split; [exact G|split; [exact Ea|split; [reflexivity|]]]]].
  split; [apply get_set_obj_same; eapply get_obj_Some_lt; exact G|].
  split; [unfold set_obj; simpl; apply set_nth_length|].
  split; [intros l' Hl'; apply get_set_obj_other; exact Hl'|reflexivity].
Qed.

Theorem native_delete_objs args s v s' :
  call_native NDelete args s = NOk v s' ->
  length (objs s') = length (objs s) /\
  exists l, v = VObj l /\ forall l', l' <> l -> get_obj l' s' = get_obj l' s.
Proof.
  intros H. apply native_delete_inv in H.
  destruct H as [l [key [ps [old [Ea [Ev [G [Eo [Es [G' [Hlen [Hoth Harr]]]]]]]]]]]].
  split; [exact Hlen|]. exists l. split; [exact Ev|exact Hoth].
Qed.

(** for every built-in the number of object cells is preserved *)
Theorem native_objs_length n args s v s' :
  call_native n args s = NOk v s' -> length (objs s') = length (objs s).
Proof.
  intros H. apply native_effect_of in H.
  destruct H as [E|vs E|vs E|l ps En Hl E|o i E]; subst s'; simpl; try reflexivity.
  apply set_nth_length.
Qed.

(* ---------------------------------------------------------------- *)
(** ** specifications of the array built-ins *)

(** এড (append): a fresh array holding the old elements followed by the new ones *)
Theorem append_spec l s vs x xs :
  get_arr l s = Some vs ->
  exists s', call_native NAppend (VArr l :: x :: xs) s = NOk (VArr (length (arrs s))) s' /\
             get_arr (length (arrs s)) s' = Some (vs ++ x :: xs) /\
             get_arr l s' = Some vs.
Proof.
  intros G. unfold Eval.call_native. rewrite G.
  destruct (alloc_arr (vs ++ x :: xs) s) as [l' s'] eqn:EA.
  apply alloc_arr_fresh in EA. destruct EA as [El [Gn Gold]]. subst l'.
  exists s'. split; [reflexivity|split; [exact Gn|]].
  rewrite Gold; [exact G|]. eapply get_arr_Some_lt. exact G.
Qed.

(** রিমুভ (remove): a fresh array without the element at the index; the argument array is intact *)
Theorem remove_spec_ok l s vs i z :
  get_arr l s = Some vs -> to_int i = Some z -> (0 <= z < Z.of_nat (length vs))%Z ->
  exists s', call_native NRemove [VArr l; i] s = NOk (VArr (length (arrs s))) s' /\
             get_arr (length (arrs s)) s' = Some (remove_nth (Z.to_nat z) vs) /\
             get_arr l s' = Some vs.
Proof.
  intros G Ez Hr. unfold Eval.call_native. rewrite G, Ez.
  assert (((z <? 0) || (Z.of_nat (length vs) <=? z))%Z = false) as C.
  { apply orb_false_iff. split; [apply Z.ltb_ge; lia|apply Z.leb_gt; lia]. }
  rewrite C.
  destruct (alloc_arr (remove_nth (Z.to_nat z) vs) s) as [l' s'] eqn:EA.
  apply alloc_arr_fresh in EA. destruct EA as [El [Gn Gold]]. subst l'.
  exists s'. split; [reflexivity|split; [exact Gn|]].
  rewrite Gold; [exact G|]. eapply get_arr_Some_lt. exact G.
Qed.

Theorem remove_spec_bounds l s vs i z :
  get_arr l s = Some vs -> to_int i = Some z -> (z < 0 \/ Z.of_nat (length vs) <= z)%Z ->
  call_native NRemove [VArr l; i] s = NFail NfIndexBounds.
Proof.
  intros G Ez Hr. unfold Eval.call_native. rewrite G, Ez.
  assert (((z <? 0) || (Z.of_nat (length vs) <=? z))%Z = true) as C.
  { apply orb_true_iff. destruct Hr as [Hr|Hr]; [left; apply Z.ltb_lt; exact Hr|right; apply Z.leb_le; exact Hr]. }
  rewrite C. reflexivity.
Qed.

Theorem remove_spec_nonint l s vs i :
  get_arr l s = Some vs -> to_int i = None ->
  call_native NRemove [VArr l; i] s = NFail NfIndexInt.
Proof.
  intros G Ez. unfold Eval.call_native. rewrite G, Ez. reflexivity.
Qed.

Theorem remove_spec l s vs i :
  get_arr l s = Some vs ->
  (forall z, to_int i = Some z -> (0 <= z < Z.of_nat (length vs))%Z ->
     exists s', call_native NRemove [VArr l; i] s = NOk (VArr (length (arrs s))) s' /\
                get_arr (length (arrs s)) s' = Some (remove_nth (Z.to_nat z) vs) /\
                get_arr l s' = Some vs) /\
  (forall z, to_int i = Some z -> (z < 0 \/ Z.of_nat (length vs) <= z)%Z ->
     call_native NRemove [VArr l; i] s = NFail NfIndexBounds) /\
  (to_int i = None -> call_native NRemove [VArr l; i] s = NFail NfIndexInt).
Proof.
  intros G. split; [|split].
  - intros z Ez Hr. eapply remove_spec_ok; eassumption.
  - intros z Ez Hr. eapply remove_spec_bounds; eassumption.
  - intros Ez. eapply remove_spec_nonint; eassumption.
Qed.

(** লেন (len) *)
Theorem len_spec l s vs :
  get_arr l s = Some vs -> call_native NLen [VArr l] s = NOk (VNum (f_of_Z (Z.of_nat (length vs)))) s.
Proof. intros G. unfold Eval.call_native. rewrite G. reflexivity. Qed.

(** কি_রিমুভ (delete) *)
Theorem delete_spec l s ps key :
  get_obj l s = Some ps ->
  (forall old, assoc key ps = Some old ->
     call_native NDelete [VObj l; VStr key] s = NOk (VObj l) (set_obj l (alist_remove key ps) s) /\
     get_obj l (set_obj l (alist_remove key ps) s) = Some (alist_remove key ps)) /\
  (assoc key ps = None -> call_native NDelete [VObj l; VStr key] s = NFail NfKeyMissing).
Proof.
  intros G. split.
  - intros old Ea. split.
    + unfold Eval.call_native. rewrite G, Ea. reflexivity.
    + apply get_set_obj_same. eapply get_obj_Some_lt. exact G.
  - intros Ea. unfold Eval.call_native. rewrite G, Ea. reflexivity.
Qed.

(** after a delete on a sorted cell the key is gone, the other keys keep their values,
    and the cell is still sorted *)
Corollary delete_spec_assoc l s ps key old :
  sorted_keys ps -> get_obj l s = Some ps -> assoc key ps = Some old ->
  exists s' ps', call_native NDelete [VObj l; VStr key] s = NOk (VObj l) s' /\
    get_obj l s' = Some ps' /\ sorted_keys ps' /\ assoc key ps' = None /\
    forall k', k' <> key -> assoc k' ps' = assoc k' ps.
Proof.
  intros Hs G Ea. destruct (delete_spec l s ps key G) as [Hok _].
  destruct (Hok old Ea) as [Hc Hg].
  exists (set_obj l (alist_remove key ps) s), (alist_remove key ps).
  split; [exact Hc|split; [exact Hg|split; [apply alist_remove_sorted; exact Hs|split]]].
  - apply assoc_alist_remove_same. exact Hs.
  - intros k' Hk'. apply assoc_alist_remove_other. exact Hk'.
Qed.

End Natives.

(* ================================================================ *)
(** * 4. অবজেক্ট_কি / অবজেক্ট_মান (keys / values): independent of the host's map order *)

Section KeysValues.
Variable libm : N -> f64 -> f64 -> f64.
Variable clock : f64.
Variable sched : N -> list (list N * value) -> list (list N * value).
(** all we know of the host's iteration order: it enumerates the cell *)
Hypothesis sched_perm : forall n l, Permutation (sched n l) l.

Notation call_native := (call_native libm clock sched).
Notation iterate_sorted := (iterate_sorted sched).

(** iterating a sorted cell yields the cell itself, whatever the schedule *)
Lemma iterate_sorted_spec s ps : sorted_keys ps -> iterate_sorted s ps = (ps, bump_tick s).
Proof.
  intros Hs. unfold Eval.iterate_sorted. f_equal.
  apply sort_props_perm_sorted; [exact Hs|apply sched_perm].
Qed.

Theorem keys_spec l s ps :
  sorted_keys ps -> get_obj l s = Some ps ->
  exists s', s' = snd (alloc_arr (map (fun p => VStr (fst p)) ps) (bump_tick s)) /\
    call_native NKeys [VObj l] s = NOk (VArr (length (arrs s))) s' /\
    get_arr (length (arrs s)) s' = Some (map (fun p => VStr (fst p)) ps).
Proof.
  intros Hs G. eexists. split; [reflexivity|].
  unfold Eval.call_native. rewrite G, (iterate_sorted_spec s ps Hs).
  unfold alloc_arr, get_arr. simpl. split; [reflexivity|].
  rewrite nth_error_app2 by lia. rewrite Nat.sub_diag. reflexivity.
Qed.

Theorem values_spec l s ps :
  sorted_keys ps -> get_obj l s = Some ps ->
  exists s', s' = snd (alloc_arr (map snd ps) (bump_tick s)) /\
    call_native NValues [VObj l] s = NOk (VArr (length (arrs s))) s' /\
    get_arr (length (arrs s)) s' = Some (map snd ps).
Proof.
  intros Hs G. eexists. split; [reflexivity|].
  unfold Eval.call_native. rewrite G, (iterate_sorted_spec s ps Hs).
  unfold alloc_arr, get_arr. simpl. split; [reflexivity|].
  rewrite nth_error_app2 by lia. rewrite Nat.sub_diag. reflexivity.
Qed.

(** both halves, with the resulting store given explicitly: it does not mention [sched] *)
Theorem keys_values_spec l s ps :
  sorted_keys ps -> get_obj l s = Some ps ->
  (exists s', s' = snd (alloc_arr (map (fun p => VStr (fst p)) ps) (bump_tick s)) /\
     call_native NKeys [VObj l] s = NOk (VArr (length (arrs s))) s' /\
     get_arr (length (arrs s)) s' = Some (map (fun p => VStr (fst p)) ps)) /\
  (exists s', s' = snd (alloc_arr (map snd ps) (bump_tick s)) /\
     call_native NValues [VObj l] s = NOk (VArr (length (arrs s))) s' /\
     get_arr (length (arrs s)) s' = Some (map snd ps)).
Proof.
  intros Hs G. split; [apply keys_spec; assumption|apply values_spec; assumption].
Qed.

End KeysValues.

(** the i-th value is the value of the i-th key *)
Lemma keys_values_aligned (ps : list (list N * value)) i :
  nth_error (map snd ps) i = option_map snd (nth_error ps i) /\
  nth_error (map (fun p => VStr (fst p)) ps) i = option_map (fun p => VStr (fst p)) (nth_error ps i).
Proof. split; apply nth_error_map. Qed.

(** ... so, on a sorted cell, looking the i-th key up gives the i-th value *)
Lemma keys_values_assoc (ps : list (list N * value)) i k v :
  sorted_keys ps ->
  nth_error (map (fun p => VStr (fst p)) ps) i = Some (VStr k) ->
  nth_error (map snd ps) i = Some v ->
  assoc k ps = Some v.
Proof.
  intros Hs Hk Hv. rewrite nth_error_map in Hk. rewrite nth_error_map in Hv.
  destruct (nth_error ps i) as [[k0 v0]|] eqn:E; simpl in *; try discriminate.
  inversion Hk. inversion Hv. subst k0 v0. clear Hk Hv.
  apply nth_error_In in E. clear i.
  induction ps as [|[k1 v1] r IH]; simpl in *; [contradiction|].
  apply sorted_keys_cons in Hs. destruct Hs as [Hs Hf].
  destruct E as [E|E].
  - inversion E. subst. rewrite str_eqb_refl. reflexivity.
  - destruct (str_eqb k k1) eqn:Ek.
    + apply str_eqb_eq in Ek. subst k1. exfalso.
      rewrite Forall_forall in Hf. specialize (Hf _ E). unfold key_lt in Hf. simpl in Hf.
      rewrite str_ltb_irrefl in Hf. discriminate.
    + apply IH; assumption.
Qed.

(* ================================================================ *)
(** * 4. The evaluator-wide heap invariant *)

(** It is one component of the invariant proved by fuel induction in Proofs/EvalFrame.v
    ([heap_ext] inside [framed]); restated here in the vocabulary of this file. *)
From Borno Require EnvLaws EvalInv EvalFrame.

Section ArrLength.
Variable libm : N -> f64 -> f64 -> f64.
Variable clock : f64.
Variable sched : N -> list (list N * value) -> list (list N * value).
Notation eval := (eval libm clock sched).
Notation exec := (exec libm clock sched).

(** Arrays never grow, shrink or disappear (only [EArrAssign] changes an element, and
    it keeps the length); object cells and closures only grow in number; closures are
    never modified.  [final r = Some s'] means [r] is [Ok _ s'], [Err _ _ s'] or [Crash s']. *)
Theorem arr_length_preserved f repl st rho s s' :
  EvalInv.wf_state s -> (rho < length (envs s))%nat ->
  EvalInv.final (exec f repl st rho s) = Some s' ->
  (forall l vs, get_arr l s = Some vs -> exists vs', get_arr l s' = Some vs' /\ length vs' = length vs) /\
  (length (arrs s) <= length (arrs s'))%nat /\
  (length (objs s) <= length (objs s'))%nat /\
  (exists more, funs s' = funs s ++ more).
Proof.
  intros W Hr H.
  destruct (EvalFrame.exec_heap_ext libm clock sched f repl st rho s s' W Hr H) as (A & B & C & D).
  split; [exact B|split; [exact A|split; [exact C|exact D]]].
Qed.

Theorem arr_length_preserved_eval f e rho s s' :
  EvalInv.wf_state s -> (rho < length (envs s))%nat ->
  EvalInv.final (eval f e rho s) = Some s' ->
  (forall l vs, get_arr l s = Some vs -> exists vs', get_arr l s' = Some vs' /\ length vs' = length vs) /\
  (length (arrs s) <= length (arrs s'))%nat /\
  (length (objs s) <= length (objs s'))%nat /\
  (exists more, funs s' = funs s ++ more).
Proof.
  intros W Hr H.
  destruct (EvalFrame.eval_heap_ext libm clock sched f e rho s s' W Hr H) as (A & B & C & D).
  split; [exact B|split; [exact A|split; [exact C|exact D]]].
Qed.

(** the [Ok] instance, as the task states it *)
Corollary arr_length_preserved_ok f repl st rho s sig s' :
  EvalInv.wf_state s -> (rho < length (envs s))%nat -> exec f repl st rho s = Ok sig s' ->
  forall l vs, get_arr l s = Some vs -> exists vs', get_arr l s' = Some vs' /\ length vs' = length vs.
Proof.
  intros W Hr H. apply (arr_length_preserved f repl st rho s s' W Hr). rewrite H. reflexivity.
Qed.

End ArrLength.

(** Assumptions.  Theorems whose *statement* mentions [eval] or [call_native] list the four
    standard-library axioms of the real numbers (sig_not_dec, sig_forall_dec,
    functional_extensionality_dep, classic): they come with the Flocq-based [f64] operations
    inside the model's definitions ([Print Assumptions Eval.call_native] already shows them),
    not from any proof in this file.  Pure list/order theorems are closed. *)
Print Assumptions index_write_spec.
Print Assumptions index_read_spec.
Print Assumptions native_arrays_unchanged.
Print Assumptions native_objs_unchanged.
Print Assumptions keys_values_spec.
Print Assumptions sort_props_perm_sorted.
Print Assumptions build_obj_sorted.
Print Assumptions remove_spec.
Print Assumptions arr_length_preserved.
