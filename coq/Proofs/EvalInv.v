(** Shared machinery for invariants of the fuelled evaluator: inversion of [bind], the
    result predicate [Good], the frame relation [frameB] on scopes, the heap
    extension relation [heap_ext], store well-formedness [wf_state], and one frame
    lemma per primitive of Model/Value.v (and for the built-ins). *)
From Borno Require Import Base Num Unicode Token Ast Value Eval EvalEqs EnvLaws.
Local Open Scope nat_scope.

(* ---------------------------------------------------------------- *)
(** ** inversion of [bind] *)

Lemma bind_ok {A B} (r : res A) (k : A -> state -> res B) b s' :
  bind r k = Ok b s' -> exists a s1, r = Ok a s1 /\ k a s1 = Ok b s'.
Proof. destruct r; simpl; intros H; try discriminate; eauto. Qed.

Lemma bind_err {A B} (r : res A) (k : A -> state -> res B) e l s' :
  bind r k = Err e l s' -> r = Err e l s' \/ exists a s1, r = Ok a s1 /\ k a s1 = Err e l s'.
Proof. destruct r; simpl; intros H; try discriminate; [right; eauto|left; injection H as -> -> ->; reflexivity]. Qed.

Lemma bind_crash {A B} (r : res A) (k : A -> state -> res B) s' :
  bind r k = Crash s' -> r = Crash s' \/ exists a s1, r = Ok a s1 /\ k a s1 = Crash s'.
Proof. destruct r; simpl; intros H; try discriminate; [right; eauto|left; injection H as ->; reflexivity]. Qed.

Tactic Notation "bd" hyp(H) "as" ident(a) ident(s1) ident(E) :=
  apply bind_ok in H; destruct H as (a & s1 & E & H).

(** the final state of a computation, if it has one *)
Definition final {A} (r : res A) : option state :=
  match r with Ok _ s => Some s | Err _ _ s => Some s | Crash s => Some s | Fuel => None | Stuck => None end.

(** [Good Q r]: whatever state [r] ends in ([Ok], [Err] or [Crash]) satisfies [Q] *)
Definition Good {A} (Q : state -> Prop) (r : res A) : Prop :=
  match r with Ok _ s => Q s | Err _ _ s => Q s | Crash s => Q s | Fuel => True | Stuck => True end.

Lemma Good_final {A} (Q : state -> Prop) (r : res A) : Good Q r <-> forall s', final r = Some s' -> Q s'.
Proof.
  destruct r; simpl; split; intros H; try (intros s' E; injection E as <-; exact H); try (apply H; reflexivity);
    try exact I; intros s' E; discriminate.
Qed.

Lemma Good_bind {A B} (Q1 Q : state -> Prop) (r : res A) (k : A -> state -> res B) :
  Good Q1 r -> (forall s1, Q1 s1 -> Q s1) -> (forall a s1, r = Ok a s1 -> Q1 s1 -> Good Q (k a s1)) ->
  Good Q (bind r k).
Proof. destruct r; simpl; intros H1 H2 H3; auto. Qed.

Lemma Good_impl {A} (Q1 Q : state -> Prop) (r : res A) : Good Q1 r -> (forall s1, Q1 s1 -> Q s1) -> Good Q r.
Proof. destruct r; simpl; auto. Qed.

(* ---------------------------------------------------------------- *)
(** ** the frame relation on scopes *)

(** [frameB n P s s']: every scope [i < n] of [s] still exists in [s'] with the same
    parent; its domain can only have grown at the end, and not at all unless [P i]. *)
Definition frameB (n : nat) (P : nat -> Prop) (s s' : state) : Prop :=
  n <= length (envs s) /\ length (envs s) <= length (envs s') /\
  forall i, i < n ->
    epar s' i = epar s i /\ (exists ext, edom s' i = edom s i ++ ext) /\ (~ P i -> edom s' i = edom s i).

Lemma frameB_refl n P s : n <= length (envs s) -> frameB n P s s.
Proof.
  intros H. split; [exact H|split; [lia|]]. intros i Hi.
  split; [reflexivity|split; [exists []; rewrite app_nil_r; reflexivity|reflexivity]].
Qed.

Lemma frameB_trans n P s s1 s2 : frameB n P s s1 -> frameB n P s1 s2 -> frameB n P s s2.
Proof.
  intros (A1 & A2 & A3) (B1 & B2 & B3). split; [exact A1|split; [lia|]]. intros i Hi.
  destruct (A3 i Hi) as (a1 & (xa & a2) & a3). destruct (B3 i Hi) as (b1 & (xb & b2) & b3).
  split; [congruence|split].
  - exists (xa ++ xb). rewrite b2, a2, app_assoc. reflexivity.
  - intros np. rewrite (b3 np), (a3 np). reflexivity.
Qed.

Lemma frameB_shrink m n (P Q : nat -> Prop) s s' :
  frameB m P s s' -> n <= m -> (forall i, i < n -> P i -> Q i) -> frameB n Q s s'.
Proof.
  intros (A1 & A2 & A3) Hn HPQ. split; [lia|split; [lia|]]. intros i Hi.
  destruct (A3 i ltac:(lia)) as (a & b & c). split; [exact a|split; [exact b|]].
  intros nq. apply c. intro p. apply nq. apply HPQ; auto.
Qed.

Lemma frameB_same_below n P s s' :
  n <= length (envs s) -> length (envs s) <= length (envs s') ->
  (forall i, i < n -> nth_error (envs s') i = nth_error (envs s) i) -> frameB n P s s'.
Proof.
  intros H1 H2 H3. split; [exact H1|split; [exact H2|]]. intros i Hi.
  unfold epar, edom, binds_of. rewrite (H3 i Hi).
  split; [reflexivity|split; [exists []; rewrite app_nil_r; reflexivity|reflexivity]].
Qed.

(* ---------------------------------------------------------------- *)
(** ** the heap only grows; array cells keep their length *)

Definition heap_ext (s s' : state) : Prop :=
  length (arrs s) <= length (arrs s') /\
  (forall l vs, nth_error (arrs s) l = Some vs ->
     exists vs', nth_error (arrs s') l = Some vs' /\ length vs' = length vs) /\
  length (objs s) <= length (objs s') /\
  (exists more, funs s' = funs s ++ more).

Lemma heap_ext_refl s : heap_ext s s.
Proof.
  split; [lia|split; [eauto|split; [lia|]]]. exists []. rewrite app_nil_r. reflexivity.
Qed.

Lemma heap_ext_trans s s1 s2 : heap_ext s s1 -> heap_ext s1 s2 -> heap_ext s s2.
Proof.
  intros (A1 & A2 & A3 & (ma & A4)) (B1 & B2 & B3 & (mb & B4)).
  split; [lia|split; [|split; [lia|]]].
  - intros l vs H. destruct (A2 _ _ H) as (vs1 & H1 & L1). destruct (B2 _ _ H1) as (vs2 & H2 & L2).
    exists vs2. split; [exact H2|congruence].
  - exists (ma ++ mb). rewrite B4, A4, app_assoc. reflexivity.
Qed.

Lemma heap_ext_same s s' : arrs s' = arrs s -> objs s' = objs s -> funs s' = funs s -> heap_ext s s'.
Proof.
  intros Ea Eo Ef. unfold heap_ext. rewrite Ea, Eo, Ef.
  split; [lia|split; [eauto|split; [lia|]]]. exists []. rewrite app_nil_r. reflexivity.
Qed.

Lemma heap_ext_shape s s' :
  (exists more, arrs s' = arrs s ++ more) -> length (objs s') = length (objs s) -> funs s' = funs s ->
  heap_ext s s'.
Proof.
  intros [more Ea] Eo Ef. unfold heap_ext. rewrite Ea, Eo, Ef.
  split; [rewrite app_length; lia|split; [|split; [lia|]]].
  - intros l vs H. exists vs. split; [|reflexivity]. rewrite nth_error_app1; [exact H|]. eapply nth_error_lt; eauto.
  - exists []. rewrite app_nil_r. reflexivity.
Qed.

Lemma heap_ext_set_arr l vs vs' s :
  get_arr l s = Some vs -> length vs' = length vs -> heap_ext s (set_arr l vs' s).
Proof.
  intros H L. unfold heap_ext, set_arr. cbn [arrs objs funs].
  split; [rewrite set_nth_length; lia|split; [|split; [lia|]]].
  - intros l0 vs0 H0. destruct (Nat.eq_dec l0 l) as [->|Hne].
    + exists vs'. split; [apply nth_error_set_nth_same; eapply nth_error_lt; eauto|].
      unfold get_arr in H. congruence.
    + exists vs0. split; [rewrite nth_error_set_nth_other by exact Hne; exact H0|reflexivity].
  - exists []. rewrite app_nil_r. reflexivity.
Qed.

Lemma heap_ext_set_obj l ps s : heap_ext s (set_obj l ps s).
Proof.
  unfold heap_ext, set_obj. cbn [arrs objs funs].
  split; [lia|split; [eauto|split; [rewrite set_nth_length; lia|]]]. exists []. rewrite app_nil_r. reflexivity.
Qed.

(* ---------------------------------------------------------------- *)
(** ** well-formed stores *)

(** parents are older than children, and every closure captured an allocated scope *)
Definition wf_state (s : state) : Prop :=
  wf_envs s /\ forall l c, nth_error (funs s) l = Some c -> c_env c < length (envs s).

Lemma wf_state_init stdin : wf_state (init_state stdin).
Proof. split; [apply wf_envs_init|]. intros l c H. destruct l; discriminate. Qed.

(** the combined step relation: frame on scopes, heap extension, and [s'] well-formed *)
Definition Fr (n : nat) (P : nat -> Prop) (s s' : state) : Prop :=
  frameB n P s s' /\ heap_ext s s' /\ wf_state s'.

Lemma Fr_wf n P s s' : Fr n P s s' -> wf_state s'.
Proof. intros (_ & _ & H). exact H. Qed.
Lemma Fr_len n P s s' : Fr n P s s' -> length (envs s) <= length (envs s').
Proof. intros ((_ & H & _) & _). exact H. Qed.
Lemma Fr_n n P s s' : Fr n P s s' -> n <= length (envs s').
Proof. intros ((H1 & H & _) & _). lia. Qed.

Lemma Fr_refl n P s : wf_state s -> n <= length (envs s) -> Fr n P s s.
Proof. intros W H. split; [apply frameB_refl; exact H|split; [apply heap_ext_refl|exact W]]. Qed.

Lemma Fr_trans n P s s1 s2 : Fr n P s s1 -> Fr n P s1 s2 -> Fr n P s s2.
Proof.
  intros (A & B & C) (A' & B' & C').
  split; [eapply frameB_trans; eauto|split; [eapply heap_ext_trans; eauto|exact C']].
Qed.

Lemma Fr_shrink m n (P Q : nat -> Prop) s s' :
  Fr m P s s' -> n <= m -> (forall i, i < n -> P i -> Q i) -> Fr n Q s s'.
Proof. intros (A & B & C) H1 H2. split; [eapply frameB_shrink; eauto|split; assumption]. Qed.

(** the invariant as a predicate on results *)
Definition G {A} (n : nat) (P : nat -> Prop) (s : state) (r : res A) : Prop := Good (Fr n P s) r.

Lemma G_trans {A} n P s s1 (r : res A) : Fr n P s s1 -> G n P s1 r -> G n P s r.
Proof. intros F H. unfold G in *. eapply Good_impl; [exact H|]. intros s2 F2. eapply Fr_trans; eauto. Qed.

Lemma G_bind {A B} n P s (r : res A) (k : A -> state -> res B) :
  G n P s r -> (forall a s1, r = Ok a s1 -> Fr n P s s1 -> G n P s1 (k a s1)) -> G n P s (bind r k).
Proof.
  intros H1 H2. eapply Good_bind; [exact H1|auto|].
  intros a s1 E F1. eapply G_trans; [exact F1|]. apply H2; assumption.
Qed.

Lemma G_ok {A} n P s (a : A) s' : Fr n P s s' -> G n P s (Ok a s').
Proof. intros H. exact H. Qed.
Lemma G_err {A} n P s e l s' : Fr n P s s' -> G (A:=A) n P s (Err e l s').
Proof. intros H. exact H. Qed.
Lemma G_crash {A} n P s s' : Fr n P s s' -> G (A:=A) n P s (Crash s').
Proof. intros H. exact H. Qed.

(* ---------------------------------------------------------------- *)
(** ** one frame lemma per primitive *)

Lemma Fr_same_envs n P s s' :
  wf_state s -> n <= length (envs s) -> envs s' = envs s -> funs s' = funs s -> heap_ext s s' -> Fr n P s s'.
Proof.
  intros (W1 & W2) Hn Ee Ef Hh. split; [|split; [exact Hh|]].
  - apply frameB_same_below; rewrite ?Ee; auto.
  - split; [eapply wf_envs_same_envs; eauto|]. rewrite Ef, Ee. exact W2.
Qed.

Lemma Fr_emit n P s e : wf_state s -> n <= length (envs s) -> Fr n P s (emit e s).
Proof. intros W Hn. apply Fr_same_envs; auto. apply heap_ext_same; reflexivity. Qed.

Lemma Fr_alloc_arr n P s vs : wf_state s -> n <= length (envs s) -> Fr n P s (snd (alloc_arr vs s)).
Proof.
  intros W Hn. apply Fr_same_envs; auto. apply heap_ext_shape; [exists [vs]|..]; reflexivity.
Qed.

Lemma Fr_alloc_obj n P s ps : wf_state s -> n <= length (envs s) -> Fr n P s (snd (alloc_obj ps s)).
Proof.
  intros W Hn. apply Fr_same_envs; auto. unfold heap_ext. cbn.
  split; [lia|split; [eauto|split; [rewrite app_length; lia|]]]. exists []. rewrite app_nil_r. reflexivity.
Qed.

Lemma Fr_alloc_fun n P s c :
  wf_state s -> n <= length (envs s) -> c_env c < length (envs s) -> Fr n P s (snd (alloc_fun c s)).
Proof.
  intros (W1 & W2) Hn Hc. split; [|split].
  - apply frameB_same_below; auto.
  - unfold heap_ext. cbn. split; [lia|split; [eauto|split; [lia|]]]. exists [c]. reflexivity.
  - split; [exact W1|]. cbn. intros l c' H.
    destruct (Nat.lt_ge_cases l (length (funs s))) as [Hl|Hl].
    + rewrite nth_error_app1 in H by exact Hl. eauto.
    + rewrite nth_error_app2 in H by exact Hl. destruct (l - length (funs s)) as [|[|k]]; simpl in H; try discriminate.
      injection H as <-. exact Hc.
Qed.

Lemma Fr_set_arr n P s l vs vs' :
  wf_state s -> n <= length (envs s) -> get_arr l s = Some vs -> length vs' = length vs ->
  Fr n P s (set_arr l vs' s).
Proof. intros W Hn H L. apply Fr_same_envs; auto. eapply heap_ext_set_arr; eauto. Qed.

Lemma Fr_set_obj n P s l ps : wf_state s -> n <= length (envs s) -> Fr n P s (set_obj l ps s).
Proof. intros W Hn. apply Fr_same_envs; auto. apply heap_ext_set_obj. Qed.

Lemma Fr_define n (P : nat -> Prop) rho x v s s' :
  wf_state s -> n <= length (envs s) -> env_define rho x v s = Some s' -> (rho < n -> P rho) -> Fr n P s s'.
Proof.
  intros (W1 & W2) Hn D HP.
  destruct (define_only_current _ _ _ _ _ D) as (_ & _ & _ & _ & Hp & Hl & Ea & Eo & Ef & _).
  split; [|split].
  - split; [exact Hn|split; [lia|]]. intros i Hi. split; [apply Hp|split].
    + eapply define_edom_ext; eauto.
    + intros np. eapply define_edom_other; eauto. intros ->. apply np. apply HP. exact Hi.
  - apply heap_ext_same; assumption.
  - split; [eapply wf_envs_define; eauto|]. rewrite Ef, Hl. exact W2.
Qed.

(** an overwrite of a name that is already bound changes no domain *)
Lemma Fr_define_bound n (P : nat -> Prop) rho x v s s' old :
  wf_state s -> n <= length (envs s) -> env_define rho x v s = Some s' -> bind_of s rho x = Some old ->
  Fr n P s s'.
Proof.
  intros (W1 & W2) Hn D Hb.
  destruct (define_only_current _ _ _ _ _ D) as (_ & _ & _ & _ & Hp & Hl & Ea & Eo & Ef & _).
  split; [|split].
  - split; [exact Hn|split; [lia|]]. intros i Hi.
    rewrite (define_bound_edom _ _ _ _ _ _ i D Hb).
    split; [apply Hp|split; [exists []; rewrite app_nil_r; reflexivity|reflexivity]].
  - apply heap_ext_same; assumption.
  - split; [eapply wf_envs_define; eauto|]. rewrite Ef, Hl. exact W2.
Qed.

Lemma Fr_assign n P rho x v s s' :
  wf_state s -> n <= length (envs s) -> env_assign rho x v s = Some (Some s') -> Fr n P s s'.
Proof.
  intros W Hn H. destruct (env_assign_inv _ _ _ _ _ H) as (q & old & L & D).
  eapply Fr_define_bound; eauto. eapply env_lookup_found; eauto.
Qed.

Lemma Fr_alloc_env n P p s i s' :
  wf_state s -> n <= length (envs s) -> alloc_env p s = (i, s') ->
  (forall q, p = Some q -> q < length (envs s)) ->
  Fr n P s s' /\ i = length (envs s) /\ length (envs s') = S (length (envs s)).
Proof.
  intros (W1 & W2) Hn H Hp.
  destruct (alloc_env_fresh _ _ _ _ H) as (Ei & Hnew & Hold & Hl & Ea & Eo & Ef & _).
  split; [|split; [exact Ei|exact Hl]]. split; [|split].
  - apply frameB_same_below; [exact Hn|lia|]. intros j Hj. apply Hold. lia.
  - apply heap_ext_same; assumption.
  - split; [eapply wf_envs_alloc; eauto|]. rewrite Ef, Hl. intros l c Hc. apply W2 in Hc. lia.
Qed.

Lemma Fr_bind_params n (P : nat -> Prop) act : forall ps vs s s',
  wf_state s -> n <= length (envs s) -> bind_params act ps vs s = Some s' -> (act < n -> P act) -> Fr n P s s'.
Proof.
  induction ps as [|p ps IH]; intros vs s s' W Hn H HP; simpl in H.
  - injection H as <-. apply Fr_refl; auto.
  - destruct vs as [|v vs]; [injection H as <-; apply Fr_refl; auto|].
    destruct (env_define act p v s) as [s1|] eqn:D; [|discriminate].
    pose proof (Fr_define n P _ _ _ _ _ W Hn D HP) as F1.
    eapply Fr_trans; [exact F1|]. eapply IH; eauto using Fr_wf, Fr_n.
Qed.

(* ---------------------------------------------------------------- *)
(** ** the built-ins *)

Section Natives.
Variable libm : N -> f64 -> f64 -> f64.
Variable clock : f64.
Variable sched : N -> list (list N * value) -> list (list N * value).
Notation call_native := (call_native libm clock sched).

Ltac brk H := repeat (match type of H with
   | context [match ?x with _ => _ end] => is_var x; destruct x
   end; try discriminate).

Definition native_shape (s s' : state) : Prop :=
  envs s' = envs s /\ funs s' = funs s /\ (exists more, arrs s' = arrs s ++ more) /\
  length (objs s') = length (objs s).

Lemma native_shape_refl s : native_shape s s.
Proof. split; [reflexivity|split; [reflexivity|split; [exists []; rewrite app_nil_r; reflexivity|reflexivity]]]. Qed.

Lemma native_shape_bump s : native_shape s (bump_tick s).
Proof. split; [reflexivity|split; [reflexivity|split; [exists []; rewrite app_nil_r; reflexivity|reflexivity]]]. Qed.

Lemma native_shape_alloc_arr vs s s0 : native_shape s s0 -> arrs s0 = arrs s -> native_shape s (snd (alloc_arr vs s0)).
Proof.
  intros (A & B & _ & D) E. cbn. split; [exact A|split; [exact B|split; [exists [vs]; rewrite E; reflexivity|exact D]]].
Qed.

Lemma math1_shape fn args s v s' : math1 fn args s = NOk v s' -> s' = s.
Proof.
  unfold math1. destruct args as [|a [|b r]]; try discriminate. destruct (to_number a); [|discriminate].
  intros H. injection H as _ <-. reflexivity.
Qed.

Lemma min_max_shape m args s v s' : min_max m args s = NOk v s' -> s' = s.
Proof.
  unfold min_max. destruct args as [|a r]; [discriminate|].
  match goal with |- match ?x with _ => _ end = _ -> _ => destruct x as [[|w ws]|] end; try discriminate.
  destruct (numbers_of (w :: ws)) as [[|x xs]|]; try discriminate.
  intros H. injection H as _ <-. reflexivity.
Qed.

(** every built-in leaves scopes and closures alone, only appends array cells, and
    keeps the number of object cells *)
Lemma call_native_shape n args s v s' : call_native n args s = NOk v s' -> native_shape s s'.
Proof.
  intros H. destruct n; cbn [Eval.call_native] in H;
    try (apply math1_shape in H; subst s'; apply native_shape_refl);
    try (apply min_max_shape in H; subst s'; apply native_shape_refl).
  - (* clock *) injection H as _ <-. apply native_shape_refl.
  - (* len *)
    brk H. destruct (get_arr l s); [|discriminate]. injection H as _ <-. apply native_shape_refl.
  - (* append *)
    brk H; (destruct (get_arr l s); [|discriminate]); cbn in H; injection H as _ <-;
      (apply (native_shape_alloc_arr _ s s); [apply native_shape_refl|reflexivity]).
  - (* remove *)
    brk H. destruct (get_arr l s); [|discriminate].
    match type of H with context [to_int ?b] => destruct (to_int b) end; [|discriminate].
    match type of H with (if ?c then _ else _) = _ => destruct c end; [discriminate|].
    cbn in H. injection H as _ <-.
    apply (native_shape_alloc_arr _ s s); [apply native_shape_refl|reflexivity].
  - (* delete *)
    brk H; (destruct (get_obj l s) as [ps|]; [|discriminate]); try discriminate.
    match type of H with context [assoc ?k ps] => destruct (assoc k ps) end; [|discriminate]. injection H as _ <-.
    split; [reflexivity|split; [reflexivity|split; [exists []; rewrite app_nil_r; reflexivity|]]].
    cbn. apply set_nth_length.
  - (* keys *)
    brk H. destruct (get_obj l s); [|discriminate]. cbn in H. injection H as _ <-.
    apply (native_shape_alloc_arr _ s (bump_tick s)); [apply native_shape_bump|reflexivity].
  - (* values *)
    brk H. destruct (get_obj l s); [|discriminate]. cbn in H. injection H as _ <-.
    apply (native_shape_alloc_arr _ s (bump_tick s)); [apply native_shape_bump|reflexivity].
  - (* pow *)
    brk H. repeat (match type of H with context [to_number ?b] => destruct (to_number b) end; try discriminate).
    injection H as _ <-. apply native_shape_refl.
  - (* input *)
    brk H; cbn [inp emit] in H;
      (destruct (inp s) as [|c0 cs]; [discriminate|]); destruct (read_line (c0 :: cs)) as [line rest];
      injection H as _ <-;
      (split; [reflexivity|split; [reflexivity|split; [exists []; rewrite app_nil_r; reflexivity|reflexivity]]]).
Qed.

Lemma Fr_native_shape n P s s' : wf_state s -> n <= length (envs s) -> native_shape s s' -> Fr n P s s'.
Proof.
  intros W Hn (A & B & C & D). apply Fr_same_envs; auto. apply heap_ext_shape; auto.
Qed.

Lemma Fr_call_native n0 P nat args s v s' :
  wf_state s -> n0 <= length (envs s) -> call_native nat args s = NOk v s' -> Fr n0 P s s'.
Proof. intros W Hn H. apply Fr_native_shape; auto. eapply call_native_shape; eauto. Qed.

Lemma Fr_native_fail n0 P nat args s :
  wf_state s -> n0 <= length (envs s) -> Fr n0 P s (native_fail_state nat args s).
Proof.
  intros W Hn. unfold native_fail_state.
  repeat match goal with |- context [match ?x with _ => _ end] => is_var x; destruct x end;
    first [apply Fr_refl; assumption | apply Fr_emit; assumption].
Qed.

End Natives.
