(** (T4) main.go over the flag-level evaluator (Model/FlagCli.v) against main.go over the
    exception-style evaluator (Model/Cli.v): same stdout, same exit status, and stderr
    either equal or -- after a run-time error -- the single diagnostic of Cli.v is the
    first line of what FlagCli.v writes. *)
From Coq Require Import List Bool.
From Borno Require Import Base Num Unicode Token Lexer Ast Parser Value Eval Cli FlagEval FlagCli
  EvalEqs FlagEqs FlagRefineDefs FlagRefine.
Import ListNotations.
Open Scope N_scope.

Section RefineCli.
Variable libm : N -> f64 -> f64 -> f64.
Variable clock : f64.
Variable sched : N -> list (list N * value) -> list (list N * value).

Notation run_source := (run_source libm clock sched).
Notation run_file := (run_file libm clock sched).
Notation repl_lines := (repl_lines libm clock sched).
Notation repl := (repl libm clock sched).
Notation main := (main libm clock sched).
Notation frun_source := (frun_source libm clock sched).
Notation frun_file := (frun_file libm clock sched).
Notation frepl_lines := (frepl_lines libm clock sched).
Notation frepl := (frepl libm clock sched).
Notation fmain := (fmain libm clock sched).

(** one run of a source text: whenever FlagCli has a result, Cli has one with the same
    stdout and status; its stderr is the same, or is the first item of FlagCli's *)
Theorem frun_source_streams : forall fuel repl src stdin o e st,
  fresult_streams (frun_source fuel repl src stdin) = Some (o, e, st) ->
  exists e0, result_streams (run_source fuel repl src stdin) = Some (o, e0, st) /\
             (e0 = e \/ exists d more, e0 = [d] /\ e = d :: more).
Proof.
  intros fuel repl src stdin o e st H.
  unfold FlagCli.frun_source in H. unfold Cli.run_source.
  destruct (pr_fuel_out (parse (lx_tokens (lex src)) (lx_eof_line (lex src)))); [discriminate H|].
  destruct (lx_diags (lex src)) as [|ld0 ld].
  2:{ simpl in H |- *. exists e. split; [exact H | left; reflexivity]. }
  destruct (pr_diags (parse (lx_tokens (lex src)) (lx_eof_line (lex src)))) as [|pd0 pd].
  2:{ simpl in H |- *. exists e. split; [exact H | left; reflexivity]. }
  destruct (pr_prog (parse (lx_tokens (lex src)) (lx_eof_line (lex src)))) as [prog|].
  2:{ simpl in H |- *. exists e. split; [exact H | left; reflexivity]. }
  destruct (frun_stmts libm clock sched fuel repl prog (fclean (init_state stdin))) as [[] fs'| | |fs'] eqn:E;
    simpl in H; try discriminate H.
  - apply frun_refines in E. inversion H; subst o e st; clear H.
    destruct E as [(F & D & R) | (F & e0 & l0 & more & s' & D & R & (Oo & _))].
    + rewrite R, F. simpl. unfold runtime_items. rewrite D. simpl.
      exists []. split; [reflexivity | left; reflexivity].
    + rewrite R, F. simpl. unfold runtime_items. rewrite D, Oo. simpl.
      exists [DRuntime e0 l0]. split; [reflexivity|].
      right. exists (DRuntime e0 l0), (map (fun d => DRuntime (fst d) (snd d)) more). split; reflexivity.
  - apply frun_refines_crash in E. destruct E as (F & D & R).
    inversion H; subst o e st; clear H.
    rewrite R. simpl. unfold runtime_items. rewrite D. simpl.
    exists [DGoCrash]. split; [reflexivity | left; reflexivity].
Qed.

(** running a script file *)
Theorem frun_file_refines : forall fuel src stdin r',
  frun_file fuel src stdin = PExit r' ->
  exists r, run_file fuel src stdin = PExit r /\ p_stdout r = p_stdout r' /\ p_status r = p_status r' /\
            (p_stderr r = p_stderr r' \/ exists d more, p_stderr r = [d] /\ p_stderr r' = d :: more).
Proof.
  intros fuel src stdin r' H. unfold FlagCli.frun_file in H.
  destruct (fresult_streams (frun_source fuel false src stdin)) as [[[o e] st]|] eqn:E; [|discriminate H].
  inversion H; subst r'; clear H.
  apply frun_source_streams in E. destruct E as (e0 & R & He).
  unfold Cli.run_file. rewrite R.
  exists (mkProc o e0 st). simpl. auto.
Qed.

Lemma frepl_lines_refines fuel : forall ls o e,
  frepl_lines fuel ls = Some (o, e) -> exists e0, repl_lines fuel ls = Some (o, e0).
Proof.
  induction ls as [|l r IH]; intros o e H.
  - simpl in H |- *. inversion H; subst. eauto.
  - cbn [FlagCli.frepl_lines] in H. cbn [Cli.repl_lines].
    destruct (fresult_streams (frun_source fuel true l [])) as [[[o1 e1] st1]|] eqn:E1; [|discriminate H].
    destruct (frepl_lines fuel r) as [[o2 e2]|] eqn:E2; [|discriminate H].
    inversion H; subst o e; clear H.
    apply frun_source_streams in E1. destruct E1 as (e0 & R & _).
    destruct (IH o2 e2 eq_refl) as (e3 & R3).
    rewrite R, R3. eauto.
Qed.

(** the REPL: same stdout (prompts, echoes, prints), status 0 *)
Theorem frepl_refines : forall fuel stdin r',
  frepl fuel stdin = PExit r' ->
  exists r, repl fuel stdin = PExit r /\ p_stdout r = p_stdout r' /\ p_status r = p_status r'.
Proof.
  intros fuel stdin r' H. unfold FlagCli.frepl in H. unfold Cli.repl.
  destruct (frepl_lines fuel (scan_lines stdin)) as [[o e]|] eqn:E; [|discriminate H].
  inversion H; subst r'; clear H.
  apply frepl_lines_refines in E. destruct E as (e0 & R). rewrite R.
  exists (mkProc o e0 0). simpl. auto.
Qed.

(** the whole command line *)
Theorem fmain_refines : forall fuel args fsys stdin r',
  fmain fuel args fsys stdin = PExit r' ->
  exists r, main fuel args fsys stdin = PExit r /\ p_stdout r = p_stdout r' /\ p_status r = p_status r'.
Proof.
  intros fuel args fsys stdin r' H. unfold FlagCli.fmain in H. unfold Cli.main.
  destruct args as [|path [|a2 rest]].
  - apply frepl_refines; exact H.
  - destruct (str_eqb (filepath_ext path) ext_bn).
    + destruct (fsys path) as [src|].
      * apply frun_file_refines in H. destruct H as (r & R & O & S & _). eauto.
      * exists r'. auto.
    + exists r'. auto.
  - exists r'. auto.
Qed.

(** for a script, stderr too: equal, or Cli's single diagnostic is the first of FlagCli's *)
Theorem fmain_refines_script : forall fuel path fsys stdin r',
  fmain fuel [path] fsys stdin = PExit r' ->
  exists r, main fuel [path] fsys stdin = PExit r /\ p_stdout r = p_stdout r' /\ p_status r = p_status r' /\
            (p_stderr r = p_stderr r' \/ exists d more, p_stderr r = [d] /\ p_stderr r' = d :: more).
Proof.
  intros fuel path fsys stdin r' H. unfold FlagCli.fmain in H. unfold Cli.main.
  destruct (str_eqb (filepath_ext path) ext_bn).
  - destruct (fsys path) as [src|].
    + apply frun_file_refines; exact H.
    + exists r'. auto.
  - exists r'. auto.
Qed.

(** the converse for runs without a run-time error (front-end rejection, normal end, host
    crash), with the same fuel: FlagCli gives exactly the same three streams.  (For status
    70 see Proofs/FlagConverse.v: FlagEval may need more fuel.) *)
Theorem frun_source_complete : forall fuel repl src stdin o e st,
  result_streams (run_source fuel repl src stdin) = Some (o, e, st) -> st <> 70 ->
  fresult_streams (frun_source fuel repl src stdin) = Some (o, e, st).
Proof.
  intros fuel repl src stdin o e st H N.
  unfold Cli.run_source in H. unfold FlagCli.frun_source.
  destruct (pr_fuel_out (parse (lx_tokens (lex src)) (lx_eof_line (lex src)))); [discriminate H|].
  destruct (lx_diags (lex src)) as [|ld0 ld]; [|exact H].
  destruct (pr_diags (parse (lx_tokens (lex src)) (lx_eof_line (lex src)))) as [|pd0 pd]; [|exact H].
  destruct (pr_prog (parse (lx_tokens (lex src)) (lx_eof_line (lex src)))) as [prog|]; [|exact H].
  destruct (Eval.run_stmts libm clock sched fuel repl prog (init_state stdin)) as [[] s'|e0 l0 s'| | |s'] eqn:E;
    simpl in H; try discriminate H.
  - rewrite (frun_complete_ok _ _ _ _ _ _ _ _ E). exact H.
  - inversion H; subst st. exfalso; apply N; reflexivity.
  - rewrite (frun_complete_crash _ _ _ _ _ _ _ _ E). exact H.
Qed.

Theorem frun_file_complete : forall fuel src stdin r,
  run_file fuel src stdin = PExit r -> p_status r <> 70 -> frun_file fuel src stdin = PExit r.
Proof.
  intros fuel src stdin r H N. unfold Cli.run_file in H. unfold FlagCli.frun_file.
  destruct (result_streams (run_source fuel false src stdin)) as [[[o e] st]|] eqn:E; [|discriminate H].
  inversion H; subst r; clear H. simpl in N.
  rewrite (frun_source_complete _ _ _ _ _ _ _ E N). reflexivity.
Qed.

End RefineCli.


Print Assumptions frun_source_streams.
Print Assumptions frun_file_refines.
Print Assumptions frepl_refines.
Print Assumptions fmain_refines.
Print Assumptions frun_source_complete.
