(** Unfolding equations of the flag-level evaluator (Model/FlagEval.v), by [reflexivity].
    [feval], [fexec] and [fexec_var] poll the flag before they look at the fuel: for each
    of them there is [X_unfold] (the whole body), [X_flag] (flag up), [X_0] and [X_S]
    (flag down). *)
From Borno Require Import Base Num Unicode Token Ast Value Eval FlagEval.
Open Scope N_scope.

Section Eqs.
Variable libm : N -> f64 -> f64 -> f64.
Variable clock : f64.
Variable sched : N -> list (list N * value) -> list (list N * value).

Notation feval := (feval libm clock sched).
Notation feval_list := (feval_list libm clock sched).
Notation feval_props := (feval_props libm clock sched).
Notation fexec := (fexec libm clock sched).
Notation fexec_var := (fexec_var libm clock sched).
Notation fexec_vars := (fexec_vars libm clock sched).
Notation fexec_list := (fexec_list libm clock sched).
Notation fexec_body := (fexec_body libm clock sched).
Notation fexec_while := (fexec_while libm clock sched).
Notation fexec_for := (fexec_for libm clock sched).
Notation fbinop := (fbinop libm).

(* ---------------------------------------------------------------- *)
(** ** the entry polls *)

Lemma feval_flag f e rho fs : fs_flag fs = true -> feval f e rho fs = FOk VNil fs.
Proof. intros H. destruct f; cbn [FlagEval.feval]; rewrite H; reflexivity. Qed.
Lemma fexec_flag f repl st rho fs : fs_flag fs = true -> fexec f repl st rho fs = FOk SigNone fs.
Proof. intros H. destruct f; cbn [FlagEval.fexec]; rewrite H; reflexivity. Qed.
Lemma fexec_var_flag f d rho fs : fs_flag fs = true -> fexec_var f d rho fs = FOk SigNone fs.
Proof. intros H. destruct f; cbn [FlagEval.fexec_var]; rewrite H; reflexivity. Qed.

Lemma feval_0 e rho fs : fs_flag fs = false -> feval 0 e rho fs = FFuel.
Proof. intros H. cbn [FlagEval.feval]. rewrite H. reflexivity. Qed.
Lemma fexec_0 repl st rho fs : fs_flag fs = false -> fexec 0 repl st rho fs = FFuel.
Proof. intros H. cbn [FlagEval.fexec]. rewrite H. reflexivity. Qed.
Lemma fexec_var_0 d rho fs : fs_flag fs = false -> fexec_var 0 d rho fs = FFuel.
Proof. intros H. cbn [FlagEval.fexec_var]. rewrite H. reflexivity. Qed.

Lemma feval_list_0 es rho fs : feval_list 0 es rho fs = FFuel. Proof. reflexivity. Qed.
Lemma feval_props_0 ps rho fs : feval_props 0 ps rho fs = FFuel. Proof. reflexivity. Qed.
Lemma fexec_vars_0 ds rho fs : fexec_vars 0 ds rho fs = FFuel. Proof. reflexivity. Qed.
Lemma fexec_list_0 r ss rho fs : fexec_list 0 r ss rho fs = FFuel. Proof. reflexivity. Qed.
Lemma fexec_body_0 ss rho fs : fexec_body 0 ss rho fs = FFuel. Proof. reflexivity. Qed.
Lemma fexec_while_0 r c b rho fs : fexec_while 0 r c b rho fs = FFuel. Proof. reflexivity. Qed.
Lemma fexec_for_0 r c i b rho fs : fexec_for 0 r c i b rho fs = FFuel. Proof. reflexivity. Qed.

(* ---------------------------------------------------------------- *)
(** ** one step *)

Lemma feval_unfold f e rho fs :
  feval (S f) e rho fs =
    if fs_flag fs then FOk VNil fs else
    match e with
    | ELit l _ => FOk (value_of_lit l) fs
    | EId x line =>
        match env_get rho x (fs_st fs) with
        | Some (Some v) => FOk v fs
        | Some None => FOk VNil (report RUndefinedVar line fs)
        | None => FStuck
        end
    | EGroup e' _ => feval f e' rho fs
    | EUnary op e' line =>
        let+ (v, fs1) := feval f e' rho fs in
        if fs_flag fs1 then FOk VNil fs1 else funop op v line fs1
    | EBinary op l r line =>
        let+ (a, fs1) := feval f l rho fs in
        if fs_flag fs1 then FOk VNil fs1 else
        let+ (b, fs2) := feval f r rho fs1 in
        if fs_flag fs2 then FOk VNil fs2 else fbinop op a b line fs2
    | ELogical op l r =>
        let+ (a, fs1) := feval f l rho fs in
        if tkind_eqb op TLOGICAL_OR then (if truthy a then FOk a fs1 else feval f r rho fs1)
        else (if truthy a then feval f r rho fs1 else FOk a fs1)
    | EAssign x nline ve _ =>
        let+ (v, fs1) := feval f ve rho fs in
        if fs_flag fs1 then FOk VNil fs1 else
        match env_assign rho x v (fs_st fs1) with
        | Some (Some s2) => FOk v (upd fs1 s2)
        | Some None => FOk v (report RUndefinedAssign nline fs1)     (* Assign reports; the arm still returns the value *)
        | None => FStuck
        end
    | EArrAssign ae ie ve line =>
        let+ (a, fs1) := feval f ae rho fs in
        let+ (i, fs2) := feval f ie rho fs1 in
        let+ (v, fs3) := feval f ve rho fs2 in
        match a with
        | VArr l =>
            match get_arr l (fs_st fs3) with
            | Some vs =>
                match index_of vs i with
                | None => FOk VNil (report RIndexInteger line fs3)
                | Some None => FOk VNil (report RIndexBounds line fs3)
                | Some (Some n) => FOk v (upd fs3 (set_arr l (set_nth n v vs) (fs_st fs3)))
                end
            | None => FStuck
            end
        | _ => FOk VNil (report RNotArrayAssign line fs3)
        end
    | EPropAssign oe p ve line =>
        let+ (o, fs1) := feval f oe rho fs in
        match o with
        | VObj l =>
            let+ (v, fs2) := feval f ve rho fs1 in
            match get_obj l (fs_st fs2) with
            | Some ps => FOk v (upd fs2 (set_obj l (sorted_put p v ps) (fs_st fs2)))
            | None => FStuck
            end
        | _ => FOk VNil (report RNotObjectAssign line fs1)
        end
    | ECall ce pline args =>
        let+ (c, fs1) := feval f ce rho fs in
        match c with
        | VFun l =>
            match get_fun l (fs_st fs1) with
            | Some clo =>
                if negb (Nat.eqb (length (c_params clo)) (length args)) then FOk VNil (report RArity pline fs1)
                else
                  let+ (vs, fs2) := feval_list f args rho fs1 in
                  if fs_flag fs2 then FOk VNil fs2 else            (* the poll before function.Call *)
                  let '(act, s3) := alloc_env (Some (c_env clo)) (fs_st fs2) in
                  match env_define act (c_name clo) (VFun l) s3 with
                  | Some s4 =>
                      match bind_params act (c_params clo) vs s4 with
                      | Some s5 =>
                          let+ (sig, fs6) := fexec_body f (c_body clo) act (upd fs2 s5) in
                          FOk (match sig with SigReturn _ v => v | _ => VNil end) fs6
                      | None => FStuck
                      end
                  | None => FStuck
                  end
            | None => FStuck
            end
        | VNative n =>
            if negb (arity_ok (native_arity n) (length args)) then FOk VNil (report RArity pline fs1)
            else
              let+ (vs, fs2) := feval_list f args rho fs1 in
              if fs_flag fs2 then FOk VNil fs2 else
              match call_native libm clock sched n vs (fs_st fs2) with
              | NOk v s3 => FOk v (upd fs2 s3)
              | NFail why => FOk VNil (report (RCallFailed why) pline (upd fs2 (native_fail_state n vs (fs_st fs2))))
              | NStuck => FStuck
              end
        | _ => FOk VNil (report RNotCallable pline fs1)
        end
    | EIndex ae ie line =>
        let+ (a, fs1) := feval f ae rho fs in
        let+ (i, fs2) := feval f ie rho fs1 in
        match a with
        | VArr l =>
            match get_arr l (fs_st fs2) with
            | Some vs =>
                match index_of vs i with
                | None => FOk VNil (report RIndexInteger line fs2)
                | Some None => FOk VNil (report RIndexBounds line fs2)
                | Some (Some n) => match nth_error vs n with Some v => FOk v fs2 | None => FStuck end
                end
            | None => FStuck
            end
        | _ => FOk VNil (report RNotArrayAccess line fs2)
        end
    | EProp oe p line =>
        let+ (o, fs1) := feval f oe rho fs in
        match o with
        | VObj l =>
            match get_obj l (fs_st fs1) with
            | Some ps => match assoc p ps with Some v => FOk v fs1 | None => FOk VNil (report RNoProperty line fs1) end
            | None => FStuck
            end
        | _ => FOk VNil (report RNotObjectAccess line fs1)
        end
    | EArray es =>
        let+ (vs, fs1) := feval_list f es rho fs in
        let '(l, s2) := alloc_arr vs (fs_st fs1) in FOk (VArr l) (upd fs1 s2)
    | EObject ps =>
        let+ (kvs, fs1) := feval_props f ps rho fs in
        let '(l, s2) := alloc_obj (build_obj kvs) (fs_st fs1) in FOk (VObj l) (upd fs1 s2)
    end.
Proof. reflexivity. Qed.

Lemma feval_S f e rho fs : fs_flag fs = false ->
  feval (S f) e rho fs =
    match e with
    | ELit l _ => FOk (value_of_lit l) fs
    | EId x line =>
        match env_get rho x (fs_st fs) with
        | Some (Some v) => FOk v fs
        | Some None => FOk VNil (report RUndefinedVar line fs)
        | None => FStuck
        end
    | EGroup e' _ => feval f e' rho fs
    | EUnary op e' line =>
        let+ (v, fs1) := feval f e' rho fs in
        if fs_flag fs1 then FOk VNil fs1 else funop op v line fs1
    | EBinary op l r line =>
        let+ (a, fs1) := feval f l rho fs in
        if fs_flag fs1 then FOk VNil fs1 else
        let+ (b, fs2) := feval f r rho fs1 in
        if fs_flag fs2 then FOk VNil fs2 else fbinop op a b line fs2
    | ELogical op l r =>
        let+ (a, fs1) := feval f l rho fs in
        if tkind_eqb op TLOGICAL_OR then (if truthy a then FOk a fs1 else feval f r rho fs1)
        else (if truthy a then feval f r rho fs1 else FOk a fs1)
    | EAssign x nline ve _ =>
        let+ (v, fs1) := feval f ve rho fs in
        if fs_flag fs1 then FOk VNil fs1 else
        match env_assign rho x v (fs_st fs1) with
        | Some (Some s2) => FOk v (upd fs1 s2)
        | Some None => FOk v (report RUndefinedAssign nline fs1)     (* Assign reports; the arm still returns the value *)
        | None => FStuck
        end
    | EArrAssign ae ie ve line =>
        let+ (a, fs1) := feval f ae rho fs in
        let+ (i, fs2) := feval f ie rho fs1 in
        let+ (v, fs3) := feval f ve rho fs2 in
        match a with
        | VArr l =>
            match get_arr l (fs_st fs3) with
            | Some vs =>
                match index_of vs i with
                | None => FOk VNil (report RIndexInteger line fs3)
                | Some None => FOk VNil (report RIndexBounds line fs3)
                | Some (Some n) => FOk v (upd fs3 (set_arr l (set_nth n v vs) (fs_st fs3)))
                end
            | None => FStuck
            end
        | _ => FOk VNil (report RNotArrayAssign line fs3)
        end
    | EPropAssign oe p ve line =>
        let+ (o, fs1) := feval f oe rho fs in
        match o with
        | VObj l =>
            let+ (v, fs2) := feval f ve rho fs1 in
            match get_obj l (fs_st fs2) with
            | Some ps => FOk v (upd fs2 (set_obj l (sorted_put p v ps) (fs_st fs2)))
            | None => FStuck
            end
        | _ => FOk VNil (report RNotObjectAssign line fs1)
        end
    | ECall ce pline args =>
        let+ (c, fs1) := feval f ce rho fs in
        match c with
        | VFun l =>
            match get_fun l (fs_st fs1) with
            | Some clo =>
                if negb (Nat.eqb (length (c_params clo)) (length args)) then FOk VNil (report RArity pline fs1)
                else
                  let+ (vs, fs2) := feval_list f args rho fs1 in
                  if fs_flag fs2 then FOk VNil fs2 else            (* the poll before function.Call *)
                  let '(act, s3) := alloc_env (Some (c_env clo)) (fs_st fs2) in
                  match env_define act (c_name clo) (VFun l) s3 with
                  | Some s4 =>
                      match bind_params act (c_params clo) vs s4 with
                      | Some s5 =>
                          let+ (sig, fs6) := fexec_body f (c_body clo) act (upd fs2 s5) in
                          FOk (match sig with SigReturn _ v => v | _ => VNil end) fs6
                      | None => FStuck
                      end
                  | None => FStuck
                  end
            | None => FStuck
            end
        | VNative n =>
            if negb (arity_ok (native_arity n) (length args)) then FOk VNil (report RArity pline fs1)
            else
              let+ (vs, fs2) := feval_list f args rho fs1 in
              if fs_flag fs2 then FOk VNil fs2 else
              match call_native libm clock sched n vs (fs_st fs2) with
              | NOk v s3 => FOk v (upd fs2 s3)
              | NFail why => FOk VNil (report (RCallFailed why) pline (upd fs2 (native_fail_state n vs (fs_st fs2))))
              | NStuck => FStuck
              end
        | _ => FOk VNil (report RNotCallable pline fs1)
        end
    | EIndex ae ie line =>
        let+ (a, fs1) := feval f ae rho fs in
        let+ (i, fs2) := feval f ie rho fs1 in
        match a with
        | VArr l =>
            match get_arr l (fs_st fs2) with
            | Some vs =>
                match index_of vs i with
                | None => FOk VNil (report RIndexInteger line fs2)
                | Some None => FOk VNil (report RIndexBounds line fs2)
                | Some (Some n) => match nth_error vs n with Some v => FOk v fs2 | None => FStuck end
                end
            | None => FStuck
            end
        | _ => FOk VNil (report RNotArrayAccess line fs2)
        end
    | EProp oe p line =>
        let+ (o, fs1) := feval f oe rho fs in
        match o with
        | VObj l =>
            match get_obj l (fs_st fs1) with
            | Some ps => match assoc p ps with Some v => FOk v fs1 | None => FOk VNil (report RNoProperty line fs1) end
            | None => FStuck
            end
        | _ => FOk VNil (report RNotObjectAccess line fs1)
        end
    | EArray es =>
        let+ (vs, fs1) := feval_list f es rho fs in
        let '(l, s2) := alloc_arr vs (fs_st fs1) in FOk (VArr l) (upd fs1 s2)
    | EObject ps =>
        let+ (kvs, fs1) := feval_props f ps rho fs in
        let '(l, s2) := alloc_obj (build_obj kvs) (fs_st fs1) in FOk (VObj l) (upd fs1 s2)
    end.
Proof. intros H. rewrite feval_unfold, H. reflexivity. Qed.

Lemma feval_list_S f es rho fs :
  feval_list (S f) es rho fs =
    match es with
    | [] => FOk [] fs
    | e :: r =>
        let+ (v, fs1) := feval f e rho fs in
        let+ (vs, fs2) := feval_list f r rho fs1 in
        FOk (v :: vs) fs2
    end.
Proof. reflexivity. Qed.

Lemma feval_props_S f ps rho fs :
  feval_props (S f) ps rho fs =
    match ps with
    | [] => FOk [] fs
    | (k, e) :: r =>
        let+ (v, fs1) := feval f e rho fs in
        let+ (kvs, fs2) := feval_props f r rho fs1 in
        FOk ((k, v) :: kvs) fs2
    end.
Proof. reflexivity. Qed.

Lemma fexec_unfold f repl st rho fs :
  fexec (S f) repl st rho fs =
    if fs_flag fs then FOk SigNone fs else
    match st with
    | SExpr e =>
        let+ (v, fs1) := feval f e rho fs in
        if repl && negb (fs_flag fs1) then fprint EvEcho v fs1 else FOk SigNone fs1
    | SPrint e =>
        let+ (v, fs1) := feval f e rho fs in
        if fs_flag fs1 then FOk SigNone fs1 else fprint EvPrint v fs1
    | SVar d => fexec_var f d rho fs
    | SVarList ds => fexec_vars f ds rho fs
    | SBlock ss =>
        let '(rho', s1) := alloc_env (Some rho) (fs_st fs) in
        fexec_list f repl ss rho' (upd fs s1)
    | SIf c t e =>
        let+ (cv, fs1) := feval f c rho fs in
        if truthy cv then fexec f repl t rho fs1
        else match e with Some e' => fexec f repl e' rho fs1 | None => FOk SigNone fs1 end
    | SWhile c b => fexec_while f repl c b rho fs
    | SFor init c inc b =>
        let '(rho', s1) := alloc_env (Some rho) (fs_st fs) in
        let+ (sig, fs2) := (match init with Some i => fexec f repl i rho' (upd fs s1) | None => FOk SigNone (upd fs s1) end) in
        match sig with
        | SigNone => fexec_for f repl c inc b rho' fs2
        | _ => FOk sig fs2
        end
    | SBreak line => FOk (SigBreak line) fs
    | SContinue line => FOk (SigContinue line) fs
    | SReturn kw ve =>
        match ve with
        | Some e => let+ (v, fs1) := feval f e rho fs in FOk (SigReturn kw v) fs1
        | None => FOk (SigReturn kw VNil) fs
        end
    | SFun name params body =>
        let '(cenv, s1) := alloc_env (Some rho) (fs_st fs) in
        let '(l, s2) := alloc_fun (mkClo name params body cenv) s1 in
        match env_define rho name (VFun l) s2 with
        | Some s3 => FOk SigNone (upd fs s3)
        | None => FStuck
        end
    end.
Proof. reflexivity. Qed.

Lemma fexec_S f repl st rho fs : fs_flag fs = false ->
  fexec (S f) repl st rho fs =
    match st with
    | SExpr e =>
        let+ (v, fs1) := feval f e rho fs in
        if repl && negb (fs_flag fs1) then fprint EvEcho v fs1 else FOk SigNone fs1
    | SPrint e =>
        let+ (v, fs1) := feval f e rho fs in
        if fs_flag fs1 then FOk SigNone fs1 else fprint EvPrint v fs1
    | SVar d => fexec_var f d rho fs
    | SVarList ds => fexec_vars f ds rho fs
    | SBlock ss =>
        let '(rho', s1) := alloc_env (Some rho) (fs_st fs) in
        fexec_list f repl ss rho' (upd fs s1)
    | SIf c t e =>
        let+ (cv, fs1) := feval f c rho fs in
        if truthy cv then fexec f repl t rho fs1
        else match e with Some e' => fexec f repl e' rho fs1 | None => FOk SigNone fs1 end
    | SWhile c b => fexec_while f repl c b rho fs
    | SFor init c inc b =>
        let '(rho', s1) := alloc_env (Some rho) (fs_st fs) in
        let+ (sig, fs2) := (match init with Some i => fexec f repl i rho' (upd fs s1) | None => FOk SigNone (upd fs s1) end) in
        match sig with
        | SigNone => fexec_for f repl c inc b rho' fs2
        | _ => FOk sig fs2
        end
    | SBreak line => FOk (SigBreak line) fs
    | SContinue line => FOk (SigContinue line) fs
    | SReturn kw ve =>
        match ve with
        | Some e => let+ (v, fs1) := feval f e rho fs in FOk (SigReturn kw v) fs1
        | None => FOk (SigReturn kw VNil) fs
        end
    | SFun name params body =>
        let '(cenv, s1) := alloc_env (Some rho) (fs_st fs) in
        let '(l, s2) := alloc_fun (mkClo name params body cenv) s1 in
        match env_define rho name (VFun l) s2 with
        | Some s3 => FOk SigNone (upd fs s3)
        | None => FStuck
        end
    end.
Proof. intros H. rewrite fexec_unfold, H. reflexivity. Qed.

Lemma fexec_var_unfold f d rho fs :
  fexec_var (S f) d rho fs =
    if fs_flag fs then FOk SigNone fs else
    let '(x, init, line) := d in
    let+ (v, fs1) := (match init with Some e => feval f e rho fs | None => FOk VNil fs end) in
    if fs_flag fs1 then FOk SigNone fs1 else
    match env_get_here rho x (fs_st fs1) with
    | Some None => match env_define rho x v (fs_st fs1) with Some s2 => FOk SigNone (upd fs1 s2) | None => FStuck end
    | Some (Some _) => FOk SigNone (report RRedeclare line fs1)
    | None => FStuck
    end.
Proof. reflexivity. Qed.

Lemma fexec_var_S f d rho fs : fs_flag fs = false ->
  fexec_var (S f) d rho fs =
    let '(x, init, line) := d in
    let+ (v, fs1) := (match init with Some e => feval f e rho fs | None => FOk VNil fs end) in
    if fs_flag fs1 then FOk SigNone fs1 else
    match env_get_here rho x (fs_st fs1) with
    | Some None => match env_define rho x v (fs_st fs1) with Some s2 => FOk SigNone (upd fs1 s2) | None => FStuck end
    | Some (Some _) => FOk SigNone (report RRedeclare line fs1)
    | None => FStuck
    end.
Proof. intros H. rewrite fexec_var_unfold, H. reflexivity. Qed.

Lemma fexec_vars_S f ds rho fs :
  fexec_vars (S f) ds rho fs =
    match ds with
    | [] => FOk SigNone fs
    | d :: r =>
        let+ (_x, fs1) := fexec_var f d rho fs in
        if fs_flag fs1 then FOk SigNone fs1 else fexec_vars f r rho fs1
    end.
Proof. reflexivity. Qed.

Lemma fexec_list_S f repl ss rho fs :
  fexec_list (S f) repl ss rho fs =
    match ss with
    | [] => FOk SigNone fs
    | st :: r =>
        let+ (sig, fs1) := fexec f repl st rho fs in
        match sig with
        | SigNone => if fs_flag fs1 then FOk SigNone fs1 else fexec_list f repl r rho fs1
        | _ => FOk sig fs1
        end
    end.
Proof. reflexivity. Qed.

Lemma fexec_body_S f ss rho fs :
  fexec_body (S f) ss rho fs =
    match ss with
    | [] => FOk SigNone fs
    | st :: r =>
        let+ (sig, fs1) := fexec f false st rho fs in
        match sig with
        | SigNone => fexec_body f r rho fs1
        | _ => FOk sig fs1
        end
    end.
Proof. reflexivity. Qed.

Lemma fexec_while_S f repl c b rho fs :
  fexec_while (S f) repl c b rho fs =
    let+ (cv, fs1) := feval f c rho fs in
    if truthy cv then
      let+ (sig, fs2) := fexec f repl b rho fs1 in
      match sig with
      | SigBreak _ => FOk SigNone fs2
      | SigReturn _ _ => FOk sig fs2
      | _ => fexec_while f repl c b rho fs2
      end
    else FOk SigNone fs1.
Proof. reflexivity. Qed.

Lemma fexec_for_S f repl c inc b rho fs :
  fexec_for (S f) repl c inc b rho fs =
    let+ (cv, fs1) := feval f c rho fs in
    if truthy cv then
      let+ (sig, fs2) := fexec f repl b rho fs1 in
      match sig with
      | SigBreak _ => FOk SigNone fs2
      | SigReturn _ _ => FOk sig fs2
      | _ =>
          let+ (_v, fs3) := (match inc with Some i => feval f i rho fs2 | None => FOk VNil fs2 end) in
          fexec_for f repl c inc b rho fs3
      end
    else FOk SigNone fs1.
Proof. reflexivity. Qed.

End Eqs.
