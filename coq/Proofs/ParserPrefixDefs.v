(** One-token look-ahead, part 1: the predicate [Det] and its combinators.

    [Det run f ts] (for a fuel-indexed family [run : nat -> list token -> pres A])
    says that what [run f] does on [ts] is determined by the tokens it has
    consumed plus the one token it is looking at:

    - success [POk a r0 ds]: it consumed a prefix [p] ([ts = p ++ r0]); on [p]
      followed by anything that starts with the same token as [r0] (or is empty
      when [r0] is), with any fuel [>= f], it returns the same value, the same
      diagnostics, and leaves that other rest;
    - fatal error [PErr ds]: it consumed a prefix [p] and failed looking at the
      head of [rem] ([ts = p ++ rem], the last diagnostic is [diag_at rem k]); on
      [p] followed by anything with the same head as [rem], with any fuel [>= f],
      it never returns a value again ("no value", not "the same error": the
      [PInvalidAssign] diagnostic is issued at the [=] only after the right-hand
      side has been read);
    - first diagnostic [d] (fatal or lenient, clause [FD]): it was issued after
      consuming some [p], looking at the head of [rem] ([d = diag_at rem _]); on
      [p] followed by anything with the same head, any fuel [>= f], a run that
      terminates has a first diagnostic again, and the same one unless [d] is
      [PInvalidAssign].

    The combinators below ([Det_bind], [Det_cons], [Det_ext], [Det_stop_*],
    [Det_ifcheck], [Det_ia], [Det_shift]) are all the main induction
    (ParserPrefix.v) needs. *)
From Borno Require Import Base Num Token Ast Parser.
Open Scope nat_scope.

(** * Token lists with the same first token (or both empty) *)

Definition samehead (r r' : list token) : Prop :=
  match r, r' with [], [] => True | t :: _, t' :: _ => t = t' | _, _ => False end.

Lemma samehead_refl r : samehead r r.
Proof. destruct r; simpl; auto. Qed.
Lemma samehead_app p r r' : samehead r r' -> samehead (p ++ r) (p ++ r').
Proof. destruct p; simpl; auto. Qed.
Lemma samehead_cons_inv t r y : samehead (t :: r) y -> exists r', y = t :: r'.
Proof. destruct y as [|t' y']; simpl; [contradiction|]. intros ->. eauto. Qed.
Lemma samehead_nil_inv y : samehead [] y -> y = [].
Proof. destruct y; simpl; [auto|contradiction]. Qed.
Lemma samehead_cons t r r' : samehead (t :: r) (t :: r').
Proof. reflexivity. Qed.

(** replace [y] by what [samehead ts y] says about it *)
Ltac same_head S :=
  first [ apply samehead_nil_inv in S; subst
        | (apply samehead_cons_inv in S; let r2 := fresh "r2" in destruct S as (r2 & ->)) ].

(** * Result predicates *)

(** "no value": a fatal error or out of fuel *)
Definition nok {A} (r : pres A) : Prop := match r with POk _ _ _ => False | _ => True end.

Lemma nok_bind {A B} (r : pres A) (k : A -> list token -> pres B) : nok r -> nok (pbind r k).
Proof. destruct r; simpl; auto; contradiction. Qed.
Lemma nok_bind_r {A B} (r : pres A) (k : A -> list token -> pres B) :
  (forall a rest, nok (k a rest)) -> nok (pbind r k).
Proof.
  intros H. destruct r as [a rest ds| ds|]; simpl; auto.
  specialize (H a rest). destruct (k a rest); simpl in *; auto.
Qed.

(** "[r] is out of fuel, or its first diagnostic is [d]" -- except that when [d]
    is the late diagnostic [PInvalidAssign] any first diagnostic will do *)
Definition fd_ok {A} (d : pdiag) (r : pres A) : Prop :=
  match r with
  | PFuel => True
  | POk _ _ [] => False
  | POk _ _ (d' :: _) => d' = d \/ pd_kind d = PInvalidAssign
  | PErr [] => pd_kind d = PInvalidAssign
  | PErr (d' :: _) => d' = d \/ pd_kind d = PInvalidAssign
  end.

Lemma fd_ok_bind {A B} d (r : pres A) (k : A -> list token -> pres B) : fd_ok d r -> fd_ok d (pbind r k).
Proof.
  destruct r as [a rest [|d' ds]| [|d' ds]|]; simpl; auto; try contradiction.
  intros H. destruct (k a rest); simpl; auto.
Qed.
Lemma fd_ok_bind_clean {A B} d (a : A) rest (k : A -> list token -> pres B) :
  fd_ok d (k a rest) -> fd_ok d (pbind (POk a rest []) k).
Proof. simpl. destruct (k a rest); simpl; auto. Qed.
Lemma fd_ok_ia {A B} d (r : pres A) : pd_kind d = PInvalidAssign ->
  fd_ok d (pbind r (fun (_ : A) (_ : list token) => @PErr B [d])).
Proof.
  intros K. destruct r as [a rest [|d' ds]| [|d' ds]|]; simpl; auto.
Qed.

Section WithEof.
Variable eofl : N.
Notation diag_at := (Parser.diag_at eofl).
Notation peek_line := (Parser.peek_line eofl).
Notation consume := (Parser.consume eofl).
Notation consume_lenient := (Parser.consume_lenient eofl).
Notation perr_at := (Parser.perr_at eofl).

Lemma diag_at_samehead r r' k : samehead r r' -> diag_at r' k = diag_at r k.
Proof. destruct r, r'; simpl; try contradiction; auto. intros ->. reflexivity. Qed.
Lemma peek_line_samehead r r' : samehead r r' -> peek_line r' = peek_line r.
Proof. destruct r, r'; simpl; try contradiction; auto. intros ->. reflexivity. Qed.
Lemma check_samehead k r r' : samehead r r' -> check k r' = check k r.
Proof. destruct r, r'; simpl; try contradiction; auto. intros ->. reflexivity. Qed.
Lemma pd_kind_diag_at r k : pd_kind (diag_at r k) = k.
Proof. destruct r; reflexivity. Qed.
Lemma check_cons k t r : check k (t :: r) = tkind_eqb (tk t) k.
Proof. reflexivity. Qed.

(** * The three clauses *)

Section Clauses.
Context {A : Type}.
Implicit Types run : nat -> list token -> pres A.

Definition OKc run (f : nat) (ts : list token) (a : A) (r0 : list token) (ds : list pdiag) : Prop :=
  exists p, ts = p ++ r0 /\
    forall g r', f <= g -> samehead r0 r' -> run g (p ++ r') = POk a r' ds.

Definition ERc run (f : nat) (ts : list token) (ds : list pdiag) : Prop :=
  exists p rem ds0 k, ts = p ++ rem /\ ds = ds0 ++ [diag_at rem k] /\
    forall g rem', f <= g -> samehead rem rem' -> nok (run g (p ++ rem')).

Definition FD run (f : nat) (ts : list token) (ds : list pdiag) : Prop :=
  match ds with
  | [] => True
  | d :: _ => exists p rem, ts = p ++ rem /\ d = diag_at rem (pd_kind d) /\
      forall g rem', f <= g -> samehead rem rem' -> fd_ok d (run g (p ++ rem'))
  end.

Definition Det run (f : nat) (ts : list token) : Prop :=
  match run f ts with
  | PFuel => True
  | POk a r0 ds => OKc run f ts a r0 ds /\ FD run f ts ds
  | PErr ds => ERc run f ts ds /\ FD run f ts ds
  end.

Lemma Det_fuel run f ts : run f ts = PFuel -> Det run f ts.
Proof. intros E. unfold Det. rewrite E. exact I. Qed.

(** ** Extensional replacement (on lists with the same head, fuel [>= f]) *)

Lemma OKc_ext run run' f ts a r0 ds :
  (forall g y, f <= g -> samehead ts y -> run g y = run' g y) -> OKc run' f ts a r0 ds -> OKc run f ts a r0 ds.
Proof.
  intros E (p & -> & D). exists p. split; auto. intros g r' Hg S.
  rewrite E; auto. apply samehead_app; auto.
Qed.
Lemma ERc_ext run run' f ts ds :
  (forall g y, f <= g -> samehead ts y -> run g y = run' g y) -> ERc run' f ts ds -> ERc run f ts ds.
Proof.
  intros E (p & rem & ds0 & k & -> & Eds & D). exists p, rem, ds0, k. split; auto. split; auto.
  intros g rem' Hg S. rewrite E; auto. apply samehead_app; auto.
Qed.
Lemma FD_ext run run' f ts ds :
  (forall g y, f <= g -> samehead ts y -> run g y = run' g y) -> FD run' f ts ds -> FD run f ts ds.
Proof.
  intros E. destruct ds as [|d ds]; simpl; auto.
  intros (p & rem & -> & Ed & D). exists p, rem. split; auto. split; auto.
  intros g rem' Hg S. rewrite E; auto. apply samehead_app; auto.
Qed.
Lemma Det_ext run run' f ts :
  (forall g y, f <= g -> samehead ts y -> run g y = run' g y) -> Det run' f ts -> Det run f ts.
Proof.
  intros E D. unfold Det in *. rewrite (E f ts (le_n _) (samehead_refl _)).
  destruct (run' f ts) as [a r0 ds| ds|]; auto; destruct D as (D1 & D2); split;
    eauto using OKc_ext, ERc_ext, FD_ext.
Qed.

(** ** Consuming one token *)

Lemma OKc_cons run run' f t r a r0 ds :
  (forall g x, run g (t :: x) = run' g x) -> OKc run' f r a r0 ds -> OKc run f (t :: r) a r0 ds.
Proof.
  intros E (p & -> & D). exists (t :: p). split; auto. intros g r' Hg S. simpl. rewrite E. auto.
Qed.
Lemma ERc_cons run run' f t r ds :
  (forall g x, run g (t :: x) = run' g x) -> ERc run' f r ds -> ERc run f (t :: r) ds.
Proof.
  intros E (p & rem & ds0 & k & -> & Eds & D). exists (t :: p), rem, ds0, k. split; auto. split; auto.
  intros g rem' Hg S. simpl. rewrite E. auto.
Qed.
Lemma FD_cons run run' f t r ds :
  (forall g x, run g (t :: x) = run' g x) -> FD run' f r ds -> FD run f (t :: r) ds.
Proof.
  intros E. destruct ds as [|d ds]; simpl; auto.
  intros (p & rem & -> & Ed & D). exists (t :: p), rem. split; auto. split; auto.
  intros g rem' Hg S. simpl. rewrite E. auto.
Qed.
Lemma Det_cons run run' f t r :
  (forall g x, run g (t :: x) = run' g x) -> Det run' f r -> Det run f (t :: r).
Proof.
  intros E D. unfold Det in *. rewrite E.
  destruct (run' f r) as [a r0 ds| ds|]; auto; destruct D as (D1 & D2); split;
    eauto using OKc_cons, ERc_cons, FD_cons.
Qed.

(** ** Stopping after a peek at the head *)

Lemma Det_stop_ok run (a : A) f ts :
  (forall g y, samehead ts y -> run g y = POk a y []) -> Det run f ts.
Proof.
  intros E. unfold Det. rewrite (E f ts (samehead_refl _)). split; [|exact I].
  exists []. split; [reflexivity|]. intros g r' _ S. simpl. auto.
Qed.
Lemma Det_stop_err run (k : pkind) f ts :
  (forall g y, samehead ts y -> run g y = PErr [diag_at y k]) -> Det run f ts.
Proof.
  intros E. unfold Det. rewrite (E f ts (samehead_refl _)). split.
  - exists [], ts, [], k. split; [reflexivity|]. split; [reflexivity|]. intros g rem' _ S. simpl. rewrite (E g _ S). exact I.
  - simpl. exists [], ts. split; [reflexivity|]. rewrite pd_kind_diag_at. split; [reflexivity|].
    intros g rem' _ S. simpl. rewrite (E g _ S). simpl. left. apply diag_at_samehead. exact S.
Qed.
(** a lenient site: report at the head, go on *)
Lemma Det_stop_len run (a : A) (k : pkind) f ts :
  (forall g y, samehead ts y -> run g y = POk a y [diag_at y k]) -> Det run f ts.
Proof.
  intros E. unfold Det. rewrite (E f ts (samehead_refl _)). split.
  - exists []. split; [reflexivity|]. intros g r' _ S. simpl. rewrite (E g _ S).
    rewrite (diag_at_samehead _ _ k S). reflexivity.
  - simpl. exists [], ts. split; [reflexivity|]. rewrite pd_kind_diag_at. split; [reflexivity|].
    intros g rem' _ S. simpl. rewrite (E g _ S). simpl. left. apply diag_at_samehead. exact S.
Qed.
Lemma Det_ret (a : A) f ts : Det (fun _ x => POk a x []) f ts.
Proof. apply (Det_stop_ok _ a). reflexivity. Qed.

(** ** The fuel index *)

Lemma Det_shift run f ts : Det (fun g => run (S g)) f ts -> Det run (S f) ts.
Proof.
  assert (L : forall g, S f <= g -> exists g', g = S g' /\ f <= g').
  { intros g Hg. destruct g as [|g']; [lia|]. exists g'. split; auto. lia. }
  unfold Det. destruct (run (S f) ts) as [a r0 ds| ds|]; auto; intros (D1 & D2); split.
  - destruct D1 as (p & -> & D). exists p. split; auto. intros g r' Hg S.
    destruct (L g Hg) as (g' & -> & Hg'). apply D; auto.
  - destruct ds as [|d ds]; simpl in *; auto. destruct D2 as (p & rem & -> & Ed & D).
    exists p, rem. split; auto. split; auto. intros g rem' Hg S.
    destruct (L g Hg) as (g' & -> & Hg'). apply (D g'); auto.
  - destruct D1 as (p & rem & ds0 & k & -> & Eds & D). exists p, rem, ds0, k. split; auto. split; auto.
    intros g rem' Hg S. destruct (L g Hg) as (g' & -> & Hg'). apply (D g'); auto.
  - destruct ds as [|d ds]; simpl in *; auto. destruct D2 as (p & rem & -> & Ed & D).
    exists p, rem. split; auto. split; auto. intros g rem' Hg S.
    destruct (L g Hg) as (g' & -> & Hg'). apply (D g'); auto.
Qed.

(** ** A decision on the kind of the head token *)

Lemma Det_ifcheck (k : tkind) (T E : nat -> list token -> pres A) f ts :
  (check k ts = true -> Det T f ts) -> (check k ts = false -> Det E f ts) ->
  Det (fun g x => if check k x then T g x else E g x) f ts.
Proof.
  intros HT HE. destruct (check k ts) eqn:C.
  - apply (Det_ext _ T); auto. intros g y _ S. rewrite (check_samehead k _ _ S), C. reflexivity.
  - apply (Det_ext _ E); auto. intros g y _ S. rewrite (check_samehead k _ _ S), C. reflexivity.
Qed.

End Clauses.

(** ** Sequencing *)

Lemma FD_bindl {A B} (X : nat -> list token -> pres A) (Y : nat -> A -> list token -> pres B) f ts d ds1 ds :
  FD X f ts (d :: ds1) -> FD (fun g x => pbind (X g x) (Y g)) f ts (d :: ds).
Proof.
  simpl. intros (p & rem & -> & Ed & D). exists p, rem. split; auto. split; auto.
  intros g rem' Hg S. apply fd_ok_bind. apply D; auto.
Qed.

Lemma FD_bind {A B} (X : nat -> list token -> pres A) (Y : nat -> A -> list token -> pres B) f ts a r1 ds1 ds2 :
  OKc X f ts a r1 ds1 -> FD X f ts ds1 -> FD (fun g => Y g a) f r1 ds2 ->
  FD (fun g x => pbind (X g x) (Y g)) f ts (ds1 ++ ds2).
Proof.
  intros OX FX FY. destruct ds1 as [|d1 ds1].
  - simpl. destruct ds2 as [|d ds2]; simpl; auto.
    destruct OX as (p1 & -> & DX). destruct FY as (p2 & rem & -> & Ed & DY).
    exists (p1 ++ p2), rem. split; [now rewrite app_assoc|]. split; auto.
    intros g rem' Hg S. rewrite <- app_assoc.
    rewrite (DX g (p2 ++ rem') Hg (samehead_app _ _ _ S)).
    apply fd_ok_bind_clean. apply DY; auto.
  - simpl app. eapply FD_bindl. exact FX.
Qed.

Lemma Det_bind {A B} (X : nat -> list token -> pres A) (Y : nat -> A -> list token -> pres B) f ts :
  Det X f ts ->
  (forall a r1 ds1, X f ts = POk a r1 ds1 -> Det (fun g => Y g a) f r1) ->
  Det (fun g x => pbind (X g x) (Y g)) f ts.
Proof.
  intros DX DY. unfold Det in DX |- *. destruct (X f ts) as [a r1 ds1| ds1|] eqn:EX; simpl; auto.
  - destruct DX as (OX & FX). specialize (DY a r1 ds1 eq_refl). unfold Det in DY.
    destruct (Y f a r1) as [b r ds2| ds2|] eqn:EY; auto.
    + destruct DY as (OY & FY). split; [|eapply FD_bind; eauto].
      destruct OX as (p1 & -> & DX). destruct OY as (p2 & -> & DY).
      exists (p1 ++ p2). split; [now rewrite app_assoc|].
      intros g r' Hg S. rewrite <- app_assoc.
      rewrite (DX g (p2 ++ r') Hg (samehead_app _ _ _ S)). simpl.
      rewrite (DY g r' Hg S). reflexivity.
    + destruct DY as (OY & FY). split; [|eapply FD_bind; eauto].
      destruct OX as (p1 & -> & DX). destruct OY as (p2 & rem & ds0 & k & -> & -> & DY).
      exists (p1 ++ p2), rem, (ds1 ++ ds0), k. split; [now rewrite app_assoc|].
      split; [now rewrite app_assoc|].
      intros g rem' Hg S. rewrite <- app_assoc.
      rewrite (DX g (p2 ++ rem') Hg (samehead_app _ _ _ S)). simpl.
      specialize (DY g rem' Hg S). destruct (Y g a (p2 ++ rem')); simpl in *; auto.
  - destruct DX as (OX & FX). split.
    + destruct OX as (p & rem & ds0 & k & -> & Eds & D). exists p, rem, ds0, k. split; auto. split; auto.
      intros g rem' Hg S. apply nok_bind. apply D; auto.
    + destruct ds1 as [|d ds1]; [exact I|]. eapply FD_bindl. exact FX.
Qed.

(** ** The late diagnostic: [X] is run on what follows the token [eq], then the
    diagnostic [d] (which names [eq]) is issued whatever [X] returned *)

Lemma Det_ia {A B} (run : nat -> list token -> pres B) (X : nat -> list token -> pres A) eq d f r :
  (forall g x, run g (eq :: x) = pbind (X g x) (fun _ _ => PErr [d])) ->
  d = diag_tok eq (pd_kind d) -> pd_kind d = PInvalidAssign ->
  Det X f r -> Det run f (eq :: r).
Proof.
  intros E Ed K DX. unfold Det in *. rewrite E.
  destruct (X f r) as [v r2 ds1| ds1|] eqn:EX; simpl; auto.
  - destruct DX as (OX & FX). split.
    + exists [], (eq :: r), ds1, (pd_kind d). split; auto. split; [rewrite Ed at 1; reflexivity|].
      intros g rem' _ S. same_head S. simpl. rewrite E. apply nok_bind_r. intros; exact I.
    + destruct ds1 as [|d1 ds1].
      * simpl. exists [], (eq :: r). split; auto. split; [exact Ed|].
        intros g rem' _ S. same_head S. simpl. rewrite E.
        apply fd_ok_ia. exact K.
      * simpl app. eapply FD_cons; [exact E|]. eapply FD_bindl. exact FX.
  - destruct DX as (OX & FX). split.
    + eapply ERc_cons; [exact E|].
      destruct OX as (p & rem & ds0 & k & -> & Eds & D). exists p, rem, ds0, k. split; auto. split; auto.
      intros g rem' Hg S. apply nok_bind. apply D; auto.
    + destruct ds1 as [|d1 ds1]; [exact I|]. eapply FD_cons; [exact E|]. eapply FD_bindl. exact FX.
Qed.

(** ** The primitive parsers *)

Lemma Det_consume k pk f ts : Det (fun _ x => consume k pk x) f ts.
Proof.
  destruct ts as [|t r].
  - apply (Det_stop_err _ pk). intros g y S. same_head S. reflexivity.
  - destruct (tkind_eqb (tk t) k) eqn:E.
    + apply (Det_cons _ (fun _ x => POk t x [])); [|apply Det_ret].
      intros g x. unfold Parser.consume. rewrite E. reflexivity.
    + apply (Det_stop_err _ pk). intros g y S. same_head S. unfold Parser.consume. rewrite E. reflexivity.
Qed.

(** [consume_lenient] followed by a return *)
Lemma Det_lenient {A} (a : A) k pk f ts :
  Det (fun _ x => let '(r2, ds) := consume_lenient k pk x in POk a r2 ds) f ts.
Proof.
  destruct ts as [|t r].
  - apply (Det_stop_len _ a pk). intros g y S. same_head S. reflexivity.
  - destruct (tkind_eqb (tk t) k) eqn:E.
    + apply (Det_cons _ (fun _ x => POk a x [])); [|apply Det_ret].
      intros g x. unfold Parser.consume_lenient. rewrite E. reflexivity.
    + apply (Det_stop_len _ a pk). intros g y S. same_head S. unfold Parser.consume_lenient. rewrite E. reflexivity.
Qed.

End WithEof.
