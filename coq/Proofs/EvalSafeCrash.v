(** The [Crash] outcome (what the Go runtime does when fmt recurses for ever) arises
    only at a printing step whose value text is [TCycle], and [TCycle] means that the
    printed value reaches a cell that contains itself (transitively).  Conversely a
    store whose cells admit a rank function (a DAG) never prints [TCycle]. *)
From Borno Require Import Base Num Unicode Token Lexer Ast Parser Value Eval Cli.
From Borno.Proofs Require Import EvalEqs EvalSafeDefs.
From Coq Require Import Lia List Arith.
Local Open Scope nat_scope.

(* ---------------------------------------------------------------- *)
(** ** containment between values of a store *)

(** [child s v w]: [w] is stored directly in the array or object cell that [v] denotes *)
Definition child (s : state) (v w : value) : Prop :=
  match v with
  | VArr l => exists vs, get_arr l s = Some vs /\ In w vs
  | VObj l => exists ps k, get_obj l s = Some ps /\ In (k, w) ps
  | _ => False
  end.

(** reflexive-transitive closure *)
Inductive reach (s : state) : value -> value -> Prop :=
  | reach_refl v : reach s v v
  | reach_step v w u : child s v w -> reach s w u -> reach s v u.

(** [c] contains itself, through at least one step *)
Definition self_containing (s : state) (c : value) : Prop :=
  exists w, child s c w /\ reach s w c.

(** an allocated array or object cell *)
Definition live (s : state) (v : value) : Prop :=
  match v with
  | VArr l => l < length (arrs s)
  | VObj l => l < length (objs s)
  | _ => False
  end.

Lemma child_live s v w : child s v w -> live s v.
Proof.
  destruct v; simpl; try tauto.
  - intros (vs & E & _). eapply nth_error_lt; exact E.
  - intros (ps & k & E & _). eapply nth_error_lt; exact E.
Qed.

Lemma reach_live s w c : reach s w c -> live s c -> live s w.
Proof. intros R. destruct R as [v|v x u C R]; [auto|]. intros _. eapply child_live; exact C. Qed.

(** a chain of cells, each the parent of the next, the last one the parent of [u] *)
Fixpoint chain (s : state) (p : list value) (u : value) : Prop :=
  match p with
  | [] => True
  | v :: r => child s v (hd u r) /\ chain s r u
  end.

Lemma hd_app_cons {A} (u x : A) : forall l r, hd u (l ++ x :: r) = hd x l.
Proof. intros [|a l] r; reflexivity. Qed.

Lemma chain_app s u : forall l1 l2, chain s (l1 ++ l2) u -> chain s l1 (hd u l2) /\ chain s l2 u.
Proof.
  induction l1 as [|a l1 IH]; intros l2 H; simpl in *; [auto|].
  destruct H as (C & H). destruct (IH _ H) as (H1 & H2). split; [|exact H2]. split; [|exact H1].
  destruct l1 as [|b l1]; simpl in *; exact C.
Qed.

Lemma chain_reach s u : forall p, chain s p u -> reach s (hd u p) u.
Proof.
  induction p as [|a p IH]; intros H; simpl in *; [constructor|].
  destruct H as (C & H). eapply reach_step; [exact C|auto].
Qed.

Lemma chain_live s u : forall p, chain s p u -> Forall (live s) p.
Proof.
  induction p as [|a p IH]; intros H; simpl in *; constructor.
  - eapply child_live; exact (proj1 H).
  - apply IH; exact (proj2 H).
Qed.

(* ---------------------------------------------------------------- *)
(** ** [TCycle] yields a chain as long as the fuel *)

Lemma arr_text_cycle tx : forall vs, arr_text tx vs = TCycle -> exists w, In w vs /\ tx w = TCycle.
Proof.
  induction vs as [|v r IH]; intros H; [discriminate|].
  destruct r as [|v' r'].
  - exists v. split; [left; reflexivity|exact H].
  - change (arr_text tx (v :: v' :: r')) with
      (match tx v with
       | TOk t => match arr_text tx (v' :: r') with TOk t' => TOk (t ++ 32%N :: t') | x => x end
       | x => x end) in H.
    destruct (tx v) eqn:Ev; try discriminate.
    + destruct (arr_text tx (v' :: r')) eqn:Er; try discriminate.
      destruct (IH eq_refl) as (w & Hin & Hw). exists w. split; [right; exact Hin|exact Hw].
    + exists v. split; [left; reflexivity|exact Ev].
Qed.

Lemma obj_text_cycle tx : forall ps, obj_text tx ps = TCycle -> exists k w, In (k, w) ps /\ tx w = TCycle.
Proof.
  induction ps as [|[k v] r IH]; intros H; [discriminate|].
  destruct r as [|kv' r'].
  - exists k, v. split; [left; reflexivity|]. simpl in H. destruct (tx v); try discriminate. reflexivity.
  - change (obj_text tx ((k, v) :: kv' :: r')) with
      (match tx v with
       | TOk t => match obj_text tx (kv' :: r') with TOk t' => TOk (k ++ 58%N :: t ++ 32%N :: t') | x => x end
       | x => x end) in H.
    destruct (tx v) eqn:Ev; try discriminate.
    + destruct (obj_text tx (kv' :: r')) eqn:Er; try discriminate.
      destruct (IH eq_refl) as (k' & w & Hin & Hw). exists k', w. split; [right; exact Hin|exact Hw].
    + exists k, v. split; [left; reflexivity|exact Ev].
Qed.

Lemma wrap_arr_cycle r : wrap_arr r = TCycle -> r = TCycle.
Proof. destruct r; simpl; congruence. Qed.
Lemma wrap_obj_cycle r : wrap_obj r = TCycle -> r = TCycle.
Proof. destruct r; simpl; congruence. Qed.

Lemma text_in_cycle_chain s : forall f v, text_in f s v = TCycle ->
  exists p u, length p = f /\ hd u p = v /\ chain s p u.
Proof.
  induction f as [|f IH]; intros v H.
  - exists [], v. simpl. auto.
  - rewrite text_in_S in H. destruct v as [|b|x|t|l|l|l|n]; try discriminate.
    + destruct (text_num x); discriminate.
    + destruct (get_arr l s) as [vs|] eqn:E; [|discriminate].
      apply wrap_arr_cycle, arr_text_cycle in H as (w & Hin & Hw).
      destruct (IH _ Hw) as (p & u & L & Hh & C).
      exists (VArr l :: p), u. simpl. split; [lia|]. split; [reflexivity|]. split; [|exact C].
      exists vs. rewrite Hh. auto.
    + destruct (get_obj l s) as [ps|] eqn:E; [|discriminate].
      apply wrap_obj_cycle, obj_text_cycle in H as (k & w & Hin & Hw).
      destruct (IH _ Hw) as (p & u & L & Hh & C).
      exists (VObj l :: p), u. simpl. split; [lia|]. split; [reflexivity|]. split; [|exact C].
      exists ps, k. rewrite Hh. auto.
    + destruct (get_fun l s); discriminate.
Qed.

(* ---------------------------------------------------------------- *)
(** ** pigeonhole: a chain longer than the number of cells repeats a cell *)

Lemma dup_split {A} (f : A -> nat) : forall l, ~ NoDup (map f l) ->
  exists l1 a l2 b l3, l = l1 ++ a :: l2 ++ b :: l3 /\ f a = f b.
Proof.
  induction l as [|a r IH]; intros H; [exfalso; apply H; constructor|].
  destruct (in_dec Nat.eq_dec (f a) (map f r)) as [Hin|Hnin].
  - apply in_map_iff in Hin as (b & Hb & Hin). apply in_split in Hin as (l2 & l3 & ->).
    exists [], a, l2, b, l3. split; [reflexivity|symmetry; exact Hb].
  - destruct IH as (l1 & x & l2 & y & l3 & -> & E).
    { intros N. apply H. simpl. constructor; assumption. }
    exists (a :: l1), x, l2, y, l3. split; [reflexivity|exact E].
Qed.

Lemma pigeonhole {A} (f : A -> nat) n l : Forall (fun x => f x < n) l -> n < length l ->
  exists l1 a l2 b l3, l = l1 ++ a :: l2 ++ b :: l3 /\ f a = f b.
Proof.
  intros Hb Hl. apply dup_split. intros N.
  assert (I : incl (map f l) (seq 0 n)).
  { intros x Hx. apply in_map_iff in Hx as (y & <- & Hy). apply in_seq.
    rewrite Forall_forall in Hb. specialize (Hb _ Hy). lia. }
  pose proof (NoDup_incl_length N I) as L. rewrite map_length, seq_length in L. lia.
Qed.

(** a number for each live cell: arrays first, then objects *)
Definition code (s : state) (v : value) : nat :=
  match v with VArr l => l | VObj l => length (arrs s) + l | _ => 0 end.

Lemma code_bound s v : live s v -> code s v < length (arrs s) + length (objs s).
Proof. destruct v; simpl; try tauto; lia. Qed.
Lemma code_inj s v w : live s v -> live s w -> code s v = code s w -> v = w.
Proof. destruct v, w; simpl; try tauto; intros; f_equal; lia. Qed.

(** [TCycle] with the fuel that [text_of] uses: the value reaches a cell that contains itself *)
Theorem text_in_cycle_real s v : text_in (print_fuel s) s v = TCycle ->
  exists c, reach s v c /\ self_containing s c.
Proof.
  intros H. destruct (text_in_cycle_chain s _ _ H) as (p & u & L & Hh & C).
  pose proof (chain_live s u p C) as Lv.
  destruct (pigeonhole (code s) (length (arrs s) + length (objs s)) p) as (l1 & a & l2 & b & l3 & -> & E).
  { eapply Forall_impl; [|exact Lv]. intros x; apply code_bound. }
  { rewrite L. unfold print_fuel. lia. }
  assert (a = b).
  { rewrite Forall_forall in Lv. apply (code_inj s); [apply Lv|apply Lv|exact E];
      rewrite !in_app_iff; simpl; rewrite ?in_app_iff; simpl; auto. }
  subst b. exists a.
  apply chain_app in C as (C1 & C2). cbn [hd] in C1.
  split.
  - rewrite hd_app_cons in Hh. subst v. apply chain_reach; exact C1.
  - change (a :: l2 ++ a :: l3) with ((a :: l2) ++ a :: l3) in C2.
    apply chain_app in C2 as (C3 & _). cbn [hd] in C3. destruct C3 as (Cc & C3).
    exists (hd a l2). split; [exact Cc|]. apply chain_reach; exact C3.
Qed.

Theorem text_of_cycle_real s v : text_of s v = TCycle ->
  exists c, reach s v c /\ self_containing s c.
Proof.
  unfold text_of. destruct v; try discriminate; apply text_in_cycle_real.
Qed.

(* ---------------------------------------------------------------- *)
(** ** acyclic stores never print [TCycle] *)

Lemma reach_rank s (rk : value -> nat) :
  (forall v w, child s v w -> live s w -> rk w < rk v) ->
  forall w c, reach s w c -> live s c -> rk c <= rk w.
Proof.
  intros Hrk w c R. induction R as [v|v x u C R IH]; intros Lc; [lia|].
  specialize (IH Lc). pose proof (Hrk _ _ C (reach_live _ _ _ R Lc)). lia.
Qed.

(** If the cells of the store admit a rank function under which every cell stored in a
    cell has a strictly smaller rank (the store is a DAG), no value prints as [TCycle]. *)
Theorem text_in_acyclic s (rk : value -> nat) :
  (forall v w, child s v w -> live s w -> rk w < rk v) ->
  forall v, text_of s v <> TCycle.
Proof.
  intros Hrk v H. destruct (text_of_cycle_real s v H) as (c & _ & w & C & R).
  pose proof (child_live _ _ _ C) as Lc.
  pose proof (reach_rank s rk Hrk _ _ R Lc) as L1.
  pose proof (Hrk _ _ C (reach_live _ _ _ R Lc)) as L2. lia.
Qed.

(** the same with one rank function per kind of cell *)
Corollary text_in_acyclic_locs s (rka rko : nat -> nat) :
  (forall l vs l', get_arr l s = Some vs -> In (VArr l') vs -> rka l' < rka l) ->
  (forall l vs l', get_arr l s = Some vs -> In (VObj l') vs -> rko l' < rka l) ->
  (forall l ps k l', get_obj l s = Some ps -> In (k, VArr l') ps -> rka l' < rko l) ->
  (forall l ps k l', get_obj l s = Some ps -> In (k, VObj l') ps -> rko l' < rko l) ->
  forall v, text_of s v <> TCycle.
Proof.
  intros H1 H2 H3 H4.
  apply (text_in_acyclic s (fun v => match v with VArr l => rka l | VObj l => rko l | _ => 0 end)).
  intros v w C Lw. destruct v as [|b|x|t|l|l|l|n]; simpl in C; try tauto.
  - destruct C as (vs & E & Hin). destruct w; simpl in Lw; try tauto; eauto.
  - destruct C as (ps & k & E & Hin). destruct w; simpl in Lw; try tauto; eauto.
Qed.

(* ---------------------------------------------------------------- *)
(** ** [Crash] comes only from a printing step *)

Lemma bind_crash {A B} (r : res A) (k : A -> state -> res B) s' :
  bind r k = Crash s' -> r = Crash s' \/ exists a s1, r = Ok a s1 /\ k a s1 = Crash s'.
Proof.
  destruct r as [a s|e l s| | |s]; simpl; intros H; try discriminate.
  - right. exists a, s. split; [reflexivity|exact H].
  - left. inv H. reflexivity.
Qed.

Section Crash.
Variable libm : N -> f64 -> f64 -> f64.
Variable clock : f64.
Variable sched : N -> list (list N * value) -> list (list N * value).

Notation eval := (eval libm clock sched).
Notation eval_list := (eval_list libm clock sched).
Notation eval_props := (eval_props libm clock sched).
Notation exec := (exec libm clock sched).
Notation exec_var := (exec_var libm clock sched).
Notation exec_vars := (exec_vars libm clock sched).
Notation exec_list := (exec_list libm clock sched).
Notation exec_while := (exec_while libm clock sched).
Notation exec_for := (exec_for libm clock sched).
Notation run_stmts := (run_stmts libm clock sched).

(** the crash store [s'] is the store right after the operand [e] of a দেখাও statement
    (or of an expression statement echoed by the REPL) evaluated to a value whose text is [TCycle] *)
Definition print_hit (s' : state) : Prop :=
  exists f repl st rho s0 e v,
    (st = SPrint e \/ (st = SExpr e /\ repl = true)) /\
    eval f e rho s0 = Ok v s' /\ text_of s' v = TCycle /\
    exec (S f) repl st rho s0 = Crash s'.

Definition CrashOnly {A} (r : res A) : Prop := forall s', r = Crash s' -> print_hit s'.

Lemma CO_ok {A} (a : A) s : CrashOnly (Ok a s).
Proof. intros s' H; discriminate. Qed.
Lemma CO_err {A} e l s : CrashOnly (@Err A e l s).
Proof. intros s' H; discriminate. Qed.
Lemma CO_fuel {A} : CrashOnly (@Fuel A).
Proof. intros s' H; discriminate. Qed.
Lemma CO_stuck {A} : CrashOnly (@Stuck A).
Proof. intros s' H; discriminate. Qed.
Lemma CO_bind {A B} (r : res A) (k : A -> state -> res B) :
  CrashOnly r -> (forall a s1, r = Ok a s1 -> CrashOnly (k a s1)) -> CrashOnly (bind r k).
Proof.
  intros Hr Hk s' H. apply bind_crash in H as [H|(a & s1 & E & H)]; [apply Hr; exact H|].
  eapply Hk; eauto.
Qed.

Definition CrashAt (f : nat) : Prop :=
  (forall e rho s, CrashOnly (eval f e rho s)) /\
  (forall es rho s, CrashOnly (eval_list f es rho s)) /\
  (forall ps rho s, CrashOnly (eval_props f ps rho s)) /\
  (forall repl st rho s, CrashOnly (exec f repl st rho s)) /\
  (forall d rho s, CrashOnly (exec_var f d rho s)) /\
  (forall ds rho s, CrashOnly (exec_vars f ds rho s)) /\
  (forall repl ss rho s, CrashOnly (exec_list f repl ss rho s)) /\
  (forall repl c b rho s, CrashOnly (exec_while f repl c b rho s)) /\
  (forall repl c inc b rho s, CrashOnly (exec_for f repl c inc b rho s)).

Ltac co IHe IHl IHp IHs IHv IHvs IHss IHw IHf :=
  repeat first
    [ apply CO_ok | apply CO_err | apply CO_fuel | apply CO_stuck
    | apply IHe | apply IHl | apply IHp | apply IHs | apply IHv | apply IHvs
    | apply IHss | apply IHw | apply IHf
    | apply CO_bind; [|intros ? ? ?]
    | progress unfold lift_ores
    | match goal with |- CrashOnly (match ?x with _ => _ end) => destruct x end ].

(** Every [Crash] of the nine functions is a printing step that met [TCycle]. *)
Theorem crash_only_print : forall f, CrashAt f.
Proof.
  induction f as [|f (IHe & IHl & IHp & IHs & IHv & IHvs & IHss & IHw & IHf)]; unfold CrashAt.
  { repeat split; intros; apply CO_fuel. }
  assert (Hprint : forall repl e rho s, CrashOnly (exec (S f) repl (SPrint e) rho s)).
  { intros repl e rho s s' H. pose proof H as H0. rewrite exec_S in H.
    apply bind_crash in H as [H|(v & s1 & E & H)]; [apply IHe in H; exact H|].
    destruct (text_of s1 v) eqn:T; try discriminate. inv H.
    exists f, repl, (SPrint e), rho, s, e, v. auto. }
  assert (Hexpr : forall repl e rho s, CrashOnly (exec (S f) repl (SExpr e) rho s)).
  { intros repl e rho s s' H. pose proof H as H0. rewrite exec_S in H.
    apply bind_crash in H as [H|(v & s1 & E & H)]; [apply IHe in H; exact H|].
    destruct repl; [|discriminate].
    destruct (text_of s1 v) eqn:T; try discriminate. inv H.
    exists f, true, (SExpr e), rho, s, e, v. auto 6. }
  split; [|split; [|split; [|split; [|split; [|split; [|split; [|split]]]]]]].
  - intros e rho s. rewrite eval_S. destruct e; co IHe IHl IHp IHs IHv IHvs IHss IHw IHf.
  - intros es rho s. rewrite eval_list_S. co IHe IHl IHp IHs IHv IHvs IHss IHw IHf.
  - intros ps rho s. rewrite eval_props_S. co IHe IHl IHp IHs IHv IHvs IHss IHw IHf.
  - intros repl st rho s. destruct st; [apply Hexpr|apply Hprint|..];
      rewrite exec_S; cbv beta iota; co IHe IHl IHp IHs IHv IHvs IHss IHw IHf.
  - intros d rho s. rewrite exec_var_S. destruct d as [[x init] ln].
    co IHe IHl IHp IHs IHv IHvs IHss IHw IHf.
  - intros ds rho s. rewrite exec_vars_S. co IHe IHl IHp IHs IHv IHvs IHss IHw IHf.
  - intros repl ss rho s. rewrite exec_list_S. co IHe IHl IHp IHs IHv IHvs IHss IHw IHf.
  - intros repl c b rho s. rewrite exec_while_S. co IHe IHl IHp IHs IHv IHvs IHss IHw IHf.
  - intros repl c inc b rho s. rewrite exec_for_S. co IHe IHl IHp IHs IHv IHvs IHss IHw IHf.
Qed.

Lemma run_stmts_crash f repl : forall prog s, CrashOnly (run_stmts f repl prog s).
Proof.
  induction prog as [|st r IH]; intros s; cbn [Eval.run_stmts]; [apply CO_ok|].
  apply CO_bind; [apply (crash_only_print f)|]. intros sg s1 E.
  destruct sg; [apply IH|apply CO_err|apply CO_err|apply CO_err].
Qed.

(** [crash_only_cyclic]: when statement execution ends in [Crash s'], some দেখাও (or REPL echo)
    step evaluated its operand to a value [v] in [s'] whose text is [TCycle], and that value
    reaches a cell of [s'] that contains itself. *)
Theorem crash_only_cyclic f repl st rho s s' :
  exec f repl st rho s = Crash s' ->
  print_hit s' /\
  exists v c, text_of s' v = TCycle /\ reach s' v c /\ self_containing s' c.
Proof.
  intros H. destruct (crash_only_print f) as (_ & _ & _ & Hs & _).
  pose proof (Hs _ _ _ _ _ H) as PH. split; [exact PH|].
  destruct PH as (f' & repl' & st' & rho' & s0 & e & v & _ & _ & T & _).
  destruct (text_of_cycle_real _ _ T) as (c & R & SC). eauto.
Qed.

(** the same for a whole program and for the command-line pipeline *)
Theorem run_crash_only_cyclic f repl prog s s' :
  run_stmts f repl prog s = Crash s' ->
  print_hit s' /\
  exists v c, text_of s' v = TCycle /\ reach s' v c /\ self_containing s' c.
Proof.
  intros H. pose proof (run_stmts_crash f repl prog s s' H) as PH. split; [exact PH|].
  destruct PH as (f' & repl' & st' & rho' & s0 & e & v & _ & _ & T & _).
  destruct (text_of_cycle_real _ _ T) as (c & R & SC). eauto.
Qed.

Theorem run_source_crash_only_cyclic fuel repl src stdin s' :
  run_source libm clock sched fuel repl src stdin = RCrash s' ->
  print_hit s' /\
  exists v c, text_of s' v = TCycle /\ reach s' v c /\ self_containing s' c.
Proof.
  unfold run_source.
  destruct (pr_fuel_out (parse (lx_tokens (lex src)) (lx_eof_line (lex src)))); [discriminate|].
  destruct (lx_diags (lex src)); [|discriminate].
  destruct (pr_diags (parse (lx_tokens (lex src)) (lx_eof_line (lex src)))); [|discriminate].
  destruct (pr_prog (parse (lx_tokens (lex src)) (lx_eof_line (lex src)))) as [prog|]; [|discriminate].
  destruct (run_stmts fuel repl prog (init_state stdin)) eqn:E; try discriminate.
  intros H. inv H. eapply run_crash_only_cyclic; exact E.
Qed.

End Crash.

Print Assumptions text_in_cycle_real.
Print Assumptions text_in_acyclic.
Print Assumptions crash_only_print.
Print Assumptions crash_only_cyclic.
