(** Viable prefixes, part 3: declarations, statements, programs.

    All token lists are on one line, the end-of-input line ([online]): the
    undocumented line rule of [ধরি] ([PSemiBeforeNewline]) makes acceptance of a
    completed text depend on line numbers, and the property this supports excludes
    texts in which a [ধরি] declaration spans a line break. *)
From Borno Require Import Base Num Token Ast Parser.
From Borno Require Import ParserEqs ParserMono ParserTotal Grammar ParserSC_Base ParserPrefixDefs ParserPrefix.
From Borno Require Import ParserViableDefs ParserViable.
Open Scope nat_scope.

Section ViableStmt.
Variable eofl : N.

Notation pexpr := (Parser.pexpr eofl).
Notation pvardecls := (Parser.pvardecls eofl).
Notation pparams := (Parser.pparams eofl).
Notation pdecl := (Parser.pdecl eofl).
Notation pstmt := (Parser.pstmt eofl).
Notation pblock := (Parser.pblock eofl).
Notation pprogram := (Parser.pprogram eofl).
Notation pvar := (Parser.pvar eofl).
Notation pexprstmt := (Parser.pexprstmt eofl).
Notation consume := (Parser.consume eofl).
Notation consume_lenient := (Parser.consume_lenient eofl).
Notation perr_at := (Parser.perr_at eofl).
Notation diag_at := (Parser.diag_at eofl).
Notation peek_line := (Parser.peek_line eofl).
Notation Via := (ParserViableDefs.Via eofl true).
Notation ViaL := (ParserViableDefs.ViaL eofl true).
Notation FN := (ParserViableDefs.FN eofl).
Notation FNw := (ParserViableDefs.FNw eofl).
Notation online := (ParserViableDefs.online eofl).
Notation mk := (ParserViableDefs.mk eofl).
Notation idtok := (ParserViableDefs.idtok eofl).

(** the expression level, with the late-diagnostic exception switched on *)
Lemma Ie f ts : Via true C_e (fun g => pexpr g) f ts.
Proof. apply Via_late. apply (viaE eofl f). Qed.

(** * Stop conditions of the statement level *)

Definition C_ne (u : list token) : Prop := check TELSE u = false.
Definition C_decl (u : list token) : Prop := C_args u /\ peek_line u = eofl.
Definition C_pp (u : list token) : Prop := check TCOMMA u = false.

Lemma C_e_check_eq u : C_e u -> check TEQUAL u = false.
Proof. destruct u as [|t r]; [reflexivity|]. intros H. simpl. apply (C_e_not_eq _ _ H). Qed.
Lemma C_head_e k u : e_stop k = true -> C_head k u -> C_e u.
Proof. destruct u as [|t r]; simpl; [contradiction|]. intros H <-. exact H. Qed.
Lemma C_decl_e u : C_decl u -> C_e u.
Proof. intros (H & _). apply C_args_e, H. Qed.

(** * Optional expression clauses ([ফেরত], the condition and the step of [ফর]) *)

Definition optexpr (stop : tkind) (g : nat) (x : list token) : pres (option expr) :=
  if check stop x then POk None x [] else pbind (pexpr g x) (fun e r' => POk (Some e) r' []).

Lemma via_optexpr f stop r : e_stop stop = true ->
  Via false (C_head stop) (optexpr stop) f r /\ FN (C_head stop) (optexpr stop) [].
Proof.
  intros Hs. split.
  - destruct (check stop r) eqn:Ck.
    + apply (Via_stop_ok eofl true _ _ None). intros g y [S|Cy]; unfold optexpr.
      * rewrite (check_samehead stop _ _ S), Ck. reflexivity.
      * rewrite (C_head_check _ _ Cy). reflexivity.
    + apply Via_weaken. apply (Via_ext_head eofl true _ _ (fun g x => pbind (pexpr g x) (fun e r' => POk (Some e) r' []))).
      * intros g y _ S. unfold optexpr. rewrite (check_samehead stop _ _ S), Ck. reflexivity.
      * eapply Via_sub; [|apply (Via_map eofl true true C_e (fun g => pexpr g) (@Some expr)), Ie].
        intros u. apply C_head_e, Hs.
  - split; [constructor|]. intros u Cu. exists 0, None. intros g _. unfold optexpr. cbn [app].
    rewrite (C_head_check _ _ Cu). reflexivity.
Qed.

(** * Expression statements *)

Lemma via_pexprstmt f ts : Via true C_any (fun g => pexprstmt g) f ts.
Proof.
  unfold Parser.pexprstmt.
  apply (Via_bind eofl true true true C_e C_any (fun g => pexpr g)
           (fun _ e r1 => let '(r2, ds) := consume_lenient TSEMICOLON PSemiAfterValue r1 in POk (SExpr e) r2 ds)
           f ts [mk TSEMICOLON]).
  - apply Ie.
  - intros e r1 _ _. apply Via_lenient.
  - left. reflexivity.
  - split; [apply online1; reflexivity|]. intros u _. split; [reflexivity|].
    intros e. exists 0. eexists. intros g _. reflexivity.
Qed.

Lemma FN_pexprstmt : FN C_any (fun g => pexprstmt g) [idtok; mk TSEMICOLON].
Proof.
  split; [constructor; [reflexivity|apply online1; reflexivity]|]. intros u _.
  exists 15. eexists. intros g Hg. unfold Parser.pexprstmt. cbn [app].
  rewrite id_pexpr; [|reflexivity|exact Hg]. rewrite pb_ret. reflexivity.
Qed.

(** * An identifier that must not be a reserved name *)

Lemma via_consume_reserved {B} ne (C : list token -> Prop) pk1 pk2 (K : nat -> token -> list token -> pres B) f ts w0 :
  (forall nm r1, ViaL ne C (fun g => K g nm) f r1) -> (forall nm, FN C (fun g => K g nm) w0) ->
  ViaL true C (fun g x => pbind (consume TIDENTIFIER pk1 x)
                 (fun nm r1 => if is_reserved (tlex nm) then PErr [diag_tok nm pk2] else K g nm r1)) f ts.
Proof.
  intros VK FK O. destruct ts as [|t r].
  { apply (Via_fail_now eofl true _ _ _ _ _ pk1). intros g y S. same_head S. reflexivity. }
  destruct (tkind_eqb (tk t) TIDENTIFIER) eqn:E.
  2:{ apply (Via_fail_now eofl true _ _ _ _ _ pk1). intros g y S. same_head S. unfold Parser.consume. rewrite E. reflexivity. }
  destruct (is_reserved (tlex t)) eqn:R.
  - apply (Via_fail_now eofl true _ _ _ _ _ pk2). intros g y S. same_head S.
    unfold Parser.consume. rewrite E, pb_ret, R. reflexivity.
  - eapply (Via_cons eofl true ne C _ (fun g => K g t) f t r w0).
    + intros g x. unfold Parser.consume. rewrite E, pb_ret, R. reflexivity.
    + apply FK.
    + apply VK. inversion O; assumption.
Qed.

Lemma FN_consume_reserved {B} (C : list token -> Prop) pk1 pk2 (K : nat -> token -> list token -> pres B) w0 :
  online w0 -> (forall nm, FN C (fun g => K g nm) w0) ->
  FN C (fun g x => pbind (consume TIDENTIFIER pk1 x)
            (fun nm r1 => if is_reserved (tlex nm) then PErr [diag_tok nm pk2] else K g nm r1)) (idtok :: w0).
Proof.
  intros O FK. split; [constructor; [reflexivity|exact O]|]. intros u Cu.
  destruct (FK idtok) as (_ & H). destruct (H u Cu) as (g0 & b & R). exists g0, b. intros g Hg.
  cbn [app]. rewrite (consume_hit eofl TIDENTIFIER pk1 idtok (w0 ++ u) eq_refl), pb_ret.
  change (is_reserved (tlex idtok)) with false. cbv iota. apply R, Hg.
Qed.

(** * Declarators *)

Definition initK (g : nat) (r1 : list token) : pres (option expr) :=
  if check TEQUAL r1 then pbind (pexpr g (tl r1)) (fun e r => POk (Some e) r []) else POk None r1 [].

Definition declK (l0 : N) (g : nat) (nm : token) (init : option expr) (r2 : list token) : pres (list vdecl) :=
  let d := (tlex nm, init, tline nm) in
  if negb (is_lit_container init) && negb (peek_line r2 =? l0)%N then perr_at r2 PSemiBeforeNewline
  else if check TCOMMA r2 then pbind (pvardecls g l0 (tl r2)) (fun more r3 => POk (d :: more) r3 [])
  else POk [d] r2 [].

Lemma pvardecls_S' g l0 ts :
  pvardecls (S g) l0 ts =
  pbind (consume TIDENTIFIER PExpectVarName ts)
    (fun nm r1 => if is_reserved (tlex nm) then PErr [diag_tok nm PReservedVar]
                  else pbind (initK g r1) (declK l0 g nm)).
Proof. reflexivity. Qed.

Lemma declK_line l0 g nm init y : peek_line y = l0 ->
  declK l0 g nm init y =
  if check TCOMMA y then pbind (pvardecls g l0 (tl y)) (fun more r3 => POk ((tlex nm, init, tline nm) :: more) r3 [])
  else POk [(tlex nm, init, tline nm)] y [].
Proof. intros H. unfold declK. rewrite H, N.eqb_refl. cbn [negb]. rewrite andb_false_r. reflexivity. Qed.

Lemma FNw_declK nm : FNw C_decl C_decl (fun g init r2 => declK eofl g nm init r2) [].
Proof.
  split; [constructor|]. intros u Cu. split; [exact Cu|].
  intros init. exists 0. eexists. intros g _. cbn [app]. rewrite declK_line by apply Cu.
  rewrite (C_args_not_comma _ (proj1 Cu)). reflexivity.
Qed.

Lemma FN_initK : FN C_decl initK [].
Proof.
  split; [constructor|]. intros u Cu. exists 0, None. intros g _. cbn [app]. unfold initK.
  rewrite (C_e_check_eq _ (C_decl_e _ Cu)). reflexivity.
Qed.

Lemma FN_declchain nm : FN C_decl (fun g x => pbind (initK g x) (declK eofl g nm)) [].
Proof.
  apply (FN_bind eofl C_decl C_decl initK (fun g init r2 => declK eofl g nm init r2) [] []);
    [apply FN_initK|apply FNw_declK].
Qed.

Lemma FN_pvardecls : FN C_decl (fun g => pvardecls g eofl) [idtok].
Proof.
  apply FN_shift. eapply FN_ext; [intros g y; rewrite pvardecls_S'; reflexivity|].
  apply (FN_consume_reserved C_decl PExpectVarName PReservedVar (fun g nm r1 => pbind (initK g r1) (declK eofl g nm)) []).
  - constructor.
  - apply FN_declchain.
Qed.

Lemma via_pvardecls : forall f ts, ViaL true C_decl (fun g => pvardecls g eofl) f ts.
Proof.
  induction f as [|f IH]; intros ts; [intros _; apply Via_fuel; reflexivity|].
  apply ViaL_shift. eapply ViaL_ext_all; [intros g y; rewrite pvardecls_S'; reflexivity|].
  apply (via_consume_reserved false C_decl PExpectVarName PReservedVar
           (fun g nm r1 => pbind (initK g r1) (declK eofl g nm)) f ts []); [|apply FN_declchain].
  intros nm r1.
  apply (ViaL_bind eofl true false false C_decl C_decl initK (fun g init r2 => declK eofl g nm init r2) f r1 []).
  - (* the initializer *)
    intros O. destruct (check TEQUAL r1) eqn:Ce.
    + destruct r1 as [|teq r']; [discriminate Ce|]. apply Via_weaken.
      eapply (Via_cons eofl true true C_decl _ (fun g x => pbind (pexpr g x) (fun e r => POk (Some e) r [])) f teq r' [idtok]).
      * intros g x. unfold initK. change (check TEQUAL (teq :: x)) with (check TEQUAL (teq :: r')). rewrite Ce. reflexivity.
      * eapply FN_sub; [apply C_decl_e|]. apply (FN_map eofl C_e (fun g => pexpr g) (@Some expr)), FN_pexpr.
      * eapply Via_sub; [apply C_decl_e|]. apply (Via_map eofl true true C_e (fun g => pexpr g) (@Some expr)), Ie.
    + apply (Via_stop_ok eofl true _ _ None). intros g y [S|Cy]; unfold initK.
      * rewrite (check_samehead TEQUAL _ _ S), Ce. reflexivity.
      * rewrite (C_e_check_eq _ (C_decl_e _ Cy)). reflexivity.
  - (* after the initializer *)
    intros init r2 O2. pose proof (online_peek eofl r2 O2) as L2.
    destruct (check TCOMMA r2) eqn:Cm.
    + destruct r2 as [|tc r']; [discriminate Cm|]. apply Via_weaken.
      eapply (Via_cons eofl true true C_decl _
                (fun g x => pbind (pvardecls g eofl x) (fun more r3 => POk ((tlex nm, init, tline nm) :: more) r3 [])) f tc r' [idtok]).
      * intros g x. rewrite declK_line by exact L2.
        change (check TCOMMA (tc :: x)) with (check TCOMMA (tc :: r')). rewrite Cm. reflexivity.
      * apply (FN_map eofl C_decl (fun g => pvardecls g eofl) (fun more => (tlex nm, init, tline nm) :: more)), FN_pvardecls.
      * apply (Via_map eofl true true C_decl (fun g => pvardecls g eofl) (fun more => (tlex nm, init, tline nm) :: more)).
        apply IH. inversion O2; assumption.
    + apply (Via_stop_ok eofl true _ _ [(tlex nm, init, tline nm)]). intros g y [S|Cy].
      * rewrite declK_line by (rewrite (peek_line_samehead eofl _ _ S); exact L2).
        rewrite (check_samehead TCOMMA _ _ S), Cm. reflexivity.
      * rewrite declK_line by apply Cy. rewrite (C_args_not_comma _ (proj1 Cy)). reflexivity.
  - right. auto.
  - apply FNw_declK.
Qed.

(** * [ধরি] statements (after the keyword) *)

Definition varK (ds : list vdecl) (g : nat) (_s : token) (r2 : list token) : pres stmt :=
  match ds with
  | [d] => POk (SVar d) r2 []
  | _ => POk (SVarList ds) r2 []
  end.
Definition pvarL (g : nat) (x : list token) : pres stmt :=
  pbind (pvardecls g eofl x) (fun ds r1 => pbind (consume TSEMICOLON PSemiAfterVar r1) (varK ds g)).

Lemma pvar_line g x : peek_line x = eofl -> pvar g x = pvarL g x.
Proof. intros H. unfold Parser.pvar, pvarL. rewrite H. reflexivity. Qed.

Lemma varK_ret ds g t r2 : exists s, varK ds g t r2 = POk s r2 [] /\ forall g' t' r', varK ds g' t' r' = POk s r' [].
Proof. destruct ds as [|d [|d2 ds']]; eexists; split; reflexivity. Qed.

Lemma FN_varK ds t : FN C_any (fun g => varK ds g t) [].
Proof.
  split; [constructor|]. intros u _. destruct (varK_ret ds 0 t u) as (s & _ & H). exists 0, s. intros g _. apply H.
Qed.

Lemma FNw_varsemi : FNw C_decl C_any (fun g ds r1 => pbind (consume TSEMICOLON PSemiAfterVar r1) (varK ds g)) [mk TSEMICOLON].
Proof.
  apply FNw_of_FN.
  - apply online1. reflexivity.
  - intros ds. apply (FN_tok eofl C_any TSEMICOLON PSemiAfterVar (fun g => varK ds g) (mk TSEMICOLON) []);
      [reflexivity|reflexivity|constructor|apply FN_varK].
  - intros u _. split; reflexivity.
Qed.

Lemma via_pvar f ts : ViaL true C_any (fun g => pvar g) f ts.
Proof.
  intros O. apply (Via_ext_head eofl true _ _ pvarL).
  { intros g y _ S. apply pvar_line. rewrite (peek_line_samehead eofl _ _ S). apply online_peek, O. }
  revert O. change (ViaL true C_any pvarL f ts).
  apply (ViaL_bind eofl true true true C_decl C_any (fun g => pvardecls g eofl)
           (fun g ds r1 => pbind (consume TSEMICOLON PSemiAfterVar r1) (varK ds g)) f ts [mk TSEMICOLON]).
  - apply via_pvardecls.
  - intros ds r1. apply (ViaL_tok eofl true false C_any TSEMICOLON PSemiAfterVar (fun g => varK ds g) f r1 []).
    + intros t r2 _. destruct (varK_ret ds 0 t r2) as (s & _ & H).
      apply (Via_stop_ok eofl true _ _ s). intros g y _. apply H.
    + constructor.
    + apply FN_varK.
  - left. reflexivity.
  - apply FNw_varsemi.
Qed.

Lemma FN_pvar : FN C_any (fun g => pvar g) [idtok; mk TSEMICOLON].
Proof.
  destruct (FN_bind eofl C_decl C_any (fun g => pvardecls g eofl)
              (fun g ds r1 => pbind (consume TSEMICOLON PSemiAfterVar r1) (varK ds g)) [idtok] [mk TSEMICOLON]
              FN_pvardecls FNw_varsemi) as (O & H).
  split; [exact O|]. intros u Cu. eapply EvOk_ext; [|apply (H u Cu)].
  intros g. apply pvar_line. reflexivity.
Qed.

(** * Parameter lists *)

Definition paramK (g : nat) (n : nat) (p : token) (r1 : list token) : pres (list (list N)) :=
  if check TCOMMA r1 then pbind (pparams g (S n) (tl r1)) (fun more r2 => POk (tlex p :: more) r2 [])
  else POk [tlex p] r1 [].

Lemma pparams_S' g n ts :
  pparams (S g) n ts =
  if Nat.leb max_params n then perr_at ts PTooManyParams
  else pbind (consume TIDENTIFIER PExpectParam ts) (paramK g n).
Proof. reflexivity. Qed.

Lemma paramK_stop g n p u : C_pp u -> paramK g n p u = POk [tlex p] u [].
Proof. intros H. unfold paramK. rewrite H. reflexivity. Qed.

Lemma FN_pparams n : Nat.leb max_params n = false -> FN C_pp (fun g => pparams g n) [idtok].
Proof.
  intros L. split; [apply online1; reflexivity|]. intros u Cu. exists 1. eexists. intros g Hg.
  destruct g as [|g]; [lia|]. rewrite pparams_S', L. cbn [app].
  rewrite (consume_hit eofl TIDENTIFIER _ idtok u eq_refl), pb_ret. apply paramK_stop, Cu.
Qed.

Lemma via_pparams : forall f n ts, Via true C_pp (fun g => pparams g n) f ts.
Proof.
  induction f as [|f IH]; intros n ts; [apply Via_fuel; reflexivity|].
  apply Via_shift. destruct (Nat.leb max_params n) eqn:L.
  { apply (Via_fail_now eofl true _ _ _ _ _ PTooManyParams). intros g y _. rewrite pparams_S', L. reflexivity. }
  eapply Via_ext_all; [intros g y; rewrite pparams_S', L; reflexivity|]. cbv beta.
  apply (Via_bind eofl true true false C_any C_pp (fun _ x => consume TIDENTIFIER PExpectParam x)
           (fun g p r1 => paramK g n p r1) f ts []).
  - apply Via_consume.
  - intros p r1 _ _. destruct (check TCOMMA r1) eqn:Cm.
    + destruct r1 as [|tc r']; [discriminate Cm|]. apply Via_weaken.
      assert (E : forall g x, paramK g n p (tc :: x) = pbind (pparams g (S n) x) (fun more r2 => POk (tlex p :: more) r2 [])).
      { intros g x. unfold paramK. change (check TCOMMA (tc :: x)) with (check TCOMMA (tc :: r')). rewrite Cm. reflexivity. }
      destruct (Nat.leb max_params (S n)) eqn:L2.
      * (* the 256th parameter: diagnosed at the parameter, after the comma *)
        destruct f as [|f']; [apply Via_fuel; rewrite E; reflexivity|].
        apply (Via_late_now eofl true true C_pp _ (S f') tc r' eq_refl).
        -- destruct r' as [|t' r'']; simpl in Cm; apply tkind_eqb_eq in Cm; exact Cm.
        -- intros g y Hg. destruct g as [|g']; [lia|]. rewrite E, pparams_S', L2. reflexivity.
      * eapply (Via_cons eofl true true C_pp _ _ f tc r' [idtok] E).
        -- apply (FN_map eofl C_pp (fun g => pparams g (S n)) (fun more => tlex p :: more)), FN_pparams, L2.
        -- apply (Via_map eofl true true C_pp (fun g => pparams g (S n)) (fun more => tlex p :: more)), IH.
    + apply (Via_stop_ok eofl true _ _ [tlex p]). intros g y [S|Cy]; [|apply paramK_stop, Cy].
      unfold paramK. rewrite (check_samehead TCOMMA _ _ S), Cm. reflexivity.
  - right. intros; exact I.
  - split; [constructor|]. intros u Cu. split; [exact I|]. intros p. exists 0. eexists. intros g _. apply paramK_stop, Cu.
Qed.

Definition optparams (g : nat) (x : list token) : pres (list (list N)) :=
  if check TRIGHT_PAREN x then POk [] x [] else pparams g 0 x.

Lemma C_head_pp u : C_head TRIGHT_PAREN u -> C_pp u.
Proof. destruct u as [|t r]; simpl; [contradiction|]. unfold C_pp. simpl. intros ->. reflexivity. Qed.

Lemma via_optparams f r :
  Via false (C_head TRIGHT_PAREN) optparams f r /\ FN (C_head TRIGHT_PAREN) optparams [].
Proof.
  split.
  - destruct (check TRIGHT_PAREN r) eqn:Ck.
    + apply (Via_stop_ok eofl true _ _ []). intros g y [S|Cy]; unfold optparams.
      * rewrite (check_samehead TRIGHT_PAREN _ _ S), Ck. reflexivity.
      * rewrite (C_head_check _ _ Cy). reflexivity.
    + apply Via_weaken. apply (Via_ext_head eofl true _ _ (fun g => pparams g 0)).
      * intros g y _ S. unfold optparams. rewrite (check_samehead TRIGHT_PAREN _ _ S), Ck. reflexivity.
      * eapply Via_sub; [apply C_head_pp|apply via_pparams].
  - split; [constructor|]. intros u Cu. exists 0, []. intros g _. unfold optparams. cbn [app].
    rewrite (C_head_check _ _ Cu). reflexivity.
Qed.

(** * Pairs: the [ViaL] statement for every (one-line) input and a completion from nothing *)

Definition VF {A} (ne : bool) (C : list token -> Prop) (run : nat -> list token -> pres A) (f : nat) (w : list token) : Prop :=
  (forall ts, ViaL ne C run f ts) /\ FN C run w.

Lemma VF_tok {B} ne (C : list token -> Prop) k pk (Z : nat -> token -> list token -> pres B) f wZ :
  (forall t, VF ne C (fun g => Z g t) f wZ) ->
  VF true C (fun g x => pbind (consume k pk x) (Z g)) f (mk k :: wZ).
Proof.
  intros H. assert (O : online wZ) by (destruct (H (mk k)) as (_ & O & _); exact O).
  split.
  - intros ts. apply (ViaL_tok eofl true ne C k pk Z f ts wZ); [intros t r1; apply (H t)|exact O|intros t; apply (H t)].
  - apply FN_tok; [reflexivity|reflexivity|exact O|intros t; apply (H t)].
Qed.

Lemma VF_bind {A B} neX neY (C' C : list token -> Prop) (X : nat -> list token -> pres A)
    (Y : nat -> A -> list token -> pres B) f wX wY :
  VF neX C' X f wX -> online wY -> (forall a, VF neY C (fun g => Y g a) f wY) ->
  (neY = true \/ forall u, C u -> C' u) -> (forall u, C u -> C' (wY ++ u)) ->
  VF (neX || neY) C (fun g x => pbind (X g x) (Y g)) f (wX ++ wY).
Proof.
  intros (VX & FX) O HY Sub HC.
  assert (FY : FNw C' C Y wY) by (apply FNw_of_FN; [exact O|intros a; apply (HY a)|exact HC]).
  split.
  - intros ts. apply (ViaL_bind eofl true neX neY C' C X Y f ts wY); [apply VX|intros a r1; apply (HY a)|exact Sub|exact FY].
  - apply (FN_bind eofl C' C X Y wX wY FX FY).
Qed.

Lemma VF_map {A B} ne (C : list token -> Prop) (X : nat -> list token -> pres A) (k : A -> B) f w :
  VF ne C X f w -> VF ne C (fun g x => pbind (X g x) (fun a r => POk (k a) r [])) f w.
Proof. intros (V & F). split; [intros ts; apply ViaL_map, V|apply FN_map, F]. Qed.

Lemma VF_ret {A} (C : list token -> Prop) (a : A) f : VF false C (fun _ x => POk a x []) f [].
Proof. split; [intros ts; apply ViaL_of, Via_ret; reflexivity|apply FN_ret]. Qed.

Lemma VF_weaken {A} ne (C : list token -> Prop) (run : nat -> list token -> pres A) f w :
  VF true C run f w -> VF ne C run f w.
Proof. intros (V & F). split; [intros ts; apply ViaL_weaken, V|exact F]. Qed.

Lemma VF_sub {A} ne (C C2 : list token -> Prop) (run : nat -> list token -> pres A) f w :
  (forall u, C2 u -> C u) -> VF ne C run f w -> VF ne C2 run f w.
Proof. intros S (V & F). split; [intros ts; eapply ViaL_sub; [exact S|apply V]|eapply FN_sub; [exact S|exact F]]. Qed.

Lemma VF_reserved {B} ne (C : list token -> Prop) pk1 pk2 (K : nat -> token -> list token -> pres B) f w0 :
  (forall nm, VF ne C (fun g => K g nm) f w0) ->
  VF true C (fun g x => pbind (consume TIDENTIFIER pk1 x)
                 (fun nm r1 => if is_reserved (tlex nm) then PErr [diag_tok nm pk2] else K g nm r1)) f (idtok :: w0).
Proof.
  intros H. assert (O : online w0) by (destruct (H idtok) as (_ & O & _); exact O).
  split.
  - intros ts. apply (via_consume_reserved ne C pk1 pk2 K f ts w0); [intros nm r1; apply (H nm)|intros nm; apply (H nm)].
  - apply (FN_consume_reserved C pk1 pk2 K w0); [exact O|intros nm; apply (H nm)].
Qed.

(** the leaves *)
Lemma VF_pexpr f : VF true C_e (fun g => pexpr g) f [idtok].
Proof. split; [intros ts; apply ViaL_of, Ie|apply FN_pexpr]. Qed.

Lemma VF_optexpr stop f : e_stop stop = true -> VF false (C_head stop) (optexpr stop) f [].
Proof. intros H. split; [intros ts; apply ViaL_of, (via_optexpr f stop ts H)|apply (via_optexpr f stop [] H)]. Qed.

Lemma VF_optparams f : VF false (C_head TRIGHT_PAREN) optparams f [].
Proof. split; [intros ts; apply ViaL_of, (via_optparams f ts)|apply (via_optparams f [])]. Qed.

Lemma VF_pvar f : VF true C_any (fun g => pvar g) f [idtok; mk TSEMICOLON].
Proof. split; [intros ts; apply via_pvar|apply FN_pvar]. Qed.

(** an expression and its (lenient) semicolon *)
Definition exprlen (k : expr -> stmt) (g : nat) (x : list token) : pres stmt :=
  pbind (pexpr g x) (fun e r1 => let '(r2, ds) := consume_lenient TSEMICOLON PSemiAfterValue r1 in POk (k e) r2 ds).

Lemma VF_exprlen k f : VF true C_any (exprlen k) f [idtok; mk TSEMICOLON].
Proof.
  split.
  - intros ts. apply ViaL_of. unfold exprlen.
    apply (Via_bind eofl true true true C_e C_any (fun g => pexpr g)
             (fun _ e r1 => let '(r2, ds) := consume_lenient TSEMICOLON PSemiAfterValue r1 in POk (k e) r2 ds)
             f ts [mk TSEMICOLON]).
    + apply Ie.
    + intros e r1 _ _. apply Via_lenient.
    + left. reflexivity.
    + split; [apply online1; reflexivity|]. intros u _. split; [reflexivity|].
      intros e. exists 0. eexists. intros g _. reflexivity.
  - split; [constructor; [reflexivity|apply online1; reflexivity]|]. intros u _.
    exists 15. eexists. intros g Hg. unfold exprlen. cbn [app].
    rewrite id_pexpr; [|reflexivity|exact Hg]. rewrite pb_ret. reflexivity.
Qed.

(** * The statement forms, after their keyword *)

Definition semiK (pk : pkind) (k : token -> stmt) (g : nat) (r : list token) : pres stmt :=
  pbind (consume TSEMICOLON pk r) (fun s r1 => POk (k s) r1 []).

Definition returnK (t : token) (g : nat) (r : list token) : pres stmt :=
  pbind (optexpr TSEMICOLON g r) (fun v r1 =>
  pbind (consume TSEMICOLON PSemiAfterReturn r1) (fun _s r2 => POk (SReturn (tline t) v) r2 [])).

Definition blockK (g : nat) (r : list token) : pres stmt :=
  pbind (pblock g r) (fun ss r1 => POk (SBlock ss) r1 []).

Definition whileK (g : nat) (r : list token) : pres stmt :=
  pbind (consume TLEFT_PAREN PLParenAfterWhile r) (fun _lp r1 =>
  pbind (pexpr g r1) (fun c r2 =>
  pbind (consume TRIGHT_PAREN PRParenAfterCond r2) (fun _rp r3 =>
  pbind (pstmt g r3) (fun b r4 => POk (SWhile c b) r4 [])))).

Definition elseK (g : nat) (c : expr) (th : stmt) (r4 : list token) : pres stmt :=
  if check TELSE r4 then pbind (pstmt g (tl r4)) (fun el r5 => POk (SIf c th (Some el)) r5 [])
  else POk (SIf c th None) r4 [].

Definition ifK (g : nat) (r : list token) : pres stmt :=
  pbind (consume TLEFT_PAREN PLParenAfterIf r) (fun _lp r1 =>
  pbind (pexpr g r1) (fun c r2 =>
  pbind (consume TRIGHT_PAREN PRParenAfterIfCond r2) (fun _rp r3 =>
  pbind (pstmt g r3) (fun th r4 => elseK g c th r4)))).

Definition forinit (g : nat) (r1 : list token) : pres (option stmt) :=
  if check TSEMICOLON r1 then POk None (tl r1) []
  else if check TVAR r1 then pbind (pvar g (tl r1)) (fun s r' => POk (Some s) r' [])
  else pbind (pexprstmt g r1) (fun s r' => POk (Some s) r' []).

Definition forK (g : nat) (r : list token) : pres stmt :=
  pbind (consume TLEFT_PAREN PLParenAfterFor r) (fun _lp r1 =>
  pbind (forinit g r1) (fun init r2 =>
  pbind (optexpr TSEMICOLON g r2) (fun c r3 =>
  pbind (consume TSEMICOLON PSemiAfterLoopCond r3) (fun _s r4 =>
  pbind (optexpr TRIGHT_PAREN g r4) (fun inc r5 =>
  pbind (consume TRIGHT_PAREN PRParenAfterFor r5) (fun _rp r6 =>
  pbind (pstmt g r6) (fun b r7 =>
    POk (SFor init (match c with Some c => c | None => ELit (LitBool true) 0%N end) inc b) r7 []))))))).

Definition funK (g : nat) (nm : token) (r1 : list token) : pres stmt :=
  pbind (consume TLEFT_PAREN PLParenAfterFunName r1) (fun _lp r2 =>
  pbind (optparams g r2) (fun ps r3 =>
  pbind (consume TRIGHT_PAREN PRParenAfterParams r3) (fun _rp r4 =>
  pbind (consume TLEFT_BRACE PLBraceBeforeBody r4) (fun _lb r5 =>
  pbind (pblock g r5) (fun body r6 => POk (SFun (tlex nm) ps body) r6 []))))).

Definition fundeclK (g : nat) (r : list token) : pres stmt :=
  pbind (consume TIDENTIFIER PExpectFunName r)
    (fun nm r1 => if is_reserved (tlex nm) then PErr [diag_tok nm PReservedFun] else funK g nm r1).

Lemma pstmt_kw g t r :
  pstmt (S g) (t :: r) =
  match tk t with
  | TIF => ifK g r
  | TWHILE => whileK g r
  | TFOR => forK g r
  | TPRINT => exprlen SPrint g r
  | TRETURN => returnK t g r
  | TBREAK => semiK PSemiAfterBreak (fun s => SBreak (tline s)) g r
  | TCONTINUE => semiK PSemiAfterContinue (fun s => SContinue (tline s)) g r
  | TLEFT_BRACE => blockK g r
  | _ => pexprstmt g (t :: r)
  end.
Proof. rewrite pstmt_S. destruct (tk t); reflexivity. Qed.

Lemma pdecl_kw g t r :
  pdecl (S g) (t :: r) =
  match tk t with
  | TFUN => fundeclK g r
  | TVAR => pvar g r
  | _ => pstmt g (t :: r)
  end.
Proof. rewrite pdecl_S. destruct (tk t); reflexivity. Qed.

(** * Completions of a statement and of a block: [{ }] and [}] *)

Definition wS : list token := [mk TLEFT_BRACE; mk TRIGHT_BRACE].
Definition wB : list token := [mk TRIGHT_BRACE].

Lemma FN_pblock : FN C_any (fun g => pblock g) wB.
Proof.
  split; [apply online1; reflexivity|]. intros u _. exists 1, []. intros g Hg.
  destruct g as [|g]; [lia|]. reflexivity.
Qed.
Lemma FN_pstmt : FN C_ne (fun g => pstmt g) wS.
Proof.
  split; [constructor; [reflexivity|apply online1; reflexivity]|]. intros u _. exists 2, (SBlock []). intros g Hg.
  destruct g as [|[|g]]; try lia. reflexivity.
Qed.
Lemma FN_pdecl : FN C_ne (fun g => pdecl g) wS.
Proof.
  split; [constructor; [reflexivity|apply online1; reflexivity]|]. intros u _. exists 3, (SBlock []). intros g Hg.
  destruct g as [|[|[|g]]]; try lia. reflexivity.
Qed.

Section Step.
Variable f : nat.
Hypothesis HS : VF true C_ne (fun g => pstmt g) f wS.
Hypothesis HB : VF true C_any (fun g => pblock g) f wB.

Lemma C_ne_any : forall u, C_ne u -> C_any u.
Proof. intros; exact I. Qed.

Lemma VF_semiK pk k : VF true C_ne (semiK pk k) f [mk TSEMICOLON].
Proof.
  unfold semiK. apply (VF_tok false C_ne TSEMICOLON pk (fun _ s r1 => POk (k s) r1 []) f []).
  intros t. apply VF_ret.
Qed.

Lemma VF_returnK t : VF true C_ne (returnK t) f [mk TSEMICOLON].
Proof.
  unfold returnK.
  apply (VF_bind false true (C_head TSEMICOLON) C_ne (optexpr TSEMICOLON)
           (fun g v r1 => pbind (consume TSEMICOLON PSemiAfterReturn r1) (fun _s r2 => POk (SReturn (tline t) v) r2 []))
           f [] [mk TSEMICOLON]).
  - apply VF_optexpr. reflexivity.
  - apply online1. reflexivity.
  - intros v. apply (VF_tok false C_ne TSEMICOLON PSemiAfterReturn (fun _ _s r2 => POk (SReturn (tline t) v) r2 []) f []).
    intros s. apply VF_ret.
  - left. reflexivity.
  - intros u _. reflexivity.
Qed.

Lemma VF_blockK : VF true C_ne blockK f wB.
Proof.
  unfold blockK. apply (VF_map true C_ne (fun g => pblock g) SBlock f wB).
  eapply VF_sub; [apply C_ne_any|exact HB].
Qed.

Lemma VF_whileK : VF true C_ne whileK f (mk TLEFT_PAREN :: idtok :: mk TRIGHT_PAREN :: wS).
Proof.
  unfold whileK.
  apply (VF_tok true C_ne TLEFT_PAREN PLParenAfterWhile
           (fun g _lp r1 => pbind (pexpr g r1) (fun c r2 =>
              pbind (consume TRIGHT_PAREN PRParenAfterCond r2) (fun _rp r3 =>
              pbind (pstmt g r3) (fun b r4 => POk (SWhile c b) r4 [])))) f (idtok :: mk TRIGHT_PAREN :: wS)).
  intros _lp.
  apply (VF_bind true true C_e C_ne (fun g => pexpr g)
           (fun g c r2 => pbind (consume TRIGHT_PAREN PRParenAfterCond r2) (fun _rp r3 =>
              pbind (pstmt g r3) (fun b r4 => POk (SWhile c b) r4 [])))
           f [idtok] (mk TRIGHT_PAREN :: wS)).
  - apply VF_pexpr.
  - constructor; [reflexivity|apply FN_pstmt].
  - intros c.
    apply (VF_tok true C_ne TRIGHT_PAREN PRParenAfterCond
             (fun g _rp r3 => pbind (pstmt g r3) (fun b r4 => POk (SWhile c b) r4 [])) f wS).
    intros _rp. apply (VF_map true C_ne (fun g => pstmt g) (fun b => SWhile c b) f wS), HS.
  - left. reflexivity.
  - intros u _. reflexivity.
Qed.

Lemma VF_elseK c th : VF false C_ne (fun g => elseK g c th) f [].
Proof.
  destruct HS as (VS & FS). split.
  - intros ts O. destruct (check TELSE ts) eqn:Ce.
    + destruct ts as [|te r']; [discriminate Ce|]. apply Via_weaken.
      eapply (Via_cons eofl true true C_ne _ (fun g x => pbind (pstmt g x) (fun el r5 => POk (SIf c th (Some el)) r5 [])) f te r' wS).
      * intros g x. unfold elseK. change (check TELSE (te :: x)) with (check TELSE (te :: r')). rewrite Ce. reflexivity.
      * apply (FN_map eofl C_ne (fun g => pstmt g) (fun el => SIf c th (Some el))), FS.
      * apply (Via_map eofl true true C_ne (fun g => pstmt g) (fun el => SIf c th (Some el))). apply VS. inversion O; assumption.
    + apply (Via_stop_ok eofl true _ _ (SIf c th None)). intros g y [S|Cy]; unfold elseK.
      * rewrite (check_samehead TELSE _ _ S), Ce. reflexivity.
      * unfold C_ne in Cy. rewrite Cy. reflexivity.
  - split; [constructor|]. intros u Cu. exists 0. eexists. intros g _. unfold elseK. cbn [app].
    unfold C_ne in Cu. rewrite Cu. reflexivity.
Qed.

Lemma VF_ifK : VF true C_ne ifK f (mk TLEFT_PAREN :: idtok :: mk TRIGHT_PAREN :: wS).
Proof.
  unfold ifK.
  apply (VF_tok true C_ne TLEFT_PAREN PLParenAfterIf
           (fun g _lp r1 => pbind (pexpr g r1) (fun c r2 =>
              pbind (consume TRIGHT_PAREN PRParenAfterIfCond r2) (fun _rp r3 =>
              pbind (pstmt g r3) (fun th r4 => elseK g c th r4)))) f (idtok :: mk TRIGHT_PAREN :: wS)).
  intros _lp.
  apply (VF_bind true true C_e C_ne (fun g => pexpr g)
           (fun g c r2 => pbind (consume TRIGHT_PAREN PRParenAfterIfCond r2) (fun _rp r3 =>
              pbind (pstmt g r3) (fun th r4 => elseK g c th r4)))
           f [idtok] (mk TRIGHT_PAREN :: wS)).
  - apply VF_pexpr.
  - constructor; [reflexivity|apply FN_pstmt].
  - intros c.
    apply (VF_tok true C_ne TRIGHT_PAREN PRParenAfterIfCond
             (fun g _rp r3 => pbind (pstmt g r3) (fun th r4 => elseK g c th r4)) f wS).
    intros _rp.
    apply (VF_bind true false C_ne C_ne (fun g => pstmt g) (fun g th r4 => elseK g c th r4) f wS []).
    + exact HS.
    + constructor.
    + intros th. apply VF_elseK.
    + right. auto.
    + intros u Cu. exact Cu.
  - left. reflexivity.
  - intros u _. reflexivity.
Qed.

Lemma VF_forinit : VF true C_any forinit f [mk TSEMICOLON].
Proof.
  split.
  - intros ts O. destruct (check TSEMICOLON ts) eqn:C1.
    + destruct ts as [|t1 r']; [discriminate C1|].
      eapply (Via_cons eofl true false C_any _ (fun _ x => POk None x []) f t1 r' []).
      * intros g x. unfold forinit. change (check TSEMICOLON (t1 :: x)) with (check TSEMICOLON (t1 :: r')). rewrite C1. reflexivity.
      * apply FN_ret.
      * apply Via_ret. reflexivity.
    + destruct (check TVAR ts) eqn:C2.
      * destruct ts as [|t1 r']; [discriminate C2|].
        eapply (Via_cons eofl true true C_any _ (fun g x => pbind (pvar g x) (fun s r0 => POk (Some s) r0 [])) f t1 r' [idtok; mk TSEMICOLON]).
        -- intros g x. unfold forinit. change (check TSEMICOLON (t1 :: x)) with (check TSEMICOLON (t1 :: r')).
           change (check TVAR (t1 :: x)) with (check TVAR (t1 :: r')). rewrite C1, C2. reflexivity.
        -- apply (FN_map eofl C_any (fun g => pvar g) (@Some stmt)), FN_pvar.
        -- apply (Via_map eofl true true C_any (fun g => pvar g) (@Some stmt)). apply via_pvar. inversion O; assumption.
      * apply (Via_ext_head eofl true _ _ (fun g x => pbind (pexprstmt g x) (fun s r0 => POk (Some s) r0 []))).
        -- intros g y _ S. unfold forinit. rewrite (check_samehead TSEMICOLON _ _ S), (check_samehead TVAR _ _ S), C1, C2. reflexivity.
        -- apply (Via_map eofl true true C_any (fun g => pexprstmt g) (@Some stmt)), via_pexprstmt.
  - split; [apply online1; reflexivity|]. intros u _. exists 0, None. intros g _. reflexivity.
Qed.

Lemma VF_forK : VF true C_ne forK f (mk TLEFT_PAREN :: mk TSEMICOLON :: mk TSEMICOLON :: mk TRIGHT_PAREN :: wS).
Proof.
  unfold forK.
  apply (VF_tok true C_ne TLEFT_PAREN PLParenAfterFor
           (fun g _lp r1 =>
              pbind (forinit g r1) (fun init r2 =>
              pbind (optexpr TSEMICOLON g r2) (fun c r3 =>
              pbind (consume TSEMICOLON PSemiAfterLoopCond r3) (fun _s r4 =>
              pbind (optexpr TRIGHT_PAREN g r4) (fun inc r5 =>
              pbind (consume TRIGHT_PAREN PRParenAfterFor r5) (fun _rp r6 =>
              pbind (pstmt g r6) (fun b r7 =>
                POk (SFor init (match c with Some c => c | None => ELit (LitBool true) 0%N end) inc b) r7 [])))))))
           f (mk TSEMICOLON :: mk TSEMICOLON :: mk TRIGHT_PAREN :: wS)).
  intros _lp.
  apply (VF_bind true true C_any C_ne forinit
           (fun g init r2 =>
              pbind (optexpr TSEMICOLON g r2) (fun c r3 =>
              pbind (consume TSEMICOLON PSemiAfterLoopCond r3) (fun _s r4 =>
              pbind (optexpr TRIGHT_PAREN g r4) (fun inc r5 =>
              pbind (consume TRIGHT_PAREN PRParenAfterFor r5) (fun _rp r6 =>
              pbind (pstmt g r6) (fun b r7 =>
                POk (SFor init (match c with Some c => c | None => ELit (LitBool true) 0%N end) inc b) r7 []))))))
           f [mk TSEMICOLON] (mk TSEMICOLON :: mk TRIGHT_PAREN :: wS)).
  - apply VF_forinit.
  - constructor; [reflexivity|]. constructor; [reflexivity|apply FN_pstmt].
  - intros init.
    apply (VF_bind false true (C_head TSEMICOLON) C_ne (optexpr TSEMICOLON)
             (fun g c r3 =>
                pbind (consume TSEMICOLON PSemiAfterLoopCond r3) (fun _s r4 =>
                pbind (optexpr TRIGHT_PAREN g r4) (fun inc r5 =>
                pbind (consume TRIGHT_PAREN PRParenAfterFor r5) (fun _rp r6 =>
                pbind (pstmt g r6) (fun b r7 =>
                  POk (SFor init (match c with Some c => c | None => ELit (LitBool true) 0%N end) inc b) r7 [])))))
             f [] (mk TSEMICOLON :: mk TRIGHT_PAREN :: wS)).
    + apply VF_optexpr. reflexivity.
    + constructor; [reflexivity|]. constructor; [reflexivity|apply FN_pstmt].
    + intros c.
      apply (VF_tok true C_ne TSEMICOLON PSemiAfterLoopCond
               (fun g _s r4 =>
                  pbind (optexpr TRIGHT_PAREN g r4) (fun inc r5 =>
                  pbind (consume TRIGHT_PAREN PRParenAfterFor r5) (fun _rp r6 =>
                  pbind (pstmt g r6) (fun b r7 =>
                    POk (SFor init (match c with Some c => c | None => ELit (LitBool true) 0%N end) inc b) r7 []))))
               f (mk TRIGHT_PAREN :: wS)).
      intros _s.
      apply (VF_bind false true (C_head TRIGHT_PAREN) C_ne (optexpr TRIGHT_PAREN)
               (fun g inc r5 =>
                  pbind (consume TRIGHT_PAREN PRParenAfterFor r5) (fun _rp r6 =>
                  pbind (pstmt g r6) (fun b r7 =>
                    POk (SFor init (match c with Some c => c | None => ELit (LitBool true) 0%N end) inc b) r7 [])))
               f [] (mk TRIGHT_PAREN :: wS)).
      * apply VF_optexpr. reflexivity.
      * constructor; [reflexivity|apply FN_pstmt].
      * intros inc.
        apply (VF_tok true C_ne TRIGHT_PAREN PRParenAfterFor
                 (fun g _rp r6 => pbind (pstmt g r6) (fun b r7 =>
                    POk (SFor init (match c with Some c => c | None => ELit (LitBool true) 0%N end) inc b) r7 []))
                 f wS).
        intros _rp.
        apply (VF_map true C_ne (fun g => pstmt g)
                 (fun b => SFor init (match c with Some c => c | None => ELit (LitBool true) 0%N end) inc b) f wS), HS.
      * left. reflexivity.
      * intros u _. reflexivity.
    + left. reflexivity.
    + intros u _. reflexivity.
  - left. reflexivity.
  - intros u _. exact I.
Qed.

Lemma VF_funK nm : VF true C_ne (fun g => funK g nm) f (mk TLEFT_PAREN :: mk TRIGHT_PAREN :: mk TLEFT_BRACE :: wB).
Proof.
  eapply VF_sub; [apply C_ne_any|]. unfold funK.
  apply (VF_tok true C_any TLEFT_PAREN PLParenAfterFunName
           (fun g _lp r2 =>
              pbind (optparams g r2) (fun ps r3 =>
              pbind (consume TRIGHT_PAREN PRParenAfterParams r3) (fun _rp r4 =>
              pbind (consume TLEFT_BRACE PLBraceBeforeBody r4) (fun _lb r5 =>
              pbind (pblock g r5) (fun body r6 => POk (SFun (tlex nm) ps body) r6 [])))))
           f (mk TRIGHT_PAREN :: mk TLEFT_BRACE :: wB)).
  intros _lp.
  apply (VF_bind false true (C_head TRIGHT_PAREN) C_any optparams
           (fun g ps r3 =>
              pbind (consume TRIGHT_PAREN PRParenAfterParams r3) (fun _rp r4 =>
              pbind (consume TLEFT_BRACE PLBraceBeforeBody r4) (fun _lb r5 =>
              pbind (pblock g r5) (fun body r6 => POk (SFun (tlex nm) ps body) r6 []))))
           f [] (mk TRIGHT_PAREN :: mk TLEFT_BRACE :: wB)).
  - apply VF_optparams.
  - constructor; [reflexivity|]. constructor; [reflexivity|apply FN_pblock].
  - intros ps.
    apply (VF_tok true C_any TRIGHT_PAREN PRParenAfterParams
             (fun g _rp r4 =>
                pbind (consume TLEFT_BRACE PLBraceBeforeBody r4) (fun _lb r5 =>
                pbind (pblock g r5) (fun body r6 => POk (SFun (tlex nm) ps body) r6 [])))
             f (mk TLEFT_BRACE :: wB)).
    intros _rp.
    apply (VF_tok true C_any TLEFT_BRACE PLBraceBeforeBody
             (fun g _lb r5 => pbind (pblock g r5) (fun body r6 => POk (SFun (tlex nm) ps body) r6 [])) f wB).
    intros _lb. apply (VF_map true C_any (fun g => pblock g) (fun body => SFun (tlex nm) ps body) f wB), HB.
  - left. reflexivity.
  - intros u _. reflexivity.
Qed.

Lemma VF_fundeclK : VF true C_ne fundeclK f (idtok :: mk TLEFT_PAREN :: mk TRIGHT_PAREN :: mk TLEFT_BRACE :: wB).
Proof. unfold fundeclK. apply (VF_reserved true C_ne PExpectFunName PReservedFun funK f _), VF_funK. Qed.

End Step.

(** * The statement-level induction *)

Definition ViaSt (f : nat) : Prop :=
  (forall ts, ViaL true C_ne (fun g => pdecl g) f ts) /\
  (forall ts, ViaL true C_ne (fun g => pstmt g) f ts) /\
  (forall ts, ViaL true C_any (fun g => pblock g) f ts).

Lemma viaSt_pstmt f : ViaSt f -> forall ts, ViaL true C_ne (fun g => pstmt g) (S f) ts.
Proof.
  intros (_ & Is & Ib) ts.
  assert (HS : VF true C_ne (fun g => pstmt g) f wS) by (split; [exact Is|apply FN_pstmt]).
  assert (HB : VF true C_any (fun g => pblock g) f wB) by (split; [exact Ib|apply FN_pblock]).
  apply ViaL_shift.
  assert (Dflt : forall ts0, ViaL true C_ne (fun g => pexprstmt g) f ts0).
  { intros ts0. eapply ViaL_sub; [apply C_ne_any|apply ViaL_of, via_pexprstmt]. }
  destruct ts as [|t r].
  { apply (ViaL_ext_head eofl true _ _ (fun g => pexprstmt g)); [|apply Dflt].
    intros g y _ S. same_head S. rewrite pstmt_S. reflexivity. }
  assert (KW : forall ne (K : nat -> list token -> pres stmt) w, VF ne C_ne K f w ->
                 (forall g x, pstmt (S g) (t :: x) = K g x) -> ViaL true C_ne (fun g => pstmt (S g)) f (t :: r)).
  { intros ne K w (V & F) E. eapply (ViaL_cons eofl true ne C_ne _ K f t r w); [exact E|exact F|apply V]. }
  destruct (tk t) eqn:Etk;
    try (apply (ViaL_ext_head eofl true _ _ (fun g => pexprstmt g)); [|apply Dflt];
         intros g y _ S; same_head S; rewrite pstmt_kw, Etk; reflexivity).
  - apply (KW _ blockK _ (VF_blockK f HB)). intros g x. rewrite pstmt_kw, Etk. reflexivity.
  - apply (KW _ _ _ (VF_semiK f PSemiAfterBreak (fun s => SBreak (tline s)))). intros g x. rewrite pstmt_kw, Etk. reflexivity.
  - apply (KW _ _ _ (VF_semiK f PSemiAfterContinue (fun s => SContinue (tline s)))). intros g x. rewrite pstmt_kw, Etk. reflexivity.
  - apply (KW _ forK _ (VF_forK f HS)). intros g x. rewrite pstmt_kw, Etk. reflexivity.
  - apply (KW _ ifK _ (VF_ifK f HS)). intros g x. rewrite pstmt_kw, Etk. reflexivity.
  - apply (KW _ (exprlen SPrint) _ (VF_sub true C_any C_ne _ f _ C_ne_any (VF_exprlen SPrint f))).
    intros g x. rewrite pstmt_kw, Etk. reflexivity.
  - apply (KW _ (returnK t) _ (VF_returnK f t)). intros g x. rewrite pstmt_kw, Etk. reflexivity.
  - apply (KW _ whileK _ (VF_whileK f HS)). intros g x. rewrite pstmt_kw, Etk. reflexivity.
Qed.

Lemma viaSt_pdecl f : ViaSt f -> forall ts, ViaL true C_ne (fun g => pdecl g) (S f) ts.
Proof.
  intros (_ & Is & Ib) ts.
  assert (HB : VF true C_any (fun g => pblock g) f wB) by (split; [exact Ib|apply FN_pblock]).
  apply ViaL_shift.
  destruct ts as [|t r].
  { apply (ViaL_ext_head eofl true _ _ (fun g => pstmt g)); [|apply Is].
    intros g y _ S. same_head S. rewrite pdecl_S. reflexivity. }
  destruct (tk t) eqn:Etk;
    try (apply (ViaL_ext_head eofl true _ _ (fun g => pstmt g)); [|apply Is];
         intros g y _ S; same_head S; rewrite pdecl_kw, Etk; reflexivity).
  - destruct (VF_fundeclK f HB) as (V & F).
    eapply (ViaL_cons eofl true true C_ne _ fundeclK f t r _); [|exact F|apply V].
    intros g x. rewrite pdecl_kw, Etk. reflexivity.
  - destruct (VF_sub true C_any C_ne _ f _ C_ne_any (VF_pvar f)) as (V & F).
    eapply (ViaL_cons eofl true true C_ne _ (fun g => pvar g) f t r _); [|exact F|apply V].
    intros g x. rewrite pdecl_kw, Etk. reflexivity.
Qed.

Definition blockF (g : nat) (x : list token) : pres (list stmt) :=
  pbind (pdecl g x) (fun s r1 => pbind (pblock g r1) (fun ss r2 => POk (s :: ss) r2 [])).

Lemma viaSt_pblock f : ViaSt f -> forall ts, ViaL true C_any (fun g => pblock g) (S f) ts.
Proof.
  intros (Id & _ & Ib) ts.
  assert (HB : VF true C_any (fun g => pblock g) f wB) by (split; [exact Ib|apply FN_pblock]).
  assert (HD : VF true C_ne (fun g => pdecl g) f wS) by (split; [exact Id|apply FN_pdecl]).
  apply ViaL_shift.
  destruct ts as [|t r].
  { intros _. apply (Via_len_now eofl true _ _ _ _ _ [] PRBraceAfterBlock). intros g y S. same_head S. reflexivity. }
  destruct (tkind_eqb (tk t) TRIGHT_BRACE) eqn:E.
  { intros _. eapply (Via_cons eofl true false C_any _ (fun _ x => POk [] x []) f t r []).
    - intros g x. rewrite pblock_S. cbv beta iota. rewrite E. reflexivity.
    - apply FN_ret.
    - apply Via_ret. reflexivity. }
  apply (ViaL_ext_head eofl true _ _ blockF).
  { intros g y _ S. same_head S. rewrite pblock_S. cbv beta iota. rewrite E. reflexivity. }
  destruct (VF_bind true true C_ne C_any (fun g => pdecl g)
              (fun g s r1 => pbind (pblock g r1) (fun ss r2 => POk (s :: ss) r2 [])) f wS wB HD) as (V & _).
  - apply online1. reflexivity.
  - intros s. apply (VF_map true C_any (fun g => pblock g) (fun ss => s :: ss) f wB), HB.
  - left. reflexivity.
  - intros u _. reflexivity.
  - apply V.
Qed.

Theorem viaSt : forall f, ViaSt f.
Proof.
  induction f as [|f IH].
  { split; [|split]; intros ts _; apply Via_fuel; reflexivity. }
  split; [|split].
  - apply viaSt_pdecl, IH.
  - apply viaSt_pstmt, IH.
  - apply viaSt_pblock, IH.
Qed.

(** * Programs *)

Definition C_end (u : list token) : Prop := u = [].

Definition progF (g : nat) (x : list token) : pres (list stmt) :=
  pbind (pdecl g x) (fun s r1 => pbind (pprogram g r1) (fun ss r2 => POk (s :: ss) r2 [])).

Lemma via_pprogram : forall f ts, ViaL false C_end (fun g => pprogram g) f ts.
Proof.
  induction f as [|f IH]; intros ts; [intros _; apply Via_fuel; reflexivity|].
  apply ViaL_shift. destruct ts as [|t r].
  { intros _. apply (Via_stop_ok eofl true _ _ []). intros g y [S|Cy]; [same_head S|rewrite Cy]; reflexivity. }
  apply ViaL_weaken. apply (ViaL_ext_head eofl true _ _ progF).
  { intros g y _ S. same_head S. rewrite pprogram_S. reflexivity. }
  apply (ViaL_bind eofl true true false C_ne C_end (fun g => pdecl g)
           (fun g s r1 => pbind (pprogram g r1) (fun ss r2 => POk (s :: ss) r2 [])) f (t :: r) []).
  - apply (viaSt f).
  - intros s r1. apply (ViaL_map eofl true false C_end (fun g => pprogram g) (fun ss => s :: ss)), IH.
  - right. intros u ->. reflexivity.
  - split; [constructor|]. intros u ->. split; [reflexivity|].
    intros s. exists 1, [s]. intros g Hg. destruct g as [|g]; [lia|]. reflexivity.
Qed.

(** * The theorems *)

(** [pre] can be completed (by tokens on the end-of-input line) to an accepted program *)
Definition prog_viable (pre : list token) : Prop := exists w, online w /\ accepted eofl (pre ++ w).

Lemma NC_rejects f pre rem : NC (fun g => pprogram g) f pre rem ->
  forall rem', samehead rem rem' -> rejects eofl (pre ++ rem').
Proof.
  intros N rem' S. set (g := max f (parse_fuel (pre ++ rem'))).
  assert (NF : pprogram g (pre ++ rem') <> PFuel) by (apply pprogram_big; apply Nat.le_max_r).
  specialize (N g rem' (Nat.le_max_l _ _) S). cbv beta in N. exists g.
  destruct (pprogram g (pre ++ rem')) as [ss r [|d ds]| ds|].
  - contradiction.
  - right. exists ss, r, (d :: ds). split; [reflexivity|discriminate].
  - left. eauto.
  - exfalso. apply NF. reflexivity.
Qed.

Lemma Viab_prog pre : Viab eofl C_end (fun g => pprogram g) pre -> prog_viable pre.
Proof.
  intros (w & Ow & Hc). exists w. split; [exact Ow|]. destruct (Hc [] eq_refl) as (g0 & ss & R).
  exists g0, ss. specialize (R g0 (le_n _)). rewrite app_nil_r in R. exact R.
Qed.

Lemma prog_viable_nil : prog_viable [].
Proof. exists []. split; [constructor|]. exists 1, []. reflexivity. Qed.

(** ** The first diagnostic is not early.

    For a token list on one line: the first diagnostic [d] of the parser (fatal
    or lenient) was issued after consuming [pre], looking at the head of [rem];
    nothing that starts with [pre] and the first token of [rem] is accepted; and
    either [pre] is a viable prefix -- some completion [w] (on the same line)
    makes [pre ++ w] an accepted program -- or the diagnostic is late: [pre]
    contains a token [t0] such that the text before [t0] is viable and the text
    including [t0] is hopeless, where [t0] is an [=] after a complete,
    non-assignable left side, or the comma after the 255th parameter. *)
Theorem viable_before_error f ts d :
  online ts -> first_diag (pprogram f ts) = Some d ->
  exists pre rem, ts = pre ++ rem /\ d = diag_at rem (pd_kind d) /\
    (forall rem', samehead rem rem' -> rejects eofl (pre ++ rem')) /\
    (prog_viable pre \/
     exists a' t0 b, pre = a' ++ t0 :: b /\ ((tk t0 = TEQUAL /\ LhsBad a') \/ tk t0 = TCOMMA) /\
                     prog_viable a' /\ forall y, rejects eofl (a' ++ t0 :: y)).
Proof.
  intros O F. pose proof (via_pprogram f ts O) as V. unfold ParserViableDefs.Via in V.
  assert (FD : FDv eofl true C_end (fun g => pprogram g) f ts d).
  { destruct (pprogram f ts) as [ss r [|d' ds]| [|d' ds]|]; simpl in F; try discriminate F;
      try contradiction; inversion F; subst d'; exact V. }
  destruct FD as (pre & rem & Ets & Ed & N & H). exists pre, rem.
  split; [exact Ets|]. split; [exact Ed|]. split; [apply (NC_rejects f), N|].
  destruct pre as [|t1 pre1]; [left; apply prog_viable_nil|].
  destruct (H ltac:(discriminate)) as [(a' & t0 & b & Ep & K & Na & Va)|Vp]; [right|left; apply Viab_prog, Vp].
  exists a', t0, b. split; [exact Ep|]. split.
  { destruct K as [K|(_ & K)]; [left; exact K|right; exact K]. }
  split.
  { destruct a' as [|t2 a2]; [apply prog_viable_nil|apply Viab_prog, Va; discriminate]. }
  intros y. apply (NC_rejects f a' [t0] Na). reflexivity.
Qed.

(** ** The first diagnostic names the first bad token.

    If the first diagnostic names a token [t] of the (one-line) text, after the
    prefix [pre], then no text that starts with [pre ++ [t]] is accepted; and
    [pre] is the beginning of an accepted text, unless the diagnostic is one of
    the two late ones (then the first bad token is the [t0] described above, to
    the left of [t]). *)
Corollary first_diag_is_first_bad_token f ts d :
  online ts -> first_diag (pprogram f ts) = Some d -> pd_where d <> None ->
  exists pre t w0, ts = pre ++ t :: w0 /\ d = diag_tok t (pd_kind d) /\
    (forall w', ~ accepted eofl (pre ++ t :: w')) /\
    (prog_viable pre \/
     exists a' t0 b, pre = a' ++ t0 :: b /\ ((tk t0 = TEQUAL /\ LhsBad a') \/ tk t0 = TCOMMA) /\
                     prog_viable a' /\ forall y, ~ accepted eofl (a' ++ t0 :: y)).
Proof.
  intros O F W. destruct (viable_before_error f ts d O F) as (pre & rem & Ets & Ed & N & H).
  destruct rem as [|t w0]; [exfalso; apply W; rewrite Ed; reflexivity|].
  exists pre, t, w0. split; [exact Ets|]. split; [exact Ed|]. split.
  { intros w'. apply rejects_not_accepted. apply N. reflexivity. }
  destruct H as [Vp|(a' & t0 & b & Ep & K & Va & Ra)]; [left; exact Vp|right].
  exists a', t0, b. split; [exact Ep|]. split; [exact K|]. split; [exact Va|].
  intros y. apply rejects_not_accepted, Ra.
Qed.

(** in particular: when the text before [t] contains neither an [=] nor a comma,
    it is the beginning of an accepted program *)
Corollary first_bad_token_plain f ts d :
  online ts -> first_diag (pprogram f ts) = Some d -> pd_where d <> None ->
  exists pre t w0, ts = pre ++ t :: w0 /\ d = diag_tok t (pd_kind d) /\
    (forall w', ~ accepted eofl (pre ++ t :: w')) /\
    (Forall (fun x => tk x <> TEQUAL /\ tk x <> TCOMMA) pre -> prog_viable pre).
Proof.
  intros O F W. destruct (first_diag_is_first_bad_token f ts d O F W) as (pre & t & w0 & Ets & Ed & N & H).
  exists pre, t, w0. split; [exact Ets|]. split; [exact Ed|]. split; [exact N|].
  intros Hp. destruct H as [Vp|(a' & t0 & b & Ep & K & _)]; [exact Vp|].
  subst pre. apply Forall_app in Hp. destruct Hp as (_ & Hp). inversion Hp as [|x l (H1 & H2) Hl]; subst.
  destruct K as [(K & _)|K]; contradiction.
Qed.

(** a diagnostic "at end": the whole text is the consumed prefix *)
Corollary first_diag_at_end_viable f ts d :
  online ts -> first_diag (pprogram f ts) = Some d -> pd_where d = None ->
  prog_viable ts \/
  exists a' t0 b, ts = a' ++ t0 :: b /\ ((tk t0 = TEQUAL /\ LhsBad a') \/ tk t0 = TCOMMA) /\
                  prog_viable a' /\ forall y, ~ accepted eofl (a' ++ t0 :: y).
Proof.
  intros O F W. destruct (viable_before_error f ts d O F) as (pre & rem & Ets & Ed & N & H).
  destruct rem as [|t w0]; [|rewrite Ed in W; discriminate W].
  rewrite app_nil_r in Ets. subst pre.
  destruct H as [Vp|(a' & t0 & b & Ep & K & Va & Ra)]; [left; exact Vp|right].
  exists a', t0, b. split; [exact Ep|]. split; [exact K|]. split; [exact Va|].
  intros y. apply rejects_not_accepted, Ra.
Qed.

End ViableStmt.

(** * Examples (everything on line 1) *)

Definition sx_tok (k : tkind) (lex : list N) : token := mkTok k lex LNone 1%N.
Definition sx_id := sx_tok TIDENTIFIER [102%N].
Definition sx_if := sx_tok TIF [2479; 2470; 2495]%N.
Definition sx_var := sx_tok TVAR [2471; 2480; 2495]%N.
Definition sx_fun := sx_tok TFUN [2475; 2494; 2434; 2486; 2472]%N.
Definition sx_lp := sx_tok TLEFT_PAREN [40%N].
Definition sx_rp := sx_tok TRIGHT_PAREN [41%N].
Definition sx_lbr := sx_tok TLEFT_BRACE [123%N].
Definition sx_plus := sx_tok TPLUS [43%N].
Definition sx_semi := sx_tok TSEMICOLON [59%N].
Definition sx_eq := sx_tok TEQUAL [61%N].
Definition sx_comma := sx_tok TCOMMA [44%N].

(** [যদি ( f + ;]: fatal at the [;]; the prefix [যদি ( f +] is completed by [x ) { }] *)
Example sx_fails : pprogram 1%N 200 ([sx_if; sx_lp; sx_id; sx_plus] ++ [sx_semi]) = PErr [diag_tok sx_semi PExpectExpr].
Proof. vm_compute. reflexivity. Qed.
Example sx_completed :
  exists ss, pprogram 1%N 200 ([sx_if; sx_lp; sx_id; sx_plus] ++
               [idtok 1%N; mk 1%N TRIGHT_PAREN; mk 1%N TLEFT_BRACE; mk 1%N TRIGHT_BRACE]) = POk ss [] [].
Proof. eexists. vm_compute. reflexivity. Qed.

(** a lenient first diagnostic: [{ f f]: the second [f] draws "expected ;"; the
    prefix [{ f] is completed by [; }] *)
Example sx_lenient : first_diag (pprogram 1%N 200 ([sx_lbr; sx_id] ++ [sx_id])) = Some (diag_tok sx_id PSemiAfterValue).
Proof. vm_compute. reflexivity. Qed.
Example sx_lenient_completed :
  exists ss, pprogram 1%N 200 ([sx_lbr; sx_id] ++ [mk 1%N TSEMICOLON; mk 1%N TRIGHT_BRACE]) = POk ss [] [].
Proof. eexists. vm_compute. reflexivity. Qed.

(** [ধরি f = ( f ) = + ...]: the diagnostic is at the [+], but the text stopped being
    viable at the second [=] *)
Example sx_late : pprogram 1%N 200 ([sx_var; sx_id; sx_eq; sx_lp; sx_id; sx_rp; sx_eq] ++ [sx_plus])
                  = PErr [diag_tok sx_plus PExpectExpr].
Proof. vm_compute. reflexivity. Qed.
Example sx_late_viable :
  exists ss, pprogram 1%N 200 ([sx_var; sx_id; sx_eq; sx_lp; sx_id; sx_rp] ++ [mk 1%N TSEMICOLON]) = POk ss [] [].
Proof. eexists. vm_compute. reflexivity. Qed.

(** the 256th parameter is diagnosed at the parameter, one token after the comma
    that made the text hopeless *)
Definition sx_params (n : nat) : list token := concat (repeat [sx_id; sx_comma] n).
Example sx_too_many :
  pprogram 1%N (40 * 520) ([sx_fun; sx_id; sx_lp] ++ sx_params 255 ++ [sx_id; sx_rp])
  = PErr [diag_tok sx_id PTooManyParams].
Proof. vm_compute. reflexivity. Qed.

Check viable_before_error.
Check first_diag_is_first_bad_token.
Check first_bad_token_plain.
Check first_diag_at_end_viable.
Print Assumptions viaSt.
Print Assumptions viable_before_error.
Print Assumptions first_diag_is_first_bad_token.
