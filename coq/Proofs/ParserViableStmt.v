(** Viable prefixes, part 3: declarations, statements, programs.

    All token lists are on one line, the end-of-input line ([online]): the
    undocumented line rule of [ধরি] ([PSemiBeforeNewline]) makes acceptance of a
    completed text depend on line numbers, and the property this supports excludes
    texts in which a [ধরি] declaration spans a line break. *)
From Borno Require Import Base Num Token Ast Parser.
From Borno Require Import ParserEqs ParserMono ParserTotal Grammar ParserSC_Base ParserPrefixDefs ParserPrefix.
From Borno Require Import ParserViableDefs ParserViable.
Open Scope nat_scope.

Section ViableStmt.
Variable eofl : N.

Notation pexpr := (Parser.pexpr eofl).
Notation pvardecls := (Parser.pvardecls eofl).
Notation pparams := (Parser.pparams eofl).
Notation pdecl := (Parser.pdecl eofl).
Notation pstmt := (Parser.pstmt eofl).
Notation pblock := (Parser.pblock eofl).
Notation pprogram := (Parser.pprogram eofl).
Notation pvar := (Parser.pvar eofl).
Notation pexprstmt := (Parser.pexprstmt eofl).
Notation consume := (Parser.consume eofl).
Notation consume_lenient := (Parser.consume_lenient eofl).
Notation perr_at := (Parser.perr_at eofl).
Notation diag_at := (Parser.diag_at eofl).
Notation peek_line := (Parser.peek_line eofl).
Notation Via := (ParserViableDefs.Via eofl true).
Notation ViaL := (ParserViableDefs.ViaL eofl true).
Notation FN := (ParserViableDefs.FN eofl).
Notation FNw := (ParserViableDefs.FNw eofl).
Notation online := (ParserViableDefs.online eofl).
Notation mk := (ParserViableDefs.mk eofl).
Notation idtok := (ParserViableDefs.idtok eofl).

(** the expression level, with the late-diagnostic exception switched on *)
Lemma Ie f ts : Via true C_e (fun g => pexpr g) f ts.
Proof. apply Via_late. apply (viaE eofl f). Qed.

(** * Stop conditions of the statement level *)

Definition C_ne (u : list token) : Prop := check TELSE u = false.
Definition C_decl (u : list token) : Prop := C_args u /\ peek_line u = eofl.
Definition C_pp (u : list token) : Prop := check TCOMMA u = false.

Lemma C_e_check_eq u : C_e u -> check TEQUAL u = false.
Proof. destruct u as [|t r]; [reflexivity|]. intros H. simpl. apply (C_e_not_eq _ _ H). Qed.
Lemma C_head_e k u : e_stop k = true -> C_head k u -> C_e u.
Proof. destruct u as [|t r]; simpl; [contradiction|]. intros H <-. exact H. Qed.
Lemma C_decl_e u : C_decl u -> C_e u.
Proof. intros (H & _). apply C_args_e, H. Qed.

(** * Optional expression clauses ([ফেরত], the condition and the step of [ফর]) *)

Definition optexpr (stop : tkind) (g : nat) (x : list token) : pres (option expr) :=
  if check stop x then POk None x [] else pbind (pexpr g x) (fun e r' => POk (Some e) r' []).

Lemma via_optexpr f stop r : e_stop stop = true ->
  Via false (C_head stop) (optexpr stop) f r /\ FN (C_head stop) (optexpr stop) [].
Proof.
  intros Hs. split.
  - destruct (check stop r) eqn:Ck.
    + apply (Via_stop_ok eofl true _ _ None). intros g y [S|Cy]; unfold optexpr.
      * rewrite (check_samehead stop _ _ S), Ck. reflexivity.
      * rewrite (C_head_check _ _ Cy). reflexivity.
    + apply Via_weaken. apply (Via_ext_head eofl true _ _ (fun g x => pbind (pexpr g x) (fun e r' => POk (Some e) r' []))).
      * intros g y _ S. unfold optexpr. rewrite (check_samehead stop _ _ S), Ck. reflexivity.
      * eapply Via_sub; [|apply (Via_map eofl true true C_e (fun g => pexpr g) (@Some expr)), Ie].
        intros u. apply C_head_e, Hs.
  - split; [constructor|]. intros u Cu. exists 0, None. intros g _. unfold optexpr. cbn [app].
    rewrite (C_head_check _ _ Cu). reflexivity.
Qed.

(** * Expression statements *)

Lemma via_pexprstmt f ts : Via true C_any (fun g => pexprstmt g) f ts.
Proof.
  unfold Parser.pexprstmt.
  apply (Via_bind eofl true true true C_e C_any (fun g => pexpr g)
           (fun _ e r1 => let '(r2, ds) := consume_lenient TSEMICOLON PSemiAfterValue r1 in POk (SExpr e) r2 ds)
           f ts [mk TSEMICOLON]).
  - apply Ie.
  - intros e r1 _ _. apply Via_lenient.
  - left. reflexivity.
  - split; [apply online1; reflexivity|]. intros u _. split; [reflexivity|].
    intros e. exists 0. eexists. intros g _. reflexivity.
Qed.

Lemma FN_pexprstmt : FN C_any (fun g => pexprstmt g) [idtok; mk TSEMICOLON].
Proof.
  split; [constructor; [reflexivity|apply online1; reflexivity]|]. intros u _.
  exists 15. eexists. intros g Hg. unfold Parser.pexprstmt. cbn [app].
  rewrite id_pexpr; [|reflexivity|exact Hg]. rewrite pb_ret. reflexivity.
Qed.

(** * An identifier that must not be a reserved name *)

Lemma via_consume_reserved {B} ne (C : list token -> Prop) pk1 pk2 (K : nat -> token -> list token -> pres B) f ts w0 :
  (forall nm r1, ViaL ne C (fun g => K g nm) f r1) -> (forall nm, FN C (fun g => K g nm) w0) ->
  ViaL true C (fun g x => pbind (consume TIDENTIFIER pk1 x)
                 (fun nm r1 => if is_reserved (tlex nm) then PErr [diag_tok nm pk2] else K g nm r1)) f ts.
Proof.
  intros VK FK O. destruct ts as [|t r].
  { eapply Via_fail_now; [reflexivity|reflexivity]. }
  destruct (tkind_eqb (tk t) TIDENTIFIER) eqn:E.
  2:{ eapply Via_fail_now; [cbv beta; unfold Parser.consume; rewrite E; reflexivity|reflexivity]. }
  destruct (is_reserved (tlex t)) eqn:R.
  - eapply Via_fail_now; [cbv beta; unfold Parser.consume; rewrite E, pb_ret, R; reflexivity|reflexivity].
  - eapply (Via_cons eofl true ne C _ (fun g => K g t) f t r w0).
    + intros g x. unfold Parser.consume. rewrite E, pb_ret, R. reflexivity.
    + apply FK.
    + apply VK. inversion O; assumption.
Qed.

Lemma FN_consume_reserved {B} (C : list token -> Prop) pk1 pk2 (K : nat -> token -> list token -> pres B) w0 :
  online w0 -> (forall nm, FN C (fun g => K g nm) w0) ->
  FN C (fun g x => pbind (consume TIDENTIFIER pk1 x)
            (fun nm r1 => if is_reserved (tlex nm) then PErr [diag_tok nm pk2] else K g nm r1)) (idtok :: w0).
Proof.
  intros O FK. split; [constructor; [reflexivity|exact O]|]. intros u Cu.
  destruct (FK idtok) as (_ & H). destruct (H u Cu) as (g0 & b & R). exists g0, b. intros g Hg.
  cbn [app]. rewrite (consume_hit eofl TIDENTIFIER pk1 idtok (w0 ++ u) eq_refl), pb_ret.
  change (is_reserved (tlex idtok)) with false. cbv iota. apply R, Hg.
Qed.

(** * Declarators *)

Definition initK (g : nat) (r1 : list token) : pres (option expr) :=
  if check TEQUAL r1 then pbind (pexpr g (tl r1)) (fun e r => POk (Some e) r []) else POk None r1 [].

Definition declK (l0 : N) (g : nat) (nm : token) (init : option expr) (r2 : list token) : pres (list vdecl) :=
  let d := (tlex nm, init, tline nm) in
  if negb (is_lit_container init) && negb (peek_line r2 =? l0)%N then perr_at r2 PSemiBeforeNewline
  else if check TCOMMA r2 then pbind (pvardecls g l0 (tl r2)) (fun more r3 => POk (d :: more) r3 [])
  else POk [d] r2 [].

Lemma pvardecls_S' g l0 ts :
  pvardecls (S g) l0 ts =
  pbind (consume TIDENTIFIER PExpectVarName ts)
    (fun nm r1 => if is_reserved (tlex nm) then PErr [diag_tok nm PReservedVar]
                  else pbind (initK g r1) (declK l0 g nm)).
Proof. reflexivity. Qed.

Lemma declK_line l0 g nm init y : peek_line y = l0 ->
  declK l0 g nm init y =
  if check TCOMMA y then pbind (pvardecls g l0 (tl y)) (fun more r3 => POk ((tlex nm, init, tline nm) :: more) r3 [])
  else POk [(tlex nm, init, tline nm)] y [].
Proof. intros H. unfold declK. rewrite H, N.eqb_refl. cbn [negb]. rewrite andb_false_r. reflexivity. Qed.

Lemma FNw_declK nm : FNw C_decl C_decl (fun g init r2 => declK eofl g nm init r2) [].
Proof.
  split; [constructor|]. intros u Cu. split; [exact Cu|].
  intros init. exists 0. eexists. intros g _. cbn [app]. rewrite declK_line by apply Cu.
  rewrite (C_args_not_comma _ (proj1 Cu)). reflexivity.
Qed.

Lemma FN_initK : FN C_decl initK [].
Proof.
  split; [constructor|]. intros u Cu. exists 0, None. intros g _. cbn [app]. unfold initK.
  rewrite (C_e_check_eq _ (C_decl_e _ Cu)). reflexivity.
Qed.

Lemma FN_declchain nm : FN C_decl (fun g x => pbind (initK g x) (declK eofl g nm)) [].
Proof.
  apply (FN_bind eofl C_decl C_decl initK (fun g init r2 => declK eofl g nm init r2) [] []);
    [apply FN_initK|apply FNw_declK].
Qed.

Lemma FN_pvardecls : FN C_decl (fun g => pvardecls g eofl) [idtok].
Proof.
  apply FN_shift. eapply FN_ext; [intros g y; rewrite pvardecls_S'; reflexivity|].
  apply (FN_consume_reserved C_decl PExpectVarName PReservedVar (fun g nm r1 => pbind (initK g r1) (declK eofl g nm)) []).
  - constructor.
  - apply FN_declchain.
Qed.

Lemma via_pvardecls : forall f ts, ViaL true C_decl (fun g => pvardecls g eofl) f ts.
Proof.
  induction f as [|f IH]; intros ts; [intros _; apply Via_fuel; reflexivity|].
  apply ViaL_shift. eapply ViaL_ext_all; [intros g y; rewrite pvardecls_S'; reflexivity|].
  apply (via_consume_reserved false C_decl PExpectVarName PReservedVar
           (fun g nm r1 => pbind (initK g r1) (declK eofl g nm)) f ts []); [|apply FN_declchain].
  intros nm r1.
  apply (ViaL_bind eofl true false false C_decl C_decl initK (fun g init r2 => declK eofl g nm init r2) f r1 []).
  - (* the initializer *)
    intros O. destruct (check TEQUAL r1) eqn:Ce.
    + destruct r1 as [|teq r']; [discriminate Ce|]. apply Via_weaken.
      eapply (Via_cons eofl true true C_decl _ (fun g x => pbind (pexpr g x) (fun e r => POk (Some e) r [])) f teq r' [idtok]).
      * intros g x. unfold initK. change (check TEQUAL (teq :: x)) with (check TEQUAL (teq :: r')). rewrite Ce. reflexivity.
      * eapply FN_sub; [apply C_decl_e|]. apply (FN_map eofl C_e (fun g => pexpr g) (@Some expr)), FN_pexpr.
      * eapply Via_sub; [apply C_decl_e|]. apply (Via_map eofl true true C_e (fun g => pexpr g) (@Some expr)), Ie.
    + apply (Via_stop_ok eofl true _ _ None). intros g y [S|Cy]; unfold initK.
      * rewrite (check_samehead TEQUAL _ _ S), Ce. reflexivity.
      * rewrite (C_e_check_eq _ (C_decl_e _ Cy)). reflexivity.
  - (* after the initializer *)
    intros init r2 O2. pose proof (online_peek eofl r2 O2) as L2.
    destruct (check TCOMMA r2) eqn:Cm.
    + destruct r2 as [|tc r']; [discriminate Cm|]. apply Via_weaken.
      eapply (Via_cons eofl true true C_decl _
                (fun g x => pbind (pvardecls g eofl x) (fun more r3 => POk ((tlex nm, init, tline nm) :: more) r3 [])) f tc r' [idtok]).
      * intros g x. rewrite declK_line by exact L2.
        change (check TCOMMA (tc :: x)) with (check TCOMMA (tc :: r')). rewrite Cm. reflexivity.
      * apply (FN_map eofl C_decl (fun g => pvardecls g eofl) (fun more => (tlex nm, init, tline nm) :: more)), FN_pvardecls.
      * apply (Via_map eofl true true C_decl (fun g => pvardecls g eofl) (fun more => (tlex nm, init, tline nm) :: more)).
        apply IH. inversion O2; assumption.
    + apply (Via_stop_ok eofl true _ _ [(tlex nm, init, tline nm)]). intros g y [S|Cy].
      * rewrite declK_line by (rewrite (peek_line_samehead eofl _ _ S); exact L2).
        rewrite (check_samehead TCOMMA _ _ S), Cm. reflexivity.
      * rewrite declK_line by apply Cy. rewrite (C_args_not_comma _ (proj1 Cy)). reflexivity.
  - right. auto.
  - apply FNw_declK.
Qed.

(** * [ধরি] statements (after the keyword) *)

Definition varK (ds : list vdecl) (g : nat) (_s : token) (r2 : list token) : pres stmt :=
  match ds with
  | [d] => POk (SVar d) r2 []
  | _ => POk (SVarList ds) r2 []
  end.
Definition pvarL (g : nat) (x : list token) : pres stmt :=
  pbind (pvardecls g eofl x) (fun ds r1 => pbind (consume TSEMICOLON PSemiAfterVar r1) (varK ds g)).

Lemma pvar_line g x : peek_line x = eofl -> pvar g x = pvarL g x.
Proof. intros H. unfold Parser.pvar, pvarL. rewrite H. reflexivity. Qed.

Lemma varK_ret ds g t r2 : exists s, varK ds g t r2 = POk s r2 [] /\ forall g' t' r', varK ds g' t' r' = POk s r' [].
Proof. destruct ds as [|d [|d2 ds']]; eexists; split; reflexivity. Qed.

Lemma FN_varK ds t : FN C_any (fun g => varK ds g t) [].
Proof.
  split; [constructor|]. intros u _. destruct (varK_ret ds 0 t u) as (s & _ & H). exists 0, s. intros g _. apply H.
Qed.

Lemma FNw_varsemi : FNw C_decl C_any (fun g ds r1 => pbind (consume TSEMICOLON PSemiAfterVar r1) (varK ds g)) [mk TSEMICOLON].
Proof.
  apply FNw_of_FN.
  - apply online1. reflexivity.
  - intros ds. apply (FN_tok eofl C_any TSEMICOLON PSemiAfterVar (fun g => varK ds g) (mk TSEMICOLON) []);
      [reflexivity|reflexivity|constructor|apply FN_varK].
  - intros u _. split; reflexivity.
Qed.

Lemma via_pvar f ts : ViaL true C_any (fun g => pvar g) f ts.
Proof.
  intros O. apply (Via_ext_head eofl true _ _ pvarL).
  { intros g y _ S. apply pvar_line. rewrite (peek_line_samehead eofl _ _ S). apply online_peek, O. }
  revert O. change (ViaL true C_any pvarL f ts).
  apply (ViaL_bind eofl true true true C_decl C_any (fun g => pvardecls g eofl)
           (fun g ds r1 => pbind (consume TSEMICOLON PSemiAfterVar r1) (varK ds g)) f ts [mk TSEMICOLON]).
  - apply via_pvardecls.
  - intros ds r1. apply (ViaL_tok eofl true false C_any TSEMICOLON PSemiAfterVar (fun g => varK ds g) f r1 []).
    + intros t r2 _. destruct (varK_ret ds 0 t r2) as (s & _ & H).
      apply (Via_stop_ok eofl true _ _ s). intros g y _. apply H.
    + constructor.
    + apply FN_varK.
  - left. reflexivity.
  - apply FNw_varsemi.
Qed.

Lemma FN_pvar : FN C_any (fun g => pvar g) [idtok; mk TSEMICOLON].
Proof.
  destruct (FN_bind eofl C_decl C_any (fun g => pvardecls g eofl)
              (fun g ds r1 => pbind (consume TSEMICOLON PSemiAfterVar r1) (varK ds g)) [idtok] [mk TSEMICOLON]
              FN_pvardecls FNw_varsemi) as (O & H).
  split; [exact O|]. intros u Cu. eapply EvOk_ext; [|apply (H u Cu)].
  intros g. apply pvar_line. reflexivity.
Qed.

(** * Parameter lists *)

Definition paramK (g : nat) (n : nat) (p : token) (r1 : list token) : pres (list (list N)) :=
  if check TCOMMA r1 then pbind (pparams g (S n) (tl r1)) (fun more r2 => POk (tlex p :: more) r2 [])
  else POk [tlex p] r1 [].

Lemma pparams_S' g n ts :
  pparams (S g) n ts =
  if Nat.leb max_params n then perr_at ts PTooManyParams
  else pbind (consume TIDENTIFIER PExpectParam ts) (paramK g n).
Proof. reflexivity. Qed.

Lemma paramK_stop g n p u : C_pp u -> paramK g n p u = POk [tlex p] u [].
Proof. intros H. unfold paramK. rewrite H. reflexivity. Qed.

Lemma FN_pparams n : Nat.leb max_params n = false -> FN C_pp (fun g => pparams g n) [idtok].
Proof.
  intros L. split; [apply online1; reflexivity|]. intros u Cu. exists 1. eexists. intros g Hg.
  destruct g as [|g]; [lia|]. rewrite pparams_S', L. cbn [app].
  rewrite (consume_hit eofl TIDENTIFIER _ idtok u eq_refl), pb_ret. apply paramK_stop, Cu.
Qed.

Lemma via_pparams : forall f n ts, Via true C_pp (fun g => pparams g n) f ts.
Proof.
  induction f as [|f IH]; intros n ts; [apply Via_fuel; reflexivity|].
  apply Via_shift. destruct (Nat.leb max_params n) eqn:L.
  { eapply Via_fail_now; [cbv beta; rewrite pparams_S', L; reflexivity|]. rewrite pd_kind_diag_at. reflexivity. }
  eapply Via_ext_all; [intros g y; rewrite pparams_S', L; reflexivity|]. cbv beta.
  apply (Via_bind eofl true true false C_any C_pp (fun _ x => consume TIDENTIFIER PExpectParam x)
           (fun g p r1 => paramK g n p r1) f ts []).
  - apply Via_consume.
  - intros p r1 _ _. destruct (check TCOMMA r1) eqn:Cm.
    + destruct r1 as [|tc r']; [discriminate Cm|]. apply Via_weaken.
      assert (E : forall g x, paramK g n p (tc :: x) = pbind (pparams g (S n) x) (fun more r2 => POk (tlex p :: more) r2 [])).
      { intros g x. unfold paramK. change (check TCOMMA (tc :: x)) with (check TCOMMA (tc :: r')). rewrite Cm. reflexivity. }
      destruct (Nat.leb max_params (S n)) eqn:L2.
      * (* the 256th parameter: diagnosed at the parameter, after the comma *)
        destruct f as [|f']; [apply Via_fuel; rewrite E; reflexivity|].
        eapply (Via_cons_late eofl true C_pp _ _ (S f') tc r' (diag_at r' PTooManyParams) [] eq_refl E).
        -- rewrite pparams_S', L2. reflexivity.
        -- rewrite pd_kind_diag_at. reflexivity.
        -- apply pd_kind_diag_at.
      * eapply (Via_cons eofl true true C_pp _ _ f tc r' [idtok] E).
        -- apply (FN_map eofl C_pp (fun g => pparams g (S n)) (fun more => tlex p :: more)), FN_pparams, L2.
        -- apply (Via_map eofl true true C_pp (fun g => pparams g (S n)) (fun more => tlex p :: more)), IH.
    + apply (Via_stop_ok eofl true _ _ [tlex p]). intros g y [S|Cy]; [|apply paramK_stop, Cy].
      unfold paramK. rewrite (check_samehead TCOMMA _ _ S), Cm. reflexivity.
  - right. intros; exact I.
  - split; [constructor|]. intros u Cu. split; [exact I|]. intros p. exists 0. eexists. intros g _. apply paramK_stop, Cu.
Qed.

Definition optparams (g : nat) (x : list token) : pres (list (list N)) :=
  if check TRIGHT_PAREN x then POk [] x [] else pparams g 0 x.

Lemma C_head_pp u : C_head TRIGHT_PAREN u -> C_pp u.
Proof. destruct u as [|t r]; simpl; [contradiction|]. unfold C_pp. simpl. intros ->. reflexivity. Qed.

Lemma via_optparams f r :
  Via false (C_head TRIGHT_PAREN) optparams f r /\ FN (C_head TRIGHT_PAREN) optparams [].
Proof.
  split.
  - destruct (check TRIGHT_PAREN r) eqn:Ck.
    + apply (Via_stop_ok eofl true _ _ []). intros g y [S|Cy]; unfold optparams.
      * rewrite (check_samehead TRIGHT_PAREN _ _ S), Ck. reflexivity.
      * rewrite (C_head_check _ _ Cy). reflexivity.
    + apply Via_weaken. apply (Via_ext_head eofl true _ _ (fun g => pparams g 0)).
      * intros g y _ S. unfold optparams. rewrite (check_samehead TRIGHT_PAREN _ _ S), Ck. reflexivity.
      * eapply Via_sub; [apply C_head_pp|apply via_pparams].
  - split; [constructor|]. intros u Cu. exists 0, []. intros g _. unfold optparams. cbn [app].
    rewrite (C_head_check _ _ Cu). reflexivity.
Qed.

End ViableStmt.
