(** End-to-end layout invariance (property C18a).

    Blanks, tabs, comments and line breaks between tokens do not change what a program
    prints or whether and why it fails; only the line numbers in diagnostics may differ.
    The one carve-out is the parser's rule that a ধরি declaration stays on one line: a
    line break there makes the parser *reject* the text, so the theorems speak about two
    layouts that are both accepted.

    Composition of
    - [LexerLayout] / [InvFacts.layout_tokens_upto_lines]: white space inserted at an item
      boundary leaves the token list unchanged up to lines;
    - [LayoutParse.parse_agree_upto_lines]: two accepted token lists equal up to lines
      are parsed into the same tree up to line fields;
    - [InvFacts.lines_only_in_diagnostics_prog]: two trees equal up to line fields run
      alike, up to the line in a runtime diagnostic (and the line fields in stored
      function bodies). *)
From Borno Require Import Base Num Unicode Token Lexer Ast Parser Value Eval Cli.
From Borno Require Import ParserTotal Grammar LexerFacts LexerLayout CliFacts InvFacts LayoutParse.
Open Scope N_scope.

(** two runs that differ at most in line numbers: the same kind of outcome, the same
    runtime-error kind, the same final state up to the line fields of stored function
    bodies ([erase_st]); nothing is said when a run is rejected by the front end *)
Definition run_same_but_lines (r r' : run_result) : Prop :=
  match r, r' with
  | RDone s, RDone s' => erase_st s = erase_st s'
  | RRuntime e _ s, RRuntime e' _ s' => e = e' /\ erase_st s = erase_st s'
  | RCrash s, RCrash s' => erase_st s = erase_st s'
  | RFuel, RFuel => True
  | RStuck, RStuck => True
  | _, _ => False
  end.

(** the final state of a run that was executed *)
Definition final_state (r : run_result) : option state :=
  match r with
  | RDone s | RRuntime _ _ s | RCrash s => Some s
  | _ => None
  end.

(** a stderr item without its line *)
Definition item_noline (i : stderr_item) : stderr_item :=
  match i with
  | DLex _ d => DLex 0 d
  | DParse d => DParse (mkPD 0 (pd_where d) (pd_kind d))
  | DRuntime e _ => DRuntime e 0
  | DFileError => DFileError
  | DGoCrash => DGoCrash
  end.

(** what [run_same_but_lines] means for an observer of the process: the same standard
    output, the same unread input, the same exit status, the same standard error up to
    line numbers *)
Lemma run_same_but_lines_obs r r' : run_same_but_lines r r' ->
  match result_streams r, result_streams r' with
  | Some (o, e, st), Some (o', e', st') => o = o' /\ map item_noline e = map item_noline e' /\ st = st'
  | None, None => True
  | _, _ => False
  end /\
  match final_state r, final_state r' with
  | Some s, Some s' => out s = out s' /\ inp s = inp s' /\ erase_st s = erase_st s'
  | None, None => True
  | _, _ => False
  end.
Proof.
  destruct r as [ld pd|s|e l s|s| | |], r' as [ld' pd'|s'|e' l' s'|s'| | |];
    cbn [run_same_but_lines result_streams final_state]; intros H; try contradiction; try (split; exact I).
  - destruct (erase_st_obs _ _ H) as (Ho & Hi & _). rewrite Ho. auto.
  - destruct H as (-> & H). destruct (erase_st_obs _ _ H) as (Ho & Hi & _). rewrite Ho. auto.
  - destruct (erase_st_obs _ _ H) as (Ho & Hi & _). rewrite Ho. auto.
Qed.

Section LayoutRun.
Variable libm : N -> f64 -> f64 -> f64.
Variable clock : f64.
Variable sched : N -> list (list N * value) -> list (list N * value).
Variable fuel : nat.
Notation run_source := (Cli.run_source libm clock sched fuel).

(** the front end accepts the text *)
Definition accepted (src : list N) : Prop :=
  lx_diags (lex src) = [] /\ pr_diags (parse (lx_tokens (lex src)) (lx_eof_line (lex src))) = [].

Lemma accepted_front_ok src : accepted src <-> front_ok src.
Proof. reflexivity. Qed.

Lemma accepted_prog src : accepted src ->
  exists p, pr_prog (parse (lx_tokens (lex src)) (lx_eof_line (lex src))) = Some p.
Proof.
  intros (_ & D).
  destruct (pr_prog (parse (lx_tokens (lex src)) (lx_eof_line (lex src)))) as [p|] eqn:P; [eauto|].
  destruct (parse_none_has_diag _ _ P D).
Qed.

(** an accepted text is executed: the run is not a front-end rejection *)
Lemma accepted_run rp src stdin : accepted src ->
  exists p, pr_prog (parse (lx_tokens (lex src)) (lx_eof_line (lex src))) = Some p /\
  run_source rp src stdin =
    match run_stmts libm clock sched fuel rp p (init_state stdin) with
    | Ok _ s => RDone s
    | Err e l s => RRuntime e l s
    | Crash s => RCrash s
    | Fuel => RFuel
    | Stuck => RStuck
    end.
Proof.
  intros A. destruct (accepted_prog src A) as (p & P). destruct A as (L & D).
  exists p. split; [exact P|].
  unfold Cli.run_source. cbv zeta. rewrite parse_never_out_of_fuel, L, D, P. reflexivity.
Qed.

(** (L3) Two texts with the same tokens up to line numbers, both accepted by the front
    end, run alike: the same kind of outcome (finished / runtime error / crash / out of
    budget), the same runtime-error kind, the same final state -- output, unread input,
    environments, arrays, objects, clock ticks, functions up to line fields. *)
Theorem layout_run_invariant rp a b stdin :
  Forall2 same_upto_line (lx_tokens (lex a)) (lx_tokens (lex b)) ->
  lx_diags (lex a) = [] -> lx_diags (lex b) = [] ->
  pr_diags (parse (lx_tokens (lex a)) (lx_eof_line (lex a))) = [] ->
  pr_diags (parse (lx_tokens (lex b)) (lx_eof_line (lex b))) = [] ->
  run_same_but_lines (run_source rp a stdin) (run_source rp b stdin).
Proof.
  intros HT La Lb Da Db.
  destruct (accepted_run rp a stdin (conj La Da)) as (p & Pp & ->).
  destruct (accepted_run rp b stdin (conj Lb Db)) as (q & Pq & ->).
  pose proof (parse_agree_upto_lines _ _ _ _ p q HT Da Db Pp Pq) as E.
  pose proof (lines_only_in_diagnostics_prog libm clock sched fuel rp p q stdin E) as S.
  destruct (run_stmts libm clock sched fuel rp p (init_state stdin)) as [v s|e l s| | |s],
           (run_stmts libm clock sched fuel rp q (init_state stdin)) as [v' s'|e' l' s'| | |s'];
    cbn [same_but_lines] in S; cbn [run_same_but_lines]; try contradiction; try exact I.
  - destruct S as (_ & S). exact S.
  - exact S.
  - exact S.
Qed.

(** the observable form: the same standard output and exit status, the same standard
    error up to the line number in the runtime diagnostic *)
Corollary layout_run_streams rp a b stdin :
  Forall2 same_upto_line (lx_tokens (lex a)) (lx_tokens (lex b)) ->
  accepted a -> accepted b ->
  match result_streams (run_source rp a stdin), result_streams (run_source rp b stdin) with
  | Some (o, e, st), Some (o', e', st') => o = o' /\ map item_noline e = map item_noline e' /\ st = st'
  | None, None => True
  | _, _ => False
  end.
Proof.
  intros HT (La & Da) (Lb & Db).
  exact (proj1 (run_same_but_lines_obs _ _ (layout_run_invariant rp a b stdin HT La Lb Da Db))).
Qed.

(** the two layouts end with the same output and the same unread input *)
Corollary layout_run_out rp a b stdin :
  Forall2 same_upto_line (lx_tokens (lex a)) (lx_tokens (lex b)) ->
  accepted a -> accepted b ->
  match final_state (run_source rp a stdin), final_state (run_source rp b stdin) with
  | Some s, Some s' => out s = out s' /\ inp s = inp s' /\ erase_st s = erase_st s'
  | None, None => True
  | _, _ => False
  end.
Proof.
  intros HT (La & Da) (Lb & Db).
  exact (proj2 (run_same_but_lines_obs _ _ (layout_run_invariant rp a b stdin HT La Lb Da Db))).
Qed.

(** (L4) One white-space character (blank, tab, carriage return, newline) inserted at
    an item boundary [pre | post] of a text: if the text is lexically clean and the parser
    accepts both layouts, the two runs agree up to line numbers.  (The lexical
    cleanliness of the other layout follows: [layout_lex_ok].) *)
Corollary layout_insert_ws_run rp pre post ia ib w stdin :
  is_ws w ->
  fst (lex_items (pre ++ post)) = ia ++ ib -> concat (map itext ia) = pre ->
  lx_diags (lex (pre ++ post)) = [] ->
  pr_diags (parse (lx_tokens (lex (pre ++ [w] ++ post))) (lx_eof_line (lex (pre ++ [w] ++ post)))) = [] ->
  pr_diags (parse (lx_tokens (lex (pre ++ post))) (lx_eof_line (lex (pre ++ post)))) = [] ->
  run_same_but_lines (run_source rp (pre ++ [w] ++ post) stdin) (run_source rp (pre ++ post) stdin).
Proof.
  intros W H Hp L D' D.
  destruct (layout_tokens_upto_lines pre post ia ib w W H Hp) as (HT & _).
  apply layout_run_invariant; try assumption.
  apply (proj2 (layout_lex_ok pre post ia ib w W H Hp)). exact L.
Qed.

(** the same, stated with the line-free view [strip] of the token lists: an accepted text
    and any accepted text with the same tokens on other lines -- in particular the text
    written on one line -- run alike *)
Corollary layout_run_same_tokens rp a b stdin :
  map strip (lx_tokens (lex a)) = map strip (lx_tokens (lex b)) ->
  accepted a -> accepted b ->
  run_same_but_lines (run_source rp a stdin) (run_source rp b stdin).
Proof.
  intros HT (La & Da) (Lb & Db). apply layout_run_invariant; try assumption.
  apply map_strip_Forall2. exact HT.
Qed.

End LayoutRun.

(* ------------------------------------------------------------------ *)
(** * (L5) An example

    [ধরি x = "a"; দেখাও x+"b";] on one line, and the same program spread over eight lines
    with line comments, block comments (one containing a line break), tabs, doubled
    blanks and an empty line; the ধরি declaration stays on one line (the carve-out):

<<
// h
ধরি  x<TAB>= /* v */ "a" ;  // d
<empty>
<TAB>দেখাও
  x /* x
 y */ +
"b"
;
>>
    (No numerals: a goal that displays a Flocq double takes minutes to normalise.) *)

Definition ex_one_line : list N :=
  [2471;2480;2495;32;120;32;61;32;34;97;34;59;32;2470;2503;2454;2494;2451;32;120;43;34;98;34;59].

Definition ex_spread : list N :=
  [47;47;32;104;10] ++
  [2471;2480;2495;32;32;120;9;61;32;47;42;32;118;32;42;47;32;34;97;34;32;59;32;47;47;32;100;10] ++
  [10;9;2470;2503;2454;2494;2451;10] ++
  [32;32;120;32;47;42;32;120;10;32;121;32;42;47;32;43;10] ++
  [34;98;34;10;59;10].

Section Example.
Variable libm : N -> f64 -> f64 -> f64.
Variable clock : f64.
Variable sched : N -> list (list N * value) -> list (list N * value).

(** the tokens sit on different lines *)
Example ex_lines :
  map tline (lx_tokens (lex ex_one_line)) = [1;1;1;1;1;1;1;1;1;1] /\ lx_eof_line (lex ex_one_line) = 1 /\
  map tline (lx_tokens (lex ex_spread)) = [2;2;2;2;2;4;5;6;7;8] /\ lx_eof_line (lex ex_spread) = 9.
Proof. vm_compute. repeat split; reflexivity. Qed.

(** ... and are otherwise the same *)
Example ex_same_tokens : map strip (lx_tokens (lex ex_one_line)) = map strip (lx_tokens (lex ex_spread)).
Proof. vm_compute. reflexivity. Qed.

(** both layouts are accepted *)
Example ex_accepted : accepted ex_one_line /\ accepted ex_spread.
Proof. unfold accepted. vm_compute. repeat split; reflexivity. Qed.

(** so, by the theorem, they run alike whatever the budget, the mode and the input *)
Example ex_run_alike fuel rp stdin :
  run_same_but_lines (Cli.run_source libm clock sched fuel rp ex_one_line stdin)
                     (Cli.run_source libm clock sched fuel rp ex_spread stdin).
Proof.
  apply layout_run_same_tokens; [exact ex_same_tokens|exact (proj1 ex_accepted)|exact (proj2 ex_accepted)].
Qed.

(** and, by computation, what both print: "ab"; exit status 0, nothing on stderr *)
Example ex_run_output :
  result_streams (Cli.run_source libm clock sched 100 false ex_one_line []) = Some ([EvPrint [97; 98]], [], 0) /\
  result_streams (Cli.run_source libm clock sched 100 false ex_spread []) = Some ([EvPrint [97; 98]], [], 0).
Proof. vm_compute. split; reflexivity. Qed.

End Example.

Print Assumptions accepted_trees_agree_upto_lines.
Print Assumptions parse_agree_upto_lines.
Print Assumptions layout_run_invariant.
Print Assumptions layout_run_streams.
Print Assumptions layout_insert_ws_run.
Print Assumptions ex_run_alike.
