(** Totality and nearness of the shortest-digits search (Model/Num.v).

    Part 1 (TOTALITY).  Seventeen significant digits always suffice: for the rounding
    interval of any double, the search [shortest_from 18 1 ...] (which tries 1, 2, ..., 18
    digits) stops at the latest at 17 digits, so it never runs out of fuel.  Together with
    [shortest_digits_check_redundant] (Proofs/NumShortest.v) this makes [shortest_digits] total
    on finite non-zero doubles and [text_num] total on all doubles.

    Part 2 (NEAREST).  Among the decimals in the rounding interval that have the minimal
    number of significant digits, the one returned is the closest to the double; on an exact
    tie the one whose last digit is even is returned.

    Integer/rational arithmetic only ([Q] as in Proofs/NumShortestDefs.v); Flocq enters only
    through [shortest_digits_check_redundant] and [reads_back_iff_in_interval]. *)
From Coq Require Import ZArith NArith List Bool Lia QArith Qabs Qpower.
From Flocq Require Import Core BinarySingleNaN.
From Borno Require Import Base Num NumFacts NumPrint NumShortestDefs NumShortest.
From Coq Require Import Lqa.
Import ListNotations.
Open Scope Z_scope.

(* ------------------------------------------------------------------ *)
(** * One step of the search, as a function of the digit count *)

(** what [shortest_from] does with [n] digits: [None] = go on with [n + 1] *)
Definition sf_step (lo mid hi den : Z) (incl : bool) (E n : Z) : option (Z * Z) :=
  let s := n - 1 - E in
  let num := fst (sf_frac mid den s) in
  let dn := snd (sf_frac mid den s) in
  let dfl := num / dn in
  let rem := num mod dn in
  let okf := in_interval lo hi den incl dfl (- s) in
  let okc := in_interval lo hi den incl (dfl + 1) (- s) in
  if (rem =? 0) && okf then Some (dfl, - s)
  else if okf && okc then
    (if 2 * rem <? dn then Some (dfl, - s)
     else if dn <? 2 * rem then Some (dfl + 1, - s)
     else if Z.even dfl then Some (dfl, - s) else Some (dfl + 1, - s))
  else if okf then Some (dfl, - s)
  else if okc then Some (dfl + 1, - s)
  else None.

Lemma shortest_from_step : forall fuel n lo mid hi den incl E,
  shortest_from (S fuel) n lo mid hi den incl E =
  match sf_step lo mid hi den incl E n with
  | Some r => Some r
  | None => shortest_from fuel (n + 1) lo mid hi den incl E
  end.
Proof.
  intros fuel n lo mid hi den incl E. rewrite shortest_from_S. unfold sf_step. cbv zeta.
  destruct (sf_frac mid den (n - 1 - E)) as [num dn]. cbn [fst snd].
  repeat match goal with |- context [if ?c then _ else _] => destruct c end; reflexivity.
Qed.

Lemma sf_dfl_eq : forall mid den E n,
  sf_dfl mid den E n = fst (sf_frac mid den (n - 1 - E)) / snd (sf_frac mid den (n - 1 - E)).
Proof. intros mid den E n. unfold sf_dfl. destruct (sf_frac mid den (n - 1 - E)); reflexivity. Qed.

(** a step succeeds as soon as the floor or the ceiling is in the interval *)
Lemma sf_step_ok : forall lo mid hi den incl E n,
  in_interval lo hi den incl (sf_dfl mid den E n) (- (n - 1 - E)) = true \/
  in_interval lo hi den incl (sf_dfl mid den E n + 1) (- (n - 1 - E)) = true ->
  sf_step lo mid hi den incl E n <> None.
Proof.
  intros lo mid hi den incl E n H. rewrite sf_dfl_eq in H. unfold sf_step. cbv zeta.
  set (okf := in_interval lo hi den incl _ _) in *.
  set (okc := in_interval lo hi den incl (_ + 1) _) in *.
  destruct okf, okc; rewrite ?andb_true_r, ?andb_false_r; cbn [andb];
    repeat match goal with |- context [if ?c then _ else _] => destruct c end;
    try discriminate.
  destruct H; discriminate.
Qed.

(** the search finds something if some step within its fuel succeeds *)
Lemma shortest_from_found : forall fuel n lo mid hi den incl E n',
  n <= n' < n + Z.of_nat fuel -> sf_step lo mid hi den incl E n' <> None ->
  shortest_from fuel n lo mid hi den incl E <> None.
Proof.
  induction fuel as [|fuel IH]; intros n lo mid hi den incl E n' Hn Hs; [simpl in Hn; lia|].
  rewrite shortest_from_step.
  destruct (sf_step lo mid hi den incl E n) as [r|] eqn:Es; [discriminate|].
  apply (IH (n + 1) lo mid hi den incl E n'); [|exact Hs].
  destruct (Z.eq_dec n' n) as [->|Hne]; [congruence|]. rewrite Nat2Z.inj_succ in Hn. lia.
Qed.

(* ------------------------------------------------------------------ *)
(** * Part 1: seventeen digits suffice *)

Lemma fr_scale_sub : forall k a b den, 0 < den ->
  (inject_Z k * (fr a den - fr b den) == fr (k * (a - b)) den)%Q.
Proof.
  intros k a b den Hd. unfold fr, Z.sub.
  rewrite inject_Z_mult, inject_Z_plus, inject_Z_opp. field. apply injZ_nz. lia.
Qed.

(** With 17 digits the grid step is 10^(E-16) <= v * 10^-16, while both half-gaps of the
    interval are at least v * 2^-54 > v * 10^-16 / 2: the nearer of the floor and the
    ceiling of v * 10^(16-E) is strictly inside the interval. *)
Lemma step17_Q : forall lo mid hi den incl E, 0 < den ->
  mid <= 2 ^ 54 * (mid - lo) -> mid <= 2 ^ 54 * (hi - mid) ->
  (q10 E <= fr mid den)%Q ->
  in_interval lo hi den incl (sf_dfl mid den E 17) (- (17 - 1 - E)) = true \/
  in_interval lo hi den incl (sf_dfl mid den E 17 + 1) (- (17 - 1 - E)) = true.
Proof.
  intros lo mid hi den incl E Hden Glo Ghi HE.
  destruct (floor_grid mid den E 17 Hden) as [F1 F2]. cbv zeta in F1, F2.
  set (dfl := sf_dfl mid den E 17) in *. set (s := 17 - 1 - E) in *.
  set (v := fr mid den) in *. set (g := q10 (- s)).
  assert (Hg : (0 < g)%Q) by apply q10_pos.
  assert (Ecl : (dq (dfl + 1) (- s) == dq dfl (- s) + g)%Q).
  { unfold dq. fold g. rewrite inject_Z_plus. change (inject_Z 1) with 1%Q. ring. }
  assert (Hvg : (inject_Z (10 ^ 16) * g <= v)%Q).
  { eapply Qle_trans; [|exact HE]. rewrite <- q10_nonneg_Z by lia. unfold g. rewrite <- q10_add.
    replace (16 + - s) with E by (unfold s; lia). apply Qle_refl. }
  assert (Ha : (v <= inject_Z (2 ^ 54) * (v - fr lo den))%Q).
  { unfold v. rewrite fr_scale_sub by exact Hden. apply fr_le; [exact Hden|exact Hden|]. nia. }
  assert (Hb : (v <= inject_Z (2 ^ 54) * (fr hi den - v))%Q).
  { unfold v. rewrite fr_scale_sub by exact Hden. apply fr_le; [exact Hden|exact Hden|]. nia. }
  change (inject_Z (10 ^ 16)) with (10000000000000000 # 1)%Q in Hvg.
  change (inject_Z (2 ^ 54)) with (18014398509481984 # 1)%Q in Ha, Hb.
  set (a := fr lo den) in *. set (b := fr hi den) in *. set (fl := dq dfl (- s)) in *.
  destruct (Qlt_le_dec (fl + g * (1 # 2)) v) as [Hc|Hf].
  - right. apply (in_interval_Q lo hi den incl _ _ Hden). fold a b.
    apply (inI_eq a b incl (fl + g)); [symmetry; exact Ecl|].
    unfold inI. destruct incl; split; lra.
  - left. apply (in_interval_Q lo hi den incl _ _ Hden). fold a b fl.
    unfold inI. destruct incl; split; lra.
Qed.

(** TOTALITY, integers only.  [lo/den < mid/den < hi/den] with both half-gaps at least
    2^-54 of the value (true of the rounding interval of every double, see [interval_gaps])
    and 10^E <= mid/den: the 18-step search started at one digit succeeds. *)
Theorem shortest_from_total_gen : forall lo mid hi den incl E, 0 < den ->
  mid <= 2 ^ 54 * (mid - lo) -> mid <= 2 ^ 54 * (hi - mid) ->
  le10b E mid den = true ->
  shortest_from 18 1 lo mid hi den incl E <> None.
Proof.
  intros lo mid hi den incl E Hden Glo Ghi HE.
  apply (shortest_from_found 18 1 lo mid hi den incl E 17); [simpl; lia|].
  apply sf_step_ok. apply step17_Q; try assumption. apply le10b_Q; assumption.
Qed.

(** the rounding interval of m * 2^e, m < 2^53: each half-gap is at least 2^-54 of the value *)
Lemma interval_gaps : forall m e, Zpos m < 2 ^ 53 ->
  let '(lo, mid, hi, den, incl) := interval m e in
  mid <= 2 ^ 54 * (mid - lo) /\ mid <= 2 ^ 54 * (hi - mid).
Proof.
  intros m e Hm. unfold interval, ratio.
  assert (Hbd : forall u : Z, 0 < u ->
    forall P, P = 4 * Zpos m * u ->
    P <= 2 ^ 54 * (P - (P - (if (Pos.eqb m 4503599627370496 && negb (e =? -1074))%bool then u else 2 * u))) /\
    P <= 2 ^ 54 * (P + 2 * u - P)).
  { intros u Hu P ->. change (2 ^ 54) with 18014398509481984. change (2 ^ 53) with 9007199254740992 in Hm.
    destruct (Pos.eqb_spec m 4503599627370496) as [->|Hne]; cbn [andb].
    - destruct (negb (e =? -1074)); nia.
    - nia. }
  destruct (Z.leb_spec 0 e) as [He|He]; cbn [fst snd].
  - destruct (Z.leb_spec 0 (e - 2)) as [He2|He2].
    + pose proof (pow2_gt0 (e - 2) He2) as Hu.
      rewrite Z.mul_1_r, Z.div_1_r. apply (Hbd _ Hu).
      replace e with (2 + (e - 2)) at 1 by lia. rewrite Z.pow_add_r by lia.
      change (2 ^ 2) with 4. ring.
    + rewrite Z.div_1_r.
      replace (2 * 1) with 2 by lia.
      assert (E4 : 2 ^ e * 2 ^ (2 - e) = 4).
      { rewrite <- Z.pow_add_r by lia. replace (e + (2 - e)) with 2 by lia. reflexivity. }
      specialize (Hbd 1 ltac:(lia) (Zpos m * 2 ^ e * 2 ^ (2 - e))).
      replace (2 * 1) with 2 in Hbd by lia. apply Hbd.
      rewrite <- Z.mul_assoc, E4. ring.
  - assert (E2 : (0 <=? e - 2) = false) by (apply Z.leb_gt; lia). rewrite E2.
    pose proof (pow2_gt0 (- e) ltac:(lia)) as Pq.
    assert (Ed : 2 ^ (2 - e) = 4 * 2 ^ (- e)).
    { replace (2 - e) with (2 + - e) by lia. rewrite Z.pow_add_r by lia. reflexivity. }
    rewrite Ed.
    replace (Z.pos m * (4 * 2 ^ (- e)) / 2 ^ (- e)) with (Z.pos m * 4)
      by (rewrite Z.mul_assoc, Z.div_mul by lia; reflexivity).
    specialize (Hbd 1 ltac:(lia) (Zpos m * 4)).
    replace (2 * 1) with 2 in *  by lia. apply Hbd. ring.
Qed.

(** TOTALITY for the interval of a double (arithmetic side conditions). *)
Theorem shortest_from_total : forall m e, Zpos m < 2 ^ 53 ->
  -1074 <= Z.log2 (Zpos m) + e <= 1023 ->
  let '(lo, mid, hi, den, incl) := interval m e in
  let '(p, q) := ratio m e in
  shortest_from 18 1 lo mid hi den incl (log10_floor p q) <> None.
Proof.
  intros m e Hm Ht.
  pose proof (interval_spec m e) as HI. pose proof (interval_gaps m e Hm) as HG.
  destruct (log10_floor_ratio m e Ht) as (Hq & L1 & _).
  destruct (interval m e) as [[[[lo mid] hi] den] incl].
  destruct (ratio m e) as [p q]. cbn [fst snd] in *.
  destruct HI as (Hden & Hord & _ & Hmid & _). destruct HG as [Glo Ghi].
  apply shortest_from_total_gen; try assumption.
  apply (le10b_Q _ _ _ Hden). apply (le10b_Q _ _ _ Hq) in L1.
  assert (Ev : (fr mid den == fr p q)%Q) by (apply fr_eq; assumption).
  rewrite Ev. exact L1.
Qed.

(** ... and with Flocq's [bounded] *)
Corollary shortest_from_total_bounded : forall m e, SpecFloat.bounded prec emax m e = true ->
  let '(lo, mid, hi, den, incl) := interval m e in
  let '(p, q) := ratio m e in
  shortest_from 18 1 lo mid hi den incl (log10_floor p q) <> None.
Proof.
  intros m e Hb. destruct (bounded_range m e Hb) as (_ & HL & _).
  apply shortest_from_total; [|exact (bounded_log2_range m e Hb)].
  apply Z.log2_lt_pow2; lia.
Qed.

Theorem shortest_candidate_total : forall m e, Zpos m < 2 ^ 53 ->
  -1074 <= Z.log2 (Zpos m) + e <= 1023 ->
  exists d x, shortest_candidate m e = Some (d, x).
Proof.
  intros m e Hm Ht. pose proof (shortest_from_total m e Hm Ht) as H.
  unfold shortest_candidate.
  destruct (interval m e) as [[[[lo mid] hi] den] incl].
  destruct (ratio m e) as [p q].
  destruct (shortest_from 18 1 lo mid hi den incl (log10_floor p q)) as [[d0 x0]|]; [|congruence].
  destruct (strip0 25 d0 x0) as [d x]. exists d, x. reflexivity.
Qed.

(** [shortest_digits] is total on finite non-zero doubles *)
Theorem shortest_digits_total : forall f : f64, is_finite_strict f = true ->
  exists d x, shortest_digits f = Some (d, x).
Proof.
  intros f Hf. destruct f as [s|s| |s m e Hb]; try discriminate.
  destruct (bounded_range m e Hb) as (_ & HL & _).
  destruct (shortest_candidate_total m e) as (d & x & Hc).
  - apply Z.log2_lt_pow2; lia.
  - exact (bounded_log2_range m e Hb).
  - exists d, x. apply shortest_digits_check_redundant. exact Hc.
Qed.

(** [text_num] is total: every double has a printed form *)
Theorem text_num_total : forall f : f64, exists t, text_num f = Some t.
Proof.
  intros f. destruct f as [[|]|[|]| |s m e Hb]; try (eexists; reflexivity).
  destruct (shortest_digits_total (B754_finite s m e Hb) eq_refl) as (d & x & Hd).
  unfold text_num. rewrite Hd.
  destruct (f_to_Z (Babs (B754_finite s m e Hb))) as [z|].
  - destruct (z <? 9007199254740992).
    + destruct (strip0 25 z 0) as [d1 x1]. eexists; reflexivity.
    + eexists; reflexivity.
  - eexists; reflexivity.
Qed.

(* ------------------------------------------------------------------ *)
(** * Part 2: the digits returned are the nearest among the shortest *)

(** the result of the search is the result of the first step that succeeds *)
Lemma shortest_from_first : forall fuel n lo mid hi den incl E r,
  shortest_from fuel n lo mid hi den incl E = Some r ->
  exists n', n <= n' < n + Z.of_nat fuel /\ sf_step lo mid hi den incl E n' = Some r /\
    forall k, n <= k < n' -> sf_step lo mid hi den incl E k = None.
Proof.
  induction fuel as [|fuel IH]; intros n lo mid hi den incl E r H; [discriminate|].
  rewrite shortest_from_step in H. rewrite Nat2Z.inj_succ.
  destruct (sf_step lo mid hi den incl E n) as [r0|] eqn:Es.
  - exists n. split; [lia|]. split; [congruence|]. intros k Hk. lia.
  - destruct (IH _ _ _ _ _ _ _ _ H) as (n' & Hn & Hs & Hp).
    exists n'. split; [lia|]. split; [exact Hs|]. intros k Hk.
    destruct (Z.eq_dec k n) as [->|Hne]; [exact Es|apply Hp; lia].
Qed.

(** what a successful step returns: the floor or the ceiling, inside the interval; the other
    one, if it is inside too, is not nearer; on an exact tie the even one *)
Lemma sf_step_Some : forall lo mid hi den incl E n d x, 0 < den ->
  sf_step lo mid hi den incl E n = Some (d, x) ->
  let s := n - 1 - E in
  let num := fst (sf_frac mid den s) in
  let dn := snd (sf_frac mid den s) in
  let dfl := num / dn in
  let rem := num mod dn in
  let okf := in_interval lo hi den incl dfl (- s) in
  let okc := in_interval lo hi den incl (dfl + 1) (- s) in
  x = - s /\
  ((d = dfl /\ okf = true /\ (okc = true -> 2 * rem <= dn)) \/
   (d = dfl + 1 /\ okc = true /\ (okf = true -> dn <= 2 * rem))) /\
  (okf = true -> okc = true -> 2 * rem = dn -> Z.even d = true).
Proof.
  intros lo mid hi den incl E n d x Hden H. unfold sf_step in H. cbv zeta in H |- *.
  set (s := n - 1 - E) in *.
  pose proof (sf_frac_den_pos mid den s Hden) as Hdn.
  set (num := fst (sf_frac mid den s)) in *. set (dn := snd (sf_frac mid den s)) in *.
  pose proof (Z.mod_pos_bound num dn Hdn) as Hrem.
  set (dfl := num / dn) in *. set (rem := num mod dn) in *.
  set (okf := in_interval lo hi den incl dfl (- s)) in *.
  set (okc := in_interval lo hi den incl (dfl + 1) (- s)) in *.
  destruct okf, okc; rewrite ?andb_true_r, ?andb_false_r in H; cbn [andb] in H.
  - destruct (Z.eqb_spec rem 0) as [R0|R0].
    { inversion H; subst d x. split; [reflexivity|]. split; [left; repeat split; intros; lia|].
      intros _ _ K. lia. }
    destruct (Z.ltb_spec (2 * rem) dn) as [R1|R1].
    { inversion H; subst d x. split; [reflexivity|]. split; [left; repeat split; intros; lia|].
      intros _ _ K. lia. }
    destruct (Z.ltb_spec dn (2 * rem)) as [R2|R2].
    { inversion H; subst d x. split; [reflexivity|]. split; [right; repeat split; intros; lia|].
      intros _ _ K. lia. }
    destruct (Z.even dfl) eqn:Ev.
    + inversion H; subst d x. split; [reflexivity|]. split; [left; repeat split; intros; lia|].
      intros _ _ _. exact Ev.
    + inversion H; subst d x. split; [reflexivity|]. split; [right; repeat split; intros; lia|].
      intros _ _ _. rewrite Z.even_add, Ev. reflexivity.
  - assert (Hd : d = dfl /\ x = - s) by (destruct (rem =? 0); inversion H; auto).
    destruct Hd as [-> ->]. split; [reflexivity|].
    split; [left; repeat split; intros; discriminate|]. intros _ K. discriminate.
  - inversion H; subst d x. split; [reflexivity|].
    split; [right; repeat split; intros; discriminate|]. intros K. discriminate.
  - discriminate.
Qed.

(** the distances from the value to the floor and ceiling grid points, from the remainder *)
Lemma sf_dist : forall mid den E n, 0 < den ->
  let s := n - 1 - E in
  let num := fst (sf_frac mid den s) in
  let dn := snd (sf_frac mid den s) in
  let dfl := num / dn in
  let rem := num mod dn in
  0 < dn /\
  (fr mid den - dq dfl (- s) == fr rem dn * q10 (- s))%Q /\
  (dq (dfl + 1) (- s) - fr mid den == fr (dn - rem) dn * q10 (- s))%Q.
Proof.
  intros mid den E n Hden. cbv zeta. set (s := n - 1 - E).
  pose proof (sf_frac_den_pos mid den s Hden) as Hdn.
  pose proof (sf_frac_Q mid den s Hden) as HW.
  set (num := fst (sf_frac mid den s)) in *. set (dn := snd (sf_frac mid den s)) in *.
  set (dfl := num / dn). set (rem := num mod dn).
  assert (Hnz : ~ (inject_Z dn == 0)%Q) by (apply injZ_nz; lia).
  assert (Ediv : (fr num dn == inject_Z dfl + fr rem dn)%Q).
  { unfold fr. rewrite (Z.div_mod num dn) at 1 by lia. fold dfl rem.
    rewrite inject_Z_plus, inject_Z_mult. field. exact Hnz. }
  assert (E1 : (fr mid den == (inject_Z dfl + fr rem dn) * q10 (- s))%Q).
  { rewrite <- Ediv, <- HW. rewrite <- Qmult_assoc, <- q10_add.
    replace (s + - s) with 0 by lia. change (q10 0) with 1%Q. ring. }
  assert (E2 : (fr (dn - rem) dn == 1 - fr rem dn)%Q).
  { unfold fr, Z.sub. rewrite inject_Z_plus, inject_Z_opp. field. exact Hnz. }
  split; [exact Hdn|]. split.
  - rewrite E1. unfold dq. ring.
  - rewrite E1, E2. unfold dq. rewrite inject_Z_plus. change (inject_Z 1) with 1%Q. ring.
Qed.

Lemma fr_g_le : forall a b dn g, 0 < dn -> (0 < g)%Q ->
  ((fr a dn * g <= fr b dn * g)%Q <-> a <= b).
Proof.
  intros a b dn g Hdn Hg. rewrite Qmult_le_r by exact Hg. rewrite fr_le by exact Hdn.
  split; intro H; nia.
Qed.

(** a decimal with at most n significant digits is not strictly between two adjacent points
    of the n-digit grid (step 10^(E+1-n)) at or above 10^E *)
Lemma grid_sides : forall E n fl c j, 1 <= n -> 10 ^ (n - 1) <= fl -> 0 < c < 10 ^ n ->
  let s := n - 1 - E in
  (dq c j <= dq fl (- s))%Q \/ (dq (fl + 1) (- s) <= dq c j)%Q.
Proof.
  intros E n fl c j Hn Hfl Hc s.
  pose proof (q10_pos (- s)) as Hg.
  destruct (Z_le_gt_dec (- s) j) as [Hj|Hj].
  - assert (Eg : (dq c j == inject_Z (c * 10 ^ (j + s)) * q10 (- s))%Q).
    { unfold dq. rewrite inject_Z_mult. rewrite <- (q10_nonneg_Z (j + s)) by lia.
      rewrite <- Qmult_assoc, <- q10_add. replace (j + s + - s) with j by lia. reflexivity. }
    rewrite Eg. unfold dq.
    destruct (Z_le_gt_dec (c * 10 ^ (j + s)) fl) as [Hle|Hgt].
    + left. apply Qmult_le_compat_r; [|lra]. rewrite <- Zle_Qle. exact Hle.
    + right. apply Qmult_le_compat_r; [|lra]. rewrite <- Zle_Qle. lia.
  - left.
    assert (Hlt : (dq c j <= q10 E)%Q).
    { unfold dq.
      assert (H1 : (inject_Z c <= q10 n)%Q).
      { rewrite q10_nonneg_Z by lia. rewrite <- Zle_Qle. lia. }
      assert (H2 : (q10 j <= q10 (E - n))%Q) by (apply q10_le; unfold s in Hj; lia).
      assert (H3 : (q10 E == q10 n * q10 (E - n))%Q).
      { rewrite <- q10_add. replace (n + (E - n)) with E by lia. reflexivity. }
      rewrite H3.
      apply Qle_trans with (inject_Z c * q10 (E - n))%Q.
      - rewrite !(Qmult_comm (inject_Z c)). apply Qmult_le_compat_r; [exact H2|].
        change 0%Q with (inject_Z 0). rewrite <- Zle_Qle. lia.
      - apply Qmult_le_compat_r; [exact H1|]. pose proof (q10_pos (E - n)). lra. }
    eapply Qle_trans; [exact Hlt|].
    assert (EE : (q10 E == inject_Z (10 ^ (n - 1)) * q10 (- s))%Q).
    { rewrite <- (q10_nonneg_Z (n - 1)) by lia. rewrite <- q10_add.
      replace (n - 1 + - s) with E by (unfold s; lia). reflexivity. }
    rewrite EE. unfold dq. apply Qmult_le_compat_r; [|lra]. rewrite <- Zle_Qle. exact Hfl.
Qed.

Lemma Qabs_below : forall r v : Q, (r <= v)%Q -> (Qabs (r - v) == v - r)%Q.
Proof. intros r v H. rewrite Qabs_neg by lra. ring. Qed.

Lemma Qabs_above : forall r v : Q, (v <= r)%Q -> (Qabs (r - v) == r - v)%Q.
Proof. intros r v H. rewrite Qabs_pos by lra. reflexivity. Qed.

(** Core of Part 2 (rational form).  [d] is the unstripped result of the search. *)
Lemma shortest_from_nearest_core : forall fuel lo mid hi den incl E d x d' x',
  0 < den -> lo < mid < hi ->
  (q10 E <= fr mid den)%Q -> (fr mid den < q10 (E + 1))%Q ->
  shortest_from fuel 1 lo mid hi den incl E = Some (d, x) ->
  0 < d' -> in_interval lo hi den incl d' x' = true -> sigdigits d' <= sigdigits d ->
  (Qabs (dq d x - fr mid den) <= Qabs (dq d' x' - fr mid den))%Q /\
  ((Qabs (dq d x - fr mid den) == Qabs (dq d' x' - fr mid den))%Q ->
   ~ (dq d' x' == dq d x)%Q -> Z.even d = true).
Proof.
  intros fuel lo mid hi den incl E d x d' x' Hden Hord HE1 HE2 H Hd' Hin' Hsig.
  destruct (shortest_from_first _ _ _ _ _ _ _ _ _ H) as (n & Hn & Hs & _).
  pose proof (sf_step_Some lo mid hi den incl E n d x Hden Hs) as HS.
  pose proof (sf_dist mid den E n Hden) as HD.
  destruct (sf_dfl_bounds mid den E n Hden HE1 HE2 ltac:(lia)) as [B1 B2].
  destruct (floor_grid mid den E n Hden) as [G1 G2].
  rewrite sf_dfl_eq in B1, B2, G1, G2.
  cbv zeta in HS, HD, G1, G2.
  set (s := n - 1 - E) in *.
  set (num := fst (sf_frac mid den s)) in *. set (dn := snd (sf_frac mid den s)) in *.
  set (dfl := num / dn) in *. set (rem := num mod dn) in *.
  set (v := fr mid den) in *. set (a := fr lo den). set (b := fr hi den).
  set (fl := dq dfl (- s)) in *. set (cl := dq (dfl + 1) (- s)) in *.
  pose proof (q10_pos (- s)) as Hg. set (g := q10 (- s)) in *.
  destruct HS as (Hx & Hcase & Htie). destruct HD as (Hdn & D1 & D2).
  assert (Hv : inI a b incl v).
  { unfold inI, v, a, b. destruct incl; rewrite ?fr_le, ?fr_lt by lia; nia. }
  pose proof (pow10_gt0 (n - 1) ltac:(lia)) as Hp.
  assert (Hd0 : 0 < d <= 10 ^ n) by (destruct Hcase as [(-> & _)|(-> & _)]; lia).
  assert (Hk : sigdigits d' <= n).
  { eapply Z.le_trans; [exact Hsig|]. apply sigdigits_le; [lia|exact Hd0]. }
  destruct (sigdigits_decomp d' Hd') as (c & j & Hj & Ed' & Hc & Hk1).
  assert (Hcn : 0 < c < 10 ^ n).
  { split; [lia|]. eapply Z.lt_le_trans; [apply (proj2 Hc)|]. apply Z.pow_le_mono_r; lia. }
  set (r' := dq d' x') in *.
  assert (Er' : (r' == dq c (j + x'))%Q).
  { unfold r', dq. rewrite Ed', inject_Z_mult, q10_add, <- (q10_nonneg_Z j) by exact Hj. ring. }
  assert (Hr' : inI a b incl r').
  { apply (in_interval_Q lo hi den incl d' x' Hden). exact Hin'. }
  assert (Qf : in_interval lo hi den incl dfl (- s) = true <-> inI a b incl fl)
    by (apply in_interval_Q; exact Hden).
  assert (Qc : in_interval lo hi den incl (dfl + 1) (- s) = true <-> inI a b incl cl)
    by (apply in_interval_Q; exact Hden).
  assert (Hside : (r' <= fl)%Q \/ (cl <= r')%Q).
  { destruct (grid_sides E n dfl c (j + x') ltac:(lia) B1 Hcn) as [K|K]; fold s fl cl in K.
    - left. rewrite Er'. exact K.
    - right. rewrite Er'. exact K. }
  subst x.
  destruct Hside as [Sd|Sd].
  - (* d' is at or below the floor: the floor is inside *)
    assert (Of : in_interval lo hi den incl dfl (- s) = true).
    { apply Qf. apply (inI_convex a b incl r' v); [exact Hr'|exact Hv|exact Sd|exact G1]. }
    destruct Hcase as [(-> & _ & _)|(-> & Oc & Hrem)]; fold fl cl.
    + rewrite (Qabs_below fl v) by exact G1. rewrite (Qabs_below r' v) by lra.
      split; [lra|]. intros Heq Hne. exfalso. apply Hne. lra.
    + specialize (Hrem Of).
      assert (L : (cl - v <= v - fl)%Q).
      { rewrite D1, D2. apply fr_g_le; [exact Hdn|exact Hg|lia]. }
      rewrite (Qabs_above cl v) by lra. rewrite (Qabs_below r' v) by lra.
      split; [lra|]. intros Heq _. apply (Htie Of Oc).
      assert (L2 : (v - fl <= cl - v)%Q) by lra.
      rewrite D1, D2 in L2. apply fr_g_le in L2; [lia|exact Hdn|exact Hg].
  - (* d' is at or above the ceiling: the ceiling is inside *)
    assert (Oc : in_interval lo hi den incl (dfl + 1) (- s) = true).
    { apply Qc. apply (inI_convex a b incl v r'); [exact Hv|exact Hr'|lra|exact Sd]. }
    destruct Hcase as [(-> & Of & Hrem)|(-> & _ & _)]; fold fl cl.
    + specialize (Hrem Oc).
      assert (L : (v - fl <= cl - v)%Q).
      { rewrite D1, D2. apply fr_g_le; [exact Hdn|exact Hg|lia]. }
      rewrite (Qabs_below fl v) by exact G1. rewrite (Qabs_above r' v) by lra.
      split; [lra|]. intros Heq _. apply (Htie Of Oc).
      assert (L2 : (cl - v <= v - fl)%Q) by lra.
      rewrite D1, D2 in L2. apply fr_g_le in L2; [lia|exact Hdn|exact Hg].
    + rewrite (Qabs_above cl v) by lra. rewrite (Qabs_above r' v) by lra.
      split; [lra|]. intros Heq Hne. exfalso. apply Hne. lra.
Qed.

(** NEAREST, rational form.  Side conditions as in [shortest_from_minimal_Q]. *)
Theorem shortest_from_nearest_Q : forall fuel lo mid hi den incl E d x d' x',
  0 < den -> lo < mid < hi ->
  (q10 E <= fr mid den)%Q -> (fr mid den < q10 (E + 1))%Q ->
  shortest_from fuel 1 lo mid hi den incl E = Some (d, x) ->
  0 < d' -> in_interval lo hi den incl d' x' = true -> sigdigits d' <= sigdigits d ->
  (Qabs (dq d x - fr mid den) <= Qabs (dq d' x' - fr mid den))%Q.
Proof.
  intros fuel lo mid hi den incl E d x d' x' Hden Hord HE1 HE2 H Hd' Hin' Hsig.
  exact (proj1 (shortest_from_nearest_core fuel lo mid hi den incl E d x d' x'
                  Hden Hord HE1 HE2 H Hd' Hin' Hsig)).
Qed.

(** NEAREST, with the side conditions of [shortest_from_minimal] (the model's own tests):
    if the search returns (d, x), every decimal d' * 10^x' of the interval with no more
    significant digits than d (hence, by minimality, exactly as many) is at least as far
    from the value mid/den as d * 10^x is. *)
Theorem shortest_from_nearest : forall fuel lo mid hi den incl E d x d' x',
  0 < den -> lo < mid < hi ->
  le10b E mid den = true -> lt10b (E + 1) mid den = true ->
  shortest_from fuel 1 lo mid hi den incl E = Some (d, x) ->
  0 < d' -> in_interval lo hi den incl d' x' = true -> sigdigits d' <= sigdigits d ->
  (Qabs (dq d x - fr mid den) <= Qabs (dq d' x' - fr mid den))%Q.
Proof.
  intros fuel lo mid hi den incl E d x d' x' Hden Hord HE1 HE2.
  apply shortest_from_nearest_Q; try assumption.
  - apply le10b_Q; assumption.
  - apply lt10b_Q; assumption.
Qed.

(** TIES: if a different decimal of the interval with no more significant digits is exactly
    as near, the digits returned (before trailing zeros are stripped) are even. *)
Theorem shortest_from_tie_even : forall fuel lo mid hi den incl E d x d' x',
  0 < den -> lo < mid < hi ->
  le10b E mid den = true -> lt10b (E + 1) mid den = true ->
  shortest_from fuel 1 lo mid hi den incl E = Some (d, x) ->
  0 < d' -> in_interval lo hi den incl d' x' = true -> sigdigits d' <= sigdigits d ->
  (Qabs (dq d x - fr mid den) == Qabs (dq d' x' - fr mid den))%Q ->
  ~ (dq d' x' == dq d x)%Q -> Z.even d = true.
Proof.
  intros fuel lo mid hi den incl E d x d' x' Hden Hord HE1 HE2 H Hd' Hin' Hsig.
  apply (le10b_Q _ _ _ Hden) in HE1. apply (lt10b_Q _ _ _ Hden) in HE2.
  exact (proj2 (shortest_from_nearest_core fuel lo mid hi den incl E d x d' x'
                  Hden Hord HE1 HE2 H Hd' Hin' Hsig)).
Qed.

(* ------------------------------------------------------------------ *)
(** * The same with integers only (cross-multiplied) *)

(** |d*10^x - mid/den| = dec_err / (snd (decfrac d x) * den) *)
Definition dec_err (mid den d x : Z) : Z :=
  Z.abs (fst (decfrac d x) * den - mid * snd (decfrac d x)).

Lemma Qabs_fr : forall n p, 0 < p -> (Qabs (fr n p) == fr (Z.abs n) p)%Q.
Proof.
  intros n p Hp. destruct p as [|p|p]; try lia.
  unfold fr, Qdiv, Qinv, Qmult, inject_Z, Qabs, Qeq. cbn [Qnum Qden].
  rewrite !Z.mul_1_r. reflexivity.
Qed.

Lemma dec_err_Q : forall mid den d x, 0 < den ->
  (Qabs (dq d x - fr mid den) == fr (dec_err mid den d x) (snd (decfrac d x) * den))%Q.
Proof.
  intros mid den d x Hden. pose proof (decfrac_den_pos d x) as Hb.
  unfold dec_err. rewrite <- Qabs_fr by nia. apply Qabs_wd.
  rewrite dq_fr. unfold fr, Z.sub.
  rewrite inject_Z_plus, inject_Z_opp, !inject_Z_mult.
  field. split; apply injZ_nz; lia.
Qed.

(** NEAREST, integers only: with (a, b) = [decfrac d x] (d*10^x = a/b) and (a', b') likewise,
    |a*den - mid*b| * b' <= |a'*den - mid*b'| * b. *)
Theorem shortest_from_nearest_Z : forall fuel lo mid hi den incl E d x d' x',
  0 < den -> lo < mid < hi ->
  le10b E mid den = true -> lt10b (E + 1) mid den = true ->
  shortest_from fuel 1 lo mid hi den incl E = Some (d, x) ->
  0 < d' -> in_interval lo hi den incl d' x' = true -> sigdigits d' <= sigdigits d ->
  dec_err mid den d x * snd (decfrac d' x') <= dec_err mid den d' x' * snd (decfrac d x).
Proof.
  intros fuel lo mid hi den incl E d x d' x' Hden Hord HE1 HE2 H Hd' Hin' Hsig.
  pose proof (shortest_from_nearest fuel lo mid hi den incl E d x d' x'
                Hden Hord HE1 HE2 H Hd' Hin' Hsig) as HN.
  rewrite !dec_err_Q in HN by exact Hden.
  pose proof (decfrac_den_pos d x) as Hb. pose proof (decfrac_den_pos d' x') as Hb'.
  assert (P1 : 0 < snd (decfrac d x) * den) by nia.
  assert (P2 : 0 < snd (decfrac d' x') * den) by nia.
  apply (proj1 (fr_le _ _ _ _ P1 P2)) in HN.
  apply (Z.mul_le_mono_pos_r _ _ den Hden). lia.
Qed.

(* ------------------------------------------------------------------ *)
(** * Trailing zeros of the result *)

Lemma sf_step_None : forall lo mid hi den incl E k,
  sf_step lo mid hi den incl E k = None ->
  in_interval lo hi den incl (sf_dfl mid den E k) (- (k - 1 - E)) = false /\
  in_interval lo hi den incl (sf_dfl mid den E k + 1) (- (k - 1 - E)) = false.
Proof.
  intros lo mid hi den incl E k H.
  pose proof (sf_step_ok lo mid hi den incl E k) as Hok.
  destruct (in_interval lo hi den incl (sf_dfl mid den E k) (- (k - 1 - E))) eqn:Ef;
  destruct (in_interval lo hi den incl (sf_dfl mid den E k + 1) (- (k - 1 - E))) eqn:Ec;
  try (exfalso; apply Hok; [solve [auto]|exact H]).
  split; reflexivity.
Qed.

(** The digits found end in a non-zero digit, unless the search stopped at one digit (where
    the ceiling may be 10). *)
Lemma shortest_from_no_trailing_zero : forall fuel lo mid hi den incl E d x,
  0 < den -> lo < mid < hi ->
  (q10 E <= fr mid den)%Q -> (fr mid den < q10 (E + 1))%Q ->
  shortest_from fuel 1 lo mid hi den incl E = Some (d, x) ->
  d mod 10 <> 0 \/ 1 <= d <= 10.
Proof.
  intros fuel lo mid hi den incl E d x Hden Hord HE1 HE2 H.
  destruct (shortest_from_first _ _ _ _ _ _ _ _ _ H) as (n & Hn & Hs & Hprev).
  pose proof (sf_step_Some lo mid hi den incl E n d x Hden Hs) as HS.
  destruct (sf_dfl_bounds mid den E n Hden HE1 HE2 ltac:(lia)) as [B1 B2].
  rewrite sf_dfl_eq in B1, B2. cbv zeta in HS.
  set (s := n - 1 - E) in *.
  set (dfl := fst (sf_frac mid den s) / snd (sf_frac mid den s)) in *.
  destruct HS as (Hx & Hcase & _).
  destruct (Z.eq_dec n 1) as [->|Hn1].
  - right. change (10 ^ (1 - 1)) with 1 in B1. change (10 ^ 1) with 10 in B2.
    destruct Hcase as [(-> & _)|(-> & _)]; lia.
  - left. intro Hmod.
    assert (Hin : in_interval lo hi den incl d (- s) = true)
      by (destruct Hcase as [(-> & K & _)|(-> & K & _)]; exact K).
    pose proof (Z.div_mod d 10 ltac:(lia)) as Hdm. rewrite Hmod in Hdm.
    set (a := fr lo den). set (b := fr hi den). set (v := fr mid den) in *.
    assert (Hv : inI a b incl v).
    { unfold inI, v, a, b. destruct incl; rewrite ?fr_le, ?fr_lt by lia; nia. }
    destruct (sf_step_None _ _ _ _ _ _ _ (Hprev (n - 1) ltac:(lia))) as [Nf Nc].
    destruct (floor_grid mid den E (n - 1) Hden) as [G1 G2]. cbv zeta in G1, G2. fold v in G1, G2.
    replace (n - 1 - 1 - E) with (s - 1) in * by (unfold s; lia).
    apply (grid_none a b incl v Hv (q10 (- (s - 1))) (sf_dfl mid den E (n - 1)) (q10_pos _) G1 G2)
      with (t := d / 10).
    + intro K. apply (in_interval_Q lo hi den incl _ _ Hden) in K. congruence.
    + intro K. apply (in_interval_Q lo hi den incl _ _ Hden) in K. congruence.
    + apply (in_interval_Q lo hi den incl _ _ Hden) in Hin. fold a b in Hin.
      apply (inI_eq a b incl (dq d (- s))); [|exact Hin].
      unfold dq. replace (- (s - 1)) with (1 + - s) by lia. rewrite q10_add.
      replace d with (d / 10 * 10) at 1 by lia. rewrite inject_Z_mult.
      change (q10 1) with (inject_Z 10). ring.
Qed.

(* ------------------------------------------------------------------ *)
(** * Doubles *)

(** the exact absolute value of a finite double as a rational *)
Definition f64_absQ (f : f64) : Q :=
  match f with
  | B754_finite _ m e _ => fr (fst (ratio m e)) (snd (ratio m e))
  | _ => 0%Q
  end.

(** what [shortest_candidate m e = Some (d, x)] unfolds to, with all side conditions *)
Lemma shortest_candidate_inv : forall m e d x,
  -1074 <= Z.log2 (Zpos m) + e <= 1023 ->
  shortest_candidate m e = Some (d, x) ->
  let '(lo, mid, hi, den, incl) := interval m e in
  let v := fr (fst (ratio m e)) (snd (ratio m e)) in
  exists E d0 x0,
    0 < den /\ lo < mid < hi /\ (fr mid den == v)%Q /\
    (q10 E <= fr mid den)%Q /\ (fr mid den < q10 (E + 1))%Q /\
    shortest_from 18 1 lo mid hi den incl E = Some (d0, x0) /\
    strip0 25 d0 x0 = (d, x) /\ 0 < d0.
Proof.
  intros m e d x Ht H. unfold shortest_candidate in H.
  pose proof (interval_spec m e) as HI.
  destruct (log10_floor_ratio m e Ht) as (Hq & L1 & L2).
  destruct (interval m e) as [[[[lo mid] hi] den] incl].
  destruct (ratio m e) as [p q]. cbn [fst snd] in *.
  destruct HI as (Hden & Hord & _ & Hmid & _).
  set (E := log10_floor p q) in *.
  destruct (shortest_from 18 1 lo mid hi den incl E) as [[d0 x0]|] eqn:Es; [|discriminate].
  pose proof (Some_inj _ _ _ H) as Hs. clear H.
  assert (Ev : (fr mid den == fr p q)%Q) by (apply fr_eq; assumption).
  apply (le10b_Q _ _ _ Hq) in L1. apply (lt10b_Q _ _ _ Hq) in L2.
  rewrite <- Ev in L1, L2.
  destruct (shortest_from_minimal_Q 18 lo mid hi den incl E d0 x0 Hden Hord L1 L2 Es) as (Hd0 & _).
  exists E, d0, x0. auto 10.
Qed.

(** NEAREST for the candidate digits of m * 2^e (arithmetic side condition). *)
Theorem shortest_candidate_nearest : forall m e d x d' x',
  -1074 <= Z.log2 (Zpos m) + e <= 1023 ->
  shortest_candidate m e = Some (d, x) ->
  let '(lo, mid, hi, den, incl) := interval m e in
  let v := fr (fst (ratio m e)) (snd (ratio m e)) in
  0 < d' -> in_interval lo hi den incl d' x' = true -> sigdigits d' <= sigdigits d ->
  (Qabs (dq d x - v) <= Qabs (dq d' x' - v))%Q /\
  ((Qabs (dq d x - v) == Qabs (dq d' x' - v))%Q -> ~ (dq d' x' == dq d x)%Q ->
   Z.even d = true \/ d = 1).
Proof.
  intros m e d x d' x' Ht H.
  pose proof (shortest_candidate_inv m e d x Ht H) as HI.
  destruct (interval m e) as [[[[lo mid] hi] den] incl]. cbv zeta in HI |- *.
  destruct HI as (E & d0 & x0 & Hden & Hord & Ev & L1 & L2 & Es & Hs & Hd0).
  intros Hd' Hin' Hsig.
  rewrite (sigdigits_strip0 25 d0 x0 d x Hd0 Hs) in Hsig.
  pose proof (strip0_dq 25 d0 x0 d x Hs) as Edq.
  destruct (shortest_from_nearest_core 18 lo mid hi den incl E d0 x0 d' x'
              Hden Hord L1 L2 Es Hd' Hin' Hsig) as [HN HT].
  rewrite <- Ev. rewrite Edq. split; [exact HN|].
  intros Heq Hne. specialize (HT Heq Hne).
  destruct (shortest_from_no_trailing_zero 18 lo mid hi den incl E d0 x0 Hden Hord L1 L2 Es)
    as [Hnz|Hsmall].
  - (* nothing to strip *)
    left. cbn [strip0] in Hs.
    assert (Eb : (d0 mod 10 =? 0) = false) by (apply Z.eqb_neq; exact Hnz).
    rewrite Eb in Hs. cbn [andb] in Hs. inversion Hs. subst d. exact HT.
  - (* one digit: 1..10, even *)
    destruct (Z.eq_dec d0 10) as [->|N10].
    + right. vm_compute in Hs. inversion Hs. reflexivity.
    + left. cbn [strip0] in Hs.
      assert (Eb : (d0 mod 10 =? 0) = false).
      { apply Z.eqb_neq. rewrite Z.mod_small by lia. lia. }
      rewrite Eb in Hs. cbn [andb] in Hs. inversion Hs. subst d. exact HT.
Qed.

(** NEAREST for the printed digits of a double: among the decimals of the rounding interval
    of |f| with no more significant digits than the printed one (by
    [shortest_digits_minimal_interval]: with exactly as many), none is nearer to |f|. *)
Theorem shortest_digits_nearest : forall (f : f64) d x d' x',
  shortest_digits f = Some (d, x) -> 0 < d' ->
  in_f64_interval f d' x' = true -> sigdigits d' <= sigdigits d ->
  (Qabs (dq d x - f64_absQ f) <= Qabs (dq d' x' - f64_absQ f))%Q.
Proof.
  intros f d x d' x' H Hd' Hin' Hsig. destruct f as [s|s| |s m e Hb]; try discriminate.
  cbn [shortest_digits] in H.
  destruct (shortest_candidate m e) as [[d0 x0]|] eqn:Ec; [|discriminate].
  destruct (f_same (dec_to_f64 d0 x0) (Babs (B754_finite s m e Hb))); [|discriminate].
  injection H as -> ->.
  pose proof (shortest_candidate_nearest m e d x d' x' (bounded_log2_range m e Hb) Ec) as HN.
  cbn [in_f64_interval] in Hin'. cbn [f64_absQ].
  destruct (interval m e) as [[[[lo mid] hi] den] incl]. cbv zeta in HN.
  exact (proj1 (HN Hd' Hin' Hsig)).
Qed.

(** TIES for a double: if another decimal of the interval with no more significant digits is
    exactly as near to |f|, the printed digits are even (or the single digit 1, standing for a
    rounded-up 10; this does not happen for the interval of a double, but excluding it needs a
    divisibility argument that is not done here). *)
Theorem shortest_digits_tie_even : forall (f : f64) d x d' x',
  shortest_digits f = Some (d, x) -> 0 < d' ->
  in_f64_interval f d' x' = true -> sigdigits d' <= sigdigits d ->
  (Qabs (dq d x - f64_absQ f) == Qabs (dq d' x' - f64_absQ f))%Q ->
  ~ (dq d' x' == dq d x)%Q -> Z.even d = true \/ d = 1.
Proof.
  intros f d x d' x' H Hd' Hin' Hsig. destruct f as [s|s| |s m e Hb]; try discriminate.
  cbn [shortest_digits] in H.
  destruct (shortest_candidate m e) as [[d0 x0]|] eqn:Ec; [|discriminate].
  destruct (f_same (dec_to_f64 d0 x0) (Babs (B754_finite s m e Hb))); [|discriminate].
  injection H as -> ->.
  pose proof (shortest_candidate_nearest m e d x d' x' (bounded_log2_range m e Hb) Ec) as HN.
  cbn [in_f64_interval] in Hin'. cbn [f64_absQ].
  destruct (interval m e) as [[[[lo mid] hi] den] incl]. cbv zeta in HN.
  exact (proj2 (HN Hd' Hin' Hsig)).
Qed.

(** NEAREST, reads-back form: among the positive decimals that the correctly rounded reader
    [dec_to_f64] maps to |f| and that have no more significant digits than the printed one,
    none is nearer to |f|.  (By [shortest_digits_minimal] none has fewer digits.) *)
Theorem shortest_digits_nearest_reads_back : forall (f : f64) d x d' x',
  shortest_digits f = Some (d, x) -> 0 < d' ->
  f_same (dec_to_f64 d' x') (Babs f) = true -> sigdigits d' <= sigdigits d ->
  (Qabs (dq d x - f64_absQ f) <= Qabs (dq d' x' - f64_absQ f))%Q.
Proof.
  intros f d x d' x' H Hd' Hrb Hsig.
  apply (shortest_digits_nearest f d x d' x' H Hd'); [|exact Hsig].
  apply reads_back_iff_in_interval; [|exact Hd'|exact Hrb].
  destruct f; try discriminate. reflexivity.
Qed.

(* ------------------------------------------------------------------ *)
(** * At most 17 digits *)

(** the search stops at 17 digits at the latest *)
Lemma shortest_from_le17 : forall fuel lo mid hi den incl E d x, 0 < den ->
  mid <= 2 ^ 54 * (mid - lo) -> mid <= 2 ^ 54 * (hi - mid) ->
  (q10 E <= fr mid den)%Q -> (fr mid den < q10 (E + 1))%Q ->
  shortest_from fuel 1 lo mid hi den incl E = Some (d, x) ->
  0 < d <= 10 ^ 17.
Proof.
  intros fuel lo mid hi den incl E d x Hden Glo Ghi HE1 HE2 H.
  destruct (shortest_from_first _ _ _ _ _ _ _ _ _ H) as (n & Hn & Hs & Hprev).
  assert (Hn17 : n <= 17).
  { destruct (Z_le_gt_dec n 17) as [K|K]; [exact K|exfalso].
    apply (sf_step_ok lo mid hi den incl E 17); [|apply Hprev; lia].
    apply step17_Q; assumption. }
  pose proof (sf_step_Some lo mid hi den incl E n d x Hden Hs) as HS. cbv zeta in HS.
  destruct (sf_dfl_bounds mid den E n Hden HE1 HE2 ltac:(lia)) as [B1 B2].
  rewrite sf_dfl_eq in B1, B2.
  pose proof (pow10_gt0 (n - 1) ltac:(lia)) as Hp.
  assert (Hle : 10 ^ n <= 10 ^ 17) by (apply Z.pow_le_mono_r; lia).
  destruct HS as (_ & [(-> & _)|(-> & _)] & _); lia.
Qed.

(** the printed digits of a double have at most 17 significant digits *)
Theorem shortest_digits_le17 : forall (f : f64) d x,
  shortest_digits f = Some (d, x) -> sigdigits d <= 17 /\ 0 < d < 10 ^ 17.
Proof.
  intros f d x H. pose proof (shortest_digits_stripped f d x H) as [Hm10 _].
  destruct f as [s|s| |s m e Hb]; try discriminate.
  cbn [shortest_digits] in H.
  destruct (shortest_candidate m e) as [[d1 x1]|] eqn:Ec; [|discriminate].
  destruct (f_same (dec_to_f64 d1 x1) (Babs (B754_finite s m e Hb))); [|discriminate].
  injection H as -> ->.
  pose proof (shortest_candidate_inv m e d x (bounded_log2_range m e Hb) Ec) as HI.
  destruct (bounded_range m e Hb) as (_ & HL & _).
  assert (Hm : Zpos m < 2 ^ 53) by (apply Z.log2_lt_pow2; lia).
  pose proof (interval_gaps m e Hm) as HG.
  destruct (interval m e) as [[[[lo mid] hi] den] incl]. cbv zeta in HI.
  destruct HI as (E & d0 & x0 & Hden & Hord & Ev & L1 & L2 & Es & Hs & Hd0).
  destruct HG as [Glo Ghi].
  pose proof (shortest_from_le17 18 lo mid hi den incl E d0 x0 Hden Glo Ghi L1 L2 Es) as H17.
  rewrite (sigdigits_strip0 25 d0 x0 d x Hd0 Hs).
  split; [apply sigdigits_le; [lia|exact H17]|].
  assert (Hfuel : 0 < d0 < 10 ^ Z.of_nat 25).
  { split; [exact Hd0|]. eapply Z.le_lt_trans; [apply (proj2 H17)|]. vm_compute. reflexivity. }
  destruct (strip0_full 25 d0 x0 d x Hfuel Hs) as (j & Hj & _ & Ed & Hdpos & _).
  split; [exact Hdpos|].
  pose proof (pow10_gt0 j Hj) as Hpj.
  assert (Hle : d <= 10 ^ 17) by nia.
  destruct (Z.eq_dec d (10 ^ 17)) as [K|K]; [|lia].
  exfalso. apply Hm10. rewrite K. vm_compute. reflexivity.
Qed.

(* ------------------------------------------------------------------ *)
(** * Examples (by computation) *)

(** "5e-324", the smallest subnormal *)
Example text_min_subnormal : text_num (f_of_bits 1) = Some [53;101;45;51;50;52]%N.
Proof. vm_compute. reflexivity. Qed.
(** "0.1" *)
Example text_0_1 : text_num (f_of_bits 4591870180066957722) = Some [48;46;49]%N.
Proof. vm_compute. reflexivity. Qed.
(** "1e+21" *)
Example text_1e21 : text_num (f_of_bits 4921056587992461136) = Some [49;101;43;50;49]%N.
Proof. vm_compute. reflexivity. Qed.
(** "1.23456789e+08" (integer fast path) *)
Example text_123456789 :
  text_num (f_of_Z 123456789) = Some [49;46;50;51;52;53;54;55;56;57;101;43;48;56]%N.
Proof. vm_compute. reflexivity. Qed.
(** "1.7976931348623157e+308": the largest double needs all 17 digits *)
Example text_max :
  text_num (f_of_bits 9218868437227405311) =
  Some [49;46;55;57;55;54;57;51;49;51;52;56;54;50;51;49;53;55;101;43;51;48;56]%N.
Proof. vm_compute. reflexivity. Qed.
(** "-2.2250738585072014e-308": minus the smallest normal double, a binade boundary *)
Example text_neg_min_normal :
  text_num (f_of_bits (2 ^ 63 + 4503599627370496)) =
  Some [45;50;46;50;50;53;48;55;51;56;53;56;53;48;55;50;48;49;52;101;45;51;48;56]%N.
Proof. vm_compute. reflexivity. Qed.

(** A genuine tie: (2^52 + 1) / 4 = 1125899906842624.25.  With 17 digits the floor ...24.2 and
    the ceiling ...24.3 are both in the rounding interval and equally near; the even one is
    returned.  (Go prints 1.1258999068426242e+15.) *)
Example tie_example :
  shortest_candidate 4503599627370497 (-2) = Some (11258999068426242, -1) /\
  (let '(lo, mid, hi, den, incl) := interval 4503599627370497 (-2) in
   in_interval lo hi den incl 11258999068426242 (-1) = true /\
   in_interval lo hi den incl 11258999068426243 (-1) = true /\
   dec_err mid den 11258999068426242 (-1) = dec_err mid den 11258999068426243 (-1)).
Proof. vm_compute. repeat split; reflexivity. Qed.

(** the nearer of the two is taken when there is no tie: 2^-1073 = 9.88e-324 prints as 1e-323
    although 9e-324 is in the interval too *)
Example nearer_example :
  shortest_digits (f_of_bits 2) = Some (1, -323) /\
  in_f64_interval (f_of_bits 2) 9 (-324) = true.
Proof. vm_compute. split; reflexivity. Qed.

Print Assumptions shortest_from_total_gen.
Print Assumptions shortest_from_total.
Print Assumptions shortest_candidate_total.
Print Assumptions shortest_from_nearest.
Print Assumptions shortest_from_tie_even.
Print Assumptions shortest_from_nearest_Z.
Print Assumptions shortest_candidate_nearest.
Print Assumptions shortest_digits_total.
Print Assumptions text_num_total.
Print Assumptions shortest_digits_nearest.
Print Assumptions shortest_digits_nearest_reads_back.
Print Assumptions shortest_digits_le17.
