(** Property C15 -- the print statement renders each value faithfully: one output event
    per statement, carrying the text of the value; strings as their characters; nil,
    booleans; numbers exactly as [+] splices them; arrays and objects with all their
    elements / properties in order.  (The driver writes the event's text followed by a
    newline, NFC-normalised for [EvPrint]: Model/Cli.v.) *)
From Coq Require Import ZArith NArith List Bool Lia.
From Borno Require Import Base Num Unicode Token Ast Value Eval EvalEqs.
Import ListNotations.
Open Scope N_scope.

(* ------------------------------------------------------------------ *)
(** * Named versions of the two local loops of [text_in], and its unfolding equation *)

Definition arr_go (f : nat) (s : state) : list value -> tres :=
  fix go (vs : list value) : tres :=
  match vs with
  | [] => TOk []
  | [v] => text_in f s v
  | v :: r =>
      match text_in f s v with
      | TOk t => match go r with TOk t' => TOk (t ++ 32 :: t') | x => x end
      | x => x
      end
  end.

Definition obj_go (f : nat) (s : state) : list (list N * value) -> tres :=
  fix go (ps : list (list N * value)) : tres :=
  match ps with
  | [] => TOk []
  | [(k, v)] => match text_in f s v with TOk t => TOk (k ++ 58 :: t) | x => x end
  | (k, v) :: r =>
      match text_in f s v with
      | TOk t => match go r with TOk t' => TOk (k ++ 58 :: t ++ 32 :: t') | x => x end
      | x => x
      end
  end.

Lemma arr_go_nil f s : arr_go f s [] = TOk [].
Proof. reflexivity. Qed.
Lemma arr_go_one f s v : arr_go f s [v] = text_in f s v.
Proof. reflexivity. Qed.
Lemma obj_go_nil f s : obj_go f s [] = TOk [].
Proof. reflexivity. Qed.
Lemma obj_go_one f s k v :
  obj_go f s [(k, v)] = match text_in f s v with TOk t => TOk (k ++ 58 :: t) | x => x end.
Proof. reflexivity. Qed.

Lemma text_in_0 s v : text_in 0 s v = TCycle.
Proof. reflexivity. Qed.

Lemma text_in_S f s v :
  text_in (S f) s v =
    match v with
    | VNil => TOk s_nil_nested
    | VBool b => TOk (if b then s_true else s_false)
    | VNum x => match text_num x with Some t => TOk t | None => TNoText end
    | VStr t => TOk t
    | VArr l => match get_arr l s with Some vs => wrap_arr (arr_go f s vs) | None => TStuck end
    | VObj l => match get_obj l s with Some ps => wrap_obj (obj_go f s ps) | None => TStuck end
    | VFun l =>
        match get_fun l s with
        | Some c => TOk ([60;102;117;110;99;116;105;111;110;32] ++ c_name c ++ [62])
        | None => TStuck
        end
    | VNative n => TOk ([60;110;97;116;105;118;101;32;102;110] ++ native_label n ++ [62])
    end.
Proof. destruct v; reflexivity. Qed.

Lemma arr_go_cons2 f s v w r :
  arr_go f s (v :: w :: r) =
    match text_in f s v with
    | TOk t => match arr_go f s (w :: r) with TOk t' => TOk (t ++ 32 :: t') | x => x end
    | x => x
    end.
Proof. reflexivity. Qed.

Lemma obj_go_cons2 f s k v q r :
  obj_go f s ((k, v) :: q :: r) =
    match text_in f s v with
    | TOk t => match obj_go f s (q :: r) with TOk t' => TOk (k ++ 58 :: t ++ 32 :: t') | x => x end
    | x => x
    end.
Proof. reflexivity. Qed.

Lemma join_sp_cons2 (x y : list N) r : join_sp (x :: y :: r) = x ++ 32 :: join_sp (y :: r).
Proof. reflexivity. Qed.

(** the text of the top-level value: [text_of] is [text_in] with enough fuel, except for nil *)
Lemma text_of_not_nil s v : v <> VNil ->
  text_of s v = text_in (S (S (length (arrs s) + length (objs s)))) s v.
Proof. intros H. destruct v; try reflexivity. exfalso. apply H. reflexivity. Qed.

(* ------------------------------------------------------------------ *)
(** * C.2  strings, nil, booleans *)

(** a string prints as its own characters: no quotes, no escapes -- at top level ... *)
Lemma text_str s t : text_of s (VStr t) = TOk t.
Proof. reflexivity. Qed.
(** ... and wherever it sits inside an array or object *)
Lemma text_str_nested f s t : text_in (S f) s (VStr t) = TOk t.
Proof. reflexivity. Qed.

Lemma text_nil s : text_of s VNil = TOk s_nil.
Proof. reflexivity. Qed.
Lemma s_nil_chars : s_nil = [110; 105; 108].             (* "nil" *)
Proof. reflexivity. Qed.
Lemma text_true s : text_of s (VBool true) = TOk s_true.
Proof. reflexivity. Qed.
Lemma text_false s : text_of s (VBool false) = TOk s_false.
Proof. reflexivity. Qed.
Lemma s_true_chars : s_true = [116; 114; 117; 101].      (* "true" *)
Proof. reflexivity. Qed.
Lemma s_false_chars : s_false = [102; 97; 108; 115; 101]. (* "false" *)
Proof. reflexivity. Qed.
Lemma text_bool_nested f s b : text_in (S f) s (VBool b) = TOk (if b then s_true else s_false).
Proof. reflexivity. Qed.

(** nested nil prints <nil> *)
Lemma text_nil_nested f s : text_in (S f) s VNil = TOk s_nil_nested.
Proof. reflexivity. Qed.
Lemma s_nil_nested_chars : s_nil_nested = [60; 110; 105; 108; 62].  (* "<nil>" *)
Proof. reflexivity. Qed.

(** functions and built-ins *)
Lemma text_native s n :
  text_of s (VNative n) = TOk ([60;110;97;116;105;118;101;32;102;110] ++ native_label n ++ [62]).
Proof. reflexivity. Qed.
Lemma text_fun s l c : get_fun l s = Some c ->
  text_of s (VFun l) = TOk ([60;102;117;110;99;116;105;111;110;32] ++ c_name c ++ [62]).
Proof. intros H. unfold text_of, print_fuel. rewrite text_in_S, H. reflexivity. Qed.

(* ------------------------------------------------------------------ *)
(** * C.3  numbers: printing and [+] use the same text *)

Lemma text_num_is_num_text s x :
  text_of s (VNum x) = match text_num x with Some t => TOk t | None => TNoText end.
Proof. reflexivity. Qed.

Lemma text_num_nested f s x :
  text_in (S f) s (VNum x) = match text_num x with Some t => TOk t | None => TNoText end.
Proof. reflexivity. Qed.

Lemma text_num_via_num_text s x t : num_text x = Some t <-> text_of s (VNum x) = TOk t.
Proof.
  rewrite text_num_is_num_text. unfold num_text. split.
  - intros H. rewrite H. reflexivity.
  - destruct (text_num x) as [u|]; intros H; inversion H. reflexivity.
Qed.

(** kinds of values that [string + v] splices *)
Definition spliceable (v : value) : Prop :=
  match v with VNum _ | VStr _ | VBool _ => True | _ => False end.

(** what [+] splices to the right of a string is, character for character, what printing
    the value produces *)
Theorem concat_right_is_print_text s p v r : spliceable v ->
  (add (VStr p) v = OVal (VStr r) <-> exists t, text_of s v = TOk t /\ r = p ++ t).
Proof.
  intros Hv. destruct v as [| c | y | u | | | |]; cbn [spliceable] in Hv; try contradiction.
  - (* boolean *) cbn [add]. split.
    + intros H. inversion H. exists (if c then s_true else s_false). split; [|reflexivity].
      destruct c; reflexivity.
    + intros [t [Ht Hr]]. destruct c; inversion Ht; subst; reflexivity.
  - (* number *) cbn [add]. rewrite text_num_is_num_text. unfold num_text.
    destruct (text_num y) as [ty|]; split.
    + intros H. inversion H. exists ty. split; reflexivity.
    + intros [t [Ht Hr]]. inversion Ht; subst. reflexivity.
    + intros H. discriminate H.
    + intros [t [Ht Hr]]. discriminate Ht.
  - (* string *) cbn [add]. rewrite text_str. split.
    + intros H. inversion H. exists u. split; reflexivity.
    + intros [t [Ht Hr]]. inversion Ht; subst. reflexivity.
Qed.

(** the same on the left of a string, for a number *)
Theorem concat_left_is_print_text s x u r :
  add (VNum x) (VStr u) = OVal (VStr r) <-> exists t, text_of s (VNum x) = TOk t /\ r = t ++ u.
Proof.
  cbn [add]. rewrite text_num_is_num_text. unfold num_text.
  destruct (text_num x) as [tx|]; split.
  - intros H. inversion H. exists tx. split; reflexivity.
  - intros [t [Ht Hr]]. inversion Ht; subst. reflexivity.
  - intros H. discriminate H.
  - intros [t [Ht Hr]]. discriminate Ht.
Qed.

(** the statement of the task: splicing onto the empty string is printing *)
Corollary concat_text_is_print_text s v t :
  (exists x, v = VNum x) \/ (exists u, v = VStr u) ->
  (add (VStr []) v = OVal (VStr t) <-> text_of s v = TOk t).
Proof.
  intros Hv.
  assert (Hs : spliceable v) by (destruct Hv as [[x E]|[u E]]; subst v; exact I).
  rewrite (concat_right_is_print_text s [] v t Hs). cbn [app]. split.
  - intros [t' [Ht E]]. subst t'. exact Ht.
  - intros Ht. exists t. split; [exact Ht|reflexivity].
Qed.

(* ------------------------------------------------------------------ *)
(** * C.4  arrays and objects: every element / property, in order *)

(** the element loop succeeds iff every element renders, and then joins the texts with spaces *)
Lemma arr_go_ok f s vs ts :
  Forall2 (fun v t => text_in f s v = TOk t) vs ts -> arr_go f s vs = TOk (join_sp ts).
Proof.
  intros H. induction H as [|v t vs ts Hv Hr IH]; [reflexivity|].
  destruct Hr as [|v' t' vs' ts' Hv' Hr'].
  - rewrite arr_go_one. cbn [join_sp]. exact Hv.
  - rewrite arr_go_cons2, join_sp_cons2, Hv, IH. reflexivity.
Qed.

Lemma arr_go_inv f s vs t :
  arr_go f s vs = TOk t ->
  exists ts, Forall2 (fun v t => text_in f s v = TOk t) vs ts /\ t = join_sp ts.
Proof.
  revert t. induction vs as [|v vs IH]; intros t H.
  - rewrite arr_go_nil in H. inversion H. exists []. split; [constructor|reflexivity].
  - destruct vs as [|w r].
    + rewrite arr_go_one in H. exists [t]. split; [|reflexivity].
      constructor; [exact H|constructor].
    + rewrite arr_go_cons2 in H.
      destruct (text_in f s v) as [tv| | |] eqn:Ev; try discriminate H.
      destruct (arr_go f s (w :: r)) as [tr| | |] eqn:Er; try discriminate H.
      destruct (IH tr eq_refl) as [ts [Hts Etr]].
      inversion H. exists (tv :: ts). split; [constructor; assumption|].
      inversion Hts as [|w0 t0 r0 ts0 Hw0 Hr0 E1 E2]. subst.
      rewrite join_sp_cons2. reflexivity.
Qed.

(** an array shows all its elements, in order, space-separated, between [ and ] *)
Theorem text_arr_rel f s l vs ts :
  get_arr l s = Some vs -> Forall2 (fun v t => text_in f s v = TOk t) vs ts ->
  text_in (S f) s (VArr l) = TOk (91 :: join_sp ts ++ [93]).
Proof.
  intros Hl H. rewrite text_in_S, Hl, (arr_go_ok f s vs ts H). reflexivity.
Qed.

Theorem text_arr f s l vs (tv : value -> list N) :
  get_arr l s = Some vs -> (forall v, In v vs -> text_in f s v = TOk (tv v)) ->
  text_in (S f) s (VArr l) = TOk (91 :: join_sp (map tv vs) ++ [93]).
Proof.
  intros Hl H. apply (text_arr_rel f s l vs (map tv vs) Hl). clear Hl.
  induction vs as [|v vs IH]; [constructor|].
  cbn [map]. constructor.
  - apply H. left. reflexivity.
  - apply IH. intros w Hw. apply H. right. exact Hw.
Qed.

(** conversely, whatever an array prints is made of the texts of all its elements *)
Theorem text_arr_inv f s l t :
  text_in (S f) s (VArr l) = TOk t ->
  exists vs ts, get_arr l s = Some vs /\
    Forall2 (fun v t => text_in f s v = TOk t) vs ts /\ t = 91 :: join_sp ts ++ [93].
Proof.
  rewrite text_in_S. destruct (get_arr l s) as [vs|] eqn:Hl; [|discriminate].
  destruct (arr_go f s vs) as [t'| | |] eqn:Eg; cbn [wrap_arr]; try discriminate.
  intros H. inversion H. destruct (arr_go_inv f s vs t' Eg) as [ts [Hts Et]].
  exists vs, ts. split; [reflexivity|]. split; [exact Hts|]. subst t'. reflexivity.
Qed.

Lemma text_arr_empty f s l : get_arr l s = Some [] -> text_in (S f) s (VArr l) = TOk [91; 93].
Proof. intros Hl. rewrite text_in_S, Hl. reflexivity. Qed.

(** the property loop: pieces key:text, joined with spaces *)
Definition prop_piece (f : nat) (s : state) (p : list N * value) (piece : list N) : Prop :=
  exists t, text_in f s (snd p) = TOk t /\ piece = fst p ++ 58 :: t.

Lemma obj_go_ok f s ps pieces :
  Forall2 (prop_piece f s) ps pieces -> obj_go f s ps = TOk (join_sp pieces).
Proof.
  intros H. induction H as [|[k v] piece ps pieces Hp Hr IH]; [reflexivity|].
  destruct Hp as [t [Ht Ep]]. cbn [fst snd] in Ht, Ep. subst piece.
  destruct Hr as [|q piece' ps' pieces' Hq Hr'].
  - rewrite obj_go_one. cbn [join_sp]. rewrite Ht. reflexivity.
  - rewrite obj_go_cons2, join_sp_cons2, Ht, IH.
    rewrite <- app_assoc. reflexivity.
Qed.

Lemma obj_go_inv f s ps t :
  obj_go f s ps = TOk t ->
  exists pieces, Forall2 (prop_piece f s) ps pieces /\ t = join_sp pieces.
Proof.
  revert t. induction ps as [|[k v] ps IH]; intros t H.
  - rewrite obj_go_nil in H. inversion H. exists []. split; [constructor|reflexivity].
  - destruct ps as [|q r].
    + rewrite obj_go_one in H. destruct (text_in f s v) as [tv| | |] eqn:Ev; try discriminate H.
      inversion H. exists [k ++ 58 :: tv]. split; [|reflexivity].
      constructor; [|constructor]. exists tv. split; [exact Ev|reflexivity].
    + rewrite obj_go_cons2 in H.
      destruct (text_in f s v) as [tv| | |] eqn:Ev; try discriminate H.
      destruct (obj_go f s (q :: r)) as [tr| | |] eqn:Er; try discriminate H.
      destruct (IH tr eq_refl) as [pieces [Hps Etr]].
      inversion H. exists ((k ++ 58 :: tv) :: pieces). split.
      * constructor; [|exact Hps]. exists tv. split; [exact Ev|reflexivity].
      * inversion Hps as [|q0 p0 r0 ps0 Hq0 Hr0 E1 E2]. subst.
        rewrite join_sp_cons2. rewrite <- app_assoc. reflexivity.
Qed.

(** an object shows all its properties as key:text, in the order of its cell (which the
    evaluator keeps sorted by key), between map[ and ] *)
Theorem text_obj_rel f s l ps pieces :
  get_obj l s = Some ps -> Forall2 (prop_piece f s) ps pieces ->
  text_in (S f) s (VObj l) = TOk ([109; 97; 112; 91] ++ join_sp pieces ++ [93]).
Proof.
  intros Hl H. rewrite text_in_S, Hl, (obj_go_ok f s ps pieces H). reflexivity.
Qed.

Theorem text_obj f s l ps (tv : value -> list N) :
  get_obj l s = Some ps -> (forall k v, In (k, v) ps -> text_in f s v = TOk (tv v)) ->
  text_in (S f) s (VObj l) =
    TOk ([109; 97; 112; 91] ++ join_sp (map (fun p => fst p ++ 58 :: tv (snd p)) ps) ++ [93]).
Proof.
  intros Hl H. apply (text_obj_rel f s l ps _ Hl). clear Hl.
  induction ps as [|[k v] ps IH]; [constructor|].
  cbn [map]. constructor.
  - exists (tv v). cbn [fst snd]. split; [|reflexivity]. apply (H k v). left. reflexivity.
  - apply IH. intros k' v' Hin. apply (H k' v'). right. exact Hin.
Qed.

Theorem text_obj_inv f s l t :
  text_in (S f) s (VObj l) = TOk t ->
  exists ps pieces, get_obj l s = Some ps /\
    Forall2 (prop_piece f s) ps pieces /\ t = [109; 97; 112; 91] ++ join_sp pieces ++ [93].
Proof.
  rewrite text_in_S. destruct (get_obj l s) as [ps|] eqn:Hl; [|discriminate].
  destruct (obj_go f s ps) as [t'| | |] eqn:Eg; cbn [wrap_obj]; try discriminate.
  intros H. inversion H. destruct (obj_go_inv f s ps t' Eg) as [pieces [Hps Et]].
  exists ps, pieces. split; [reflexivity|]. split; [exact Hps|]. subst t'. reflexivity.
Qed.

Lemma text_obj_empty f s l :
  get_obj l s = Some [] -> text_in (S f) s (VObj l) = TOk [109; 97; 112; 91; 93].
Proof. intros Hl. rewrite text_in_S, Hl. reflexivity. Qed.

(** a successful rendering does not depend on the fuel: more fuel, same text *)
Lemma text_in_mono f : forall s v t, text_in f s v = TOk t -> text_in (S f) s v = TOk t.
Proof.
  induction f as [|f IH]; intros s v t H; [discriminate H|].
  rewrite text_in_S in H. rewrite text_in_S.
  destruct v as [| c | x | u | l | l | l | n]; try exact H.
  - destruct (get_arr l s) as [vs|]; [|exact H].
    destruct (arr_go f s vs) as [t'| | |] eqn:Eg; cbn [wrap_arr] in H; try discriminate H.
    destruct (arr_go_inv f s vs t' Eg) as [ts [Hts Et]].
    rewrite (arr_go_ok (S f) s vs ts); [subst t'; exact H|].
    clear Eg Et. induction Hts as [|v0 t0 vs0 ts0 Hv0 Hr0 IHr]; constructor;
      [apply IH; exact Hv0|exact IHr].
  - destruct (get_obj l s) as [ps|]; [|exact H].
    destruct (obj_go f s ps) as [t'| | |] eqn:Eg; cbn [wrap_obj] in H; try discriminate H.
    destruct (obj_go_inv f s ps t' Eg) as [pieces [Hps Et]].
    rewrite (obj_go_ok (S f) s ps pieces); [subst t'; exact H|].
    clear Eg Et. induction Hps as [|p0 q0 ps0 qs0 Hp0 Hr0 IHr]; constructor; [|exact IHr].
    destruct Hp0 as [t0 [Ht0 Eq0]]. exists t0. split; [apply IH; exact Ht0|exact Eq0].
Qed.

Lemma text_in_mono_le f g s v t : (f <= g)%nat -> text_in f s v = TOk t -> text_in g s v = TOk t.
Proof.
  intros Hle H. induction Hle as [|g Hle IH]; [exact H|]. apply text_in_mono. exact IH.
Qed.

(** top level: an array of values that render nested (with any fuel up to the print budget) *)
Corollary text_of_arr s l vs (tv : value -> list N) f :
  (f <= S (length (arrs s) + length (objs s)))%nat ->
  get_arr l s = Some vs -> (forall v, In v vs -> text_in f s v = TOk (tv v)) ->
  text_of s (VArr l) = TOk (91 :: join_sp (map tv vs) ++ [93]).
Proof.
  intros Hf Hl H. unfold text_of, print_fuel.
  apply text_arr; [exact Hl|]. intros v Hv.
  apply (text_in_mono_le f); [exact Hf|]. apply H. exact Hv.
Qed.

Corollary text_of_obj s l ps (tv : value -> list N) f :
  (f <= S (length (arrs s) + length (objs s)))%nat ->
  get_obj l s = Some ps -> (forall k v, In (k, v) ps -> text_in f s v = TOk (tv v)) ->
  text_of s (VObj l) =
    TOk ([109; 97; 112; 91] ++ join_sp (map (fun p => fst p ++ 58 :: tv (snd p)) ps) ++ [93]).
Proof.
  intros Hf Hl H. unfold text_of, print_fuel.
  apply text_obj; [exact Hl|]. intros k v Hv.
  apply (text_in_mono_le f); [exact Hf|]. apply (H k v). exact Hv.
Qed.

(* ------------------------------------------------------------------ *)
(** * C.1  the print statement and the REPL echo *)

Section Stmt.
Variable libm : N -> f64 -> f64 -> f64.
Variable clock : f64.
Variable sched : N -> list (list N * value) -> list (list N * value).

Notation eval := (eval libm clock sched).
Notation exec := (exec libm clock sched).

(** printing a value that renders appends exactly one event, carrying the text, and changes
    nothing else *)
Theorem print_event f repl e rho s v s1 t :
  eval f e rho s = Ok v s1 -> text_of s1 v = TOk t ->
  exec (S f) repl (SPrint e) rho s = Ok SigNone (emit (EvPrint t) s1).
Proof. intros He Ht. rewrite exec_S, He. cbn [bind]. rewrite Ht. reflexivity. Qed.

Lemma emit_out ev s : out (emit ev s) = ev :: out s.
Proof. reflexivity. Qed.
Lemma emit_rest ev s :
  envs (emit ev s) = envs s /\ arrs (emit ev s) = arrs s /\ objs (emit ev s) = objs s /\
  funs (emit ev s) = funs s /\ inp (emit ev s) = inp s /\ tick (emit ev s) = tick s.
Proof. repeat split. Qed.

(** and conversely: a print statement that completes normally evaluated its expression and
    emitted the text of the result *)
Theorem print_event_inv f repl e rho s sig s' :
  exec (S f) repl (SPrint e) rho s = Ok sig s' ->
  exists v s1 t, eval f e rho s = Ok v s1 /\ text_of s1 v = TOk t /\
    sig = SigNone /\ s' = emit (EvPrint t) s1.
Proof.
  rewrite exec_S. destruct (eval f e rho s) as [v s1|er ln s1| | |s1] eqn:He; cbn [bind];
    try discriminate.
  destruct (text_of s1 v) as [t| | |] eqn:Ht; try discriminate.
  intros H. inversion H. exists v, s1, t.
  split; [reflexivity|]. split; [exact Ht|]. split; reflexivity.
Qed.

(** an error while evaluating the operand: nothing is printed *)
Lemma print_error f repl e rho s er ln s1 :
  eval f e rho s = Err er ln s1 -> exec (S f) repl (SPrint e) rho s = Err er ln s1.
Proof. intros He. rewrite exec_S, He. reflexivity. Qed.

(** a value that contains itself crashes the host's printer (Go: stack exhaustion) *)
Lemma print_cycle f repl e rho s v s1 :
  eval f e rho s = Ok v s1 -> text_of s1 v = TCycle ->
  exec (S f) repl (SPrint e) rho s = Crash s1.
Proof. intros He Ht. rewrite exec_S, He. cbn [bind]. rewrite Ht. reflexivity. Qed.

(** an expression statement echoes its value in the REPL ... *)
Theorem echo_event f e rho s v s1 t :
  eval f e rho s = Ok v s1 -> text_of s1 v = TOk t ->
  exec (S f) true (SExpr e) rho s = Ok SigNone (emit (EvEcho t) s1).
Proof. intros He Ht. rewrite exec_S, He. cbn [bind]. rewrite Ht. reflexivity. Qed.

(** ... and prints nothing when a file is run *)
Theorem expr_stmt_silent f e rho s v s1 :
  eval f e rho s = Ok v s1 -> exec (S f) false (SExpr e) rho s = Ok SigNone s1.
Proof. intros He. rewrite exec_S, He. reflexivity. Qed.

End Stmt.

Print Assumptions print_event.
Print Assumptions print_event_inv.
Print Assumptions concat_right_is_print_text.
Print Assumptions text_arr.
Print Assumptions text_obj.
Print Assumptions text_in_mono.
