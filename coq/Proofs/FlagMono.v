(** Fuel monotonicity of the flag-level evaluator (Model/FlagEval.v): more fuel never
    changes an outcome other than [FFuel]. *)
From Coq Require Import List Bool Lia.
From Borno Require Import Base Num Unicode Token Ast Value Eval FlagEval FlagEqs.
Import ListNotations.
Open Scope N_scope.

Definition fle {A} (r r' : fres A) : Prop := r <> FFuel -> r' = r.

Lemma fle_refl {A} (r : fres A) : fle r r.
Proof. intros _; reflexivity. Qed.

Lemma fle_fuel {A} (r : fres A) : fle FFuel r.
Proof. intros N; exfalso; apply N; reflexivity. Qed.

Lemma fle_bind {A B} (r r' : fres A) (k k' : A -> fstate -> fres B) :
  fle r r' -> (forall a fs, fle (k a fs) (k' a fs)) -> fle (fbind r k) (fbind r' k').
Proof.
  intros H K N. destruct r as [a fs| | |fs]; simpl in N |- *;
    try (rewrite H by discriminate; reflexivity).
  - rewrite H by discriminate. simpl. apply K; exact N.
  - exfalso; apply N; reflexivity.
Qed.

Lemma fle_use {A} (r r' x : fres A) : fle r r' -> r = x -> x <> FFuel -> r' = x.
Proof. intros H E N. subst x. apply H; exact N. Qed.

Section Mono.
Variable libm : N -> f64 -> f64 -> f64.
Variable clock : f64.
Variable sched : N -> list (list N * value) -> list (list N * value).

Notation feval := (feval libm clock sched).
Notation feval_list := (feval_list libm clock sched).
Notation feval_props := (feval_props libm clock sched).
Notation fexec := (fexec libm clock sched).
Notation fexec_var := (fexec_var libm clock sched).
Notation fexec_vars := (fexec_vars libm clock sched).
Notation fexec_list := (fexec_list libm clock sched).
Notation fexec_body := (fexec_body libm clock sched).
Notation fexec_while := (fexec_while libm clock sched).
Notation fexec_for := (fexec_for libm clock sched).
Notation frun_stmts := (frun_stmts libm clock sched).

Definition fmono_at (f f' : nat) : Prop :=
  (forall e rho fs, fle (feval f e rho fs) (feval f' e rho fs)) /\
  (forall es rho fs, fle (feval_list f es rho fs) (feval_list f' es rho fs)) /\
  (forall ps rho fs, fle (feval_props f ps rho fs) (feval_props f' ps rho fs)) /\
  (forall repl st rho fs, fle (fexec f repl st rho fs) (fexec f' repl st rho fs)) /\
  (forall d rho fs, fle (fexec_var f d rho fs) (fexec_var f' d rho fs)) /\
  (forall ds rho fs, fle (fexec_vars f ds rho fs) (fexec_vars f' ds rho fs)) /\
  (forall repl ss rho fs, fle (fexec_list f repl ss rho fs) (fexec_list f' repl ss rho fs)) /\
  (forall ss rho fs, fle (fexec_body f ss rho fs) (fexec_body f' ss rho fs)) /\
  (forall repl c b rho fs, fle (fexec_while f repl c b rho fs) (fexec_while f' repl c b rho fs)) /\
  (forall repl c inc b rho fs, fle (fexec_for f repl c inc b rho fs) (fexec_for f' repl c inc b rho fs)).

Ltac fmono_go :=
  repeat first
    [ apply fle_refl
    | match goal with H : forall _, _ |- fle _ _ => apply H end
    | apply fle_bind; [ | intros ? ? ]
    | match goal with |- fle (match ?x with _ => _ end) _ => destruct x end ].

Lemma fmono_all : forall f f', (f <= f')%nat -> fmono_at f f'.
Proof.
  induction f as [|f IH]; intros f' Hle.
  - unfold fmono_at. repeat apply conj; intros; try apply fle_fuel.
    + destruct (fs_flag fs) eqn:F; [rewrite !feval_flag by exact F; apply fle_refl|].
      rewrite feval_0 by exact F. apply fle_fuel.
    + destruct (fs_flag fs) eqn:F; [rewrite !fexec_flag by exact F; apply fle_refl|].
      rewrite fexec_0 by exact F. apply fle_fuel.
    + destruct (fs_flag fs) eqn:F; [rewrite !fexec_var_flag by exact F; apply fle_refl|].
      rewrite fexec_var_0 by exact F. apply fle_fuel.
  - destruct f' as [|f']; [lia|].
    assert (Hle' : (f <= f')%nat) by lia.
    destruct (IH f' Hle') as (Hev & Hel & Hep & Hex & Hxv & Hxvs & Hxl & Hxb & Hxw & Hxf).
    clear IH Hle Hle'.
    unfold fmono_at. repeat apply conj.
    + intros e rho fs. rewrite !feval_unfold. unfold funop, fbinop.
      destruct (fs_flag fs); [apply fle_refl|]. destruct e; fmono_go.
    + intros es rho fs. rewrite !feval_list_S. destruct es; fmono_go.
    + intros ps rho fs. rewrite !feval_props_S. destruct ps as [|[k e] ps]; fmono_go.
    + intros repl st rho fs. rewrite !fexec_unfold. unfold fprint.
      destruct (fs_flag fs); [apply fle_refl|]. destruct st; fmono_go.
    + intros d rho fs. rewrite !fexec_var_unfold.
      destruct (fs_flag fs); [apply fle_refl|]. destruct d as [[x init] line]; fmono_go.
    + intros ds rho fs. rewrite !fexec_vars_S. destruct ds; fmono_go.
    + intros repl ss rho fs. rewrite !fexec_list_S. destruct ss; fmono_go.
    + intros ss rho fs. rewrite !fexec_body_S. destruct ss; fmono_go.
    + intros repl c b rho fs. rewrite !fexec_while_S. fmono_go.
    + intros repl c inc b rho fs. rewrite !fexec_for_S. fmono_go.
Qed.

(** More fuel never changes a result other than [FFuel]. *)
Theorem feval_mono f f' e rho fs r :
  (f <= f')%nat -> feval f e rho fs = r -> r <> FFuel -> feval f' e rho fs = r.
Proof. intros L E N. destruct (fmono_all f f' L) as (H & _). eapply fle_use; [apply H|exact E|exact N]. Qed.

Theorem fexec_mono f f' repl st rho fs r :
  (f <= f')%nat -> fexec f repl st rho fs = r -> r <> FFuel -> fexec f' repl st rho fs = r.
Proof. intros L E N. destruct (fmono_all f f' L) as (_ & _ & _ & H & _). eapply fle_use; [apply H|exact E|exact N]. Qed.

Lemma frun_stmts_le f f' repl : (f <= f')%nat ->
  forall p fs, fle (frun_stmts f repl p fs) (frun_stmts f' repl p fs).
Proof.
  intros L. destruct (fmono_all f f' L) as (_ & _ & _ & Hex & _).
  induction p as [|st p IH]; intros fs; cbn [FlagEval.frun_stmts].
  - apply fle_refl.
  - apply fle_bind; [apply Hex|]. intros sig fs1. destruct sig; try apply fle_refl.
    destruct (fs_flag fs1); [apply fle_refl|apply IH].
Qed.

Theorem frun_stmts_mono f f' repl p fs r :
  (f <= f')%nat -> frun_stmts f repl p fs = r -> r <> FFuel -> frun_stmts f' repl p fs = r.
Proof. intros L E N. eapply fle_use; [apply frun_stmts_le; exact L|exact E|exact N]. Qed.

End Mono.

Print Assumptions fmono_all.
Print Assumptions frun_stmts_mono.
