(** Facts about the concrete NFC tables of [Model/Nfc.v] ([the_tabs], built from [Gen/GenNfc.v]).

    Look-ups in the three [PositiveMap]s are characterised through the generated lists
    ([nfd_find_some], [comp_find_some]: whatever a look-up returns is an entry of the list), and
    the finite facts the structural proofs of [NfcFacts.v] need are established by boolean
    sweeps over the lists (and over the Hangul ranges) evaluated with [vm_compute]:
    the domain of each sweep is finite and spelled out, so each is a proof. *)
From Coq Require Import FMapPositive.
From Borno Require Import Base GenNfc Nfc.
Open Scope N_scope.

(* ------------------------------------------------------------------ *)
(** * Generic lemmas *)

Lemma ckey_inj : forall a b, ckey a = ckey b -> a = b.
Proof.
  unfold ckey. intros a b H.
  apply N.succ_inj. rewrite <- !N.succ_pos_spec. now rewrite H.
Qed.

Lemma pair_key_inj : forall a b a' b',
  b < 2097152 -> b' < 2097152 -> pair_key a b = pair_key a' b' -> a = a' /\ b = b'.
Proof.
  unfold pair_key. intros a b a' b' Hb Hb' H.
  assert (E : a * 2097152 + b = a' * 2097152 + b').
  { apply N.succ_inj. rewrite <- !N.succ_pos_spec. now rewrite H. }
  lia.
Qed.

Lemma fold_left_ext : forall (A B : Type) (f g : A -> B -> A),
  (forall a b, f a b = g a b) -> forall l a, fold_left f l a = fold_left g l a.
Proof.
  intros A B f g H l. induction l as [|x l IH]; intros a; simpl; [reflexivity|].
  rewrite H. apply IH.
Qed.

(** whatever is found in a map built by successive [add]s was added (or was there before) *)
Lemma fold_add_find : forall (E A : Type) (key : E -> positive) (val : E -> A) (l : list E) m0 k v,
  PositiveMap.find k (fold_left (fun m e => PositiveMap.add (key e) (val e) m) l m0) = Some v ->
  (exists e, In e l /\ key e = k /\ val e = v) \/ PositiveMap.find k m0 = Some v.
Proof.
  intros E A key val l. induction l as [|x l IH]; intros m0 k v H; simpl in H.
  - now right.
  - apply IH in H. destruct H as [(e & He & Hk & Hv) | H].
    + left. exists e. split; [now right|]. now split.
    + destruct (Pos.eq_dec k (key x)) as [Ek|Nk].
      * subst k. rewrite PositiveMap.gss in H. inversion H as [Hv].
        left. exists x. split; [now left|]. now split.
      * rewrite PositiveMap.gso in H by exact Nk. now right.
Qed.

(** enumeration of a range of code points *)
Fixpoint Nrange (n : nat) (lo : N) : list N :=
  match n with O => [] | S n' => lo :: Nrange n' (lo + 1) end.

Lemma in_Nrange : forall n lo c, lo <= c -> c < lo + N.of_nat n -> In c (Nrange n lo).
Proof.
  induction n as [|n IH]; intros lo c H1 H2.
  - lia.
  - simpl. destruct (N.eq_dec lo c) as [E|NE]; [now left|].
    right. apply IH; lia.
Qed.

Lemma Nrange_sweep : forall (P : N -> bool) lo cnt,
  forallb P (Nrange (N.to_nat cnt) lo) = true ->
  forall c, lo <= c -> c < lo + cnt -> P c = true.
Proof.
  intros P lo cnt H c H1 H2.
  rewrite forallb_forall in H. apply H. apply in_Nrange; [exact H1|].
  rewrite N2Nat.id. exact H2.
Qed.

(* ------------------------------------------------------------------ *)
(** * Look-ups versus the generated lists *)

Notation TT := the_tabs.

Lemma t_nfd_eq : t_nfd TT =
  fold_left (fun m kv => PositiveMap.add (ckey (fst kv)) (snd kv) m) gen_nfd (PositiveMap.empty _).
Proof. reflexivity. Qed.
Lemma t_comp_eq : t_comp TT =
  fold_left (fun m (r : N * N * N) => PositiveMap.add (pair_key (fst (fst r)) (snd (fst r))) (snd r) m)
            gen_comp (PositiveMap.empty _).
Proof.
  change (t_comp TT) with comp_map. unfold comp_map.
  apply fold_left_ext. intros m [[a0 b0] c0]. reflexivity.
Qed.

Lemma nfd_find_some : forall c d,
  PositiveMap.find (ckey c) (t_nfd TT) = Some d -> In (c, d) gen_nfd.
Proof.
  intros c d H. rewrite t_nfd_eq in H.
  apply (fold_add_find _ _ (fun kv : N * list N => ckey (fst kv)) (fun kv => snd kv)) in H.
  destruct H as [(e & He & Hk & Hv) | H].
  - destruct e as [c' d']. simpl in Hk, Hv. apply ckey_inj in Hk. subst c' d'. exact He.
  - rewrite PositiveMap.gempty in H. discriminate.
Qed.

Definition has_nfd (c : N) : bool := existsb (fun kv : N * list N => fst kv =? c) gen_nfd.

Lemma nfd_find_none : forall c, has_nfd c = false -> PositiveMap.find (ckey c) (t_nfd TT) = None.
Proof.
  intros c H. destruct (PositiveMap.find (ckey c) (t_nfd TT)) as [d|] eqn:E; [|reflexivity].
  apply nfd_find_some in E.
  assert (X : has_nfd c = true).
  { unfold has_nfd. apply existsb_exists. exists (c, d). split; [exact E|]. simpl. apply N.eqb_refl. }
  rewrite X in H. discriminate.
Qed.

(** all components of the composition table are below 2^21, so [pair_key] is injective on them *)
Lemma comp_small :
  forallb (fun r : N * N * N => (fst (fst r) <? 2097152) && (snd (fst r) <? 2097152)) gen_comp = true.
Proof. vm_compute. reflexivity. Qed.

Lemma comp_find_some : forall a b x, b < 2097152 ->
  PositiveMap.find (pair_key a b) (t_comp TT) = Some x -> In (a, b, x) gen_comp.
Proof.
  intros a b x Hb H. rewrite t_comp_eq in H.
  apply (fold_add_find _ _ (fun r : N * N * N => pair_key (fst (fst r)) (snd (fst r))) (fun r => snd r)) in H.
  destruct H as [(e & He & Hk & Hv) | H].
  - destruct e as [[a' b'] x']. simpl in Hk, Hv. subst x'.
    pose proof comp_small as S. rewrite forallb_forall in S. specialize (S _ He). simpl in S.
    apply andb_true_iff in S. destruct S as [_ S]. apply N.ltb_lt in S.
    apply pair_key_inj in Hk; [|exact S|exact Hb]. destruct Hk as [-> ->]. exact He.
  - rewrite PositiveMap.gempty in H. discriminate.
Qed.

Definition is_second (c : N) : bool := existsb (fun r : N * N * N => snd (fst r) =? c) gen_comp.

Lemma comp_find_none : forall a b, b < 2097152 -> is_second b = false ->
  PositiveMap.find (pair_key a b) (t_comp TT) = None.
Proof.
  intros a b Hb H. destruct (PositiveMap.find (pair_key a b) (t_comp TT)) as [x|] eqn:E; [|reflexivity].
  apply comp_find_some in E; [|exact Hb].
  assert (X : is_second b = true).
  { unfold is_second. apply existsb_exists. exists (a, b, x). split; [exact E|]. simpl. apply N.eqb_refl. }
  rewrite X in H. discriminate.
Qed.

(* ------------------------------------------------------------------ *)
(** * Stable (not decomposable) and valid code points *)

Definition is_syl (c : N) : bool := (SBase <=? c) && (c <? SBase + SCount).
Definition validb (c : N) : bool := c <? 1114112.

(** [c] is its own full decomposition *)
Definition stableb (T : tabs) (c : N) : bool :=
  negb (is_syl c) && match PositiveMap.find (ckey c) (t_nfd T) with Some _ => false | None => true end.

Lemma stableb_decompose1 : forall T c, stableb T c = true -> decompose1 T c = [c].
Proof.
  intros T c H. unfold stableb in H. apply andb_true_iff in H. destruct H as [H1 H2].
  unfold decompose1. unfold is_syl in H1. apply negb_true_iff in H1. rewrite H1.
  destruct (PositiveMap.find (ckey c) (t_nfd T)); [discriminate|reflexivity].
Qed.

(** what [decompose1] yields is a list of valid, stable code points (for a valid argument) *)
Definition good (T : tabs) (c : N) : bool := validb c && stableb T c.

Lemma nfd_entries_good :
  forallb (fun kv : N * list N => forallb (good TT) (snd kv)) gen_nfd = true.
Proof. vm_compute. reflexivity. Qed.

Lemma syl_decomp_good :
  forallb (fun c => forallb (good TT) (decompose1 TT c)) (Nrange (N.to_nat SCount) SBase) = true.
Proof. vm_compute. reflexivity. Qed.

Lemma decompose1_good : forall c, validb c = true -> forallb (good TT) (decompose1 TT c) = true.
Proof.
  intros c Hv. destruct (is_syl c) eqn:S.
  - unfold is_syl in S. apply andb_true_iff in S. destruct S as [S1 S2].
    apply N.leb_le in S1. apply N.ltb_lt in S2.
    exact (Nrange_sweep (fun c => forallb (good TT) (decompose1 TT c)) SBase SCount syl_decomp_good c S1 S2).
  - destruct (PositiveMap.find (ckey c) (t_nfd TT)) as [d|] eqn:E.
    + assert (D : decompose1 TT c = d).
      { unfold decompose1. unfold is_syl in S. rewrite S. rewrite E. reflexivity. }
      rewrite D. apply nfd_find_some in E.
      pose proof nfd_entries_good as G. rewrite forallb_forall in G. exact (G _ E).
    + assert (St : stableb TT c = true).
      { unfold stableb. rewrite S, E. reflexivity. }
      rewrite (stableb_decompose1 _ _ St). simpl. unfold good. rewrite Hv, St. reflexivity.
Qed.

(* ------------------------------------------------------------------ *)
(** * Composition versus decomposition *)

Fixpoint list_eqb (a b : list N) : bool :=
  match a, b with
  | [], [] => true
  | x :: a', y :: b' => (x =? y) && list_eqb a' b'
  | _, _ => false
  end.

Lemma list_eqb_eq : forall a b, list_eqb a b = true -> a = b.
Proof.
  induction a as [|x a IH]; intros [|y b] H; simpl in H; try discriminate; [reflexivity|].
  apply andb_true_iff in H. destruct H as [H1 H2]. apply N.eqb_eq in H1. subst y.
  f_equal. now apply IH.
Qed.

(** every primary composite decomposes (fully) into the full decomposition of its first
    component followed by its second component *)
Lemma comp_entries_decomp :
  forallb (fun r : N * N * N =>
             let '(a, b, x) := r in list_eqb (decompose1 TT x) (decompose1 TT a ++ [b])) gen_comp = true.
Proof. vm_compute. reflexivity. Qed.

(** Hangul: L + V *)
Lemma hangul_lv_decomp :
  forallb (fun a => forallb (fun b =>
      match compose_pair TT a b with
      | Some x => list_eqb (decompose1 TT x) (decompose1 TT a ++ [b])
      | None => false
      end) (Nrange (N.to_nat VCount) VBase)) (Nrange (N.to_nat LCount) LBase) = true.
Proof. vm_compute. reflexivity. Qed.

(** Hangul: LV + T *)
Lemma hangul_lvt_decomp :
  forallb (fun a =>
      if (a - SBase) mod TCount =? 0 then
        forallb (fun b =>
          match compose_pair TT a b with
          | Some x => list_eqb (decompose1 TT x) (decompose1 TT a ++ [b])
          | None => false
          end) (Nrange (N.to_nat (TCount - 1)) (TBase + 1))
      else true) (Nrange (N.to_nat SCount) SBase) = true.
Proof. vm_compute. reflexivity. Qed.

(** The key table lemma: when a pair composes, the full decomposition of the result is the
    full decomposition of the first component followed by the second. *)
Lemma compose_pair_decomp : forall a b x, validb b = true ->
  compose_pair TT a b = Some x -> decompose1 TT x = decompose1 TT a ++ [b].
Proof.
  intros a b x Hb H.
  destruct ((LBase <=? a) && (a <? LBase + LCount) && (VBase <=? b) && (b <? VBase + VCount)) eqn:C1.
  - apply andb_true_iff in C1. destruct C1 as [C1 C4]. apply andb_true_iff in C1. destruct C1 as [C1 C3].
    apply andb_true_iff in C1. destruct C1 as [C1 C2].
    apply N.leb_le in C1, C3. apply N.ltb_lt in C2, C4.
    pose proof (Nrange_sweep _ _ _ hangul_lv_decomp a C1 C2) as S. cbv beta in S.
    pose proof (Nrange_sweep _ _ _ S b C3 C4) as S'. cbv beta in S'.
    rewrite H in S'. now apply list_eqb_eq.
  - destruct ((SBase <=? a) && (a <? SBase + SCount) && ((a - SBase) mod TCount =? 0) && (TBase <? b) && (b <? TBase + TCount)) eqn:C2.
    + apply andb_true_iff in C2. destruct C2 as [C2 D5]. apply andb_true_iff in C2. destruct C2 as [C2 D4].
      apply andb_true_iff in C2. destruct C2 as [C2 D3]. apply andb_true_iff in C2. destruct C2 as [D1 D2].
      apply N.leb_le in D1. apply N.ltb_lt in D2, D4, D5.
      pose proof (Nrange_sweep _ _ _ hangul_lvt_decomp a D1 D2) as S. cbv beta in S.
      rewrite D3 in S.
      assert (B1 : TBase + 1 <= b) by lia.
      assert (B2 : b < TBase + 1 + (TCount - 1)) by (unfold TBase, TCount in *; lia).
      pose proof (Nrange_sweep _ _ _ S b B1 B2) as S'. cbv beta in S'.
      rewrite H in S'. now apply list_eqb_eq.
    + unfold compose_pair in H. rewrite C1, C2 in H.
      apply comp_find_some in H.
      2:{ unfold validb in Hb. apply N.ltb_lt in Hb. lia. }
      pose proof comp_entries_decomp as S. rewrite forallb_forall in S. specialize (S _ H). cbv beta iota in S.
      now apply list_eqb_eq.
Qed.


(* ------------------------------------------------------------------ *)
(** * Combining classes versus the generated ranges *)

Lemma add_range_find : forall n lo k m c v,
  PositiveMap.find (ckey c) (add_range n lo k m) = Some v ->
  (lo <= c /\ c < lo + N.of_nat n /\ v = k) \/ PositiveMap.find (ckey c) m = Some v.
Proof.
  induction n as [|n IH]; intros lo k m c v H.
  - now right.
  - simpl in H. apply IH in H. destruct H as [(A & B & C)|H].
    + left. split; [lia|]. split; [lia|exact C].
    + destruct (N.eq_dec c lo) as [E|NE].
      * subst c. rewrite PositiveMap.gss in H. inversion H as [Hv]. left. split; [lia|]. split; [lia|reflexivity].
      * rewrite PositiveMap.gso in H; [now right|]. intros X. apply ckey_inj in X. contradiction.
Qed.

Lemma t_ccc_eq : t_ccc TT =
  fold_left (fun m (r : N * N * N) =>
               add_range (N.to_nat (snd (fst r) + 1 - fst (fst r))) (fst (fst r)) (snd r) m)
            gen_ccc (PositiveMap.empty _).
Proof.
  change (t_ccc TT) with ccc_map. unfold ccc_map.
  apply fold_left_ext. intros m [[a0 b0] c0]. reflexivity.
Qed.

Lemma fold_range_find : forall (l : list (N * N * N)) m0 c v,
  PositiveMap.find (ckey c)
    (fold_left (fun m (r : N * N * N) =>
                  add_range (N.to_nat (snd (fst r) + 1 - fst (fst r))) (fst (fst r)) (snd r) m) l m0) = Some v ->
  (exists lo hi, In (lo, hi, v) l /\ lo <= c /\ c <= hi) \/ PositiveMap.find (ckey c) m0 = Some v.
Proof.
  induction l as [|[[lo hi] k] l IH]; intros m0 c v H; simpl in H.
  - now right.
  - apply IH in H. destruct H as [(lo' & hi' & Hin & Hr)|H].
    + left. exists lo', hi'. split; [now right|exact Hr].
    + apply add_range_find in H. destruct H as [(A & B & C)|H]; [|now right].
      left. exists lo, hi. subst v. split; [now left|]. rewrite N2Nat.id in B. lia.
Qed.

(** a non-zero class comes from a range of the generated table ... *)
Lemma ccc_nonzero : forall c, ccc TT c <> 0 ->
  exists lo hi, In (lo, hi, ccc TT c) gen_ccc /\ lo <= c /\ c <= hi.
Proof.
  intros c H. unfold ccc in *. rewrite t_ccc_eq in *.
  destruct (PositiveMap.find (ckey c) _) as [k|] eqn:E; [|contradiction].
  apply fold_range_find in E. destruct E as [E|E]; [exact E|].
  rewrite PositiveMap.gempty in E. discriminate.
Qed.

(** ... and every code point of a range of the table has the class of the range (the ranges
    do not overlap) *)
Lemma ccc_ranges_sweep :
  forallb (fun r : N * N * N =>
             forallb (fun c => ccc TT c =? snd r) (Nrange (N.to_nat (snd (fst r) + 1 - fst (fst r))) (fst (fst r))))
          gen_ccc = true.
Proof. vm_compute. reflexivity. Qed.

Lemma ccc_in_range : forall lo hi k c, In (lo, hi, k) gen_ccc -> lo <= c -> c <= hi -> ccc TT c = k.
Proof.
  intros lo hi k c Hin H1 H2.
  pose proof ccc_ranges_sweep as S. rewrite forallb_forall in S. specialize (S _ Hin). cbv beta in S.
  change (snd (fst (lo, hi, k))) with hi in S. change (fst (fst (lo, hi, k))) with lo in S.
  change (snd (lo, hi, k)) with k in S.
  apply N.eqb_eq. apply (Nrange_sweep (fun c => ccc TT c =? k) lo (hi + 1 - lo) S c H1). lia.
Qed.

Lemma ccc_ranges_nonzero : forallb (fun r : N * N * N => negb (snd r =? 0)) gen_ccc = true.
Proof. vm_compute. reflexivity. Qed.

(** [ccc] is exactly the look-up in the generated range table *)
Theorem ccc_spec : forall c k, k <> 0 ->
  (ccc TT c = k <-> exists lo hi, In (lo, hi, k) gen_ccc /\ lo <= c /\ c <= hi).
Proof.
  intros c k Hk. split.
  - intros E. subst k. now apply ccc_nonzero.
  - intros (lo & hi & Hin & H1 & H2). now apply (ccc_in_range lo hi).
Qed.

Theorem ccc_zero_spec : forall c,
  ccc TT c = 0 <-> ~ exists lo hi k, In (lo, hi, k) gen_ccc /\ lo <= c /\ c <= hi.
Proof.
  intros c. split.
  - intros E (lo & hi & k & Hin & H1 & H2).
    pose proof (ccc_in_range lo hi k c Hin H1 H2) as X.
    pose proof ccc_ranges_nonzero as S. rewrite forallb_forall in S. specialize (S _ Hin). simpl in S.
    apply negb_true_iff in S. apply N.eqb_neq in S. congruence.
  - intros H. destruct (N.eq_dec (ccc TT c) 0) as [E|NE]; [exact E|].
    exfalso. apply H. destruct (ccc_nonzero c NE) as (lo & hi & Hin & Hr).
    exists lo, hi, (ccc TT c). now split.
Qed.

(** table entries: every decomposition is canonically ordered as listed, first components of
    composites and all composites are starters *)
Lemma comp_entries_starters :
  forallb (fun r : N * N * N => (ccc TT (fst (fst r)) =? 0) && (ccc TT (snd r) =? 0)) gen_comp = true.
Proof. vm_compute. reflexivity. Qed.

Print Assumptions compose_pair_decomp.
Print Assumptions ccc_spec.
