(** Non-vacuity of the grammar theorems: concrete ladder-shaped trees, their
    canonical writing, and the parser run on that writing (by [vm_compute]). *)
From Borno Require Import Base Num Token Ast Parser Grammar ParserSC_Base ParserSound ParserComplete ParserSC_Paren.
Local Open Scope nat_scope.

Ltac wf :=
  lazymatch goal with
  | |- WFfull (EAssign _ _ _ _) => apply WF_assign; wf
  | |- WFfull (EArrAssign _ _ _ _) => apply WF_arrassign; wf
  | |- WFfull (EPropAssign _ _ _ _) => apply WF_propassign; wf
  | |- WFfull _ => apply WF_level; wf
  | |- WFk _ (EBinary _ _ _ _) => eapply WF_binary; [reflexivity|reflexivity|vm_compute; lia|wf|wf]
  | |- WFk _ (ELogical _ _ _) => eapply WF_logical; [reflexivity|reflexivity|vm_compute; lia|wf|wf]
  | |- WFk _ (EUnary _ _ _) => apply WF_unary; [reflexivity|vm_compute; lia|wf]
  | |- WFk _ (ELit _ _) => apply WF_lit
  | |- WFk _ (EId _ _) => apply WF_id
  | |- WFk _ (EGroup _ _) => apply WF_group; wf
  | |- WFk _ (ECall _ _ _) => apply WF_call; wf
  | |- WFk _ (EIndex _ _ _) => apply WF_index; wf
  | |- WFk _ (EProp _ _ _) => apply WF_prop; wf
  | |- WFk _ (EArray _) => apply WF_array; wf
  | |- WFk _ (EObject _) => apply WF_object; wf
  | |- Forall _ _ => cbn [map snd]; repeat (apply Forall_cons; [wf|]); apply Forall_nil
  | |- NoDup _ => cbn [map fst]; repeat (apply NoDup_cons; [cbn; intuition discriminate|]); apply NoDup_nil
  end.

(* three doubles, kept opaque so that [vm_compute] does not normalise Flocq's
   validity proofs inside them *)
Definition one : f64. Proof. exact (f_of_Z 1). Qed.
Definition two : f64. Proof. exact (f_of_Z 2). Qed.
Definition three : f64. Proof. exact (f_of_Z 3). Qed.
Definition num (v : f64) := ELit (LitNum v) 0%N.
Definition var (n : N) := EId [n] 0%N.
Definition toks (s : list tsym) : list token := map (tok_of_sym 0%N) s.

(** [1 + 2 * 3] *)
Definition ex_arith := EBinary TPLUS (num one) (EBinary TSTAR (num two) (num three) 0%N) 0%N.
Example ex_arith_wf : WFfull ex_arith. Proof. unfold ex_arith, num. wf. Qed.
Example ex_arith_flat :
  flat_e ex_arith = [SymNum one; Sym TPLUS; SymNum two; Sym TSTAR; SymNum three].
Proof. reflexivity. Qed.
Example ex_arith_parse : pexpr 0%N 40 (toks (flat_e ex_arith)) = POk ex_arith [] [].
Proof. vm_compute. reflexivity. Qed.
(** the other bracketing of the same tokens is not ladder-shaped … *)
Definition ex_arith_bad := EBinary TSTAR (EBinary TPLUS (num one) (num two) 0%N) (num three) 0%N.
Example ex_arith_bad_flat : flat_e ex_arith_bad = flat_e ex_arith. Proof. reflexivity. Qed.
Example ex_arith_bad_not_wf : ~ WFfull ex_arith_bad.
Proof.
  intros W. assert (E : ex_arith_bad = ex_arith).
  { apply tree_unique; [exact W|exact ex_arith_wf|reflexivity|reflexivity|reflexivity]. }
  discriminate E.
Qed.

(** [a = b = c] (right associative) *)
Definition ex_assign := EAssign [97%N] 0%N (EAssign [98%N] 0%N (var 99) 0%N) 0%N.
Example ex_assign_wf : WFfull ex_assign. Proof. unfold ex_assign, var. wf. Qed.
Example ex_assign_parse : pexpr 0%N 40 (toks (flat_e ex_assign)) = POk ex_assign [] [].
Proof. vm_compute. reflexivity. Qed.

(** [f(x)[0].k] and [o.p[1] = -a ** !b || c] *)
Definition ex_post := EProp (EIndex (ECall (var 102) 0%N [var 120]) (num one) 0%N) [107%N] 0%N.
Example ex_post_wf : WFfull ex_post. Proof. unfold ex_post, var, num. wf. Qed.
Example ex_post_parse : pexpr 0%N 60 (toks (flat_e ex_post)) = POk ex_post [] [].
Proof. vm_compute. reflexivity. Qed.

Definition ex_mixed :=
  EArrAssign (EProp (var 111) [112%N] 0%N) (num one)
    (ELogical TLOGICAL_OR
       (EBinary TPOWER (EUnary TMINUS (var 97) 0%N) (EUnary TBANG (var 98) 0%N) 0%N)
       (EObject [([107%N], EArray [var 99; EGroup ex_assign 0%N])])) 0%N.
Example ex_mixed_wf : WFfull ex_mixed. Proof. unfold ex_mixed, ex_assign, var, num. wf. Qed.
Example ex_mixed_parse : pexpr 0%N 80 (toks (flat_e ex_mixed)) = POk ex_mixed [] [].
Proof. vm_compute. reflexivity. Qed.

(** an object literal with a repeated key and a trailing comma is accepted (a
    liberty of the parser): [{k: a, k: b,}] reads as [{k: b}] *)
Example ex_object_liberty :
  pexpr 0%N 40 (toks [Sym TLEFT_BRACE; SymId [107%N]; Sym TCOLON; SymId [97%N]; Sym TCOMMA;
                      SymId [107%N]; Sym TCOLON; SymId [98%N]; Sym TCOMMA; Sym TRIGHT_BRACE])
  = POk (EObject [([107%N], var 98)]) [] [].
Proof. vm_compute. reflexivity. Qed.

(** an if/else nest: [যদি (a) যদি (b) x; নাহয় y; নাহয় z;] *)
Definition sx (n : N) := SExpr (var n).
Definition ex_if := SIf (var 97) (SIf (var 98) (sx 120) (Some (sx 121))) (Some (sx 122)).
Example ex_if_wf : WFs ex_if.
Proof.
  unfold ex_if, sx, var.
  apply WFs_ifelse; try reflexivity; [wf| |apply WFs_expr; [wf|reflexivity]].
  apply WFs_ifelse; try reflexivity; [wf|apply WFs_expr; [wf|reflexivity]|apply WFs_expr; [wf|reflexivity]].
Qed.
Example ex_if_parse : pprogram 0%N 60 (toks (flat_prog [ex_if])) = POk [ex_if] [] [].
Proof. vm_compute. reflexivity. Qed.

(** the dangling else: the tree that attaches [নাহয়] to the outer [যদি] across an
    else-less inner one is excluded by [open_if]; its writing is read the other way *)
Definition ex_dangling_bad := SIf (var 97) (SIf (var 98) (sx 120) None) (Some (sx 121)).
Definition ex_dangling_good := SIf (var 97) (SIf (var 98) (sx 120) (Some (sx 121))) None.
Example ex_dangling_same : flat_s ex_dangling_bad = flat_s ex_dangling_good. Proof. reflexivity. Qed.
Example ex_dangling_parse : pprogram 0%N 60 (toks (flat_prog [ex_dangling_bad])) = POk [ex_dangling_good] [] [].
Proof. vm_compute. reflexivity. Qed.
Example ex_dangling_not_wf : ~ WFs ex_dangling_bad.
Proof. intros W. apply WFs_cases in W. cbn in W. destruct W as (_ & _ & _ & O & _). discriminate O. Qed.

(** a function with a loop, declarations and a return *)
Definition ex_fun :=
  SFun [102%N] [[97%N]; [98%N]]
    [ SVarList [([105%N], Some (num one), 0%N); ([106%N], None, 0%N)];
      SFor (Some (SVar ([107%N], Some (num one), 0%N))) (EBinary TLESS (var 107) (var 97) 0%N)
           (Some (EAssign [107%N] 0%N (EBinary TPLUS (var 107) (num one) 0%N) 0%N))
           (SBlock [SPrint (var 107); SIf (var 98) (SBreak 0%N) None; SContinue 0%N]);
      SWhile (ELit (LitBool true) 0%N) (SReturn 0%N (Some (var 105)));
      SReturn 0%N None ].
Example ex_fun_wf : WFs ex_fun.
Proof.
  unfold ex_fun, var, num.
  apply WFs_fun; [reflexivity|cbn; unfold max_params; lia|].
  repeat apply Forall_cons; try apply Forall_nil.
  - apply WFs_varlist; [cbn; lia|]. repeat apply Forall_cons; try apply Forall_nil; (split; [reflexivity|]); [wf|exact I].
  - apply WFs_for; try reflexivity.
    + split; [reflexivity|wf].
    + wf.
    + cbn. wf.
    + apply WFs_block. repeat apply Forall_cons; try apply Forall_nil.
      * apply WFs_print. wf.
      * apply WFs_if; [wf|apply WFs_break|reflexivity].
      * apply WFs_continue.
  - apply WFs_while; [wf|apply WFs_return; cbn; wf|reflexivity].
  - apply WFs_return. exact I.
Qed.
Example ex_fun_parse : pprogram 0%N 120 (toks (flat_prog [ex_fun])) = POk [ex_fun] [] [].
Proof. vm_compute. reflexivity. Qed.

(** full parenthesisation of a tree that is not ladder-shaped *)
Example ex_paren_wf : WFfull (paren_all ex_arith_bad).
Proof. apply paren_all_WF. unfold ex_arith_bad, num. repeat (econstructor; try reflexivity). Qed.
Example ex_paren_parse :
  match pexpr 0%N 80 (toks (flat_e (paren_all ex_arith_bad))) with
  | POk e' [] [] => strip_groups e' = ex_arith_bad
  | _ => False
  end.
Proof. vm_compute. reflexivity. Qed.
