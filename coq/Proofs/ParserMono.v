(** Fuel monotonicity of the parser model: a result other than [PFuel] does not
    change when more fuel is given.

    The proof goes through the refinement order [ple r r'] ("[r] is [PFuel] or
    [r' = r]"): [pbind] is monotone for it, so every fuelled function is, by one
    induction on the fuel per mutual block. *)
From Borno Require Import Base Num Token Ast Parser.
From Borno Require Import ParserEqs.
Open Scope nat_scope.

(** * The refinement order on parse results *)

Definition ple {A} (r r' : pres A) : Prop := r <> PFuel -> r' = r.

Lemma ple_refl {A} (r : pres A) : ple r r.
Proof. intros _. reflexivity. Qed.

Lemma ple_fuel {A} (r' : pres A) : ple PFuel r'.
Proof. intros H. exfalso. apply H. reflexivity. Qed.

(** [pbind] is monotone *)
Lemma ple_bind {A B} (r r' : pres A) (k k' : A -> list token -> pres B) :
  ple r r' -> (forall a rest, ple (k a rest) (k' a rest)) -> ple (pbind r k) (pbind r' k').
Proof.
  intros Hr Hk Hnf.
  destruct r as [a rest ds| ds|].
  - rewrite (Hr ltac:(discriminate)). simpl in *.
    specialize (Hk a rest).
    destruct (k a rest) as [b rest' ds'| ds'|].
    + rewrite (Hk ltac:(discriminate)). reflexivity.
    + rewrite (Hk ltac:(discriminate)). reflexivity.
    + exfalso. apply Hnf. reflexivity.
  - rewrite (Hr ltac:(discriminate)). reflexivity.
  - exfalso. apply Hnf. reflexivity.
Qed.

Lemma ple_elim {A} (r r' x : pres A) : ple r r' -> r = x -> x <> PFuel -> r' = x.
Proof. intros H E Hx. subst x. apply H. exact Hx. Qed.

(** the inversion facts about [pbind] and [PFuel] (the "pbind_mono" helper) *)
Lemma pbind_not_fuel {A B} (r : pres A) (k : A -> list token -> pres B) :
  pbind r k <> PFuel ->
  r <> PFuel /\ (forall a rest ds, r = POk a rest ds -> k a rest <> PFuel).
Proof.
  intros H. split.
  - intros E. subst r. apply H. reflexivity.
  - intros a rest ds E Ek. subst r. simpl in H. rewrite Ek in H. apply H. reflexivity.
Qed.

(** one step of a monotonicity proof: peel a [pbind], split a [match], or close
    the goal by reflexivity / an induction hypothesis in the context *)
Ltac mono_step :=
  match goal with
  | |- ple ?x ?x => apply ple_refl
  | |- ple (pbind _ _) (pbind _ _) => apply ple_bind; [| intros ? ?; cbv beta zeta]
  | |- ple (match ?x with _ => _ end) _ => destruct x
  | |- ple _ _ => solve [auto]
  end.
Ltac mono := cbv beta zeta; repeat mono_step.

Section Mono.
Variable eofl : N.

Notation pexpr := (Parser.pexpr eofl).
Notation plevel := (Parser.plevel eofl).
Notation ploop := (Parser.ploop eofl).
Notation punary := (Parser.punary eofl).
Notation pcallloop := (Parser.pcallloop eofl).
Notation pargs := (Parser.pargs eofl).
Notation pprimary := (Parser.pprimary eofl).
Notation pprops := (Parser.pprops eofl).
Notation pvardecls := (Parser.pvardecls eofl).
Notation pparams := (Parser.pparams eofl).
Notation pdecl := (Parser.pdecl eofl).
Notation pstmt := (Parser.pstmt eofl).
Notation pblock := (Parser.pblock eofl).
Notation pprogram := (Parser.pprogram eofl).
Notation pvar := (Parser.pvar eofl).
Notation pexprstmt := (Parser.pexprstmt eofl).
Notation consume := (Parser.consume eofl).
Notation consume_lenient := (Parser.consume_lenient eofl).
Notation perr_at := (Parser.perr_at eofl).
Notation diag_at := (Parser.diag_at eofl).
Notation peek_line := (Parser.peek_line eofl).

(** * The expression block *)

Definition ExprMono (f : nat) : Prop := forall f', f <= f' ->
  (forall ts, ple (pexpr f ts) (pexpr f' ts)) /\
  (forall lv ts, ple (plevel f lv ts) (plevel f' lv ts)) /\
  (forall l lv e ts, ple (ploop f l lv e ts) (ploop f' l lv e ts)) /\
  (forall ts, ple (punary f ts) (punary f' ts)) /\
  (forall e ts, ple (pcallloop f e ts) (pcallloop f' e ts)) /\
  (forall ts, ple (pargs f ts) (pargs f' ts)) /\
  (forall ts, ple (pprimary f ts) (pprimary f' ts)) /\
  (forall acc ts, ple (pprops f acc ts) (pprops f' acc ts)).

Lemma expr_mono_all : forall f, ExprMono f.
Proof.
  induction f as [|f IH]; intros f' Hle.
  - split; [|split; [|split; [|split; [|split; [|split; [|split]]]]]]; intros; apply ple_fuel.
  - destruct f' as [|f']; [lia|].
    destruct (IH f' ltac:(lia)) as (Ie & Il & Ilo & Iu & Ic & Ia & Ipr & Ipp).
    split; [|split; [|split; [|split; [|split; [|split; [|split]]]]]].
    + intros ts. rewrite !pexpr_S. mono.
    + intros lv ts. rewrite !plevel_S. mono.
    + intros l lv e ts. rewrite !ploop_S. mono.
    + intros ts. rewrite !punary_S. mono.
    + intros e ts. rewrite !pcallloop_S. mono.
    + intros ts. rewrite !pargs_S. mono.
    + intros ts. rewrite !pprimary_S. mono.
    + intros acc ts. rewrite !pprops_S. mono.
Qed.

Lemma pexpr_ple f f' ts : f <= f' -> ple (pexpr f ts) (pexpr f' ts).
Proof. intros H. apply (expr_mono_all f f' H). Qed.
Lemma plevel_ple f f' lv ts : f <= f' -> ple (plevel f lv ts) (plevel f' lv ts).
Proof. intros H. apply (expr_mono_all f f' H). Qed.
Lemma ploop_ple f f' l lv e ts : f <= f' -> ple (ploop f l lv e ts) (ploop f' l lv e ts).
Proof. intros H. apply (expr_mono_all f f' H). Qed.
Lemma punary_ple f f' ts : f <= f' -> ple (punary f ts) (punary f' ts).
Proof. intros H. apply (expr_mono_all f f' H). Qed.
Lemma pcallloop_ple f f' e ts : f <= f' -> ple (pcallloop f e ts) (pcallloop f' e ts).
Proof. intros H. apply (expr_mono_all f f' H). Qed.
Lemma pargs_ple f f' ts : f <= f' -> ple (pargs f ts) (pargs f' ts).
Proof. intros H. apply (expr_mono_all f f' H). Qed.
Lemma pprimary_ple f f' ts : f <= f' -> ple (pprimary f ts) (pprimary f' ts).
Proof. intros H. apply (expr_mono_all f f' H). Qed.
Lemma pprops_ple f f' acc ts : f <= f' -> ple (pprops f acc ts) (pprops f' acc ts).
Proof. intros H. apply (expr_mono_all f f' H). Qed.

(** * Declarators, parameters, the two wrappers *)

Lemma pvardecls_ple : forall f f' l0 ts, f <= f' -> ple (pvardecls f l0 ts) (pvardecls f' l0 ts).
Proof.
  induction f as [|f IH]; intros f' l0 ts Hle.
  - apply ple_fuel.
  - destruct f' as [|f']; [lia|].
    assert (Ie : forall ts0, ple (pexpr f ts0) (pexpr f' ts0)) by (intros; apply pexpr_ple; lia).
    assert (Iv : forall l ts0, ple (pvardecls f l ts0) (pvardecls f' l ts0)) by (intros; apply IH; lia).
    rewrite !pvardecls_S. mono.
Qed.

Lemma pparams_ple : forall f f' n ts, f <= f' -> ple (pparams f n ts) (pparams f' n ts).
Proof.
  induction f as [|f IH]; intros f' n ts Hle.
  - apply ple_fuel.
  - destruct f' as [|f']; [lia|].
    assert (Ip : forall n0 ts0, ple (pparams f n0 ts0) (pparams f' n0 ts0)) by (intros; apply IH; lia).
    rewrite !pparams_S. mono.
Qed.

Lemma pvar_ple f f' ts : f <= f' -> ple (pvar f ts) (pvar f' ts).
Proof.
  intros Hle. unfold Parser.pvar.
  assert (Iv : forall l ts0, ple (pvardecls f l ts0) (pvardecls f' l ts0)) by (intros; apply pvardecls_ple; lia).
  mono.
Qed.

Lemma pexprstmt_ple f f' ts : f <= f' -> ple (pexprstmt f ts) (pexprstmt f' ts).
Proof.
  intros Hle. unfold Parser.pexprstmt.
  assert (Ie : forall ts0, ple (pexpr f ts0) (pexpr f' ts0)) by (intros; apply pexpr_ple; lia).
  mono.
Qed.

(** * The statement block *)

Definition StmtMono (f : nat) : Prop := forall f', f <= f' ->
  (forall ts, ple (pdecl f ts) (pdecl f' ts)) /\
  (forall ts, ple (pstmt f ts) (pstmt f' ts)) /\
  (forall ts, ple (pblock f ts) (pblock f' ts)).

Lemma stmt_mono_all : forall f, StmtMono f.
Proof.
  induction f as [|f IH]; intros f' Hle.
  - split; [|split]; intros; apply ple_fuel.
  - destruct f' as [|f']; [lia|].
    destruct (IH f' ltac:(lia)) as (Id & Is & Ib).
    assert (Ie : forall ts0, ple (pexpr f ts0) (pexpr f' ts0)) by (intros; apply pexpr_ple; lia).
    assert (Ip : forall n0 ts0, ple (pparams f n0 ts0) (pparams f' n0 ts0)) by (intros; apply pparams_ple; lia).
    assert (Iv : forall ts0, ple (pvar f ts0) (pvar f' ts0)) by (intros; apply pvar_ple; lia).
    assert (Ix : forall ts0, ple (pexprstmt f ts0) (pexprstmt f' ts0)) by (intros; apply pexprstmt_ple; lia).
    split; [|split].
    + intros ts. rewrite !pdecl_S. mono.
    + intros ts. rewrite !pstmt_S. mono.
    + intros ts. rewrite !pblock_S. mono.
Qed.

Lemma pdecl_ple f f' ts : f <= f' -> ple (pdecl f ts) (pdecl f' ts).
Proof. intros H. apply (stmt_mono_all f f' H). Qed.
Lemma pstmt_ple f f' ts : f <= f' -> ple (pstmt f ts) (pstmt f' ts).
Proof. intros H. apply (stmt_mono_all f f' H). Qed.
Lemma pblock_ple f f' ts : f <= f' -> ple (pblock f ts) (pblock f' ts).
Proof. intros H. apply (stmt_mono_all f f' H). Qed.

Lemma pprogram_ple : forall f f' ts, f <= f' -> ple (pprogram f ts) (pprogram f' ts).
Proof.
  induction f as [|f IH]; intros f' ts Hle.
  - apply ple_fuel.
  - destruct f' as [|f']; [lia|].
    assert (Id : forall ts0, ple (pdecl f ts0) (pdecl f' ts0)) by (intros; apply pdecl_ple; lia).
    assert (Ip : forall ts0, ple (pprogram f ts0) (pprogram f' ts0)) by (intros; apply IH; lia).
    rewrite !pprogram_S. mono.
Qed.

(** * The exported statements: a result that is not [PFuel] is stable under more fuel *)

Theorem pexpr_mono f f' ts r : f <= f' -> pexpr f ts = r -> r <> PFuel -> pexpr f' ts = r.
Proof. intros H. apply ple_elim, pexpr_ple, H. Qed.
Theorem plevel_mono f f' lv ts r : f <= f' -> plevel f lv ts = r -> r <> PFuel -> plevel f' lv ts = r.
Proof. intros H. apply ple_elim, plevel_ple, H. Qed.
Theorem ploop_mono f f' l lv e ts r : f <= f' -> ploop f l lv e ts = r -> r <> PFuel -> ploop f' l lv e ts = r.
Proof. intros H. apply ple_elim, ploop_ple, H. Qed.
Theorem punary_mono f f' ts r : f <= f' -> punary f ts = r -> r <> PFuel -> punary f' ts = r.
Proof. intros H. apply ple_elim, punary_ple, H. Qed.
Theorem pcallloop_mono f f' e ts r : f <= f' -> pcallloop f e ts = r -> r <> PFuel -> pcallloop f' e ts = r.
Proof. intros H. apply ple_elim, pcallloop_ple, H. Qed.
Theorem pargs_mono f f' ts r : f <= f' -> pargs f ts = r -> r <> PFuel -> pargs f' ts = r.
Proof. intros H. apply ple_elim, pargs_ple, H. Qed.
Theorem pprimary_mono f f' ts r : f <= f' -> pprimary f ts = r -> r <> PFuel -> pprimary f' ts = r.
Proof. intros H. apply ple_elim, pprimary_ple, H. Qed.
Theorem pprops_mono f f' acc ts r : f <= f' -> pprops f acc ts = r -> r <> PFuel -> pprops f' acc ts = r.
Proof. intros H. apply ple_elim, pprops_ple, H. Qed.
Theorem pvardecls_mono f f' l0 ts r : f <= f' -> pvardecls f l0 ts = r -> r <> PFuel -> pvardecls f' l0 ts = r.
Proof. intros H. apply ple_elim, pvardecls_ple, H. Qed.
Theorem pparams_mono f f' n ts r : f <= f' -> pparams f n ts = r -> r <> PFuel -> pparams f' n ts = r.
Proof. intros H. apply ple_elim, pparams_ple, H. Qed.
Theorem pvar_mono f f' ts r : f <= f' -> pvar f ts = r -> r <> PFuel -> pvar f' ts = r.
Proof. intros H. apply ple_elim, pvar_ple, H. Qed.
Theorem pexprstmt_mono f f' ts r : f <= f' -> pexprstmt f ts = r -> r <> PFuel -> pexprstmt f' ts = r.
Proof. intros H. apply ple_elim, pexprstmt_ple, H. Qed.
Theorem pdecl_mono f f' ts r : f <= f' -> pdecl f ts = r -> r <> PFuel -> pdecl f' ts = r.
Proof. intros H. apply ple_elim, pdecl_ple, H. Qed.
Theorem pstmt_mono f f' ts r : f <= f' -> pstmt f ts = r -> r <> PFuel -> pstmt f' ts = r.
Proof. intros H. apply ple_elim, pstmt_ple, H. Qed.
Theorem pblock_mono f f' ts r : f <= f' -> pblock f ts = r -> r <> PFuel -> pblock f' ts = r.
Proof. intros H. apply ple_elim, pblock_ple, H. Qed.
Theorem pprogram_mono f f' ts r : f <= f' -> pprogram f ts = r -> r <> PFuel -> pprogram f' ts = r.
Proof. intros H. apply ple_elim, pprogram_ple, H. Qed.

(** ** [POk] corollaries *)

Corollary pexpr_mono_ok f f' ts e r ds : pexpr f ts = POk e r ds -> f <= f' -> pexpr f' ts = POk e r ds.
Proof. intros E H. eapply pexpr_mono; [exact H|exact E|discriminate]. Qed.
Corollary plevel_mono_ok f f' lv ts e r ds : plevel f lv ts = POk e r ds -> f <= f' -> plevel f' lv ts = POk e r ds.
Proof. intros E H. eapply plevel_mono; [exact H|exact E|discriminate]. Qed.
Corollary ploop_mono_ok f f' l lv e0 ts e r ds : ploop f l lv e0 ts = POk e r ds -> f <= f' -> ploop f' l lv e0 ts = POk e r ds.
Proof. intros E H. eapply ploop_mono; [exact H|exact E|discriminate]. Qed.
Corollary punary_mono_ok f f' ts e r ds : punary f ts = POk e r ds -> f <= f' -> punary f' ts = POk e r ds.
Proof. intros E H. eapply punary_mono; [exact H|exact E|discriminate]. Qed.
Corollary pcallloop_mono_ok f f' e0 ts e r ds : pcallloop f e0 ts = POk e r ds -> f <= f' -> pcallloop f' e0 ts = POk e r ds.
Proof. intros E H. eapply pcallloop_mono; [exact H|exact E|discriminate]. Qed.
Corollary pargs_mono_ok f f' ts es r ds : pargs f ts = POk es r ds -> f <= f' -> pargs f' ts = POk es r ds.
Proof. intros E H. eapply pargs_mono; [exact H|exact E|discriminate]. Qed.
Corollary pprimary_mono_ok f f' ts e r ds : pprimary f ts = POk e r ds -> f <= f' -> pprimary f' ts = POk e r ds.
Proof. intros E H. eapply pprimary_mono; [exact H|exact E|discriminate]. Qed.
Corollary pprops_mono_ok f f' acc ts ps r ds : pprops f acc ts = POk ps r ds -> f <= f' -> pprops f' acc ts = POk ps r ds.
Proof. intros E H. eapply pprops_mono; [exact H|exact E|discriminate]. Qed.
Corollary pvardecls_mono_ok f f' l0 ts vs r ds : pvardecls f l0 ts = POk vs r ds -> f <= f' -> pvardecls f' l0 ts = POk vs r ds.
Proof. intros E H. eapply pvardecls_mono; [exact H|exact E|discriminate]. Qed.
Corollary pparams_mono_ok f f' n ts ps r ds : pparams f n ts = POk ps r ds -> f <= f' -> pparams f' n ts = POk ps r ds.
Proof. intros E H. eapply pparams_mono; [exact H|exact E|discriminate]. Qed.
Corollary pvar_mono_ok f f' ts s r ds : pvar f ts = POk s r ds -> f <= f' -> pvar f' ts = POk s r ds.
Proof. intros E H. eapply pvar_mono; [exact H|exact E|discriminate]. Qed.
Corollary pexprstmt_mono_ok f f' ts s r ds : pexprstmt f ts = POk s r ds -> f <= f' -> pexprstmt f' ts = POk s r ds.
Proof. intros E H. eapply pexprstmt_mono; [exact H|exact E|discriminate]. Qed.
Corollary pdecl_mono_ok f f' ts s r ds : pdecl f ts = POk s r ds -> f <= f' -> pdecl f' ts = POk s r ds.
Proof. intros E H. eapply pdecl_mono; [exact H|exact E|discriminate]. Qed.
Corollary pstmt_mono_ok f f' ts s r ds : pstmt f ts = POk s r ds -> f <= f' -> pstmt f' ts = POk s r ds.
Proof. intros E H. eapply pstmt_mono; [exact H|exact E|discriminate]. Qed.
Corollary pblock_mono_ok f f' ts ss r ds : pblock f ts = POk ss r ds -> f <= f' -> pblock f' ts = POk ss r ds.
Proof. intros E H. eapply pblock_mono; [exact H|exact E|discriminate]. Qed.
Corollary pprogram_mono_ok f f' ts ss r ds : pprogram f ts = POk ss r ds -> f <= f' -> pprogram f' ts = POk ss r ds.
Proof. intros E H. eapply pprogram_mono; [exact H|exact E|discriminate]. Qed.

(** ** [PErr] corollaries *)

Corollary pexpr_mono_err f f' ts ds : pexpr f ts = PErr ds -> f <= f' -> pexpr f' ts = PErr ds.
Proof. intros E H. eapply pexpr_mono; [exact H|exact E|discriminate]. Qed.
Corollary plevel_mono_err f f' lv ts ds : plevel f lv ts = PErr ds -> f <= f' -> plevel f' lv ts = PErr ds.
Proof. intros E H. eapply plevel_mono; [exact H|exact E|discriminate]. Qed.
Corollary ploop_mono_err f f' l lv e0 ts ds : ploop f l lv e0 ts = PErr ds -> f <= f' -> ploop f' l lv e0 ts = PErr ds.
Proof. intros E H. eapply ploop_mono; [exact H|exact E|discriminate]. Qed.
Corollary punary_mono_err f f' ts ds : punary f ts = PErr ds -> f <= f' -> punary f' ts = PErr ds.
Proof. intros E H. eapply punary_mono; [exact H|exact E|discriminate]. Qed.
Corollary pcallloop_mono_err f f' e0 ts ds : pcallloop f e0 ts = PErr ds -> f <= f' -> pcallloop f' e0 ts = PErr ds.
Proof. intros E H. eapply pcallloop_mono; [exact H|exact E|discriminate]. Qed.
Corollary pargs_mono_err f f' ts ds : pargs f ts = PErr ds -> f <= f' -> pargs f' ts = PErr ds.
Proof. intros E H. eapply pargs_mono; [exact H|exact E|discriminate]. Qed.
Corollary pprimary_mono_err f f' ts ds : pprimary f ts = PErr ds -> f <= f' -> pprimary f' ts = PErr ds.
Proof. intros E H. eapply pprimary_mono; [exact H|exact E|discriminate]. Qed.
Corollary pprops_mono_err f f' acc ts ds : pprops f acc ts = PErr ds -> f <= f' -> pprops f' acc ts = PErr ds.
Proof. intros E H. eapply pprops_mono; [exact H|exact E|discriminate]. Qed.
Corollary pvardecls_mono_err f f' l0 ts ds : pvardecls f l0 ts = PErr ds -> f <= f' -> pvardecls f' l0 ts = PErr ds.
Proof. intros E H. eapply pvardecls_mono; [exact H|exact E|discriminate]. Qed.
Corollary pparams_mono_err f f' n ts ds : pparams f n ts = PErr ds -> f <= f' -> pparams f' n ts = PErr ds.
Proof. intros E H. eapply pparams_mono; [exact H|exact E|discriminate]. Qed.
Corollary pvar_mono_err f f' ts ds : pvar f ts = PErr ds -> f <= f' -> pvar f' ts = PErr ds.
Proof. intros E H. eapply pvar_mono; [exact H|exact E|discriminate]. Qed.
Corollary pexprstmt_mono_err f f' ts ds : pexprstmt f ts = PErr ds -> f <= f' -> pexprstmt f' ts = PErr ds.
Proof. intros E H. eapply pexprstmt_mono; [exact H|exact E|discriminate]. Qed.
Corollary pdecl_mono_err f f' ts ds : pdecl f ts = PErr ds -> f <= f' -> pdecl f' ts = PErr ds.
Proof. intros E H. eapply pdecl_mono; [exact H|exact E|discriminate]. Qed.
Corollary pstmt_mono_err f f' ts ds : pstmt f ts = PErr ds -> f <= f' -> pstmt f' ts = PErr ds.
Proof. intros E H. eapply pstmt_mono; [exact H|exact E|discriminate]. Qed.
Corollary pblock_mono_err f f' ts ds : pblock f ts = PErr ds -> f <= f' -> pblock f' ts = PErr ds.
Proof. intros E H. eapply pblock_mono; [exact H|exact E|discriminate]. Qed.
Corollary pprogram_mono_err f f' ts ds : pprogram f ts = PErr ds -> f <= f' -> pprogram f' ts = PErr ds.
Proof. intros E H. eapply pprogram_mono; [exact H|exact E|discriminate]. Qed.

End Mono.

Print Assumptions pexpr_mono.
Print Assumptions pstmt_mono.
Print Assumptions pblock_mono.
Print Assumptions pprogram_mono.
Print Assumptions pprogram_mono_ok.
