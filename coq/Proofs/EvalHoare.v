(** Partial-correctness (Hoare-style) rules, sound against the fuelled evaluator.
    Assertions range over the WHOLE state, including the output log [out] and the
    unread input [inp], so a proved triple pins down the order and multiplicity of
    effects.  "Partial": a triple speaks about runs that end with [Ok]; nothing
    is claimed about runs that fail, crash or do not terminate. *)
From Borno Require Import Base Num Unicode Token Ast Value Eval EvalEqs EvalMeta.
Open Scope N_scope.

Section Hoare.
Variable libm : N -> f64 -> f64 -> f64.
Variable clock : f64.
Variable sched : N -> list (list N * value) -> list (list N * value).

Notation eval := (eval libm clock sched).
Notation eval_list := (eval_list libm clock sched).
Notation eval_props := (eval_props libm clock sched).
Notation exec := (exec libm clock sched).
Notation exec_var := (exec_var libm clock sched).
Notation exec_vars := (exec_vars libm clock sched).
Notation exec_list := (exec_list libm clock sched).
Notation exec_while := (exec_while libm clock sched).
Notation exec_for := (exec_for libm clock sched).
Notation run_stmts := (run_stmts libm clock sched).

(** triples for expressions, statements and statement lists; the post-condition
    sees the value / the signal *)
Definition etriple (P : state -> Prop) (e : expr) (rho : nat) (Q : value -> state -> Prop) : Prop :=
  forall f s v s', P s -> eval f e rho s = Ok v s' -> Q v s'.
Definition striple (repl : bool) (P : state -> Prop) (st : stmt) (rho : nat) (Q : signal -> state -> Prop) : Prop :=
  forall f s sig s', P s -> exec f repl st rho s = Ok sig s' -> Q sig s'.
Definition ltriple (repl : bool) (P : state -> Prop) (ss : list stmt) (rho : nat) (Q : signal -> state -> Prop) : Prop :=
  forall f s sig s', P s -> exec_list f repl ss rho s = Ok sig s' -> Q sig s'.

Lemma striple_conseq repl (P P' : state -> Prop) st rho (Q Q' : signal -> state -> Prop) :
  (forall s, P' s -> P s) -> (forall sig s, Q sig s -> Q' sig s) ->
  striple repl P st rho Q -> striple repl P' st rho Q'.
Proof. intros HP HQ T f s sig s' H E. apply HQ. eapply T; [apply HP; exact H|exact E]. Qed.

Lemma ltriple_conseq repl (P P' : state -> Prop) ss rho (Q Q' : signal -> state -> Prop) :
  (forall s, P' s -> P s) -> (forall sig s, Q sig s -> Q' sig s) ->
  ltriple repl P ss rho Q -> ltriple repl P' ss rho Q'.
Proof. intros HP HQ T f s sig s' H E. apply HQ. eapply T; [apply HP; exact H|exact E]. Qed.

(* ------------------------------------------------------------------ *)
(** * Conditional *)

(** Exactly one arm runs, chosen by [truthy] of the condition's value, from the
    state the condition left; with a falsy condition and no else-arm nothing runs. *)
Theorem if_rule repl c t e rho (P Pt Pe : state -> Prop) (Q : signal -> state -> Prop) :
  etriple P c rho (fun cv s1 => if truthy cv then Pt s1 else Pe s1) ->
  striple repl Pt t rho Q ->
  match e with
  | Some e' => striple repl Pe e' rho Q
  | None => forall s1, Pe s1 -> Q SigNone s1
  end ->
  striple repl P (SIf c t e) rho Q.
Proof.
  intros Hc Ht He f s sig s' HP H.
  destruct f as [|f]; [rewrite exec_0 in H; discriminate H|].
  rewrite exec_S in H. bdo H as cv s1 E1.
  pose proof (Hc _ _ _ _ HP E1) as C. cbv beta in C.
  destruct (truthy cv).
  - eapply Ht; [exact C|exact H].
  - destruct e as [e'|].
    + eapply He; [exact C|exact H].
    + inversion H; subst. apply He; exact C.
Qed.

(* ------------------------------------------------------------------ *)
(** * Sequences and blocks *)

Theorem nil_rule repl rho (P : state -> Prop) (Q : signal -> state -> Prop) :
  (forall s, P s -> Q SigNone s) -> ltriple repl P [] rho Q.
Proof.
  intros HQ f s sig s' HP H. destruct f as [|f]; [rewrite exec_list_0 in H; discriminate H|].
  rewrite exec_list_S in H. inversion H; subst. apply HQ; exact HP.
Qed.

(** the rest of the list runs only if the first statement ended without a signal;
    otherwise the signal (and the state) of the first statement is the result *)
Theorem seq_rule repl st ss rho (P R : state -> Prop) (Q : signal -> state -> Prop) :
  striple repl P st rho (fun sig s1 => match sig with SigNone => R s1 | _ => Q sig s1 end) ->
  ltriple repl R ss rho Q ->
  ltriple repl P (st :: ss) rho Q.
Proof.
  intros H1 H2 f s sig s' HP H. destruct f as [|f]; [rewrite exec_list_0 in H; discriminate H|].
  rewrite exec_list_S in H. bdo H as sg s1 E.
  pose proof (H1 _ _ _ _ HP E) as C. cbv beta in C.
  destruct sg; try (inversion H; subst; exact C).
  eapply H2; [exact C|exact H].
Qed.

Theorem app_rule repl ss1 ss2 rho (P R : state -> Prop) (Q : signal -> state -> Prop) :
  ltriple repl P ss1 rho (fun sig s1 => match sig with SigNone => R s1 | _ => Q sig s1 end) ->
  ltriple repl R ss2 rho Q ->
  ltriple repl P (ss1 ++ ss2) rho Q.
Proof.
  intros H1 H2 f s sig s' HP H.
  destruct (exec_list_app_inv _ _ _ _ _ _ _ _ _ _ _ H) as [(E1 & N)|(s1 & E1 & E2)].
  - pose proof (H1 _ _ _ _ HP E1) as C. cbv beta in C.
    destruct sig; [exfalso; apply N; reflexivity|exact C|exact C|exact C].
  - pose proof (H1 _ _ _ _ HP E1) as C. cbv beta in C. eapply H2; [exact C|exact E2].
Qed.

(** a block runs its statements in a fresh scope whose parent is the current one *)
Theorem block_rule repl ss rho (P : state -> Prop) (Q : signal -> state -> Prop) :
  (forall rho', ltriple repl (fun s1 => exists s, P s /\ alloc_env (Some rho) s = (rho', s1)) ss rho' Q) ->
  striple repl P (SBlock ss) rho Q.
Proof.
  intros HB f s sig s' HP H. destruct f as [|f]; [rewrite exec_0 in H; discriminate H|].
  rewrite exec_S in H. destruct (alloc_env (Some rho) s) as [rho' s1] eqn:Ea.
  eapply HB; [|exact H]. exists s. split; [exact HP|exact Ea].
Qed.

(** print: one [EvPrint] event with the text of the value, after the effects of the expression *)
Theorem print_rule repl e rho (P : state -> Prop) (Q : signal -> state -> Prop) :
  etriple P e rho (fun v s1 => forall t, text_of s1 v = TOk t -> Q SigNone (emit (EvPrint t) s1)) ->
  striple repl P (SPrint e) rho Q.
Proof.
  intros He f s sig s' HP H. destruct f as [|f]; [rewrite exec_0 in H; discriminate H|].
  rewrite exec_S in H. bdo H as v s1 E.
  pose proof (He _ _ _ _ HP E) as C. cbv beta in C.
  destruct (text_of s1 v) as [t| | |] eqn:Et; inversion H; subst. apply C; reflexivity.
Qed.

(* ------------------------------------------------------------------ *)
(** * Loops *)

(** what a finished loop guarantees: it ended because the condition was falsy
    ([Qexit]) or by a break ([Qbreak]) - both give [SigNone] - or by a return *)
Definition post_loop (Qexit Qbreak : state -> Prop) (Qret : N -> value -> state -> Prop)
    (sig : signal) (s : state) : Prop :=
  (sig = SigNone /\ (Qexit s \/ Qbreak s)) \/ (exists l v, sig = SigReturn l v /\ Qret l v s).

Section WhileRule.
Variables (repl : bool) (c : expr) (b : stmt) (rho : nat).
Variables (I B Qexit Qbreak : state -> Prop) (Qret : N -> value -> state -> Prop).
(** the condition, evaluated in an invariant state, leads to [B] (truthy) or [Qexit] (falsy) *)
Hypothesis Hc : forall f s cv s1, I s -> eval f c rho s = Ok cv s1 -> if truthy cv then B s1 else Qexit s1.
(** the body, run from [B], re-establishes [I] (normal end or continue), or leaves
    through break -> [Qbreak], return -> [Qret] *)
Hypothesis Hb : forall f s sg s2, B s -> exec f repl b rho s = Ok sg s2 ->
  match sg with
  | SigNone | SigContinue _ => I s2
  | SigBreak _ => Qbreak s2
  | SigReturn l v => Qret l v s2
  end.

Theorem while_rule : forall f s sig s',
  I s -> exec_while f repl c b rho s = Ok sig s' -> post_loop Qexit Qbreak Qret sig s'.
Proof.
  induction f as [|f IH]; intros s sig s' HI H; [rewrite exec_while_0 in H; discriminate H|].
  rewrite exec_while_S in H. bdo H as cv s1 E1.
  pose proof (Hc _ _ _ _ HI E1) as C. destruct (truthy cv).
  - bdo H as sg s2 E2. pose proof (Hb _ _ _ _ C E2) as K.
    destruct sg as [|bl|cl|rl rv].
    + eapply IH; [exact K|exact H].
    + inversion H; subst. left. split; [reflexivity|right; exact K].
    + eapply IH; [exact K|exact H].
    + inversion H; subst. right. exists rl, rv. split; [reflexivity|exact K].
  - inversion H; subst. left. split; [reflexivity|left; exact C].
Qed.

Theorem while_stmt_rule : striple repl I (SWhile c b) rho (post_loop Qexit Qbreak Qret).
Proof.
  intros f s sig s' HI H. destruct f as [|f]; [rewrite exec_0 in H; discriminate H|].
  rewrite exec_S in H. eapply while_rule; [exact HI|exact H].
Qed.
End WhileRule.

(** the same rule without the intermediate assertion, in the form: from any
    invariant state, if the condition evaluates to [cv] in [s1] then, when [cv] is
    truthy, every finished run of the body from [s1] ends as required, and when it
    is falsy, [Qexit s1] *)
Theorem while_rule' repl c b rho (I Qexit Qbreak : state -> Prop) (Qret : N -> value -> state -> Prop) :
  (forall f s cv s1, I s -> eval f c rho s = Ok cv s1 ->
     (truthy cv = true -> forall g sg s2, exec g repl b rho s1 = Ok sg s2 ->
        match sg with
        | SigNone | SigContinue _ => I s2
        | SigBreak _ => Qbreak s2
        | SigReturn l v => Qret l v s2
        end) /\
     (truthy cv = false -> Qexit s1)) ->
  forall f s sig s', I s -> exec_while f repl c b rho s = Ok sig s' ->
    (sig = SigNone /\ (Qexit s' \/ Qbreak s')) \/ (exists l v, sig = SigReturn l v /\ Qret l v s').
Proof.
  intros H f s sig s' HI E.
  eapply (while_rule repl c b rho I
            (fun s1 => exists f0 s0 cv, I s0 /\ eval f0 c rho s0 = Ok cv s1 /\ truthy cv = true)
            Qexit Qbreak Qret); [| |exact HI|exact E].
  - intros f0 s0 cv s1 HI0 E0. destruct (truthy cv) eqn:T.
    + exists f0, s0, cv. auto.
    + destruct (H _ _ _ _ HI0 E0) as (_ & K). apply K; exact T.
  - intros g s1 sg s2 (f0 & s0 & cv & HI0 & E0 & T) Eb.
    destruct (H _ _ _ _ HI0 E0) as (K & _). eapply K; [exact T|exact Eb].
Qed.

Section ForRule.
Variables (repl : bool) (c : expr) (inc : option expr) (b : stmt) (rho : nat).
Variables (I B J Qexit Qbreak : state -> Prop) (Qret : N -> value -> state -> Prop).
Hypothesis Hc : forall f s cv s1, I s -> eval f c rho s = Ok cv s1 -> if truthy cv then B s1 else Qexit s1.
(** normal end and continue BOTH lead to [J], the precondition of the increment *)
Hypothesis Hb : forall f s sg s2, B s -> exec f repl b rho s = Ok sg s2 ->
  match sg with
  | SigNone | SigContinue _ => J s2
  | SigBreak _ => Qbreak s2
  | SigReturn l v => Qret l v s2
  end.
(** the increment (if any) re-establishes the invariant *)
Hypothesis Hi : forall f s v s3, J s ->
  (match inc with Some e => eval f e rho s | None => Ok VNil s end) = Ok v s3 -> I s3.

Theorem for_rule : forall f s sig s',
  I s -> exec_for f repl c inc b rho s = Ok sig s' -> post_loop Qexit Qbreak Qret sig s'.
Proof.
  induction f as [|f IH]; intros s sig s' HI H; [rewrite exec_for_0 in H; discriminate H|].
  rewrite exec_for_S in H. bdo H as cv s1 E1.
  pose proof (Hc _ _ _ _ HI E1) as C. destruct (truthy cv).
  - bdo H as sg s2 E2. pose proof (Hb _ _ _ _ C E2) as K.
    destruct sg as [|bl|cl|rl rv].
    + bdo H as iv s3 E3. eapply IH; [eapply Hi; [exact K|exact E3]|exact H].
    + inversion H; subst. left. split; [reflexivity|right; exact K].
    + bdo H as iv s3 E3. eapply IH; [eapply Hi; [exact K|exact E3]|exact H].
    + inversion H; subst. right. exists rl, rv. split; [reflexivity|exact K].
  - inversion H; subst. left. split; [reflexivity|left; exact C].
Qed.
End ForRule.

(** the [ফর] statement: a fresh scope [rho'] (child of the current one) is made, the
    initialiser runs in it once, then the loop proper; assertions may mention [rho'] *)
Theorem for_stmt_rule repl init c inc b rho (P : state -> Prop)
    (I B J Qexit Qbreak : nat -> state -> Prop) (Qret : nat -> N -> value -> state -> Prop) :
  (forall rho' f s s0 sg s1, P s -> alloc_env (Some rho) s = (rho', s0) ->
     match init with Some i => exec f repl i rho' s0 | None => Ok SigNone s0 end = Ok sg s1 ->
     sg = SigNone /\ I rho' s1) ->
  (forall rho' f s cv s1, I rho' s -> eval f c rho' s = Ok cv s1 ->
     if truthy cv then B rho' s1 else Qexit rho' s1) ->
  (forall rho' f s sg s2, B rho' s -> exec f repl b rho' s = Ok sg s2 ->
     match sg with
     | SigNone | SigContinue _ => J rho' s2
     | SigBreak _ => Qbreak rho' s2
     | SigReturn l v => Qret rho' l v s2
     end) ->
  (forall rho' f s v s3, J rho' s ->
     (match inc with Some e => eval f e rho' s | None => Ok VNil s end) = Ok v s3 -> I rho' s3) ->
  striple repl P (SFor init c inc b) rho
    (fun sig s' => exists rho', post_loop (Qexit rho') (Qbreak rho') (Qret rho') sig s').
Proof.
  intros Hinit Hc Hb Hi f s sig s' HP H.
  destruct f as [|f]; [rewrite exec_0 in H; discriminate H|].
  rewrite exec_S in H. destruct (alloc_env (Some rho) s) as [rho' s0] eqn:Ea.
  bdo H as sg s1 E. destruct (Hinit _ _ _ _ _ _ HP Ea E) as (-> & HI).
  exists rho'.
  eapply (for_rule repl c inc b rho' (I rho') (B rho') (J rho') (Qexit rho') (Qbreak rho') (Qret rho'));
    [apply Hc|apply Hb|apply Hi|exact HI|exact H].
Qed.

(* ------------------------------------------------------------------ *)
(** * A symbolic instance with a non-trivial invariant about the output

    [যতক্ষণ (x) দেখাও "a";] for an arbitrary variable [x], scope, fuel and start
    state: if the loop ends, it ended normally and the output is the initial output
    with some number of copies of the one print event in front - nothing else was
    written, nothing was read. *)

Lemma text_of_str s t : text_of s (VStr t) = TOk t.
Proof. reflexivity. Qed.

Example while_print_loop repl x l1 l2 rho f s sig s' :
  exec_while f repl (EId x l1) (SPrint (ELit (LitStr [97]) l2)) rho s = Ok sig s' ->
  sig = SigNone /\ exists k, out s' = replicate k (EvPrint [97]) ++ out s /\ inp s' = inp s.
Proof.
  intros H.
  pose (I := fun s1 : state => exists k, out s1 = replicate k (EvPrint [97]) ++ out s /\ inp s1 = inp s).
  assert (HI : I s) by (exists 0%nat; split; reflexivity).
  destruct (while_rule repl (EId x l1) (SPrint (ELit (LitStr [97]) l2)) rho
              I I I (fun _ => False) (fun _ _ _ => False)) with (f := f) (s := s) (sig := sig) (s' := s')
    as [(-> & [K|[]])|(l & v & _ & [])]; [| |exact HI|exact H|split; [reflexivity|exact K]].
  - (* the condition is a variable: no effect *)
    intros g s0 cv s1 HI0 E. destruct g as [|g]; [rewrite eval_0 in E; discriminate E|].
    rewrite eval_S in E. destruct (env_get rho x s0) as [[w|]|]; inversion E; subst.
    destruct (truthy cv); exact HI0.
  - (* the body prints once and ends normally *)
    intros g s0 sg s2 (k & O & In) E. destruct g as [|g]; [rewrite exec_0 in E; discriminate E|].
    rewrite exec_S in E. bdo E as v s1 Ev.
    destruct g as [|g]; [rewrite eval_0 in Ev; discriminate Ev|].
    rewrite eval_S in Ev. inversion Ev; subst. simpl value_of_lit in E. rewrite text_of_str in E.
    inversion E; subst. exists (S k). split; [simpl; rewrite O; reflexivity|exact In].
Qed.

End Hoare.

(* ------------------------------------------------------------------ *)
(** * A concrete run showing the order init, condition, body, increment

    [ফর (ইনপুট("i"); ইনপুট("c"); ইনপুট("n")) দেখাও "b";] with the four input lines
    "1", "1", "1", "" : every part of the loop header announces itself through the
    prompt of ইনপুট; the condition is truthy while the line read is non-empty. *)

Definition ex_libm (_ : N) (x _ : f64) : f64 := x.
Definition ex_clock : f64 := f_of_Z 0.
Definition ex_sched (_ : N) (l : list (list N * value)) : list (list N * value) := l.

Definition ex_input (tag : N) : expr :=
  ECall (EId (native_name NInput) 1) 1 [ELit (LitStr [tag]) 1].

Definition ex_for : stmt :=
  SFor (Some (SExpr (ex_input 105))) (ex_input 99) (Some (ex_input 110))
       (SPrint (ELit (LitStr [98]) 1)).

Example for_order :
  match exec ex_libm ex_clock ex_sched 50 false ex_for 1%nat (init_state [49;10;49;10;49;10;10]) with
  | Ok sig s => Some (sig, rev (out s), inp s)
  | _ => None
  end
  = Some (SigNone,
          [EvPrompt [105];            (* init *)
           EvPrompt [99];             (* condition: reads "1", truthy *)
           EvPrint [98];              (* body *)
           EvPrompt [110];            (* increment *)
           EvPrompt [99]],            (* condition: reads "", falsy: exit *)
          []).
Proof. vm_compute. reflexivity. Qed.

(** [ফর (ধরি i = 0; i < 3; i = i + 1) { দেখাও i; }] prints 0, 1, 2 in this order and ends normally *)
Definition ex_i : list N := [105].
Definition ex_count : stmt :=
  SFor (Some (SVar (ex_i, Some (ELit (LitNum (f_of_Z 0)) 1), 1)))
       (EBinary TLESS (EId ex_i 1) (ELit (LitNum (f_of_Z 3)) 1) 1)
       (Some (EAssign ex_i 1 (EBinary TPLUS (EId ex_i 1) (ELit (LitNum (f_of_Z 1)) 1) 1) 1))
       (SBlock [SPrint (EId ex_i 1)]).

Example for_count :
  match exec ex_libm ex_clock ex_sched 50 false ex_count 1%nat (init_state []) with
  | Ok sig s => Some (sig, rev (out s))
  | _ => None
  end
  = Some (SigNone, [EvPrint [48]; EvPrint [49]; EvPrint [50]]).
Proof. vm_compute. reflexivity. Qed.

Print Assumptions if_rule.
Print Assumptions while_rule.
Print Assumptions for_rule.
Print Assumptions for_stmt_rule.
Print Assumptions while_print_loop.
