(** Meta-theory of the fuelled evaluator: bind inversion, fuel monotonicity,
    output/input growth, error absorption, diagnostic lines, containment of
    loop signals, skipping after a signal. *)
From Borno Require Import Base Num Unicode Token Ast Value Eval EvalEqs.
Open Scope N_scope.

(* ------------------------------------------------------------------ *)
(** * Bind inversion *)

Lemma bind_ok {A B} (r : res A) (k : A -> state -> res B) b s' :
  bind r k = Ok b s' -> exists a s1, r = Ok a s1 /\ k a s1 = Ok b s'.
Proof. destruct r; simpl; intros H; try discriminate; eauto. Qed.

Lemma bind_err {A B} (r : res A) (k : A -> state -> res B) e l s' :
  bind r k = Err e l s' ->
  r = Err e l s' \/ exists a s1, r = Ok a s1 /\ k a s1 = Err e l s'.
Proof. destruct r; simpl; intros H; try discriminate; [right; eauto | left; inversion H; reflexivity]. Qed.

Lemma bind_crash {A B} (r : res A) (k : A -> state -> res B) s' :
  bind r k = Crash s' ->
  r = Crash s' \/ exists a s1, r = Ok a s1 /\ k a s1 = Crash s'.
Proof. destruct r; simpl; intros H; try discriminate; [right; eauto | left; inversion H; reflexivity]. Qed.

Lemma bind_stuck {A B} (r : res A) (k : A -> state -> res B) :
  bind r k = Stuck -> r = Stuck \/ exists a s1, r = Ok a s1 /\ k a s1 = Stuck.
Proof. destruct r; simpl; intros H; try discriminate; [right; eauto | left; reflexivity]. Qed.

Lemma bind_fuel {A B} (r : res A) (k : A -> state -> res B) :
  bind r k = Fuel -> r = Fuel \/ exists a s1, r = Ok a s1 /\ k a s1 = Fuel.
Proof. destruct r; simpl; intros H; try discriminate; [right; eauto | left; reflexivity]. Qed.

Lemma bind_Ok_l {A B} (r : res A) (k : A -> state -> res B) a s1 :
  r = Ok a s1 -> bind r k = k a s1.
Proof. intros ->; reflexivity. Qed.

Lemma bind_Err_l {A B} (r : res A) (k : A -> state -> res B) e l s1 :
  r = Err e l s1 -> bind r k = Err e l s1.
Proof. intros ->; reflexivity. Qed.

Lemma bind_Crash_l {A B} (r : res A) (k : A -> state -> res B) s1 :
  r = Crash s1 -> bind r k = Crash s1.
Proof. intros ->; reflexivity. Qed.

(** [bdo H as a s1 E]: H : bind r k = Ok _ _  becomes  E : r = Ok a s1, H : k a s1 = Ok _ _ *)
Tactic Notation "bdo" hyp(H) "as" ident(a) ident(s1) ident(E) :=
  apply bind_ok in H; destruct H as (a & s1 & E & H).
(** [bde H as a s1 E]: H : bind r k = Err … ; two goals: (1) H : r = Err …,
    (2) E : r = Ok a s1, H : k a s1 = Err … *)
Tactic Notation "bde" hyp(H) "as" ident(a) ident(s1) ident(E) :=
  apply bind_err in H; destruct H as [H | (a & s1 & E & H)].
Tactic Notation "bdc" hyp(H) "as" ident(a) ident(s1) ident(E) :=
  apply bind_crash in H; destruct H as [H | (a & s1 & E & H)].

(* ------------------------------------------------------------------ *)
(** * The approximation order on results: [r'] agrees with [r] unless [r] ran out of fuel *)

Definition le_res {A} (r r' : res A) : Prop := r <> Fuel -> r' = r.

Lemma le_refl {A} (r : res A) : le_res r r.
Proof. intros _; reflexivity. Qed.

Lemma le_fuel {A} (r : res A) : le_res Fuel r.
Proof. intros N; exfalso; apply N; reflexivity. Qed.

Lemma le_bind {A B} (r r' : res A) (k k' : A -> state -> res B) :
  le_res r r' -> (forall a s, le_res (k a s) (k' a s)) -> le_res (bind r k) (bind r' k').
Proof.
  intros H K N. destruct r as [a s|e l s| | |s]; simpl in N |- *;
    try (rewrite H by discriminate; reflexivity).
  - rewrite H by discriminate. simpl. apply K; exact N.
  - exfalso; apply N; reflexivity.
Qed.

Lemma le_use {A} (r r' x : res A) : le_res r r' -> r = x -> x <> Fuel -> r' = x.
Proof. intros H E N. subst x. apply H; exact N. Qed.

Section Meta.
Variable libm : N -> f64 -> f64 -> f64.
Variable clock : f64.
Variable sched : N -> list (list N * value) -> list (list N * value).

Notation eval := (eval libm clock sched).
Notation eval_list := (eval_list libm clock sched).
Notation eval_props := (eval_props libm clock sched).
Notation exec := (exec libm clock sched).
Notation exec_var := (exec_var libm clock sched).
Notation exec_vars := (exec_vars libm clock sched).
Notation exec_list := (exec_list libm clock sched).
Notation exec_while := (exec_while libm clock sched).
Notation exec_for := (exec_for libm clock sched).
Notation run_stmts := (run_stmts libm clock sched).
Notation call_native := (call_native libm clock sched).

(* ------------------------------------------------------------------ *)
(** * A1. Fuel monotonicity *)

Definition mono_at (f f' : nat) : Prop :=
  (forall e rho s, le_res (eval f e rho s) (eval f' e rho s)) /\
  (forall es rho s, le_res (eval_list f es rho s) (eval_list f' es rho s)) /\
  (forall ps rho s, le_res (eval_props f ps rho s) (eval_props f' ps rho s)) /\
  (forall repl st rho s, le_res (exec f repl st rho s) (exec f' repl st rho s)) /\
  (forall d rho s, le_res (exec_var f d rho s) (exec_var f' d rho s)) /\
  (forall ds rho s, le_res (exec_vars f ds rho s) (exec_vars f' ds rho s)) /\
  (forall repl ss rho s, le_res (exec_list f repl ss rho s) (exec_list f' repl ss rho s)) /\
  (forall repl c b rho s, le_res (exec_while f repl c b rho s) (exec_while f' repl c b rho s)) /\
  (forall repl c inc b rho s, le_res (exec_for f repl c inc b rho s) (exec_for f' repl c inc b rho s)).

Ltac mono_go :=
  repeat first
    [ apply le_refl
    | match goal with H : forall _, _ |- le_res _ _ => apply H end
    | apply le_bind; [ | intros ? ? ]
    | match goal with |- le_res (match ?x with _ => _ end) _ => destruct x end ].

Lemma mono_all : forall f f', (f <= f')%nat -> mono_at f f'.
Proof.
  induction f as [|f IH]; intros f' Hle.
  - unfold mono_at. repeat split; intros;
      rewrite ?eval_0, ?eval_list_0, ?eval_props_0, ?exec_0, ?exec_var_0, ?exec_vars_0,
        ?exec_list_0, ?exec_while_0, ?exec_for_0; apply le_fuel.
  - destruct f' as [|f']; [lia|].
    assert (Hle' : (f <= f')%nat) by lia.
    destruct (IH f' Hle') as (Hev & Hel & Hep & Hex & Hxv & Hxvs & Hxl & Hxw & Hxf).
    clear IH Hle Hle'.
    unfold mono_at.
    split; [|split; [|split; [|split; [|split; [|split; [|split; [|split]]]]]]].
    + intros e rho s. rewrite !eval_S. destruct e; mono_go.
    + intros es rho s. rewrite !eval_list_S. destruct es; mono_go.
    + intros ps rho s. rewrite !eval_props_S. destruct ps as [|[k e] ps]; mono_go.
    + intros repl st rho s. rewrite !exec_S. destruct st; mono_go.
    + intros d rho s. rewrite !exec_var_S. destruct d as [[x init] line]; mono_go.
    + intros ds rho s. rewrite !exec_vars_S. destruct ds; mono_go.
    + intros repl ss rho s. rewrite !exec_list_S. destruct ss; mono_go.
    + intros repl c b rho s. rewrite !exec_while_S. mono_go.
    + intros repl c inc b rho s. rewrite !exec_for_S. mono_go.
Qed.

(** More fuel never changes a result other than [Fuel]. *)
Lemma eval_mono f f' e rho s r :
  (f <= f')%nat -> eval f e rho s = r -> r <> Fuel -> eval f' e rho s = r.
Proof. intros L E N. destruct (mono_all f f' L) as (H & _). eapply le_use; [apply H|exact E|exact N]. Qed.

Lemma eval_list_mono f f' es rho s r :
  (f <= f')%nat -> eval_list f es rho s = r -> r <> Fuel -> eval_list f' es rho s = r.
Proof. intros L E N. destruct (mono_all f f' L) as (_ & H & _). eapply le_use; [apply H|exact E|exact N]. Qed.

Lemma eval_props_mono f f' ps rho s r :
  (f <= f')%nat -> eval_props f ps rho s = r -> r <> Fuel -> eval_props f' ps rho s = r.
Proof. intros L E N. destruct (mono_all f f' L) as (_ & _ & H & _). eapply le_use; [apply H|exact E|exact N]. Qed.

Lemma exec_mono f f' repl st rho s r :
  (f <= f')%nat -> exec f repl st rho s = r -> r <> Fuel -> exec f' repl st rho s = r.
Proof. intros L E N. destruct (mono_all f f' L) as (_ & _ & _ & H & _). eapply le_use; [apply H|exact E|exact N]. Qed.

Lemma exec_var_mono f f' d rho s r :
  (f <= f')%nat -> exec_var f d rho s = r -> r <> Fuel -> exec_var f' d rho s = r.
Proof. intros L E N. destruct (mono_all f f' L) as (_ & _ & _ & _ & H & _). eapply le_use; [apply H|exact E|exact N]. Qed.

Lemma exec_vars_mono f f' ds rho s r :
  (f <= f')%nat -> exec_vars f ds rho s = r -> r <> Fuel -> exec_vars f' ds rho s = r.
Proof. intros L E N. destruct (mono_all f f' L) as (_ & _ & _ & _ & _ & H & _). eapply le_use; [apply H|exact E|exact N]. Qed.

Lemma exec_list_mono f f' repl ss rho s r :
  (f <= f')%nat -> exec_list f repl ss rho s = r -> r <> Fuel -> exec_list f' repl ss rho s = r.
Proof. intros L E N. destruct (mono_all f f' L) as (_ & _ & _ & _ & _ & _ & H & _). eapply le_use; [apply H|exact E|exact N]. Qed.

Lemma exec_while_mono f f' repl c b rho s r :
  (f <= f')%nat -> exec_while f repl c b rho s = r -> r <> Fuel -> exec_while f' repl c b rho s = r.
Proof. intros L E N. destruct (mono_all f f' L) as (_ & _ & _ & _ & _ & _ & _ & H & _). eapply le_use; [apply H|exact E|exact N]. Qed.

Lemma exec_for_mono f f' repl c inc b rho s r :
  (f <= f')%nat -> exec_for f repl c inc b rho s = r -> r <> Fuel -> exec_for f' repl c inc b rho s = r.
Proof. intros L E N. destruct (mono_all f f' L) as (_ & _ & _ & _ & _ & _ & _ & _ & H). eapply le_use; [apply H|exact E|exact N]. Qed.

Lemma run_stmts_le f f' repl : (f <= f')%nat ->
  forall p s, le_res (run_stmts f repl p s) (run_stmts f' repl p s).
Proof.
  intros L. destruct (mono_all f f' L) as (_ & _ & _ & Hex & _).
  induction p as [|st p IH]; intros s; simpl.
  - apply le_refl.
  - apply le_bind; [apply Hex|]. intros sig s1. destruct sig; try apply le_refl. apply IH.
Qed.

Lemma run_stmts_mono f f' repl p s r :
  (f <= f')%nat -> run_stmts f repl p s = r -> r <> Fuel -> run_stmts f' repl p s = r.
Proof. intros L E N. eapply le_use; [apply run_stmts_le; exact L|exact E|exact N]. Qed.

(* ------------------------------------------------------------------ *)
(** * A2. Output is only appended, input only consumed from the front *)

Definition grows (s s' : state) : Prop :=
  (exists d, out s' = d ++ out s) /\ (exists k, inp s = k ++ inp s').

Definition sameio (s s' : state) : Prop := out s' = out s /\ inp s' = inp s.

Lemma grows_refl s : grows s s.
Proof. split; exists []; reflexivity. Qed.

Lemma grows_trans s1 s2 s3 : grows s1 s2 -> grows s2 s3 -> grows s1 s3.
Proof.
  intros ((d1 & O1) & (k1 & I1)) ((d2 & O2) & (k2 & I2)). split.
  - exists (d2 ++ d1). rewrite O2, O1, app_assoc. reflexivity.
  - exists (k1 ++ k2). rewrite I1, I2, app_assoc. reflexivity.
Qed.

Lemma sameio_grows s s' : sameio s s' -> grows s s'.
Proof. intros (O & I). split; exists []; simpl; congruence. Qed.

Lemma sameio_refl s : sameio s s.
Proof. split; reflexivity. Qed.

Lemma sameio_trans s1 s2 s3 : sameio s1 s2 -> sameio s2 s3 -> sameio s1 s3.
Proof. intros (O1 & I1) (O2 & I2). split; congruence. Qed.

Lemma grows_emit ev s : grows s (emit ev s).
Proof. split; [exists [ev]|exists []]; reflexivity. Qed.

Lemma env_define_io rho x v s s' : env_define rho x v s = Some s' -> sameio s s'.
Proof.
  unfold env_define. destruct (nth_error (envs s) rho) as [[b p]|]; intros H; inversion H.
  split; reflexivity.
Qed.

Lemma env_assign_io rho x v s s' : env_assign rho x v s = Some (Some s') -> sameio s s'.
Proof.
  unfold env_assign. destruct (env_lookup _ rho x s) as [[[q w]|]|]; try discriminate.
  destruct (env_define q x v s) as [s2|] eqn:E; intros H; inversion H; subst.
  eapply env_define_io; exact E.
Qed.

Lemma bind_params_io act : forall ps vs s s', bind_params act ps vs s = Some s' -> sameio s s'.
Proof.
  induction ps as [|p ps IH]; intros vs s s' H; simpl in H.
  - inversion H; apply sameio_refl.
  - destruct vs as [|v vs]; [inversion H; apply sameio_refl|].
    destruct (env_define act p v s) as [s1|] eqn:E; [|discriminate].
    eapply sameio_trans; [eapply env_define_io; exact E|eapply IH; exact H].
Qed.

Lemma alloc_env_io p s rho s' : alloc_env p s = (rho, s') -> sameio s s'.
Proof. unfold alloc_env. intros H; inversion H. split; reflexivity. Qed.
Lemma alloc_arr_io vs s l s' : alloc_arr vs s = (l, s') -> sameio s s'.
Proof. unfold alloc_arr. intros H; inversion H. split; reflexivity. Qed.
Lemma alloc_obj_io ps s l s' : alloc_obj ps s = (l, s') -> sameio s s'.
Proof. unfold alloc_obj. intros H; inversion H. split; reflexivity. Qed.
Lemma alloc_fun_io c s l s' : alloc_fun c s = (l, s') -> sameio s s'.
Proof. unfold alloc_fun. intros H; inversion H. split; reflexivity. Qed.

Lemma read_line_app : forall l a b, read_line l = (a, b) -> l = a ++ b.
Proof.
  induction l as [|c r IH]; simpl; intros a b H.
  - inversion H; reflexivity.
  - destruct (c =? 10).
    + inversion H; reflexivity.
    + destruct (read_line r) as [a' b'] eqn:E. inversion H; subst. simpl. f_equal. apply IH. reflexivity.
Qed.

Ltac break_hyp H :=
  repeat match type of H with
  | context [match ?x with _ => _ end] => destruct x eqn:?; try discriminate H
  end.

Lemma grows_input s s1 line rest :
  grows s s1 -> inp s1 = inp s -> read_line (inp s1) = (line, rest) -> grows s (set_inp rest s1).
Proof.
  intros ((d & O) & _) I R. split.
  - exists d. exact O.
  - exists line. simpl. rewrite <- I. apply read_line_app. exact R.
Qed.

(** a successful built-in only appends to the output and consumes a prefix of the input *)
Lemma call_native_grows n args s v s' : call_native n args s = NOk v s' -> grows s s'.
Proof.
  intros H. destruct n; simpl in H;
    unfold math1, min_max, alloc_arr, iterate_sorted in H.
  17: { destruct args as [|a [|b r]]; [| |discriminate H].
        - destruct (inp s) eqn:I; [discriminate H|]. rewrite <- I in H.
          destruct (read_line (inp s)) as [line rest] eqn:R. inversion H; subst.
          eapply grows_input; [apply grows_refl|reflexivity|exact R].
        - destruct a; try discriminate H.
          remember (emit (EvPrompt s0) s) as s1 eqn:E1.
          destruct (inp s1) eqn:I; [discriminate H|]. rewrite <- I in H.
          destruct (read_line (inp s1)) as [line rest] eqn:R. inversion H; subst.
          eapply grows_input; [apply grows_emit|reflexivity|exact R]. }
  all: break_hyp H; inversion H; subst; try apply grows_refl;
    try (apply sameio_grows; split; reflexivity).
Qed.

Lemma native_fail_grows n args s : grows s (native_fail_state n args s).
Proof.
  unfold native_fail_state. destruct n; try apply grows_refl.
  repeat match goal with |- context [match ?x with _ => _ end] => destruct x end;
    try apply grows_refl; apply grows_emit.
Qed.

Definition Grows {A} (s : state) (r : res A) : Prop :=
  match r with Ok _ s' | Err _ _ s' | Crash s' => grows s s' | _ => True end.

Lemma Grows_bind {A B} s (r : res A) (k : A -> state -> res B) :
  Grows s r -> (forall a s1, Grows s1 (k a s1)) -> Grows s (bind r k).
Proof.
  intros H K. destruct r as [a s1|e l s1| | |s1]; simpl in *; try exact H; try exact I.
  specialize (K a s1). destruct (k a s1); simpl in *; try exact I; eapply grows_trans; eassumption.
Qed.

Lemma Grows_trans {A} s s1 (r : res A) : grows s s1 -> Grows s1 r -> Grows s r.
Proof. intros G H. destruct r; simpl in *; try exact I; eapply grows_trans; eassumption. Qed.

Lemma Grows_same {A} s s1 (r : res A) : sameio s s1 -> Grows s1 r -> Grows s r.
Proof. intros G. apply Grows_trans. apply sameio_grows; exact G. Qed.

Definition grows_at (f : nat) : Prop :=
  (forall e rho s, Grows s (eval f e rho s)) /\
  (forall es rho s, Grows s (eval_list f es rho s)) /\
  (forall ps rho s, Grows s (eval_props f ps rho s)) /\
  (forall repl st rho s, Grows s (exec f repl st rho s)) /\
  (forall d rho s, Grows s (exec_var f d rho s)) /\
  (forall ds rho s, Grows s (exec_vars f ds rho s)) /\
  (forall repl ss rho s, Grows s (exec_list f repl ss rho s)) /\
  (forall repl c b rho s, Grows s (exec_while f repl c b rho s)) /\
  (forall repl c inc b rho s, Grows s (exec_for f repl c inc b rho s)).

Ltac grows_leaf :=
  simpl; first
    [ exact I
    | apply grows_refl
    | apply grows_emit
    | apply native_fail_grows
    | eapply call_native_grows; eassumption
    | apply sameio_grows;
      first [ eapply env_assign_io; eassumption
            | eapply env_define_io; eassumption
            | split; reflexivity ] ].

Ltac grows_go :=
  repeat first
    [ match goal with H : forall _, _ |- Grows _ _ => apply H end
    | match goal with |- Grows _ (bind _ _) => apply Grows_bind; [ | intros ? ? ] end
    | match goal with
      | E : alloc_env _ ?s = (_, ?s') |- Grows ?s _ =>
          apply (Grows_same s s'); [eapply alloc_env_io; exact E|]
      | E : alloc_arr _ ?s = (_, ?s') |- Grows ?s _ =>
          apply (Grows_same s s'); [eapply alloc_arr_io; exact E|]
      | E : alloc_obj _ ?s = (_, ?s') |- Grows ?s _ =>
          apply (Grows_same s s'); [eapply alloc_obj_io; exact E|]
      | E : alloc_fun _ ?s = (_, ?s') |- Grows ?s _ =>
          apply (Grows_same s s'); [eapply alloc_fun_io; exact E|]
      | E : env_define _ _ _ ?s = Some ?s' |- Grows ?s (match _ with _ => _ end) =>
          apply (Grows_same s s'); [eapply env_define_io; exact E|]
      | E : bind_params _ _ _ ?s = Some ?s' |- Grows ?s _ =>
          apply (Grows_same s s'); [eapply bind_params_io; exact E|]
      end
    | match goal with |- Grows _ (match ?x with _ => _ end) => destruct x eqn:? end
    | progress unfold lift_ores
    | grows_leaf ].

Lemma grows_all : forall f, grows_at f.
Proof.
  induction f as [|f IH].
  - unfold grows_at. repeat split; intros;
      rewrite ?eval_0, ?eval_list_0, ?eval_props_0, ?exec_0, ?exec_var_0, ?exec_vars_0,
        ?exec_list_0, ?exec_while_0, ?exec_for_0; exact I.
  - destruct IH as (Hev & Hel & Hep & Hex & Hxv & Hxvs & Hxl & Hxw & Hxf).
    unfold grows_at.
    split; [|split; [|split; [|split; [|split; [|split; [|split; [|split]]]]]]].
    + intros e rho s. rewrite eval_S. destruct e; grows_go.
    + intros es rho s. rewrite eval_list_S. destruct es; grows_go.
    + intros ps rho s. rewrite eval_props_S. destruct ps as [|[k e] ps]; grows_go.
    + intros repl st rho s. rewrite exec_S. destruct st; grows_go.
    + intros d rho s. rewrite exec_var_S. destruct d as [[x init] line]; grows_go.
    + intros ds rho s. rewrite exec_vars_S. destruct ds; grows_go.
    + intros repl ss rho s. rewrite exec_list_S. destruct ss; grows_go.
    + intros repl c b rho s. rewrite exec_while_S. grows_go.
    + intros repl c inc b rho s. rewrite exec_for_S. grows_go.
Qed.

End Meta.
