(** Meta-theory of the fuelled evaluator: bind inversion, fuel monotonicity,
    output/input growth, error absorption, diagnostic lines, containment of
    loop signals, skipping after a signal. *)
From Borno Require Import Base Num Unicode Token Lexer Ast Parser Value Eval Cli EvalEqs.
Open Scope N_scope.

(* ------------------------------------------------------------------ *)
(** * Bind inversion *)

Lemma bind_ok {A B} (r : res A) (k : A -> state -> res B) b s' :
  bind r k = Ok b s' -> exists a s1, r = Ok a s1 /\ k a s1 = Ok b s'.
Proof. destruct r; simpl; intros H; try discriminate; eauto. Qed.

Lemma bind_err {A B} (r : res A) (k : A -> state -> res B) e l s' :
  bind r k = Err e l s' ->
  r = Err e l s' \/ exists a s1, r = Ok a s1 /\ k a s1 = Err e l s'.
Proof. destruct r; simpl; intros H; try discriminate; [right; eauto | left; inversion H; reflexivity]. Qed.

Lemma bind_crash {A B} (r : res A) (k : A -> state -> res B) s' :
  bind r k = Crash s' ->
  r = Crash s' \/ exists a s1, r = Ok a s1 /\ k a s1 = Crash s'.
Proof. destruct r; simpl; intros H; try discriminate; [right; eauto | left; inversion H; reflexivity]. Qed.

Lemma bind_stuck {A B} (r : res A) (k : A -> state -> res B) :
  bind r k = Stuck -> r = Stuck \/ exists a s1, r = Ok a s1 /\ k a s1 = Stuck.
Proof. destruct r; simpl; intros H; try discriminate; [right; eauto | left; reflexivity]. Qed.

Lemma bind_fuel {A B} (r : res A) (k : A -> state -> res B) :
  bind r k = Fuel -> r = Fuel \/ exists a s1, r = Ok a s1 /\ k a s1 = Fuel.
Proof. destruct r; simpl; intros H; try discriminate; [right; eauto | left; reflexivity]. Qed.

Lemma bind_Ok_l {A B} (r : res A) (k : A -> state -> res B) a s1 :
  r = Ok a s1 -> bind r k = k a s1.
Proof. intros ->; reflexivity. Qed.

Lemma bind_Err_l {A B} (r : res A) (k : A -> state -> res B) e l s1 :
  r = Err e l s1 -> bind r k = Err e l s1.
Proof. intros ->; reflexivity. Qed.

Lemma bind_Crash_l {A B} (r : res A) (k : A -> state -> res B) s1 :
  r = Crash s1 -> bind r k = Crash s1.
Proof. intros ->; reflexivity. Qed.

(** [bdo H as a s1 E]: H : bind r k = Ok _ _  becomes  E : r = Ok a s1, H : k a s1 = Ok _ _ *)
Tactic Notation "bdo" hyp(H) "as" ident(a) ident(s1) ident(E) :=
  apply bind_ok in H; destruct H as (a & s1 & E & H).
(** [bde H as a s1 E]: H : bind r k = Err … ; two goals: (1) H : r = Err …,
    (2) E : r = Ok a s1, H : k a s1 = Err … *)
Tactic Notation "bde" hyp(H) "as" ident(a) ident(s1) ident(E) :=
  apply bind_err in H; destruct H as [H | (a & s1 & E & H)].
Tactic Notation "bdc" hyp(H) "as" ident(a) ident(s1) ident(E) :=
  apply bind_crash in H; destruct H as [H | (a & s1 & E & H)].

(* ------------------------------------------------------------------ *)
(** * The approximation order on results: [r'] agrees with [r] unless [r] ran out of fuel *)

Definition le_res {A} (r r' : res A) : Prop := r <> Fuel -> r' = r.

Lemma le_refl {A} (r : res A) : le_res r r.
Proof. intros _; reflexivity. Qed.

Lemma le_fuel {A} (r : res A) : le_res Fuel r.
Proof. intros N; exfalso; apply N; reflexivity. Qed.

Lemma le_bind {A B} (r r' : res A) (k k' : A -> state -> res B) :
  le_res r r' -> (forall a s, le_res (k a s) (k' a s)) -> le_res (bind r k) (bind r' k').
Proof.
  intros H K N. destruct r as [a s|e l s| | |s]; simpl in N |- *;
    try (rewrite H by discriminate; reflexivity).
  - rewrite H by discriminate. simpl. apply K; exact N.
  - exfalso; apply N; reflexivity.
Qed.

Lemma le_use {A} (r r' x : res A) : le_res r r' -> r = x -> x <> Fuel -> r' = x.
Proof. intros H E N. subst x. apply H; exact N. Qed.

Section Meta.
Variable libm : N -> f64 -> f64 -> f64.
Variable clock : f64.
Variable sched : N -> list (list N * value) -> list (list N * value).

Notation eval := (eval libm clock sched).
Notation eval_list := (eval_list libm clock sched).
Notation eval_props := (eval_props libm clock sched).
Notation exec := (exec libm clock sched).
Notation exec_var := (exec_var libm clock sched).
Notation exec_vars := (exec_vars libm clock sched).
Notation exec_list := (exec_list libm clock sched).
Notation exec_while := (exec_while libm clock sched).
Notation exec_for := (exec_for libm clock sched).
Notation run_stmts := (run_stmts libm clock sched).
Notation call_native := (call_native libm clock sched).

(* ------------------------------------------------------------------ *)
(** * A1. Fuel monotonicity *)

Definition mono_at (f f' : nat) : Prop :=
  (forall e rho s, le_res (eval f e rho s) (eval f' e rho s)) /\
  (forall es rho s, le_res (eval_list f es rho s) (eval_list f' es rho s)) /\
  (forall ps rho s, le_res (eval_props f ps rho s) (eval_props f' ps rho s)) /\
  (forall repl st rho s, le_res (exec f repl st rho s) (exec f' repl st rho s)) /\
  (forall d rho s, le_res (exec_var f d rho s) (exec_var f' d rho s)) /\
  (forall ds rho s, le_res (exec_vars f ds rho s) (exec_vars f' ds rho s)) /\
  (forall repl ss rho s, le_res (exec_list f repl ss rho s) (exec_list f' repl ss rho s)) /\
  (forall repl c b rho s, le_res (exec_while f repl c b rho s) (exec_while f' repl c b rho s)) /\
  (forall repl c inc b rho s, le_res (exec_for f repl c inc b rho s) (exec_for f' repl c inc b rho s)).

Ltac mono_go :=
  repeat first
    [ apply le_refl
    | match goal with H : forall _, _ |- le_res _ _ => apply H end
    | apply le_bind; [ | intros ? ? ]
    | match goal with |- le_res (match ?x with _ => _ end) _ => destruct x end ].

Lemma mono_all : forall f f', (f <= f')%nat -> mono_at f f'.
Proof.
  induction f as [|f IH]; intros f' Hle.
  - unfold mono_at. repeat split; intros;
      rewrite ?eval_0, ?eval_list_0, ?eval_props_0, ?exec_0, ?exec_var_0, ?exec_vars_0,
        ?exec_list_0, ?exec_while_0, ?exec_for_0; apply le_fuel.
  - destruct f' as [|f']; [lia|].
    assert (Hle' : (f <= f')%nat) by lia.
    destruct (IH f' Hle') as (Hev & Hel & Hep & Hex & Hxv & Hxvs & Hxl & Hxw & Hxf).
    clear IH Hle Hle'.
    unfold mono_at.
    split; [|split; [|split; [|split; [|split; [|split; [|split; [|split]]]]]]].
    + intros e rho s. rewrite !eval_S. destruct e; mono_go.
    + intros es rho s. rewrite !eval_list_S. destruct es; mono_go.
    + intros ps rho s. rewrite !eval_props_S. destruct ps as [|[k e] ps]; mono_go.
    + intros repl st rho s. rewrite !exec_S. destruct st; mono_go.
    + intros d rho s. rewrite !exec_var_S. destruct d as [[x init] line]; mono_go.
    + intros ds rho s. rewrite !exec_vars_S. destruct ds; mono_go.
    + intros repl ss rho s. rewrite !exec_list_S. destruct ss; mono_go.
    + intros repl c b rho s. rewrite !exec_while_S. mono_go.
    + intros repl c inc b rho s. rewrite !exec_for_S. mono_go.
Qed.

(** More fuel never changes a result other than [Fuel]. *)
Lemma eval_mono f f' e rho s r :
  (f <= f')%nat -> eval f e rho s = r -> r <> Fuel -> eval f' e rho s = r.
Proof. intros L E N. destruct (mono_all f f' L) as (H & _). eapply le_use; [apply H|exact E|exact N]. Qed.

Lemma eval_list_mono f f' es rho s r :
  (f <= f')%nat -> eval_list f es rho s = r -> r <> Fuel -> eval_list f' es rho s = r.
Proof. intros L E N. destruct (mono_all f f' L) as (_ & H & _). eapply le_use; [apply H|exact E|exact N]. Qed.

Lemma eval_props_mono f f' ps rho s r :
  (f <= f')%nat -> eval_props f ps rho s = r -> r <> Fuel -> eval_props f' ps rho s = r.
Proof. intros L E N. destruct (mono_all f f' L) as (_ & _ & H & _). eapply le_use; [apply H|exact E|exact N]. Qed.

Lemma exec_mono f f' repl st rho s r :
  (f <= f')%nat -> exec f repl st rho s = r -> r <> Fuel -> exec f' repl st rho s = r.
Proof. intros L E N. destruct (mono_all f f' L) as (_ & _ & _ & H & _). eapply le_use; [apply H|exact E|exact N]. Qed.

Lemma exec_var_mono f f' d rho s r :
  (f <= f')%nat -> exec_var f d rho s = r -> r <> Fuel -> exec_var f' d rho s = r.
Proof. intros L E N. destruct (mono_all f f' L) as (_ & _ & _ & _ & H & _). eapply le_use; [apply H|exact E|exact N]. Qed.

Lemma exec_vars_mono f f' ds rho s r :
  (f <= f')%nat -> exec_vars f ds rho s = r -> r <> Fuel -> exec_vars f' ds rho s = r.
Proof. intros L E N. destruct (mono_all f f' L) as (_ & _ & _ & _ & _ & H & _). eapply le_use; [apply H|exact E|exact N]. Qed.

Lemma exec_list_mono f f' repl ss rho s r :
  (f <= f')%nat -> exec_list f repl ss rho s = r -> r <> Fuel -> exec_list f' repl ss rho s = r.
Proof. intros L E N. destruct (mono_all f f' L) as (_ & _ & _ & _ & _ & _ & H & _). eapply le_use; [apply H|exact E|exact N]. Qed.

Lemma exec_while_mono f f' repl c b rho s r :
  (f <= f')%nat -> exec_while f repl c b rho s = r -> r <> Fuel -> exec_while f' repl c b rho s = r.
Proof. intros L E N. destruct (mono_all f f' L) as (_ & _ & _ & _ & _ & _ & _ & H & _). eapply le_use; [apply H|exact E|exact N]. Qed.

Lemma exec_for_mono f f' repl c inc b rho s r :
  (f <= f')%nat -> exec_for f repl c inc b rho s = r -> r <> Fuel -> exec_for f' repl c inc b rho s = r.
Proof. intros L E N. destruct (mono_all f f' L) as (_ & _ & _ & _ & _ & _ & _ & _ & H). eapply le_use; [apply H|exact E|exact N]. Qed.

Lemma run_stmts_le f f' repl : (f <= f')%nat ->
  forall p s, le_res (run_stmts f repl p s) (run_stmts f' repl p s).
Proof.
  intros L. destruct (mono_all f f' L) as (_ & _ & _ & Hex & _).
  induction p as [|st p IH]; intros s; simpl.
  - apply le_refl.
  - apply le_bind; [apply Hex|]. intros sig s1. destruct sig; try apply le_refl. apply IH.
Qed.

Lemma run_stmts_mono f f' repl p s r :
  (f <= f')%nat -> run_stmts f repl p s = r -> r <> Fuel -> run_stmts f' repl p s = r.
Proof. intros L E N. eapply le_use; [apply run_stmts_le; exact L|exact E|exact N]. Qed.

(* ------------------------------------------------------------------ *)
(** * A2. Output is only appended, input only consumed from the front *)

Definition grows (s s' : state) : Prop :=
  (exists d, out s' = d ++ out s) /\ (exists k, inp s = k ++ inp s').

Definition sameio (s s' : state) : Prop := out s' = out s /\ inp s' = inp s.

Lemma grows_refl s : grows s s.
Proof. split; exists []; reflexivity. Qed.

Lemma grows_trans s1 s2 s3 : grows s1 s2 -> grows s2 s3 -> grows s1 s3.
Proof.
  intros ((d1 & O1) & (k1 & I1)) ((d2 & O2) & (k2 & I2)). split.
  - exists (d2 ++ d1). rewrite O2, O1, app_assoc. reflexivity.
  - exists (k1 ++ k2). rewrite I1, I2, app_assoc. reflexivity.
Qed.

Lemma sameio_grows s s' : sameio s s' -> grows s s'.
Proof. intros (O & I). split; exists []; simpl; congruence. Qed.

Lemma sameio_refl s : sameio s s.
Proof. split; reflexivity. Qed.

Lemma sameio_trans s1 s2 s3 : sameio s1 s2 -> sameio s2 s3 -> sameio s1 s3.
Proof. intros (O1 & I1) (O2 & I2). split; congruence. Qed.

Lemma grows_emit ev s : grows s (emit ev s).
Proof. split; [exists [ev]|exists []]; reflexivity. Qed.

Lemma env_define_io rho x v s s' : env_define rho x v s = Some s' -> sameio s s'.
Proof.
  unfold env_define. destruct (nth_error (envs s) rho) as [[b p]|]; intros H; inversion H.
  split; reflexivity.
Qed.

Lemma env_assign_io rho x v s s' : env_assign rho x v s = Some (Some s') -> sameio s s'.
Proof.
  unfold env_assign. destruct (env_lookup _ rho x s) as [[[q w]|]|]; try discriminate.
  destruct (env_define q x v s) as [s2|] eqn:E; intros H; inversion H; subst.
  eapply env_define_io; exact E.
Qed.

Lemma bind_params_io act : forall ps vs s s', bind_params act ps vs s = Some s' -> sameio s s'.
Proof.
  induction ps as [|p ps IH]; intros vs s s' H; simpl in H.
  - inversion H; apply sameio_refl.
  - destruct vs as [|v vs]; [inversion H; apply sameio_refl|].
    destruct (env_define act p v s) as [s1|] eqn:E; [|discriminate].
    eapply sameio_trans; [eapply env_define_io; exact E|eapply IH; exact H].
Qed.

Lemma alloc_env_io p s rho s' : alloc_env p s = (rho, s') -> sameio s s'.
Proof. unfold alloc_env. intros H; inversion H. split; reflexivity. Qed.
Lemma alloc_arr_io vs s l s' : alloc_arr vs s = (l, s') -> sameio s s'.
Proof. unfold alloc_arr. intros H; inversion H. split; reflexivity. Qed.
Lemma alloc_obj_io ps s l s' : alloc_obj ps s = (l, s') -> sameio s s'.
Proof. unfold alloc_obj. intros H; inversion H. split; reflexivity. Qed.
Lemma alloc_fun_io c s l s' : alloc_fun c s = (l, s') -> sameio s s'.
Proof. unfold alloc_fun. intros H; inversion H. split; reflexivity. Qed.

Lemma read_line_app : forall l a b, read_line l = (a, b) -> l = a ++ b.
Proof.
  induction l as [|c r IH]; simpl; intros a b H.
  - inversion H; reflexivity.
  - destruct (c =? 10).
    + inversion H; reflexivity.
    + destruct (read_line r) as [a' b'] eqn:E. inversion H; subst. simpl. f_equal. apply IH. reflexivity.
Qed.

Ltac break_hyp H :=
  repeat match type of H with
  | context [match ?x with _ => _ end] => destruct x eqn:?; try discriminate H
  end.

Lemma grows_input s s1 line rest :
  grows s s1 -> inp s1 = inp s -> read_line (inp s1) = (line, rest) -> grows s (set_inp rest s1).
Proof.
  intros ((d & O) & _) I R. split.
  - exists d. exact O.
  - exists line. simpl. rewrite <- I. apply read_line_app. exact R.
Qed.

(** a successful built-in only appends to the output and consumes a prefix of the input *)
Lemma call_native_grows n args s v s' : call_native n args s = NOk v s' -> grows s s'.
Proof.
  intros H. destruct n; simpl in H;
    unfold math1, min_max, alloc_arr, iterate_sorted in H.
  17: { destruct args as [|a [|b r]]; [| |discriminate H].
        - destruct (inp s) eqn:I; [discriminate H|]. rewrite <- I in H.
          destruct (read_line (inp s)) as [line rest] eqn:R. inversion H; subst.
          eapply grows_input; [apply grows_refl|reflexivity|exact R].
        - destruct a; try discriminate H.
          remember (emit (EvPrompt s0) s) as s1 eqn:E1.
          destruct (inp s1) eqn:I; [discriminate H|]. rewrite <- I in H.
          destruct (read_line (inp s1)) as [line rest] eqn:R. inversion H; subst.
          eapply grows_input; [apply grows_emit|reflexivity|exact R]. }
  all: break_hyp H; inversion H; subst; try apply grows_refl;
    try (apply sameio_grows; split; reflexivity).
Qed.

Lemma native_fail_grows n args s : grows s (native_fail_state n args s).
Proof.
  unfold native_fail_state. destruct n; try apply grows_refl.
  repeat match goal with |- context [match ?x with _ => _ end] => destruct x end;
    try apply grows_refl; apply grows_emit.
Qed.

Definition Grows {A} (s : state) (r : res A) : Prop :=
  match r with Ok _ s' | Err _ _ s' | Crash s' => grows s s' | _ => True end.

Lemma Grows_bind {A B} s (r : res A) (k : A -> state -> res B) :
  Grows s r -> (forall a s1, Grows s1 (k a s1)) -> Grows s (bind r k).
Proof.
  intros H K. destruct r as [a s1|e l s1| | |s1]; simpl in *; try exact H; try exact I.
  specialize (K a s1). destruct (k a s1); simpl in *; try exact I; eapply grows_trans; eassumption.
Qed.

Lemma Grows_trans {A} s s1 (r : res A) : grows s s1 -> Grows s1 r -> Grows s r.
Proof. intros G H. destruct r; simpl in *; try exact I; eapply grows_trans; eassumption. Qed.

Lemma Grows_same {A} s s1 (r : res A) : sameio s s1 -> Grows s1 r -> Grows s r.
Proof. intros G. apply Grows_trans. apply sameio_grows; exact G. Qed.

Definition grows_at (f : nat) : Prop :=
  (forall e rho s, Grows s (eval f e rho s)) /\
  (forall es rho s, Grows s (eval_list f es rho s)) /\
  (forall ps rho s, Grows s (eval_props f ps rho s)) /\
  (forall repl st rho s, Grows s (exec f repl st rho s)) /\
  (forall d rho s, Grows s (exec_var f d rho s)) /\
  (forall ds rho s, Grows s (exec_vars f ds rho s)) /\
  (forall repl ss rho s, Grows s (exec_list f repl ss rho s)) /\
  (forall repl c b rho s, Grows s (exec_while f repl c b rho s)) /\
  (forall repl c inc b rho s, Grows s (exec_for f repl c inc b rho s)).

Ltac grows_leaf :=
  simpl; first
    [ exact I
    | apply grows_refl
    | apply grows_emit
    | apply native_fail_grows
    | eapply call_native_grows; eassumption
    | apply sameio_grows;
      first [ eapply env_assign_io; eassumption
            | eapply env_define_io; eassumption
            | split; reflexivity ] ].

Ltac grows_go :=
  repeat first
    [ match goal with H : forall _, _ |- Grows _ _ => apply H end
    | match goal with |- Grows _ (bind _ _) => apply Grows_bind; [ | intros ? ? ] end
    | match goal with
      | E : alloc_env _ ?s = (_, ?s') |- Grows ?s _ =>
          apply (Grows_same s s'); [eapply alloc_env_io; exact E|]
      | E : alloc_arr _ ?s = (_, ?s') |- Grows ?s _ =>
          apply (Grows_same s s'); [eapply alloc_arr_io; exact E|]
      | E : alloc_obj _ ?s = (_, ?s') |- Grows ?s _ =>
          apply (Grows_same s s'); [eapply alloc_obj_io; exact E|]
      | E : alloc_fun _ ?s = (_, ?s') |- Grows ?s _ =>
          apply (Grows_same s s'); [eapply alloc_fun_io; exact E|]
      | E : env_define _ _ _ ?s = Some ?s' |- Grows ?s (match _ with _ => _ end) =>
          apply (Grows_same s s'); [eapply env_define_io; exact E|]
      | E : bind_params _ _ _ ?s = Some ?s' |- Grows ?s _ =>
          apply (Grows_same s s'); [eapply bind_params_io; exact E|]
      end
    | match goal with |- Grows _ (match ?x with _ => _ end) => destruct x eqn:? end
    | progress unfold lift_ores
    | grows_leaf ].

Lemma grows_all : forall f, grows_at f.
Proof.
  induction f as [|f IH].
  - unfold grows_at. repeat split; intros;
      rewrite ?eval_0, ?eval_list_0, ?eval_props_0, ?exec_0, ?exec_var_0, ?exec_vars_0,
        ?exec_list_0, ?exec_while_0, ?exec_for_0; exact I.
  - destruct IH as (Hev & Hel & Hep & Hex & Hxv & Hxvs & Hxl & Hxw & Hxf).
    unfold grows_at.
    split; [|split; [|split; [|split; [|split; [|split; [|split; [|split]]]]]]].
    + intros e rho s. rewrite eval_S. destruct e; grows_go.
    + intros es rho s. rewrite eval_list_S. destruct es; grows_go.
    + intros ps rho s. rewrite eval_props_S. destruct ps as [|[k e] ps]; grows_go.
    + intros repl st rho s. rewrite exec_S. destruct st; grows_go.
    + intros d rho s. rewrite exec_var_S. destruct d as [[x init] line]; grows_go.
    + intros ds rho s. rewrite exec_vars_S. destruct ds; grows_go.
    + intros repl ss rho s. rewrite exec_list_S. destruct ss; grows_go.
    + intros repl c b rho s. rewrite exec_while_S. grows_go.
    + intros repl c inc b rho s. rewrite exec_for_S. grows_go.
Qed.

(** the state a computation ends in, when it ends with one *)
Definition final_state {A} (r : res A) : option state :=
  match r with Ok _ s' | Err _ _ s' | Crash s' => Some s' | _ => None end.

Lemma Grows_final {A} s (r : res A) s' : Grows s r -> final_state r = Some s' -> grows s s'.
Proof. destruct r; simpl; intros G H; inversion H; subst; exact G. Qed.

Lemma run_stmts_Grows f repl : forall p s, Grows s (run_stmts f repl p s).
Proof.
  destruct (grows_all f) as (_ & _ & _ & Hex & _).
  induction p as [|st p IH]; intros s; simpl.
  - apply grows_refl.
  - apply Grows_bind; [apply Hex|]. intros sig s1. destruct sig; simpl; try apply grows_refl. apply IH.
Qed.

(** Whatever a computation does and however it ends (normally, with a runtime
    error, or with the printing crash), the output log of its final state is the
    initial one with events added in front (newest first), and the unread input
    is a suffix of the initial unread input. *)
Theorem out_grows : forall f,
  (forall e rho s s', final_state (eval f e rho s) = Some s' -> grows s s') /\
  (forall es rho s s', final_state (eval_list f es rho s) = Some s' -> grows s s') /\
  (forall ps rho s s', final_state (eval_props f ps rho s) = Some s' -> grows s s') /\
  (forall repl st rho s s', final_state (exec f repl st rho s) = Some s' -> grows s s') /\
  (forall d rho s s', final_state (exec_var f d rho s) = Some s' -> grows s s') /\
  (forall ds rho s s', final_state (exec_vars f ds rho s) = Some s' -> grows s s') /\
  (forall repl ss rho s s', final_state (exec_list f repl ss rho s) = Some s' -> grows s s') /\
  (forall repl c b rho s s', final_state (exec_while f repl c b rho s) = Some s' -> grows s s') /\
  (forall repl c inc b rho s s', final_state (exec_for f repl c inc b rho s) = Some s' -> grows s s') /\
  (forall repl p s s', final_state (run_stmts f repl p s) = Some s' -> grows s s').
Proof.
  intros f. destruct (grows_all f) as (H1 & H2 & H3 & H4 & H5 & H6 & H7 & H8 & H9).
  do 9 (split; [intros; eapply Grows_final; [|eassumption]; auto|]).
  intros repl p s s' H; eapply Grows_final; [|exact H]. apply run_stmts_Grows.
Qed.

Corollary out_grows_eval f e rho s v s' :
  eval f e rho s = Ok v s' ->
  (exists d, out s' = d ++ out s) /\ (exists k, inp s = k ++ inp s').
Proof. intros H. destruct (out_grows f) as (G & _). apply (G e rho). rewrite H. reflexivity. Qed.

Corollary out_grows_exec f repl st rho s sig s' :
  exec f repl st rho s = Ok sig s' ->
  (exists d, out s' = d ++ out s) /\ (exists k, inp s = k ++ inp s').
Proof. intros H. destruct (out_grows f) as (_ & _ & _ & G & _). apply (G repl st rho). rewrite H. reflexivity. Qed.

Corollary out_grows_run_ok f repl p s s' :
  run_stmts f repl p s = Ok tt s' ->
  (exists d, out s' = d ++ out s) /\ (exists k, inp s = k ++ inp s').
Proof.
  intros H. destruct (out_grows f) as (_ & _ & _ & _ & _ & _ & _ & _ & _ & G).
  apply (G repl p). rewrite H. reflexivity.
Qed.

Corollary out_grows_run_err f repl p s e l s' :
  run_stmts f repl p s = Err e l s' ->
  (exists d, out s' = d ++ out s) /\ (exists k, inp s = k ++ inp s').
Proof.
  intros H. destruct (out_grows f) as (_ & _ & _ & _ & _ & _ & _ & _ & _ & G).
  apply (G repl p). rewrite H. reflexivity.
Qed.

Corollary out_grows_run_crash f repl p s s' :
  run_stmts f repl p s = Crash s' ->
  (exists d, out s' = d ++ out s) /\ (exists k, inp s = k ++ inp s').
Proof.
  intros H. destruct (out_grows f) as (_ & _ & _ & _ & _ & _ & _ & _ & _ & G).
  apply (G repl p). rewrite H. reflexivity.
Qed.

(* ------------------------------------------------------------------ *)
(** * A3. Error absorption *)

(** Once a program has failed, nothing after it matters: appending statements
    changes neither the diagnostic nor the final state (so no later statement
    prints and no built-in is invoked). *)
Theorem run_suffix_irrelevant f repl : forall p s e l s',
  run_stmts f repl p s = Err e l s' -> forall q, run_stmts f repl (p ++ q) s = Err e l s'.
Proof.
  induction p as [|st p IH]; intros s e l s' H q; simpl in H |- *.
  - discriminate H.
  - bde H as sig s1 E.
    + rewrite H. reflexivity.
    + rewrite E. simpl. destruct sig; try exact H. apply IH; exact H.
Qed.

Theorem run_suffix_irrelevant_crash f repl : forall p s s',
  run_stmts f repl p s = Crash s' -> forall q, run_stmts f repl (p ++ q) s = Crash s'.
Proof.
  induction p as [|st p IH]; intros s s' H q; simpl in H |- *.
  - discriminate H.
  - bdc H as sig s1 E.
    + rewrite H. reflexivity.
    + rewrite E. simpl. destruct sig; try exact H. apply IH; exact H.
Qed.

(** a program that ran to its end hands its state to whatever follows *)
Theorem run_stmts_app_ok f repl : forall p s s1 q,
  run_stmts f repl p s = Ok tt s1 -> run_stmts f repl (p ++ q) s = run_stmts f repl q s1.
Proof.
  induction p as [|st p IH]; intros s s1 q H; simpl in H |- *.
  - inversion H; reflexivity.
  - bdo H as sig s0 E. rewrite E. simpl. destruct sig; try discriminate H. apply IH; exact H.
Qed.

(** the same inside blocks and function bodies; the same fuel suffices *)
Theorem exec_list_app_err repl : forall f ss1 rho s e l s',
  exec_list f repl ss1 rho s = Err e l s' ->
  forall ss2, exec_list f repl (ss1 ++ ss2) rho s = Err e l s'.
Proof.
  induction f as [|f IH]; intros ss1 rho s e l s' H ss2; [rewrite exec_list_0 in H; discriminate H|].
  rewrite exec_list_S in H. destruct ss1 as [|st ss1]; [discriminate H|].
  simpl app. rewrite exec_list_S.
  bde H as sig s1 E.
  - rewrite H. reflexivity.
  - rewrite E. simpl. destruct sig; try exact H. apply IH; exact H.
Qed.

Theorem exec_list_app_crash repl : forall f ss1 rho s s',
  exec_list f repl ss1 rho s = Crash s' ->
  forall ss2, exec_list f repl (ss1 ++ ss2) rho s = Crash s'.
Proof.
  induction f as [|f IH]; intros ss1 rho s s' H ss2; [rewrite exec_list_0 in H; discriminate H|].
  rewrite exec_list_S in H. destruct ss1 as [|st ss1]; [discriminate H|].
  simpl app. rewrite exec_list_S.
  bdc H as sig s1 E.
  - rewrite H. reflexivity.
  - rewrite E. simpl. destruct sig; try exact H. apply IH; exact H.
Qed.

(* ------------------------------------------------------------------ *)
(** * A5. Signals are contained *)

(** the only signals a loop can hand on: none, or a return *)
Definition loop_sig (sig : signal) : Prop := sig = SigNone \/ exists l v, sig = SigReturn l v.

(** A while loop never lets a break or continue escape. *)
Theorem while_signal repl c b rho : forall f s sig s',
  exec_while f repl c b rho s = Ok sig s' -> loop_sig sig.
Proof.
  induction f as [|f IH]; intros s sig s' H; [rewrite exec_while_0 in H; discriminate H|].
  rewrite exec_while_S in H. bdo H as cv s1 E1.
  destruct (truthy cv).
  - bdo H as sg s2 E2. destruct sg as [|bl|cl|rl rv].
    + eapply IH; exact H.
    + inversion H; left; reflexivity.
    + eapply IH; exact H.
    + inversion H; right; eauto.
  - inversion H; left; reflexivity.
Qed.

Theorem for_signal repl c inc b rho : forall f s sig s',
  exec_for f repl c inc b rho s = Ok sig s' -> loop_sig sig.
Proof.
  induction f as [|f IH]; intros s sig s' H; [rewrite exec_for_0 in H; discriminate H|].
  rewrite exec_for_S in H. bdo H as cv s1 E1.
  destruct (truthy cv).
  - bdo H as sg s2 E2. destruct sg as [|bl|cl|rl rv].
    + bdo H as iv s3 E3. eapply IH; exact H.
    + inversion H; left; reflexivity.
    + bdo H as iv s3 E3. eapply IH; exact H.
    + inversion H; right; eauto.
  - inversion H; left; reflexivity.
Qed.

Theorem exec_while_stmt_signal f repl c b rho s sig s' :
  exec f repl (SWhile c b) rho s = Ok sig s' -> loop_sig sig.
Proof.
  destruct f as [|f]; intros H; [rewrite exec_0 in H; discriminate H|].
  rewrite exec_S in H. eapply while_signal; exact H.
Qed.

Lemma exec_var_signal f d rho s sig s' : exec_var f d rho s = Ok sig s' -> sig = SigNone.
Proof.
  destruct f as [|f]; intros H; [rewrite exec_var_0 in H; discriminate H|].
  rewrite exec_var_S in H. destruct d as [[x init] line]. bdo H as v s1 E.
  destruct (env_get_here rho x s1) as [[w|]|]; try discriminate H.
  destruct (env_define rho x v s1); inversion H; reflexivity.
Qed.

Lemma exec_vars_signal : forall f ds rho s sig s', exec_vars f ds rho s = Ok sig s' -> sig = SigNone.
Proof.
  induction f as [|f IH]; intros ds rho s sig s' H; [rewrite exec_vars_0 in H; discriminate H|].
  rewrite exec_vars_S in H. destruct ds as [|d ds].
  - inversion H; reflexivity.
  - bdo H as sg s1 E. eapply IH; exact H.
Qed.

Lemma exec_expr_signal f repl e rho s sig s' : exec f repl (SExpr e) rho s = Ok sig s' -> sig = SigNone.
Proof.
  destruct f as [|f]; intros H; [rewrite exec_0 in H; discriminate H|].
  rewrite exec_S in H. bdo H as v s1 E. destruct repl.
  - destruct (text_of s1 v); inversion H; reflexivity.
  - inversion H; reflexivity.
Qed.

(** the initialisers the parser builds for a [ফর] statement: none, a declaration, an expression statement *)
Definition init_simple (i : option stmt) : Prop :=
  match i with
  | None | Some (SVar _) | Some (SVarList _) | Some (SExpr _) => True
  | _ => False
  end.

(** For the [SFor] statement the claim needs the initialiser to be of the kinds the
    parser produces: [exec] hands on whatever signal the initialiser yields
    (see [for_init_leak] below). *)
Theorem exec_for_stmt_signal f repl init c inc b rho s sig s' :
  init_simple init ->
  exec f repl (SFor init c inc b) rho s = Ok sig s' -> loop_sig sig.
Proof.
  intros Hi. destruct f as [|f]; intros H; [rewrite exec_0 in H; discriminate H|].
  rewrite exec_S in H. destruct (alloc_env (Some rho) s) as [rho' s0].
  bdo H as sg s2 E.
  assert (Hsg : sg = SigNone).
  { destruct init as [i|]; [|inversion E; reflexivity].
    destruct i; simpl in Hi; try contradiction.
    - eapply exec_expr_signal; exact E.
    - destruct f as [|f]; [rewrite exec_0 in E; discriminate E|]. rewrite exec_S in E.
      eapply exec_var_signal; exact E.
    - destruct f as [|f]; [rewrite exec_0 in E; discriminate E|]. rewrite exec_S in E.
      eapply exec_vars_signal; exact E. }
  subst sg. eapply for_signal; exact H.
Qed.

(** without that restriction the model lets the initialiser's signal through *)
Lemma for_init_leak f repl l c inc b rho s :
  exists s', exec (S (S f)) repl (SFor (Some (SBreak l)) c inc b) rho s = Ok (SigBreak l) s'.
Proof.
  rewrite exec_S. destruct (alloc_env (Some rho) s) as [rho' s0]. rewrite exec_S. simpl. eauto.
Qed.

(** what a call hands back from the signal its body ended with *)
Definition ret_value (sig : signal) : value :=
  match sig with SigReturn _ v => v | _ => VNil end.

(** A call of a user function: the result is the returned value if the body's
    statement list ended with a return, and nil otherwise (the body ran to its
    end, or ended by a break/continue outside any loop); the final state is the
    body's. *)
Theorem call_returns_value f ce pline args rho s l s1 v s' :
  eval f ce rho s = Ok (VFun l) s1 ->
  eval (S f) (ECall ce pline args) rho s = Ok v s' ->
  exists clo vs s2 act s3 s4 s5 sig,
    get_fun l s1 = Some clo /\
    length (c_params clo) = length args /\
    eval_list f args rho s1 = Ok vs s2 /\
    alloc_env (Some (c_env clo)) s2 = (act, s3) /\
    env_define act (c_name clo) (VFun l) s3 = Some s4 /\
    bind_params act (c_params clo) vs s4 = Some s5 /\
    exec_list f false (c_body clo) act s5 = Ok sig s' /\
    v = ret_value sig.
Proof.
  intros E1 H. rewrite eval_S in H. rewrite E1 in H. cbn [bind] in H.
  destruct (get_fun l s1) as [clo|] eqn:Eg; [|discriminate H].
  destruct (Nat.eqb (length (c_params clo)) (length args)) eqn:Ea; cbn [negb] in H; [|discriminate H].
  apply Nat.eqb_eq in Ea.
  bdo H as vs s2 El.
  destruct (alloc_env (Some (c_env clo)) s2) as [act s3] eqn:Eal.
  destruct (env_define act (c_name clo) (VFun l) s3) as [s4|] eqn:Ed; [|discriminate H].
  destruct (bind_params act (c_params clo) vs s4) as [s5|] eqn:Eb; [|discriminate H].
  bdo H as sig s6 Ex. inversion H; subst.
  exists clo, vs, s2, act, s3, s4, s5, sig. repeat (split; [assumption || reflexivity|]). reflexivity.
Qed.

Theorem call_user_fwd f ce pline args rho s l s1 clo vs s2 act s3 s4 s5 sig s6 :
  eval f ce rho s = Ok (VFun l) s1 ->
  get_fun l s1 = Some clo ->
  length (c_params clo) = length args ->
  eval_list f args rho s1 = Ok vs s2 ->
  alloc_env (Some (c_env clo)) s2 = (act, s3) ->
  env_define act (c_name clo) (VFun l) s3 = Some s4 ->
  bind_params act (c_params clo) vs s4 = Some s5 ->
  exec_list f false (c_body clo) act s5 = Ok sig s6 ->
  eval (S f) (ECall ce pline args) rho s = Ok (ret_value sig) s6.
Proof.
  intros E1 Eg Ea El Eal Ed Eb Ex. rewrite eval_S, E1. cbn [bind]. rewrite Eg.
  apply Nat.eqb_eq in Ea. rewrite Ea. simpl negb. cbv iota. rewrite El. cbn [bind].
  rewrite Eal, Ed, Eb, Ex. reflexivity.
Qed.

(* ------------------------------------------------------------------ *)
(** * A6. Everything after an executed return / break / continue is skipped *)

Theorem exec_list_skips_after_signal repl : forall f ss1 rho s sig s',
  exec_list f repl ss1 rho s = Ok sig s' -> sig <> SigNone ->
  forall ss2, exec_list f repl (ss1 ++ ss2) rho s = Ok sig s'.
Proof.
  induction f as [|f IH]; intros ss1 rho s sig s' H N ss2; [rewrite exec_list_0 in H; discriminate H|].
  rewrite exec_list_S in H. destruct ss1 as [|st ss1].
  - inversion H; subst. exfalso; apply N; reflexivity.
  - simpl app. rewrite exec_list_S. bdo H as sg s1 E. rewrite E. cbn [bind].
    destruct sg; try exact H. apply IH; assumption.
Qed.

(** the same, in the literal form [f + 0] *)
Corollary exec_list_skips_after_signal_plus0 repl f ss1 ss2 rho s sig s' :
  exec_list f repl ss1 rho s = Ok sig s' -> sig <> SigNone ->
  exec_list (f + 0) repl (ss1 ++ ss2) rho s = Ok sig s'.
Proof. intros H N. rewrite Nat.add_0_r. eapply exec_list_skips_after_signal; eassumption. Qed.

(** a statement list that ran to its end hands its state to what follows (given enough fuel) *)
Lemma exec_list_app_le repl ss2 rho : forall ss1 f g s s1,
  exec_list f repl ss1 rho s = Ok SigNone s1 ->
  le_res (exec_list g repl ss2 rho s1) (exec_list (f + g) repl (ss1 ++ ss2) rho s).
Proof.
  induction ss1 as [|st ss1 IH]; intros f g s s1 H.
  - destruct f as [|f]; [rewrite exec_list_0 in H; discriminate H|].
    rewrite exec_list_S in H. inversion H; subst. simpl app.
    destruct (mono_all g (S f + g) ltac:(lia)) as (_ & _ & _ & _ & _ & _ & Hxl & _). apply Hxl.
  - destruct f as [|f]; [rewrite exec_list_0 in H; discriminate H|].
    rewrite exec_list_S in H. bdo H as sg s0 E.
    simpl app. replace (S f + g)%nat with (S (f + g)) by lia. rewrite exec_list_S.
    rewrite (exec_mono f (f + g) repl st rho s _ ltac:(lia) E ltac:(discriminate)). cbn [bind].
    destruct sg.
    + apply IH; exact H.
    + inversion H.
    + inversion H.
    + inversion H.
Qed.

Theorem exec_list_app_ok repl f g ss1 ss2 rho s s1 r :
  exec_list f repl ss1 rho s = Ok SigNone s1 ->
  exec_list g repl ss2 rho s1 = r -> r <> Fuel ->
  exec_list (f + g) repl (ss1 ++ ss2) rho s = r.
Proof. intros H1 H2 N. eapply le_use; [eapply exec_list_app_le; exact H1|exact H2|exact N]. Qed.

(** conversely, a run of [ss1 ++ ss2] splits into a run of [ss1] and, if that ended
    without a signal, a run of [ss2] from the state it left (same fuel bound) *)
Theorem exec_list_app_inv repl ss2 : forall f ss1 rho s sig s',
  exec_list f repl (ss1 ++ ss2) rho s = Ok sig s' ->
  (exec_list f repl ss1 rho s = Ok sig s' /\ sig <> SigNone) \/
  (exists s1, exec_list f repl ss1 rho s = Ok SigNone s1 /\ exec_list f repl ss2 rho s1 = Ok sig s').
Proof.
  induction f as [|f IH]; intros ss1 rho s sig s' H; [rewrite exec_list_0 in H; discriminate H|].
  destruct ss1 as [|st ss1].
  - right. exists s. split; [rewrite exec_list_S; reflexivity|exact H].
  - simpl app in H. rewrite exec_list_S in H. bdo H as sg s0 E.
    rewrite exec_list_S, E. cbn [bind].
    destruct sg as [|bl|cl|rl rv]; try (left; split; [exact H|inversion H; discriminate]).
    destruct (IH _ _ _ _ _ H) as [(H1 & N)|(s1 & H1 & H2)].
    + left. split; assumption.
    + right. exists s1. split; [exact H1|].
      eapply exec_list_mono; [|exact H2|discriminate]. lia.
Qed.

(** ** return propagates through the statement contexts *)

(** block: [ss1] runs to its end, the next statement signals: the block signals the same
    (stated for any signal; [SigReturn l v] is the instance asked for) *)
Theorem return_propagates_block f g repl ss1 st ss2 rho s rho' s0 s1 sig s2 :
  alloc_env (Some rho) s = (rho', s0) ->
  exec_list f repl ss1 rho' s0 = Ok SigNone s1 ->
  exec g repl st rho' s1 = Ok sig s2 -> sig <> SigNone ->
  exec (S (f + S g)) repl (SBlock (ss1 ++ st :: ss2)) rho s = Ok sig s2.
Proof.
  intros Ea E1 E2 N. rewrite exec_S, Ea.
  eapply exec_list_app_ok; [exact E1| |discriminate].
  rewrite exec_list_S, E2. cbn [bind]. destruct sig; try reflexivity. exfalso; apply N; reflexivity.
Qed.

Theorem return_propagates_if_then f repl c t e rho s cv s1 r :
  eval f c rho s = Ok cv s1 -> truthy cv = true ->
  exec f repl t rho s1 = r ->
  exec (S f) repl (SIf c t e) rho s = r.
Proof. intros E1 T E2. rewrite exec_S, E1. cbn [bind]. rewrite T. exact E2. Qed.

Theorem return_propagates_if_else f repl c t e rho s cv s1 r :
  eval f c rho s = Ok cv s1 -> truthy cv = false ->
  exec f repl e rho s1 = r ->
  exec (S f) repl (SIf c t (Some e)) rho s = r.
Proof. intros E1 T E2. rewrite exec_S, E1. cbn [bind]. rewrite T. exact E2. Qed.

(** loops: in the iteration where the body returns, the loop returns the same, in the body's state *)
Theorem return_propagates_while f repl c b rho s cv s1 l v s2 :
  eval f c rho s = Ok cv s1 -> truthy cv = true ->
  exec f repl b rho s1 = Ok (SigReturn l v) s2 ->
  exec_while (S f) repl c b rho s = Ok (SigReturn l v) s2.
Proof. intros E1 T E2. rewrite exec_while_S, E1. cbn [bind]. rewrite T, E2. reflexivity. Qed.

Theorem return_propagates_for f repl c inc b rho s cv s1 l v s2 :
  eval f c rho s = Ok cv s1 -> truthy cv = true ->
  exec f repl b rho s1 = Ok (SigReturn l v) s2 ->
  exec_for (S f) repl c inc b rho s = Ok (SigReturn l v) s2.
Proof. intros E1 T E2. rewrite exec_for_S, E1. cbn [bind]. rewrite T, E2. reflexivity. Qed.

(** and an iteration that ends normally or by continue goes round again *)
Theorem while_iterates f repl c b rho s cv s1 sg s2 :
  eval f c rho s = Ok cv s1 -> truthy cv = true ->
  exec f repl b rho s1 = Ok sg s2 -> (sg = SigNone \/ exists l, sg = SigContinue l) ->
  exec_while (S f) repl c b rho s = exec_while f repl c b rho s2.
Proof.
  intros E1 T E2 [->|(l & ->)]; rewrite exec_while_S, E1; cbn [bind]; rewrite T, E2; reflexivity.
Qed.

Theorem while_break_exits f repl c b rho s cv s1 l s2 :
  eval f c rho s = Ok cv s1 -> truthy cv = true ->
  exec f repl b rho s1 = Ok (SigBreak l) s2 ->
  exec_while (S f) repl c b rho s = Ok SigNone s2.
Proof. intros E1 T E2. rewrite exec_while_S, E1. cbn [bind]. rewrite T, E2. reflexivity. Qed.

(* ------------------------------------------------------------------ *)
(** * A4. The line a diagnostic reports, site by site

    [Err e ln s'] has one slot: the kind and line are those of the first error,
    and evaluation stopped there.  Each lemma below says, for one node form whose
    sub-expressions evaluated fine, which diagnostics the node itself can raise,
    that they carry the node's own line field, and that the state is the one
    the last sub-expression left. *)

Lemma error_line_id f x line rho s e ln s' :
  eval (S f) (EId x line) rho s = Err e ln s' ->
  e = RUndefinedVar /\ ln = line /\ s' = s /\ env_get rho x s = Some None.
Proof.
  rewrite eval_S. destruct (env_get rho x s) as [[v|]|]; intros H; inversion H; subst.
  repeat split; reflexivity.
Qed.

Lemma error_line_unary f op e1 line rho s v s1 e ln s' :
  eval f e1 rho s = Ok v s1 ->
  eval (S f) (EUnary op e1 line) rho s = Err e ln s' ->
  ln = line /\ s' = s1 /\ unop op v = OErr e.
Proof.
  intros E1 H. rewrite eval_S, E1 in H. cbn [bind] in H. unfold lift_ores in H.
  destruct (unop op v); inversion H; subst. repeat split; reflexivity.
Qed.

Lemma error_line_binary f op l r line rho s a s1 b s2 e ln s' :
  eval f l rho s = Ok a s1 -> eval f r rho s1 = Ok b s2 ->
  eval (S f) (EBinary op l r line) rho s = Err e ln s' ->
  ln = line /\ s' = s2 /\ binop libm s2 op a b = OErr e.
Proof.
  intros E1 E2 H. rewrite eval_S, E1 in H. cbn [bind] in H. rewrite E2 in H. cbn [bind] in H.
  unfold lift_ores in H. destruct (binop libm s2 op a b); inversion H; subst. repeat split; reflexivity.
Qed.

(** assignment to an undeclared name is reported at the line of the NAME token *)
Lemma error_line_assign f x nline ve line rho s v s1 e ln s' :
  eval f ve rho s = Ok v s1 ->
  eval (S f) (EAssign x nline ve line) rho s = Err e ln s' ->
  e = RUndefinedAssign /\ ln = nline /\ s' = s1 /\ env_assign rho x v s1 = Some None.
Proof.
  intros E1 H. rewrite eval_S, E1 in H. cbn [bind] in H.
  destruct (env_assign rho x v s1) as [[s2|]|]; inversion H; subst. repeat split; reflexivity.
Qed.

Lemma error_line_index f ae ie line rho s a s1 i s2 e ln s' :
  eval f ae rho s = Ok a s1 -> eval f ie rho s1 = Ok i s2 ->
  eval (S f) (EIndex ae ie line) rho s = Err e ln s' ->
  ln = line /\ s' = s2 /\ (e = RNotArrayAccess \/ e = RIndexInteger \/ e = RIndexBounds).
Proof.
  intros E1 E2 H. rewrite eval_S, E1 in H. cbn [bind] in H. rewrite E2 in H. cbn [bind] in H.
  destruct a; try (inversion H; subst; auto).
  destruct (get_arr l s2) as [vs|]; [|discriminate H].
  destruct (index_of vs i) as [[n|]|]; try (inversion H; subst; auto).
  destruct (nth_error vs n); discriminate H.
Qed.

Lemma error_line_arrassign f ae ie ve line rho s a s1 i s2 v s3 e ln s' :
  eval f ae rho s = Ok a s1 -> eval f ie rho s1 = Ok i s2 -> eval f ve rho s2 = Ok v s3 ->
  eval (S f) (EArrAssign ae ie ve line) rho s = Err e ln s' ->
  ln = line /\ s' = s3 /\ (e = RNotArrayAssign \/ e = RIndexInteger \/ e = RIndexBounds).
Proof.
  intros E1 E2 E3 H. rewrite eval_S, E1 in H. cbn [bind] in H. rewrite E2 in H. cbn [bind] in H.
  rewrite E3 in H. cbn [bind] in H.
  destruct a; try (inversion H; subst; auto).
  destruct (get_arr l s3) as [vs|]; [|discriminate H].
  destruct (index_of vs i) as [[n|]|]; inversion H; subst; auto.
Qed.

Lemma error_line_prop f oe p line rho s o s1 e ln s' :
  eval f oe rho s = Ok o s1 ->
  eval (S f) (EProp oe p line) rho s = Err e ln s' ->
  ln = line /\ s' = s1 /\ (e = RNotObjectAccess \/ e = RNoProperty).
Proof.
  intros E1 H. rewrite eval_S, E1 in H. cbn [bind] in H.
  destruct o; try (inversion H; subst; auto).
  destruct (get_obj l s1) as [ps|]; [|discriminate H].
  destruct (assoc p ps); inversion H; subst; auto.
Qed.

(** property assignment: "not an object" is raised BEFORE the value is evaluated,
    at the node's line; after that only the value expression can fail *)
Lemma error_line_propassign f oe p ve line rho s o s1 e ln s' :
  eval f oe rho s = Ok o s1 ->
  eval (S f) (EPropAssign oe p ve line) rho s = Err e ln s' ->
  ((forall l, o <> VObj l) /\ e = RNotObjectAssign /\ ln = line /\ s' = s1) \/
  (exists l, o = VObj l /\ eval f ve rho s1 = Err e ln s').
Proof.
  intros E1 H. rewrite eval_S, E1 in H. cbn [bind] in H.
  destruct o; try (left; inversion H; subst; split; [intros l0; discriminate|auto]).
  right. exists l. split; [reflexivity|].
  bde H as v s2 E2; [exact H|].
  destruct (get_obj l s2); discriminate H.
Qed.

(** a call: complete classification of where an error of the call node comes from.
    The three diagnostics of the call itself carry the line of the closing parenthesis. *)
Lemma error_line_call f ce pline args rho s c s1 e ln s' :
  eval f ce rho s = Ok c s1 ->
  eval (S f) (ECall ce pline args) rho s = Err e ln s' ->
  (* not callable *)
  ((forall l, c <> VFun l) /\ (forall n, c <> VNative n) /\ e = RNotCallable /\ ln = pline /\ s' = s1) \/
  (* wrong number of arguments: no argument has been evaluated *)
  (e = RArity /\ ln = pline /\ s' = s1 /\
     ((exists l clo, c = VFun l /\ get_fun l s1 = Some clo /\ length (c_params clo) <> length args) \/
      (exists n, c = VNative n /\ arity_ok (native_arity n) (length args) = false))) \/
  (* an argument failed *)
  (eval_list f args rho s1 = Err e ln s') \/
  (* the built-in refused *)
  (exists n vs s2 why, c = VNative n /\ eval_list f args rho s1 = Ok vs s2 /\
     call_native n vs s2 = NFail why /\
     e = RCallFailed why /\ ln = pline /\ s' = native_fail_state n vs s2) \/
  (* the error happened inside the body of the user function *)
  (exists l clo vs s2 act s3 s4 s5, c = VFun l /\ get_fun l s1 = Some clo /\
     eval_list f args rho s1 = Ok vs s2 /\
     alloc_env (Some (c_env clo)) s2 = (act, s3) /\
     env_define act (c_name clo) (VFun l) s3 = Some s4 /\
     bind_params act (c_params clo) vs s4 = Some s5 /\
     exec_list f false (c_body clo) act s5 = Err e ln s').
Proof.
  intros E1 H. rewrite eval_S, E1 in H. cbn [bind] in H.
  destruct c;
    try (left; inversion H; subst; split; [intros l0; discriminate|split; [intros n0; discriminate|auto]]).
  - (* VFun *)
    destruct (get_fun l s1) as [clo|] eqn:Eg; [|discriminate H].
    destruct (Nat.eqb (length (c_params clo)) (length args)) eqn:Ea; cbn [negb] in H.
    + bde H as vs s2 El; [right; right; left; exact H|].
      destruct (alloc_env (Some (c_env clo)) s2) as [act s3] eqn:Eal.
      destruct (env_define act (c_name clo) (VFun l) s3) as [s4|] eqn:Ed; [|discriminate H].
      destruct (bind_params act (c_params clo) vs s4) as [s5|] eqn:Eb; [|discriminate H].
      bde H as sig s6 Ex; [|discriminate H].
      right; right; right; right.
      exists l, clo, vs, s2, act, s3, s4, s5. repeat (split; [assumption || reflexivity|]). exact H.
    + apply Nat.eqb_neq in Ea. inversion H; subst. right; left.
      repeat (split; [reflexivity|]). left. exists l, clo. auto.
  - (* VNative *)
    destruct (arity_ok (native_arity n) (length args)) eqn:Ea; cbn [negb] in H.
    + bde H as vs s2 El; [right; right; left; exact H|].
      destruct (call_native n vs s2) as [v s3|why|] eqn:Ec; inversion H; subst.
      right; right; right; left. exists n, vs, s2, why. auto 10.
    + inversion H; subst. right; left.
      repeat (split; [reflexivity|]). right. exists n. auto.
Qed.

(** redeclaration in the same scope is reported at the line of the declared name *)
Lemma error_line_var f x init line rho s e ln s' :
  exec_var (S f) (x, init, line) rho s = Err e ln s' ->
  (exists ie, init = Some ie /\ eval f ie rho s = Err e ln s') \/
  (exists v s1, match init with Some ie => eval f ie rho s | None => Ok VNil s end = Ok v s1 /\
     e = RRedeclare /\ ln = line /\ s' = s1 /\ exists w, env_get_here rho x s1 = Some (Some w)).
Proof.
  rewrite exec_var_S. intros H. bde H as v s1 E.
  - left. destruct init as [ie|]; [|discriminate H]. exists ie. auto.
  - right. exists v, s1. split; [exact E|].
    destruct (env_get_here rho x s1) as [[w|]|]; try discriminate H.
    + inversion H; subst. repeat (split; [reflexivity|]). exists w; reflexivity.
    + destruct (env_define rho x v s1); discriminate H.
Qed.

Lemma error_line_svar f repl x init line rho s v s1 e ln s' :
  match init with Some ie => eval f ie rho s | None => Ok VNil s end = Ok v s1 ->
  exec (S (S f)) repl (SVar (x, init, line)) rho s = Err e ln s' ->
  e = RRedeclare /\ ln = line /\ s' = s1.
Proof.
  intros E H. rewrite exec_S in H. apply error_line_var in H.
  destruct H as [(ie & -> & H)|(v' & s1' & E' & -> & -> & -> & _)].
  - rewrite H in E; discriminate E.
  - rewrite E' in E. inversion E; subst. repeat split; reflexivity.
Qed.

(** the three stray signals: a break / continue / return that reaches the top level
    is a runtime error at the line the signal carries, and [exec] took that line
    from the statement: [SBreak line], [SContinue line], [SReturn kw _] *)
Lemma exec_break f repl line rho s : exec (S f) repl (SBreak line) rho s = Ok (SigBreak line) s.
Proof. rewrite exec_S; reflexivity. Qed.
Lemma exec_continue f repl line rho s : exec (S f) repl (SContinue line) rho s = Ok (SigContinue line) s.
Proof. rewrite exec_S; reflexivity. Qed.
Lemma exec_return_none f repl kw rho s : exec (S f) repl (SReturn kw None) rho s = Ok (SigReturn kw VNil) s.
Proof. rewrite exec_S; reflexivity. Qed.
Lemma exec_return_some f repl kw e rho s v s1 :
  eval f e rho s = Ok v s1 -> exec (S f) repl (SReturn kw (Some e)) rho s = Ok (SigReturn kw v) s1.
Proof. intros E. rewrite exec_S, E. reflexivity. Qed.

Lemma run_stmts_cons f repl st r s :
  run_stmts f repl (st :: r) s =
    let* (sig, s1) := exec f repl st top_env s in
    match sig with
    | SigNone => run_stmts f repl r s1
    | SigBreak l => Err RStrayBreak l s1
    | SigContinue l => Err RStrayContinue l s1
    | SigReturn l _ => Err RStrayReturn l s1
    end.
Proof. reflexivity. Qed.

Lemma error_line_stray f repl st r s sig s1 :
  exec f repl st top_env s = Ok sig s1 -> sig <> SigNone ->
  run_stmts f repl (st :: r) s =
    match sig with
    | SigNone => Ok tt s1
    | SigBreak l => Err RStrayBreak l s1
    | SigContinue l => Err RStrayContinue l s1
    | SigReturn l _ => Err RStrayReturn l s1
    end.
Proof. intros E N. rewrite run_stmts_cons, E. cbn [bind]. destruct sig; try reflexivity. exfalso; apply N; reflexivity. Qed.

Lemma error_line_stray_break f repl line r s :
  run_stmts (S f) repl (SBreak line :: r) s = Err RStrayBreak line s.
Proof. rewrite run_stmts_cons, exec_break. reflexivity. Qed.
Lemma error_line_stray_continue f repl line r s :
  run_stmts (S f) repl (SContinue line :: r) s = Err RStrayContinue line s.
Proof. rewrite run_stmts_cons, exec_continue. reflexivity. Qed.
Lemma error_line_stray_return f repl kw ve r s :
  run_stmts (S f) repl (SReturn kw ve :: r) s =
    match ve with
    | None => Err RStrayReturn kw s
    | Some e => let* (_v, s1) := eval f e top_env s in Err RStrayReturn kw s1
    end.
Proof.
  rewrite run_stmts_cons, exec_S. destruct ve as [e|]; [|reflexivity].
  destruct (eval f e top_env s); reflexivity.
Qed.

(** the first-error reading of [Err]: a failed program's diagnostic is the one of the
    first statement that did not end normally, raised in the state the statements
    before it produced; its final output extends the initial one *)
Theorem error_shape f repl : forall p s e l s',
  run_stmts f repl p s = Err e l s' ->
  exists p1 st p2 s1,
    p = p1 ++ st :: p2 /\ run_stmts f repl p1 s = Ok tt s1 /\
    (exec f repl st top_env s1 = Err e l s' \/
     (exists sig, exec f repl st top_env s1 = Ok sig s' /\
        match sig with
        | SigNone => False
        | SigBreak l' => e = RStrayBreak /\ l = l'
        | SigContinue l' => e = RStrayContinue /\ l = l'
        | SigReturn l' _ => e = RStrayReturn /\ l = l'
        end)) /\
    grows s s'.
Proof.
  intros p s e l s' H.
  assert (G : grows s s') by (eapply out_grows_run_err; exact H).
  revert s H G. induction p as [|st p IH]; intros s H G; simpl in H; [discriminate H|].
  bde H as sig s1 E.
  - exists [], st, p, s. split; [reflexivity|]. split; [reflexivity|]. split; [left; exact H|exact G].
  - destruct sig as [|bl|cl|rl rv].
    + assert (G1 : grows s1 s') by (eapply out_grows_run_err; exact H).
      destruct (IH s1 H G1) as (p1 & st' & p2 & s2 & -> & R1 & D & _).
      exists (st :: p1), st', p2, s2. split; [reflexivity|]. split; [|split; [exact D|exact G]].
      simpl. rewrite E. cbn [bind]. exact R1.
    + inversion H; subst. exists [], st, p, s. split; [reflexivity|]. split; [reflexivity|].
      split; [|exact G]. right. exists (SigBreak l). auto.
    + inversion H; subst. exists [], st, p, s. split; [reflexivity|]. split; [reflexivity|].
      split; [|exact G]. right. exists (SigContinue l). auto.
    + inversion H; subst. exists [], st, p, s. split; [reflexivity|]. split; [reflexivity|].
      split; [|exact G]. right. exists (SigReturn l rv). auto.
Qed.

(* ------------------------------------------------------------------ *)
(** * The same facts at the level of the command-line driver *)

(** A script run that ends with a runtime error: the front end accepted the text,
    the program's statements failed with exactly this diagnostic, everything
    printed so far is kept, and the process reports the one diagnostic with
    status 70. *)
Theorem run_source_runtime fuel repl src stdin e l s :
  run_source libm clock sched fuel repl src stdin = RRuntime e l s ->
  exists prog,
    pr_prog (parse (lx_tokens (lex src)) (lx_eof_line (lex src))) = Some prog /\
    run_stmts fuel repl prog (init_state stdin) = Err e l s /\
    (exists k, stdin = k ++ inp s) /\
    (forall q, run_stmts fuel repl (prog ++ q) (init_state stdin) = Err e l s).
Proof.
  unfold run_source. intros H.
  destruct (pr_fuel_out (parse (lx_tokens (lex src)) (lx_eof_line (lex src)))); [discriminate H|].
  destruct (lx_diags (lex src)); [|discriminate H].
  destruct (pr_diags (parse (lx_tokens (lex src)) (lx_eof_line (lex src)))); [|discriminate H].
  destruct (pr_prog (parse (lx_tokens (lex src)) (lx_eof_line (lex src)))) as [prog|]; [|discriminate H].
  destruct (run_stmts fuel repl prog (init_state stdin)) as [u s0|e0 l0 s0| | |s0] eqn:R; inversion H; subst.
  exists prog. split; [reflexivity|]. split; [exact R|]. split.
  - destruct (out_grows_run_err _ _ _ _ _ _ _ R) as (_ & K). exact K.
  - intros q. apply run_suffix_irrelevant; exact R.
Qed.

Theorem run_file_runtime fuel src stdin e l s :
  run_source libm clock sched fuel false src stdin = RRuntime e l s ->
  run_file libm clock sched fuel src stdin = PExit (mkProc (rev (out s)) [DRuntime e l] 70).
Proof. intros H. unfold run_file. rewrite H. reflexivity. Qed.

End Meta.

Print Assumptions mono_all.
Print Assumptions out_grows.
Print Assumptions run_suffix_irrelevant.
Print Assumptions exec_list_app_ok.
Print Assumptions exec_for_stmt_signal.
Print Assumptions error_line_call.
Print Assumptions error_shape.
