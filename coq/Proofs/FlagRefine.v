(** The flag-level evaluator (Model/FlagEval.v: an error is reported, a flag is raised,
    evaluation is not unwound) refines the exception-style evaluator (Model/Eval.v):

    (T1) [after_flag_silent], [frun_after_flag]: a computation entered with the flag up
         does nothing (it returns the very same state, or runs out of fuel);
    (T2) [sim_all] and its ten corollaries [feval_sim] ... [fexec_for_sim]: started with
         the flag down and with the same fuel, the two evaluators do the same thing up to
         the first error; there Eval stops with [Err e0 l0 s0], FlagEval reports [(e0,l0)]
         as its next diagnostic and whatever it still does leaves output, input and the
         schedule index as they are in [s0];
    (T3) [frun_refines], [frun_refines_crash]: the same for whole programs. *)
From Coq Require Import List Bool.
From Borno Require Import Base Num Unicode Token Ast Value Eval FlagEval EvalEqs FlagEqs FlagRefineDefs.
Import ListNotations.
Open Scope N_scope.

Section Refine.
Variable libm : N -> f64 -> f64 -> f64.
Variable clock : f64.
Variable sched : N -> list (list N * value) -> list (list N * value).

Notation eval := (eval libm clock sched).
Notation eval_list := (eval_list libm clock sched).
Notation eval_props := (eval_props libm clock sched).
Notation exec := (exec libm clock sched).
Notation exec_var := (exec_var libm clock sched).
Notation exec_vars := (exec_vars libm clock sched).
Notation exec_list := (exec_list libm clock sched).
Notation exec_while := (exec_while libm clock sched).
Notation exec_for := (exec_for libm clock sched).
Notation run_stmts := (run_stmts libm clock sched).
Notation feval := (feval libm clock sched).
Notation feval_list := (feval_list libm clock sched).
Notation feval_props := (feval_props libm clock sched).
Notation fexec := (fexec libm clock sched).
Notation fexec_var := (fexec_var libm clock sched).
Notation fexec_vars := (fexec_vars libm clock sched).
Notation fexec_list := (fexec_list libm clock sched).
Notation fexec_body := (fexec_body libm clock sched).
Notation fexec_while := (fexec_while libm clock sched).
Notation fexec_for := (fexec_for libm clock sched).
Notation frun_stmts := (frun_stmts libm clock sched).

(* ================================================================ *)
(** * (T1) entered with the flag up, nothing happens *)

Lemma feval_same f e rho fs : fs_flag fs = true -> same fs (feval f e rho fs).
Proof. intros H. rewrite feval_flag by exact H. reflexivity. Qed.
Lemma fexec_same f repl st rho fs : fs_flag fs = true -> same fs (fexec f repl st rho fs).
Proof. intros H. rewrite fexec_flag by exact H. reflexivity. Qed.
Lemma fexec_var_same f d rho fs : fs_flag fs = true -> same fs (fexec_var f d rho fs).
Proof. intros H. rewrite fexec_var_flag by exact H. reflexivity. Qed.

Lemma feval_list_same : forall f es rho fs, fs_flag fs = true -> same fs (feval_list f es rho fs).
Proof.
  induction f as [|f IH]; intros es rho fs H; [exact I|].
  rewrite feval_list_S. destruct es as [|e r]; [reflexivity|].
  rewrite feval_flag by exact H. cbn [fbind].
  apply same_bind; [apply IH; exact H|]. intros a. reflexivity.
Qed.

Lemma feval_props_same : forall f ps rho fs, fs_flag fs = true -> same fs (feval_props f ps rho fs).
Proof.
  induction f as [|f IH]; intros ps rho fs H; [exact I|].
  rewrite feval_props_S. destruct ps as [|[k e] r]; [reflexivity|].
  rewrite feval_flag by exact H. cbn [fbind].
  apply same_bind; [apply IH; exact H|]. intros a. reflexivity.
Qed.

Lemma fexec_vars_same f ds rho fs : fs_flag fs = true -> same fs (fexec_vars f ds rho fs).
Proof.
  intros H. destruct f as [|f]; [exact I|].
  rewrite fexec_vars_S. destruct ds as [|d r]; [reflexivity|].
  rewrite fexec_var_flag by exact H. cbn [fbind]. rewrite H. reflexivity.
Qed.

Lemma fexec_list_same f repl ss rho fs : fs_flag fs = true -> same fs (fexec_list f repl ss rho fs).
Proof.
  intros H. destruct f as [|f]; [exact I|].
  rewrite fexec_list_S. destruct ss as [|st r]; [reflexivity|].
  rewrite fexec_flag by exact H. cbn [fbind]. rewrite H. reflexivity.
Qed.

Lemma fexec_body_same : forall f ss rho fs, fs_flag fs = true -> same fs (fexec_body f ss rho fs).
Proof.
  induction f as [|f IH]; intros ss rho fs H; [exact I|].
  rewrite fexec_body_S. destruct ss as [|st r]; [reflexivity|].
  rewrite fexec_flag by exact H. cbn [fbind]. apply IH; exact H.
Qed.

Lemma fexec_while_same f repl c b rho fs : fs_flag fs = true -> same fs (fexec_while f repl c b rho fs).
Proof.
  intros H. destruct f as [|f]; [exact I|].
  rewrite fexec_while_S. rewrite feval_flag by exact H. reflexivity.
Qed.

Lemma fexec_for_same f repl c inc b rho fs : fs_flag fs = true -> same fs (fexec_for f repl c inc b rho fs).
Proof.
  intros H. destruct f as [|f]; [exact I|].
  rewrite fexec_for_S. rewrite feval_flag by exact H. reflexivity.
Qed.

Lemma frun_stmts_same f repl ss fs : fs_flag fs = true -> frun_stmts f repl ss fs = FOk tt fs.
Proof.
  intros H. destruct ss as [|st r]; [reflexivity|].
  cbn [FlagEval.frun_stmts]. rewrite fexec_flag by exact H. cbn [fbind]. rewrite H. reflexivity.
Qed.

(** the form in which (T1) was asked for *)
Definition silent {A} (fs : fstate) (fr : fres A) : Prop :=
  (forall x fs', fr = FOk x fs' ->
     obs_eq (fs_st fs) (fs_st fs') /\ fs_flag fs' = true /\ exists more, fs_diags fs' = fs_diags fs ++ more) /\
  (forall fs', fr <> FCrash fs').

Lemma same_silent {A} fs (fr : fres A) : fs_flag fs = true -> same fs fr -> silent fs fr.
Proof.
  intros F H. split.
  - intros x fs' E. subst fr. simpl in H. subst fs'.
    split; [apply obs_refl|]. split; [exact F|]. exists []. rewrite app_nil_r. reflexivity.
  - intros fs' E. subst fr. exact H.
Qed.

(** After the flag is up nothing observable happens: each of the ten functions, entered
    with the flag up, ends (if it ends) in a state with the same output, input and schedule
    index, the flag still up, the diagnostics only extended; and it never crashes. *)
Theorem after_flag_silent : forall f,
  (forall e rho fs, fs_flag fs = true -> silent fs (feval f e rho fs)) /\
  (forall es rho fs, fs_flag fs = true -> silent fs (feval_list f es rho fs)) /\
  (forall ps rho fs, fs_flag fs = true -> silent fs (feval_props f ps rho fs)) /\
  (forall repl st rho fs, fs_flag fs = true -> silent fs (fexec f repl st rho fs)) /\
  (forall d rho fs, fs_flag fs = true -> silent fs (fexec_var f d rho fs)) /\
  (forall ds rho fs, fs_flag fs = true -> silent fs (fexec_vars f ds rho fs)) /\
  (forall repl ss rho fs, fs_flag fs = true -> silent fs (fexec_list f repl ss rho fs)) /\
  (forall ss rho fs, fs_flag fs = true -> silent fs (fexec_body f ss rho fs)) /\
  (forall repl c b rho fs, fs_flag fs = true -> silent fs (fexec_while f repl c b rho fs)) /\
  (forall repl c inc b rho fs, fs_flag fs = true -> silent fs (fexec_for f repl c inc b rho fs)).
Proof.
  intros f. repeat apply conj; intros; apply same_silent; try assumption.
  - apply feval_same; assumption.
  - apply feval_list_same; assumption.
  - apply feval_props_same; assumption.
  - apply fexec_same; assumption.
  - apply fexec_var_same; assumption.
  - apply fexec_vars_same; assumption.
  - apply fexec_list_same; assumption.
  - apply fexec_body_same; assumption.
  - apply fexec_while_same; assumption.
  - apply fexec_for_same; assumption.
Qed.

(** the strong form: the very same state comes back (or the fuel runs out) *)
Theorem after_flag_same : forall f,
  (forall e rho fs, fs_flag fs = true -> feval f e rho fs = FOk VNil fs) /\
  (forall es rho fs, fs_flag fs = true -> same fs (feval_list f es rho fs)) /\
  (forall ps rho fs, fs_flag fs = true -> same fs (feval_props f ps rho fs)) /\
  (forall repl st rho fs, fs_flag fs = true -> fexec f repl st rho fs = FOk SigNone fs) /\
  (forall d rho fs, fs_flag fs = true -> fexec_var f d rho fs = FOk SigNone fs) /\
  (forall ds rho fs, fs_flag fs = true -> same fs (fexec_vars f ds rho fs)) /\
  (forall repl ss rho fs, fs_flag fs = true -> same fs (fexec_list f repl ss rho fs)) /\
  (forall ss rho fs, fs_flag fs = true -> same fs (fexec_body f ss rho fs)) /\
  (forall repl c b rho fs, fs_flag fs = true -> same fs (fexec_while f repl c b rho fs)) /\
  (forall repl c inc b rho fs, fs_flag fs = true -> same fs (fexec_for f repl c inc b rho fs)).
Proof.
  intros f. repeat apply conj; intros.
  - apply feval_flag; assumption.
  - apply feval_list_same; assumption.
  - apply feval_props_same; assumption.
  - apply fexec_flag; assumption.
  - apply fexec_var_flag; assumption.
  - apply fexec_vars_same; assumption.
  - apply fexec_list_same; assumption.
  - apply fexec_body_same; assumption.
  - apply fexec_while_same; assumption.
  - apply fexec_for_same; assumption.
Qed.

(** a program entered with the flag up: no statement is executed *)
Theorem frun_after_flag f repl ss fs r :
  fs_flag fs = true -> frun_stmts f repl ss fs = r ->
  r = FOk tt fs /\
  (forall x fs', r = FOk x fs' ->
     obs_eq (fs_st fs) (fs_st fs') /\ fs_flag fs' = true /\ exists more, fs_diags fs' = fs_diags fs ++ more) /\
  (forall fs', r <> FCrash fs').
Proof.
  intros F E. rewrite frun_stmts_same in E by exact F. subst r.
  split; [reflexivity|]. split.
  - intros x fs' E. inversion E; subst fs'.
    split; [apply obs_refl|]. split; [exact F|]. exists []. rewrite app_nil_r. reflexivity.
  - intros fs' E; discriminate.
Qed.

(* ---------------------------------------------------------------- *)
(** the [after] form used inside the simulation *)

Lemma after_feval f e rho fs : fs_flag fs = true -> after fs (feval f e rho fs).
Proof. intros H. apply same_after; [exact H|apply feval_same; exact H]. Qed.
Lemma after_feval_list f es rho fs : fs_flag fs = true -> after fs (feval_list f es rho fs).
Proof. intros H. apply same_after; [exact H|apply feval_list_same; exact H]. Qed.
Lemma after_feval_props f ps rho fs : fs_flag fs = true -> after fs (feval_props f ps rho fs).
Proof. intros H. apply same_after; [exact H|apply feval_props_same; exact H]. Qed.
Lemma after_fexec f repl st rho fs : fs_flag fs = true -> after fs (fexec f repl st rho fs).
Proof. intros H. apply same_after; [exact H|apply fexec_same; exact H]. Qed.
Lemma after_fexec_var f d rho fs : fs_flag fs = true -> after fs (fexec_var f d rho fs).
Proof. intros H. apply same_after; [exact H|apply fexec_var_same; exact H]. Qed.
Lemma after_fexec_vars f ds rho fs : fs_flag fs = true -> after fs (fexec_vars f ds rho fs).
Proof. intros H. apply same_after; [exact H|apply fexec_vars_same; exact H]. Qed.
Lemma after_fexec_list f repl ss rho fs : fs_flag fs = true -> after fs (fexec_list f repl ss rho fs).
Proof. intros H. apply same_after; [exact H|apply fexec_list_same; exact H]. Qed.
Lemma after_fexec_body f ss rho fs : fs_flag fs = true -> after fs (fexec_body f ss rho fs).
Proof. intros H. apply same_after; [exact H|apply fexec_body_same; exact H]. Qed.
Lemma after_fexec_while f repl c b rho fs : fs_flag fs = true -> after fs (fexec_while f repl c b rho fs).
Proof. intros H. apply same_after; [exact H|apply fexec_while_same; exact H]. Qed.
Lemma after_fexec_for f repl c inc b rho fs : fs_flag fs = true -> after fs (fexec_for f repl c inc b rho fs).
Proof. intros H. apply same_after; [exact H|apply fexec_for_same; exact H]. Qed.

Ltac obs_tac :=
  first [ eapply alloc_arr_obs; eassumption
        | eapply alloc_obj_obs; eassumption
        | apply set_arr_obs
        | apply set_obj_obs
        | apply obs_refl ].

Ltac aft_leaf :=
  first
    [ exact I
    | apply after_report
    | apply after_ret; assumption
    | apply after_upd; [assumption | obs_tac]
    | apply after_feval; assumption
    | apply after_feval_list; assumption
    | apply after_feval_props; assumption
    | apply after_fexec; assumption
    | apply after_fexec_var; assumption
    | apply after_fexec_vars; assumption
    | apply after_fexec_list; assumption
    | apply after_fexec_body; assumption
    | apply after_fexec_while; assumption
    | apply after_fexec_for; assumption ].

(** [aft]: goals [after fs X] where [fs_flag fs = true] is a hypothesis and [X] is the
    remainder of an arm of FlagEval *)
Ltac aft :=
  cbv beta;
  lazymatch goal with
  | |- after _ (fbind _ _) =>
      apply after_bind;
      [ aft
      | let a := fresh "a" in let fs := fresh "fs" in let H := fresh "Hup" in
        intros a fs H; aft ]
  | |- after _ (if fs_flag ?fs then _ else _) =>
      match goal with H : fs_flag fs = true |- _ => rewrite H end; aft
  | |- after _ (if _ && negb (fs_flag ?fs) then _ else _) =>
      match goal with H : fs_flag fs = true |- _ => rewrite H, andb_false_r end; aft
  | |- after _ (match ?x with _ => _ end) =>
      let E := fresh "E" in destruct x eqn:E; aft
  | |- _ => aft_leaf
  end.

(* ================================================================ *)
(** * (T2) the simulation *)

Definition SimAt (f : nat) : Prop :=
  (forall e rho fs s ds, fs_st fs = s -> fs_diags fs = ds -> fs_flag fs = false ->
     sim (eval f e rho s) ds (feval f e rho fs)) /\
  (forall es rho fs s ds, fs_st fs = s -> fs_diags fs = ds -> fs_flag fs = false ->
     sim (eval_list f es rho s) ds (feval_list f es rho fs)) /\
  (forall ps rho fs s ds, fs_st fs = s -> fs_diags fs = ds -> fs_flag fs = false ->
     sim (eval_props f ps rho s) ds (feval_props f ps rho fs)) /\
  (forall repl st rho fs s ds, fs_st fs = s -> fs_diags fs = ds -> fs_flag fs = false ->
     sim (exec f repl st rho s) ds (fexec f repl st rho fs)) /\
  (forall d rho fs s ds, fs_st fs = s -> fs_diags fs = ds -> fs_flag fs = false ->
     sim (exec_var f d rho s) ds (fexec_var f d rho fs)) /\
  (forall dl rho fs s ds, fs_st fs = s -> fs_diags fs = ds -> fs_flag fs = false ->
     sim (exec_vars f dl rho s) ds (fexec_vars f dl rho fs)) /\
  (forall repl ss rho fs s ds, fs_st fs = s -> fs_diags fs = ds -> fs_flag fs = false ->
     sim (exec_list f repl ss rho s) ds (fexec_list f repl ss rho fs)) /\
  (forall ss rho fs s ds, fs_st fs = s -> fs_diags fs = ds -> fs_flag fs = false ->
     sim (exec_list f false ss rho s) ds (fexec_body f ss rho fs)) /\
  (forall repl c b rho fs s ds, fs_st fs = s -> fs_diags fs = ds -> fs_flag fs = false ->
     sim (exec_while f repl c b rho s) ds (fexec_while f repl c b rho fs)) /\
  (forall repl c inc b rho fs s ds, fs_st fs = s -> fs_diags fs = ds -> fs_flag fs = false ->
     sim (exec_for f repl c inc b rho s) ds (fexec_for f repl c inc b rho fs)).

Ltac sim_leaf :=
  first
    [ apply sim_fuel
    | apply sim_stuck
    | apply sim_ret; [reflexivity | reflexivity | assumption]
    | apply sim_report; [reflexivity | reflexivity]
    | apply sim_crash; [reflexivity | reflexivity | assumption]
    | match goal with IH : _ |- _ => solve [eapply IH; [reflexivity | reflexivity | assumption]] end ].

(** [simgo]: goals [sim X ds Y] where [X] and [Y] are corresponding remainders of an arm *)
Ltac simgo :=
  cbv beta;
  lazymatch goal with
  | |- sim (bind _ _) _ (fbind _ _) =>
      apply sim_bind;
      [ simgo
      | let a := fresh "a" in let fs := fresh "fs" in let H := fresh "Hdn" in
        intros a fs H; simgo
      | let a := fresh "a" in let fs := fresh "fs" in let H := fresh "Hup" in
        intros a fs H; aft ]
  | |- sim _ _ (if fs_flag ?fs then _ else _) =>
      match goal with H : fs_flag fs = false |- _ => rewrite H end; simgo
  | |- sim _ _ (if _ && negb (fs_flag ?fs) then _ else _) =>
      match goal with H : fs_flag fs = false |- _ => rewrite H end;
      cbn [negb]; rewrite andb_true_r; simgo
  | |- sim _ _ (match ?x with _ => _ end) =>
      let E := fresh "E" in destruct x eqn:E; simgo
  | |- _ => sim_leaf
  end.

Ltac sim_start := intros; subst; unfold funop, fbinop, fprint, lift_ores.

Lemma sim_all : forall f, SimAt f.
Proof.
  induction f as [|f IH].
  - unfold SimAt. repeat apply conj; intros; subst;
      first [ rewrite feval_0 by assumption | rewrite fexec_0 by assumption
            | rewrite fexec_var_0 by assumption | idtac ]; apply sim_fuel.
  - destruct IH as (IHe & IHl & IHp & IHx & IHv & IHvs & IHxl & IHb & IHw & IHf).
    unfold SimAt. repeat apply conj.
    + (* feval *)
      intros e rho fs s ds Hs Hd Hdn. subst s ds.
      rewrite feval_S by exact Hdn. rewrite eval_S.
      unfold funop, fbinop, lift_ores.
      destruct e; simgo.
    + (* feval_list *)
      intros es rho fs s ds Hs Hd Hdn. subst s ds.
      rewrite feval_list_S, eval_list_S. simgo.
    + (* feval_props *)
      intros ps rho fs s ds Hs Hd Hdn. subst s ds.
      rewrite feval_props_S, eval_props_S. simgo.
    + (* fexec *)
      intros repl st rho fs s ds Hs Hd Hdn. subst s ds.
      rewrite fexec_S by exact Hdn. rewrite exec_S.
      unfold fprint.
      destruct st; simgo.
    + (* fexec_var *)
      intros d rho fs s ds Hs Hd Hdn. subst s ds.
      rewrite fexec_var_S by exact Hdn. rewrite exec_var_S. simgo.
    + (* fexec_vars *)
      intros dl rho fs s ds Hs Hd Hdn. subst s ds.
      rewrite fexec_vars_S, exec_vars_S. simgo.
    + (* fexec_list *)
      intros repl ss rho fs s ds Hs Hd Hdn. subst s ds.
      rewrite fexec_list_S, exec_list_S. simgo.
    + (* fexec_body *)
      intros ss rho fs s ds Hs Hd Hdn. subst s ds.
      rewrite fexec_body_S, exec_list_S. simgo.
    + (* fexec_while *)
      intros repl c b rho fs s ds Hs Hd Hdn. subst s ds.
      rewrite fexec_while_S, exec_while_S. simgo.
    + (* fexec_for *)
      intros repl c inc b rho fs s ds Hs Hd Hdn. subst s ds.
      rewrite fexec_for_S, exec_for_S. simgo.
Qed.


(** (T2), function by function, in the form requested.  [sim r ds fr] unfolds to:
    [fr = FOk v fs'] with the flag down: [r = Ok v (fs_st fs')], no new diagnostic;
    [fr = FOk v fs'] with the flag up: [r = Err e0 l0 s0], [obs_eq s0 (fs_st fs')], and the
    diagnostics are the old ones, then [(e0,l0)], then possibly more;
    [fr = FCrash fs']: flag down, no new diagnostic, [r = Crash (fs_st fs')]. *)
Definition sim_res {A} (r : res A) (fs : fstate) (fr : fres A) : Prop :=
  match fr with
  | FOk v fs' =>
      if fs_flag fs' then
        exists e0 l0 s0 more,
          r = Err e0 l0 s0 /\ obs_eq s0 (fs_st fs') /\ fs_diags fs' = fs_diags fs ++ (e0, l0) :: more
      else r = Ok v (fs_st fs') /\ fs_diags fs' = fs_diags fs
  | FCrash fs' => fs_flag fs' = false /\ fs_diags fs' = fs_diags fs /\ r = Crash (fs_st fs')
  | FFuel | FStuck => True
  end.

Lemma sim_weaken {A} (r : res A) fs fr : sim r (fs_diags fs) fr -> sim_res r fs fr.
Proof. destruct fr; simpl; auto. Qed.

Theorem feval_sim : forall f e rho fs, fs_flag fs = false ->
  match feval f e rho fs with
  | FOk v fs' =>
      if fs_flag fs' then
        exists e0 l0 s0 more,
          eval f e rho (fs_st fs) = Err e0 l0 s0 /\ obs_eq s0 (fs_st fs') /\
          fs_diags fs' = fs_diags fs ++ (e0, l0) :: more
      else eval f e rho (fs_st fs) = Ok v (fs_st fs') /\ fs_diags fs' = fs_diags fs
  | FCrash fs' => fs_flag fs' = false /\ fs_diags fs' = fs_diags fs /\ eval f e rho (fs_st fs) = Crash (fs_st fs')
  | FFuel | FStuck => True
  end.
Proof. intros f e rho fs H. apply (sim_weaken (eval f e rho (fs_st fs))). apply (sim_all f); [reflexivity|reflexivity|exact H]. Qed.

Theorem feval_list_sim : forall f es rho fs, fs_flag fs = false ->
  sim_res (eval_list f es rho (fs_st fs)) fs (feval_list f es rho fs).
Proof. intros f es rho fs H. apply sim_weaken. apply (sim_all f); [reflexivity|reflexivity|exact H]. Qed.

Theorem feval_props_sim : forall f ps rho fs, fs_flag fs = false ->
  sim_res (eval_props f ps rho (fs_st fs)) fs (feval_props f ps rho fs).
Proof. intros f ps rho fs H. apply sim_weaken. apply (sim_all f); [reflexivity|reflexivity|exact H]. Qed.

Theorem fexec_sim : forall f repl st rho fs, fs_flag fs = false ->
  sim_res (exec f repl st rho (fs_st fs)) fs (fexec f repl st rho fs).
Proof. intros f repl st rho fs H. apply sim_weaken. apply (sim_all f); [reflexivity|reflexivity|exact H]. Qed.

Theorem fexec_var_sim : forall f d rho fs, fs_flag fs = false ->
  sim_res (exec_var f d rho (fs_st fs)) fs (fexec_var f d rho fs).
Proof. intros f d rho fs H. apply sim_weaken. apply (sim_all f); [reflexivity|reflexivity|exact H]. Qed.

Theorem fexec_vars_sim : forall f dl rho fs, fs_flag fs = false ->
  sim_res (exec_vars f dl rho (fs_st fs)) fs (fexec_vars f dl rho fs).
Proof. intros f dl rho fs H. apply sim_weaken. apply (sim_all f); [reflexivity|reflexivity|exact H]. Qed.

Theorem fexec_list_sim : forall f repl ss rho fs, fs_flag fs = false ->
  sim_res (exec_list f repl ss rho (fs_st fs)) fs (fexec_list f repl ss rho fs).
Proof. intros f repl ss rho fs H. apply sim_weaken. apply (sim_all f); [reflexivity|reflexivity|exact H]. Qed.

(** a function body: FlagEval's [fexec_body] (no poll between the statements) against
    Eval's [exec_list] with [repl = false] *)
Theorem fexec_body_sim : forall f ss rho fs, fs_flag fs = false ->
  sim_res (exec_list f false ss rho (fs_st fs)) fs (fexec_body f ss rho fs).
Proof. intros f ss rho fs H. apply sim_weaken. apply (sim_all f); [reflexivity|reflexivity|exact H]. Qed.

Theorem fexec_while_sim : forall f repl c b rho fs, fs_flag fs = false ->
  sim_res (exec_while f repl c b rho (fs_st fs)) fs (fexec_while f repl c b rho fs).
Proof. intros f repl c b rho fs H. apply sim_weaken. apply (sim_all f); [reflexivity|reflexivity|exact H]. Qed.

Theorem fexec_for_sim : forall f repl c inc b rho fs, fs_flag fs = false ->
  sim_res (exec_for f repl c inc b rho (fs_st fs)) fs (fexec_for f repl c inc b rho fs).
Proof. intros f repl c inc b rho fs H. apply sim_weaken. apply (sim_all f); [reflexivity|reflexivity|exact H]. Qed.

(* ================================================================ *)
(** * (T3) whole programs *)

Lemma frun_sim f repl : forall ss fs s ds, fs_st fs = s -> fs_diags fs = ds -> fs_flag fs = false ->
  sim (run_stmts f repl ss s) ds (frun_stmts f repl ss fs).
Proof.
  destruct (sim_all f) as (_ & _ & _ & IHx & _).
  induction ss as [|st r IHss]; intros fs s ds Hs Hd Hdn; subst s ds.
  - cbn [Eval.run_stmts FlagEval.frun_stmts]. sim_leaf.
  - cbn [Eval.run_stmts FlagEval.frun_stmts]. simgo.
Qed.

(** A program that FlagEval runs to the end: either no error was reported and Eval ends in
    the same state; or the flag is up, Eval stops with the FIRST diagnostic FlagEval wrote,
    in a state with the same output, input and schedule index as FlagEval's final state. *)
Theorem frun_refines : forall f repl ss s fs',
  frun_stmts f repl ss (fclean s) = FOk tt fs' ->
  (fs_flag fs' = false /\ fs_diags fs' = [] /\ run_stmts f repl ss s = Ok tt (fs_st fs'))
  \/ (fs_flag fs' = true /\ exists e l more s', fs_diags fs' = (e, l) :: more /\
        run_stmts f repl ss s = Err e l s' /\ obs_eq s' (fs_st fs')).
Proof.
  intros f repl ss s fs' E.
  pose proof (frun_sim f repl ss (fclean s) s [] eq_refl eq_refl eq_refl) as H.
  rewrite E in H. simpl in H. destruct (fs_flag fs') eqn:F.
  - right. split; [reflexivity|]. destruct H as (e0 & l0 & s0 & more & R & O & D).
    exists e0, l0, more, s0. auto.
  - left. destruct H as (R & D). auto.
Qed.

(** the host crash (printing a cyclic value) happens in both, in the same state, and
    FlagEval has written nothing on stderr before it *)
Theorem frun_refines_crash : forall f repl ss s fs',
  frun_stmts f repl ss (fclean s) = FCrash fs' ->
  fs_flag fs' = false /\ fs_diags fs' = [] /\ run_stmts f repl ss s = Crash (fs_st fs').
Proof.
  intros f repl ss s fs' E.
  pose proof (frun_sim f repl ss (fclean s) s [] eq_refl eq_refl eq_refl) as H.
  rewrite E in H. exact H.
Qed.

(* ================================================================ *)
(** * (T5, in part) the converse, with the SAME fuel

    Up to the first error the two evaluators run in lock step, so whatever Eval does
    without a run-time error FlagEval does too, with the same fuel and the same final
    state.  When Eval ends with an error, FlagEval ends with that diagnostic first --
    unless, going on with nil, it runs out of fuel or (from a store with dangling
    locations) gets stuck; it never crashes.  The "for every large enough fuel" form is in
    Proofs/FlagConverse.v ([frun_converse], [frun_total]); it needs a well-formed start
    store (counter-example: Proofs/FlagExamples.v, [ex_e_eval] / [ex_e_flag]). *)

Theorem frun_complete_ok : forall f repl ss s s',
  run_stmts f repl ss s = Ok tt s' -> frun_stmts f repl ss (fclean s) = FOk tt (fclean s').
Proof.
  intros f repl ss s s' E.
  pose proof (frun_sim f repl ss (fclean s) s [] eq_refl eq_refl eq_refl) as H.
  destruct (sim_ok_inv _ _ _ _ _ H E) as (fs' & R & F & S' & D).
  rewrite R. f_equal. apply fclean_eq; assumption.
Qed.

Theorem frun_complete_crash : forall f repl ss s s',
  run_stmts f repl ss s = Crash s' -> frun_stmts f repl ss (fclean s) = FCrash (fclean s').
Proof.
  intros f repl ss s s' E.
  pose proof (frun_sim f repl ss (fclean s) s [] eq_refl eq_refl eq_refl) as H.
  destruct (sim_crash_inv _ _ _ _ H E) as (fs' & R & F & S' & D).
  rewrite R. f_equal. apply fclean_eq; assumption.
Qed.

Theorem frun_complete_fuel : forall f repl ss s,
  run_stmts f repl ss s = Fuel -> frun_stmts f repl ss (fclean s) = FFuel.
Proof.
  intros f repl ss s E.
  exact (sim_fuel_inv _ _ _ (frun_sim f repl ss (fclean s) s [] eq_refl eq_refl eq_refl) E).
Qed.

Theorem frun_complete_stuck : forall f repl ss s,
  run_stmts f repl ss s = Stuck -> frun_stmts f repl ss (fclean s) = FStuck.
Proof.
  intros f repl ss s E.
  exact (sim_stuck_inv _ _ _ (frun_sim f repl ss (fclean s) s [] eq_refl eq_refl eq_refl) E).
Qed.

Theorem frun_complete_err : forall f repl ss s e l s0,
  run_stmts f repl ss s = Err e l s0 ->
  match frun_stmts f repl ss (fclean s) with
  | FOk _ fs' => fs_flag fs' = true /\ obs_eq s0 (fs_st fs') /\ exists more, fs_diags fs' = (e, l) :: more
  | FCrash _ => False
  | FFuel | FStuck => True
  end.
Proof.
  intros f repl ss s e l s0 E.
  exact (sim_err_inv _ _ _ _ _ _ (frun_sim f repl ss (fclean s) s [] eq_refl eq_refl eq_refl) E).
Qed.

(** the same for expressions and statements (the other eight functions are alike:
    use [sim_all] with [sim_ok_inv], [sim_crash_inv], [sim_err_inv]) *)
Theorem feval_complete_ok : forall f e rho fs v s',
  fs_flag fs = false -> eval f e rho (fs_st fs) = Ok v s' ->
  exists fs', feval f e rho fs = FOk v fs' /\ fs_flag fs' = false /\ fs_st fs' = s' /\ fs_diags fs' = fs_diags fs.
Proof.
  intros f e rho fs v s' F E.
  eapply sim_ok_inv; [|exact E]. apply (sim_all f); [reflexivity|reflexivity|exact F].
Qed.

Theorem fexec_complete_ok : forall f repl st rho fs sig s',
  fs_flag fs = false -> exec f repl st rho (fs_st fs) = Ok sig s' ->
  exists fs', fexec f repl st rho fs = FOk sig fs' /\ fs_flag fs' = false /\ fs_st fs' = s' /\ fs_diags fs' = fs_diags fs.
Proof.
  intros f repl st rho fs sig s' F E.
  eapply sim_ok_inv; [|exact E]. apply (sim_all f); [reflexivity|reflexivity|exact F].
Qed.

End Refine.

Print Assumptions after_flag_silent.
Print Assumptions frun_after_flag.
Print Assumptions sim_all.
Print Assumptions feval_sim.
Print Assumptions frun_refines.
Print Assumptions frun_refines_crash.
Print Assumptions frun_complete_ok.
Print Assumptions frun_complete_err.
