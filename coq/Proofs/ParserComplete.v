(** Completeness of the expression parser for the published grammar: every token
    list whose symbols are the canonical writing [flat_e e] of a ladder-shaped tree
    [e] is accepted, and the tree returned is [e] up to line numbers.  Hence the
    ladder-shaped tree of a token list is unique ([tree_unique]).

    Scheme (as in design_spikes/ParserSpike_Complete.v): strong induction on the
    size of the tree; inside, downward induction on the ladder level; a loop lemma
    for left spines ([ploop]) and one for suffix chains ([pcallloop]). *)
From Borno Require Import Base Num Token Ast Parser ParserEqs ParserMono Grammar ParserSC_Base.
From Coq Require Import Wellfounded Wf_nat.
Local Open Scope nat_scope.

Ltac lnorm := repeat (progress (rewrite <- ?app_assoc; cbn [app])).

Tactic Notation "spc" hyp(H) "as" ident(t) ident(ts') ident(St) :=
  apply SymPre_cons_inv in H; destruct H as (t & ts' & -> & St & H).
Tactic Notation "spa" hyp(H) "as" ident(mid) ident(H1) :=
  apply SymPre_app_inv in H; destruct H as (mid & H1 & H).

(** * Follow conditions *)

(** a token kind that cannot continue an expression of level [>= k] *)
Definition nofollow (k : nat) (kd : tkind) : Prop :=
  (forall j, op_level kd = Some j -> j < k) /\ kd <> TLEFT_PAREN /\ kd <> TLEFT_BRACKET /\ kd <> TDOT.
Definition hdok (k : nat) (r : list token) : Prop :=
  match r with [] => True | t :: _ => nofollow k (tk t) end.
Definition hdoke (r : list token) : Prop :=
  hdok 0 r /\ match r with t :: _ => tk t <> TEQUAL | [] => True end.

Lemma hdok_mono k k' r : k <= k' -> hdok k r -> hdok k' r.
Proof.
  destruct r as [|t r]; simpl; [auto|]. intros Hle (H & H1 & H2 & H3).
  split; [|auto]. intros j Hj. apply H in Hj. lia.
Qed.

Lemma follow_hdoke r : follow_ok r -> hdoke r.
Proof.
  destruct r as [|t r]; [intros _; split; exact I|].
  unfold follow_ok, expr_follow, hdoke, hdok, nofollow.
  destruct (op_level (tk t)) eqn:E; [intros H; discriminate H|]. intros H.
  split; [split; [intros j Hj; discriminate Hj|]|]; destruct (tk t); try discriminate H; repeat split; discriminate.
Qed.

Lemma hdoke_kind t r : expr_follow (tk t) = true -> hdoke (t :: r).
Proof. intros H. apply follow_hdoke. exact H. Qed.

Lemma hdok_equal k t r : tk t = TEQUAL -> hdok k (t :: r).
Proof.
  intros K. simpl. rewrite K. split; [|repeat split; discriminate].
  intros j Hj. vm_compute in Hj. discriminate.
Qed.

Lemma hdok_op k t r : op_level (tk t) = Some k -> hdok (S k) (t :: r).
Proof.
  intros H. simpl. destruct (op_level_not_sep _ _ H) as (H1 & H2 & H3 & _).
  split; [|auto]. intros j Hj. rewrite H in Hj. inv Hj. lia.
Qed.

Lemma starter_not_close k : starter_kind k = true ->
  k <> TRIGHT_PAREN /\ k <> TRIGHT_BRACKET /\ k <> TRIGHT_BRACE /\ k <> TSEMICOLON /\ k <> TCOMMA.
Proof. destruct k; intros H; try discriminate H; repeat split; discriminate. Qed.

Section Complete.
Variable eofl : N.

Notation pexpr := (Parser.pexpr eofl).
Notation plevel := (Parser.plevel eofl).
Notation ploop := (Parser.ploop eofl).
Notation punary := (Parser.punary eofl).
Notation pcallloop := (Parser.pcallloop eofl).
Notation pargs := (Parser.pargs eofl).
Notation pprimary := (Parser.pprimary eofl).
Notation pprops := (Parser.pprops eofl).
Notation consume := (Parser.consume eofl).

(** primary followed by its suffix chain (the [else] branch of [punary]) *)
Definition ppost (f : nat) (ts : list token) : pres expr :=
  pbind (pprimary f ts) (fun e r' => pcallloop f e r').

Lemma punary_post f t ts : is_unop (tk t) = false -> punary (S f) (t :: ts) = ppost f (t :: ts).
Proof. intros H. rewrite punary_S. unfold is_unop in H. rewrite H. reflexivity. Qed.

Lemma ppost_intro f ts e' r' a r ds :
  pprimary f ts = POk e' r' [] -> pcallloop f e' r' = POk a r ds -> ppost f ts = POk a r ds.
Proof. intros H1 H2. unfold ppost. rewrite (pbind_nil _ _ _ _ H1). exact H2. Qed.

Lemma pcallloop_stop f k e r : hdok k r -> pcallloop (S f) e r = POk e r [].
Proof.
  rewrite pcallloop_S. destruct r as [|t r']; [reflexivity|]. simpl. intros (_ & H1 & H2 & H3).
  destruct (tk t); try reflexivity; congruence.
Qed.

Lemma ploop_stop f k e r : k < nlev -> hdok k r -> ploop (S f) (lvl k) (skipn (S k) ladder) e r = POk e r [].
Proof.
  intros Hk H. rewrite ploop_S. destruct r as [|t r']; [reflexivity|].
  destruct (kind_in (tk t) (fst (lvl k))) eqn:Kin; [|reflexivity].
  apply (level_ops_spec _ _ Hk) in Kin. destruct H as (H & _). apply H in Kin. lia.
Qed.

Lemma pprimary_lit f t r v : sym_of t = flat_lit v -> pprimary (S f) (t :: r) = POk (ELit v (tline t)) r [].
Proof.
  intros H. rewrite pprimary_S.
  destruct v as [|[|]|x|s]; simpl in H.
  - rewrite (sym_of_kind _ _ H). reflexivity.
  - rewrite (sym_of_kind _ _ H). reflexivity.
  - rewrite (sym_of_kind _ _ H). reflexivity.
  - apply sym_of_SymNum in H. destruct H as (K & L). rewrite K, L. reflexivity.
  - apply sym_of_SymStr in H. destruct H as (K & L). rewrite K, L. reflexivity.
Qed.

Lemma pprimary_id f t r x : sym_of t = SymId x -> pprimary (S f) (t :: r) = POk (EId x (tline t)) r [].
Proof.
  intros H. rewrite pprimary_S. apply sym_of_SymId in H. destruct H as (K & L). rewrite K, L. reflexivity.
Qed.

(** the three statements proved together for a tree [e]: levels, suffix chains, full expressions *)
Definition StmtC (e : expr) : Prop :=
  (forall k ts rest, k <= nlev -> WFk k e -> SymPre (flat_e e) ts rest -> hdok k rest ->
     exists f e', plevel f (skipn k ladder) ts = POk e' rest [] /\ erase_e e' = erase_e e) /\
  (forall ts rest, WFk (S nlev) e -> SymPre (flat_e e) ts rest ->
     exists e', erase_e e' = erase_e e /\
       forall f a r ds, pcallloop f e' rest = POk a r ds -> exists f', ppost f' ts = POk a r ds) /\
  (forall ts rest, WFfull e -> SymPre (flat_e e) ts rest -> hdoke rest ->
     exists f e', pexpr f ts = POk e' rest [] /\ erase_e e' = erase_e e).

Lemma P_of_primary e ts rest :
  (exists e' F0, erase_e e' = erase_e e /\ forall F, F0 <= F -> pprimary (S F) ts = POk e' rest []) ->
  exists e', erase_e e' = erase_e e /\
    forall f a r ds, pcallloop f e' rest = POk a r ds -> exists f', ppost f' ts = POk a r ds.
Proof.
  intros (e' & F0 & Er & Hp). exists e'. split; [exact Er|].
  intros f a r ds Hc. exists (S (f + F0)). eapply ppost_intro; [apply Hp; lia|].
  eapply pcallloop_mono_ok; [exact Hc|lia].
Qed.

Lemma join_first a es : exists s, join_comma (map flat_e (a :: es)) = first_sym a :: s.
Proof.
  destruct (flat_first a) as (s & E). destruct es as [|b es].
  - exists s. simpl. exact E.
  - eexists. change (join_comma (map flat_e (a :: b :: es)))
      with (flat_e a ++ Sym TCOMMA :: join_comma (map flat_e (b :: es))).
    rewrite E. reflexivity.
Qed.

(** comma-separated expressions *)
Lemma args_complete n : (forall e, esize e <= n -> StmtC e) ->
  forall args ts rest, list_sum (map esize args) <= n -> Forall WFfull args -> args <> [] ->
  SymPre (join_comma (map flat_e args)) ts rest -> hdoke rest -> check TCOMMA rest = false ->
  exists f args', pargs f ts = POk args' rest [] /\ map erase_e args' = map erase_e args.
Proof.
  intros IH. induction args as [|a args IHa]; intros ts rest Hs HF Hne HP Hh Hc; [congruence|].
  apply Forall_cons_iff in HF. destruct HF as (Wa & Wargs). simpl in Hs.
  destruct (IH a ltac:(lia)) as (_ & _ & Ea).
  destruct args as [|b args].
  - cbn [map join_comma] in HP. destruct (Ea ts rest Wa HP Hh) as (f & a' & Hf & Era).
    exists (S f), [a']. split; [|cbn [map]; rewrite Era; reflexivity].
    rewrite pargs_S. rewrite (pbind_nil _ _ _ _ Hf). rewrite Hc. reflexivity.
  - change (join_comma (map flat_e (a :: b :: args)))
      with (flat_e a ++ Sym TCOMMA :: join_comma (map flat_e (b :: args))) in HP.
    spa HP as mid HPa. spc HP as tc ts2 Sc.
    assert (Kc : tk tc = TCOMMA) by (apply (sym_of_kind _ _ Sc)).
    assert (Hh1 : hdoke (tc :: ts2)) by (apply hdoke_kind; rewrite Kc; reflexivity).
    destruct (Ea ts (tc :: ts2) Wa HPa Hh1) as (f1 & a' & Hf1 & Era).
    assert (Hs2 : list_sum (map esize (b :: args)) <= n) by (simpl in *; lia).
    destruct (IHa ts2 rest Hs2 Wargs ltac:(discriminate) HP Hh Hc) as (f2 & more & Hf2 & Erm).
    exists (S (f1 + f2)), (a' :: more). split.
    + rewrite pargs_S. erewrite pbind_nil by (eapply pexpr_mono_ok; [exact Hf1|lia]).
      rewrite (check_hit _ _ _ Kc). cbn [tl]. erewrite pbind_nil by (eapply pargs_mono_ok; [exact Hf2|lia]).
      reflexivity.
    + cbn [map] in *. rewrite Era, Erm. reflexivity.
Qed.

(** a bracketed, possibly empty list: [( … )] of a call, [[ … ]] of an array literal *)
Lemma optargs_complete n close : (forall e, esize e <= n -> StmtC e) ->
  (close = TRIGHT_PAREN \/ close = TRIGHT_BRACKET) ->
  forall args ts tcl rest, list_sum (map esize args) <= n -> Forall WFfull args ->
  SymPre (join_comma (map flat_e args)) ts (tcl :: rest) -> tk tcl = close ->
  exists f args', (forall F, f <= F ->
     (if check close ts then POk [] ts [] else pargs F ts) = POk args' (tcl :: rest) []) /\
     map erase_e args' = map erase_e args.
Proof.
  intros IH Hcl args ts tcl rest Hs HF HP Kcl.
  destruct args as [|a args].
  - cbn [map join_comma] in HP. apply SymPre_nil_inv in HP. subst ts.
    exists 0, []. split; [|reflexivity]. intros F _. rewrite (check_hit _ _ _ Kcl). reflexivity.
  - assert (Hh : hdoke (tcl :: rest)).
    { apply hdoke_kind. rewrite Kcl. destruct Hcl as [->| ->]; reflexivity. }
    assert (Hc : check TCOMMA (tcl :: rest) = false).
    { apply check_miss. rewrite Kcl. destruct Hcl as [->| ->]; discriminate. }
    destruct (args_complete n IH (a :: args) ts (tcl :: rest) Hs HF ltac:(discriminate) HP Hh Hc)
      as (f & args' & Hf & Er).
    exists f, args'. split; [|exact Er]. intros F HF'.
    destruct (join_first a args) as (s & Es). rewrite Es in HP.
    spc HP as t0 ts0 S0.
    assert (K0 : tk t0 <> close).
    { rewrite (sym_of_kind _ _ S0). apply Forall_cons_iff in HF. destruct HF as (Wa & _).
      apply first_sym_full in Wa. apply starter_not_close in Wa.
      destruct Hcl as [->| ->]; tauto. }
    rewrite (check_miss _ _ _ K0). eapply pargs_mono_ok; [exact Hf|exact HF'].
Qed.

Definition flat_kv (kv : list N * expr) : list tsym := let '(k, v) := kv in SymId k :: Sym TCOLON :: flat_e v.

(** the entries of an object literal *)
Lemma props_complete n : (forall e, esize e <= n -> StmtC e) ->
  forall ps ts tcl rest acc, list_sum (map esize (map snd ps)) <= n -> Forall WFfull (map snd ps) ->
  SymPre (join_comma (map flat_kv ps)) ts (tcl :: rest) -> tk tcl = TRIGHT_BRACE ->
  exists f raw, pprops f acc ts = POk (fold_left put_kv raw acc) (tcl :: rest) [] /\
                map erase_kv raw = map erase_kv ps.
Proof.
  intros IH. induction ps as [|[k v] ps IHp]; intros ts tcl rest acc Hs HF HP Kcl.
  - cbn [map join_comma] in HP. apply SymPre_nil_inv in HP. subst ts.
    exists 1, []. split; [|reflexivity]. rewrite pprops_S. rewrite Kcl. reflexivity.
  - simpl in Hs. cbn [map snd] in HF.
    apply Forall_cons_iff in HF. destruct HF as (Wv & Wps).
    destruct (IH v ltac:(lia)) as (_ & _ & Ev).
    assert (Hh : hdoke (tcl :: rest)) by (apply hdoke_kind; rewrite Kcl; reflexivity).
    assert (Hc : check TCOMMA (tcl :: rest) = false) by (apply check_miss; rewrite Kcl; discriminate).
    destruct ps as [|kv2 ps].
    + cbn [map join_comma flat_kv] in HP.
      spc HP as tn ts1 Sn. spc HP as tc ts2 Sc.
      apply sym_of_SymId in Sn. destruct Sn as (Kn & Ln).
      assert (Kc : tk tc = TCOLON) by (apply (sym_of_kind _ _ Sc)).
      destruct (Ev ts2 (tcl :: rest) Wv HP Hh) as (f1 & v' & Hf1 & Erv).
      exists (S f1), [(k, v')]. split; [|cbn [map erase_kv]; rewrite Erv; reflexivity].
      rewrite pprops_S. rewrite Kn. cbn [tkind_eqb tkind_code N.eqb Pos.eqb].
      rewrite (pbind_nil _ _ _ _ (consume_hit eofl _ _ _ _ Kn)).
      rewrite (pbind_nil _ _ _ _ (consume_hit eofl _ _ _ _ Kc)).
      rewrite (pbind_nil _ _ _ _ Hf1). rewrite Hc. rewrite Ln. reflexivity.
    + change (join_comma (map flat_kv ((k, v) :: kv2 :: ps)))
        with ((SymId k :: Sym TCOLON :: flat_e v) ++ Sym TCOMMA :: join_comma (map flat_kv (kv2 :: ps))) in HP.
      cbn [app] in HP.
      spc HP as tn ts1 Sn. spc HP as tc ts2 Sc. spa HP as mid HPv. spc HP as tcm ts3 Scm.
      apply sym_of_SymId in Sn. destruct Sn as (Kn & Ln).
      assert (Kc : tk tc = TCOLON) by (apply (sym_of_kind _ _ Sc)).
      assert (Kcm : tk tcm = TCOMMA) by (apply (sym_of_kind _ _ Scm)).
      assert (Hh1 : hdoke (tcm :: ts3)) by (apply hdoke_kind; rewrite Kcm; reflexivity).
      destruct (Ev ts2 (tcm :: ts3) Wv HPv Hh1) as (f1 & v' & Hf1 & Erv).
      assert (Hs2 : list_sum (map esize (map snd (kv2 :: ps))) <= n) by (simpl in *; lia).
      destruct (IHp ts3 tcl rest (props_put acc k v') Hs2 Wps HP Kcl) as (f2 & raw & Hf2 & Err).
      exists (S (f1 + f2)), ((k, v') :: raw). split.
      * rewrite pprops_S. rewrite Kn. cbn [tkind_eqb tkind_code N.eqb Pos.eqb].
        rewrite (pbind_nil _ _ _ _ (consume_hit eofl _ _ _ _ Kn)).
        rewrite (pbind_nil _ _ _ _ (consume_hit eofl _ _ _ _ Kc)).
        erewrite pbind_nil by (eapply pexpr_mono_ok; [exact Hf1|lia]).
        rewrite (check_hit _ _ _ Kcm). cbn [tl]. rewrite Ln.
        eapply pprops_mono_ok; [exact Hf2|lia].
      * cbn [map erase_kv] in *. rewrite Erv, Err. reflexivity.
Qed.


Lemma flat_arrassign a i v ln :
  flat_e (EArrAssign a i v ln) = flat_e (EIndex a i 0%N) ++ Sym TEQUAL :: flat_e v.
Proof. cbn [flat_e]. lnorm. reflexivity. Qed.
Lemma flat_propassign o p v ln :
  flat_e (EPropAssign o p v ln) = flat_e (EProp o p 0%N) ++ Sym TEQUAL :: flat_e v.
Proof. cbn [flat_e]. lnorm. reflexivity. Qed.

Lemma complete_n : forall n e, esize e <= n -> StmtC e.
Proof.
  induction n as [|n IH]; intros e Hs. { pose proof (esize_pos e). lia. }
  (* P : primaries and suffix chains *)
  assert (P : forall ts rest, WFk (S nlev) e -> SymPre (flat_e e) ts rest ->
     exists e', erase_e e' = erase_e e /\
       forall f a r ds, pcallloop f e' rest = POk a r ds -> exists f', ppost f' ts = POk a r ds).
  { intros ts rest W HP. apply WFk_post_cases in W.
    destruct e as [v ln|x ln|e0 ln|op e0 ln|op l r ln|op l r|x nl v ln|a i v ln|o p v ln|c pl args|a i ln|o p ln|es|ps];
      try contradiction.
    - (* literal *)
      cbn [flat_e] in HP. spc HP as t ts1 St. apply SymPre_nil_inv in HP. subst ts1.
      apply P_of_primary. exists (ELit v (tline t)), 0. split; [reflexivity|].
      intros F _. apply pprimary_lit. exact St.
    - (* identifier *)
      cbn [flat_e] in HP. spc HP as t ts1 St. apply SymPre_nil_inv in HP. subst ts1.
      apply P_of_primary. exists (EId x (tline t)), 0. split; [reflexivity|].
      intros F _. apply pprimary_id. exact St.
    - (* group *)
      cbn [flat_e] in HP. cbn [esize] in Hs.
      spc HP as t1 ts1 S1. spa HP as mid HPe. spc HP as t2 ts2 S2. apply SymPre_nil_inv in HP. subst ts2.
      assert (K1 : tk t1 = TLEFT_PAREN) by (apply (sym_of_kind _ _ S1)).
      assert (K2 : tk t2 = TRIGHT_PAREN) by (apply (sym_of_kind _ _ S2)).
      destruct (IH e0 ltac:(lia)) as (_ & _ & Ee).
      assert (Hh : hdoke (t2 :: rest)) by (apply hdoke_kind; rewrite K2; reflexivity).
      destruct (Ee ts1 (t2 :: rest) W HPe Hh) as (f1 & e0' & Hf1 & Er0).
      apply P_of_primary. exists (EGroup e0' (tline t2)), f1. split; [cbn [erase_e]; rewrite Er0; reflexivity|].
      intros F HF. rewrite pprimary_S, K1. cbv beta iota.
      erewrite pbind_nil by (eapply pexpr_mono_ok; [exact Hf1|lia]).
      rewrite (pbind_nil _ _ _ _ (consume_hit eofl _ _ _ _ K2)). reflexivity.
    - (* call *)
      destruct W as (Wc & Wargs). cbn [flat_e] in HP. cbn [esize] in Hs.
      spa HP as mid1 HPc. spc HP as t1 ts1 S1. spa HP as mid2 HPa. spc HP as t2 ts2 S2.
      apply SymPre_nil_inv in HP. subst ts2.
      assert (K1 : tk t1 = TLEFT_PAREN) by (apply (sym_of_kind _ _ S1)).
      assert (K2 : tk t2 = TRIGHT_PAREN) by (apply (sym_of_kind _ _ S2)).
      destruct (IH c ltac:(lia)) as (_ & Pc & _).
      destruct (Pc ts (t1 :: ts1) Wc HPc) as (c' & Erc & Hc').
      assert (Hsa : list_sum (map esize args) <= n) by lia.
      destruct (optargs_complete n TRIGHT_PAREN IH (or_introl eq_refl) args ts1 t2 rest Hsa Wargs HPa K2)
        as (f2 & args' & Hf2 & Era).
      exists (ECall c' (tline t2) args'). split; [cbn [erase_e]; rewrite Erc, Era; reflexivity|].
      intros f a r ds Hloop. apply (Hc' (S (f + f2))). rewrite pcallloop_S. cbv beta iota. rewrite K1. cbv beta iota.
      rewrite (pbind_nil _ _ _ _ (Hf2 (f + f2) ltac:(lia))).
      rewrite (pbind_nil _ _ _ _ (consume_hit eofl _ _ _ _ K2)).
      eapply pcallloop_mono_ok; [exact Hloop|lia].
    - (* index *)
      destruct W as (Wa & Wi). cbn [flat_e] in HP. cbn [esize] in Hs.
      spa HP as mid1 HPa. spc HP as t1 ts1 S1. spa HP as mid2 HPi. spc HP as t2 ts2 S2.
      apply SymPre_nil_inv in HP. subst ts2.
      assert (K1 : tk t1 = TLEFT_BRACKET) by (apply (sym_of_kind _ _ S1)).
      assert (K2 : tk t2 = TRIGHT_BRACKET) by (apply (sym_of_kind _ _ S2)).
      destruct (IH a ltac:(lia)) as (_ & Pa & _).
      destruct (Pa ts (t1 :: ts1) Wa HPa) as (a' & Era & Ha').
      destruct (IH i ltac:(lia)) as (_ & _ & Ei).
      assert (Hh : hdoke (t2 :: rest)) by (apply hdoke_kind; rewrite K2; reflexivity).
      destruct (Ei ts1 (t2 :: rest) Wi HPi Hh) as (f2 & i' & Hf2 & Eri).
      exists (EIndex a' i' (tline t2)). split; [cbn [erase_e]; rewrite Era, Eri; reflexivity|].
      intros f b r ds Hloop. apply (Ha' (S (f + f2))). rewrite pcallloop_S. cbv beta iota. rewrite K1. cbv beta iota.
      erewrite pbind_nil by (eapply pexpr_mono_ok; [exact Hf2|lia]).
      rewrite (pbind_nil _ _ _ _ (consume_hit eofl _ _ _ _ K2)).
      eapply pcallloop_mono_ok; [exact Hloop|lia].
    - (* property *)
      cbn [flat_e] in HP. cbn [esize] in Hs.
      spa HP as mid1 HPo. spc HP as t1 ts1 S1. spc HP as t2 ts2 S2.
      apply SymPre_nil_inv in HP. subst ts2.
      assert (K1 : tk t1 = TDOT) by (apply (sym_of_kind _ _ S1)).
      apply sym_of_SymId in S2. destruct S2 as (K2 & L2).
      destruct (IH o ltac:(lia)) as (_ & Po & _).
      destruct (Po ts (t1 :: t2 :: rest) W HPo) as (o' & Ero & Ho').
      exists (EProp o' p (tline t2)). split; [cbn [erase_e]; rewrite Ero; reflexivity|].
      intros f b r ds Hloop. apply (Ho' (S f)). rewrite pcallloop_S. cbv beta iota. rewrite K1. cbv beta iota.
      rewrite (pbind_nil _ _ _ _ (consume_hit eofl _ _ _ _ K2)). rewrite L2.
      eapply pcallloop_mono_ok; [exact Hloop|lia].
    - (* array *)
      cbn [flat_e] in HP. cbn [esize] in Hs.
      spc HP as t1 ts1 S1. spa HP as mid HPe. spc HP as t2 ts2 S2. apply SymPre_nil_inv in HP. subst ts2.
      assert (K1 : tk t1 = TLEFT_BRACKET) by (apply (sym_of_kind _ _ S1)).
      assert (K2 : tk t2 = TRIGHT_BRACKET) by (apply (sym_of_kind _ _ S2)).
      assert (Hsa : list_sum (map esize es) <= n) by lia.
      destruct (optargs_complete n TRIGHT_BRACKET IH (or_intror eq_refl) es ts1 t2 rest Hsa W HPe K2)
        as (f2 & es' & Hf2 & Eres).
      apply P_of_primary. exists (EArray es'), f2. split; [cbn [erase_e]; rewrite Eres; reflexivity|].
      intros F HF. rewrite pprimary_S, K1. cbv beta iota.
      rewrite (pbind_nil _ _ _ _ (Hf2 F HF)).
      rewrite (pbind_nil _ _ _ _ (consume_hit eofl _ _ _ _ K2)). reflexivity.
    - (* object *)
      destruct W as (Hnd & Wps). cbn [flat_e] in HP. rewrite esize_object in Hs.
      spc HP as t1 ts1 S1. spa HP as mid HPe. spc HP as t2 ts2 S2. apply SymPre_nil_inv in HP. subst ts2.
      assert (K1 : tk t1 = TLEFT_BRACE) by (apply (sym_of_kind _ _ S1)).
      assert (K2 : tk t2 = TRIGHT_BRACE) by (apply (sym_of_kind _ _ S2)).
      assert (Hsa : list_sum (map esize (map snd ps)) <= n) by lia.
      destruct (props_complete n IH ps ts1 t2 rest [] Hsa Wps HPe K2) as (f2 & raw & Hf2 & Err).
      apply P_of_primary. exists (EObject (fold_left put_kv raw [])), f2. split.
      + rewrite !erase_object. f_equal. unfold erase_kv. rewrite (fold_put_map erase_e raw []).
        fold erase_kv. rewrite Err. cbn [map]. apply (fold_put_nodup (map erase_kv ps) []).
        cbn [app]. rewrite map_fst_erase. exact Hnd.
      + intros F HF. rewrite pprimary_S, K1. cbv beta iota.
        erewrite pbind_nil by (eapply pprops_mono_ok; [exact Hf2|exact HF]).
        rewrite (pbind_nil _ _ _ _ (consume_hit eofl _ _ _ _ K2)). reflexivity. }
  (* A : the ladder levels, by downward induction on the level *)
  assert (A : forall d k ts rest, nlev - k = d -> k <= nlev -> WFk k e -> SymPre (flat_e e) ts rest -> hdok k rest ->
     exists f e', plevel f (skipn k ladder) ts = POk e' rest [] /\ erase_e e' = erase_e e).
  { induction d as [|d IHd]; intros k ts rest Hd Hk W HP Hh.
    - (* the unary level *)
      assert (k = nlev) by lia. subst k. rewrite ladder_skipn_all.
      destruct (WFk_unary_cases e W) as [(op & e0 & ln & -> & Hun & We0)|Wp].
      + cbn [flat_e] in HP. cbn [esize] in Hs. spc HP as t ts1 St.
        assert (Kt : tk t = op) by (apply (sym_of_kind _ _ St)).
        destruct (IH e0 ltac:(lia)) as (Ae & _ & _).
        destruct (Ae nlev ts1 rest (le_n _) We0 HP Hh) as (f & e0' & Hf & Er0).
        destruct f as [|f]; [rewrite plevel_0 in Hf; discriminate Hf|].
        rewrite ladder_skipn_all, plevel_S in Hf.
        exists (S (S f)), (EUnary op e0' (tline t)). split.
        * rewrite plevel_S, punary_S. unfold is_unop in Hun. rewrite Kt, Hun.
          rewrite (pbind_nil _ _ _ _ Hf). reflexivity.
        * cbn [erase_e]. rewrite Er0. reflexivity.
      + destruct (P ts rest Wp HP) as (e' & Er & He').
        destruct (He' 1 e' rest [] (pcallloop_stop 0 nlev e' rest Hh)) as (f' & Hf').
        exists (S (S f')), e'. split; [|exact Er].
        rewrite plevel_S.
        destruct (flat_first e) as (s & Es). rewrite Es in HP. spc HP as t ts1 St.
        rewrite punary_post; [exact Hf'|]. apply pstarter_not_unop. rewrite (sym_of_kind _ _ St).
        apply first_sym_post. exact Wp.
    - (* a binary level *)
      assert (Hk' : k < nlev) by lia.
      assert (LP : forall e1, esize e1 <= esize e -> (esize e1 < esize e \/ e1 = e) -> WFk k e1 ->
                forall ts1 rest', SymPre (flat_e e1) ts1 rest' -> hdok (S k) rest' ->
                exists e1', erase_e e1' = erase_e e1 /\
                  forall f a r ds, ploop f (lvl k) (skipn (S k) ladder) e1' rest' = POk a r ds ->
                                   exists f', plevel f' (skipn k ladder) ts1 = POk a r ds).
      { induction e1 as [e1 IHe1] using (well_founded_induction (wf_inverse_image _ _ _ esize lt_wf)).
        intros Hle Hor W1 ts1 rest' HP1 Hh1.
        destruct (WFk_up _ _ W1 Hk') as [(op & l & r & ln & -> & Ho & Hlg & Wl & Wr)|[(op & l & r & -> & Ho & Hlg & Wl & Wr)|Wup]].
        + (* binary node of this level *)
          cbn [flat_e] in HP1.
          spa HP1 as mid HPl. spc HP1 as top ts2 Sop.
          assert (Kop : tk top = op) by (apply (sym_of_kind _ _ Sop)).
          assert (Szl : esize l < esize (EBinary op l r ln)) by (cbn [esize]; lia).
          assert (Szr : esize r < esize (EBinary op l r ln)) by (cbn [esize]; lia).
          assert (Ar : exists fr r', plevel fr (skipn (S k) ladder) ts2 = POk r' rest' [] /\ erase_e r' = erase_e r).
          { destruct (IH r ltac:(lia)) as (Ar & _ & _). apply Ar; auto. }
          destruct Ar as (fr & r' & Hfr & Err).
          assert (Hh2 : hdok (S k) (top :: ts2)) by (apply hdok_op; rewrite Kop; exact Ho).
          assert (Hor2 : esize l < esize e \/ l = e) by (left; destruct Hor as [Hlt| <-]; lia).
          destruct (IHe1 l Szl ltac:(lia) Hor2 Wl ts1 (top :: ts2) HPl Hh2) as (l' & Erl & Hl').
          exists (mk_bin (snd (lvl k)) top l' r'). split.
          * rewrite erase_mk_bin. change (snd (lvl k)) with (level_logical k). rewrite Hlg.
            cbn [erase_e]. rewrite Kop, Erl, Err. reflexivity.
          * intros f a r0 ds Hloop. apply (Hl' (S (f + fr))). rewrite ploop_S.
            assert (Kin : kind_in (tk top) (fst (lvl k)) = true)
              by (apply (level_ops_spec _ _ Hk'); rewrite Kop; exact Ho).
            rewrite Kin. erewrite pbind_nil by (eapply plevel_mono_ok; [exact Hfr|lia]).
            eapply ploop_mono_ok; [exact Hloop|lia].
        + (* logical node of this level *)
          cbn [flat_e] in HP1.
          spa HP1 as mid HPl. spc HP1 as top ts2 Sop.
          assert (Kop : tk top = op) by (apply (sym_of_kind _ _ Sop)).
          assert (Szl : esize l < esize (ELogical op l r)) by (cbn [esize]; lia).
          assert (Szr : esize r < esize (ELogical op l r)) by (cbn [esize]; lia).
          assert (Ar : exists fr r', plevel fr (skipn (S k) ladder) ts2 = POk r' rest' [] /\ erase_e r' = erase_e r).
          { destruct (IH r ltac:(lia)) as (Ar & _ & _). apply Ar; auto. }
          destruct Ar as (fr & r' & Hfr & Err).
          assert (Hh2 : hdok (S k) (top :: ts2)) by (apply hdok_op; rewrite Kop; exact Ho).
          assert (Hor2 : esize l < esize e \/ l = e) by (left; destruct Hor as [Hlt| <-]; lia).
          destruct (IHe1 l Szl ltac:(lia) Hor2 Wl ts1 (top :: ts2) HPl Hh2) as (l' & Erl & Hl').
          exists (mk_bin (snd (lvl k)) top l' r'). split.
          * rewrite erase_mk_bin. change (snd (lvl k)) with (level_logical k). rewrite Hlg.
            cbn [erase_e]. rewrite Kop, Erl, Err. reflexivity.
          * intros f a r0 ds Hloop. apply (Hl' (S (f + fr))). rewrite ploop_S.
            assert (Kin : kind_in (tk top) (fst (lvl k)) = true)
              by (apply (level_ops_spec _ _ Hk'); rewrite Kop; exact Ho).
            rewrite Kin. erewrite pbind_nil by (eapply plevel_mono_ok; [exact Hfr|lia]).
            eapply ploop_mono_ok; [exact Hloop|lia].
        + (* a tree of the next level *)
          assert (Au : exists fu e1', plevel fu (skipn (S k) ladder) ts1 = POk e1' rest' [] /\ erase_e e1' = erase_e e1).
          { destruct Hor as [Hlt| ->].
            - destruct (IH e1 ltac:(lia)) as (Ae & _ & _). apply Ae; auto.
            - apply (IHd (S k)); auto; lia. }
          destruct Au as (fu & e1' & Hfu & Er1). exists e1'. split; [exact Er1|].
          intros f a r ds Hloop. exists (S (f + fu)). rewrite plevel_S, (ladder_skipn k Hk').
          erewrite pbind_nil by (eapply plevel_mono_ok; [exact Hfu|lia]).
          eapply ploop_mono_ok; [exact Hloop|lia]. }
      destruct (LP e (le_n _) (or_intror eq_refl) W ts rest HP (hdok_mono k (S k) rest ltac:(lia) Hh))
        as (e' & Er & He').
      destruct (He' 1 e' rest [] (ploop_stop 0 k e' rest Hk' Hh)) as (f' & Hf').
      exists f', e'. split; assumption. }
  split; [|split; [exact P|]].
  - intros k ts rest Hk W HP Hh. apply (A (nlev - k) k ts rest eq_refl Hk W HP Hh).
  - (* E : full expressions *)
    intros ts rest W HP (Hh0 & Hne).
    assert (Lv : WFk 0 e -> exists f e', pexpr f ts = POk e' rest [] /\ erase_e e' = erase_e e).
    { intros W0. destruct (A (nlev - 0) 0 ts rest eq_refl (Nat.le_0_l _) W0 HP Hh0) as (f & e' & Hf & Er).
      exists (S f), e'. split; [|exact Er]. rewrite pexpr_S. change (skipn 0 ladder) with ladder in Hf.
      rewrite (pbind_nil _ _ _ _ Hf). destruct rest as [|t rest']; [reflexivity|].
      rewrite (tkind_eqb_neq _ _ Hne). reflexivity. }
    pose proof (WFfull_cases e W) as Wc.
    destruct e as [v ln|x ln|e0 ln|op e0 ln|op l r ln|op l r|x nl v ln|a i v ln|o p v ln|c pl args|a i ln|o p ln|es|ps];
      cbv beta iota in Wc; try (apply Lv; exact Wc); clear Lv.
    + (* x = v *)
      cbn [flat_e] in HP. cbn [esize] in Hs.
      spc HP as t1 ts1 S1. spc HP as t2 ts2 S2.
      assert (K2 : tk t2 = TEQUAL) by (apply (sym_of_kind _ _ S2)).
      pose proof (esize_pos v) as Hv.
      destruct (IH (EId x 0%N) ltac:(cbn [esize]; lia)) as (Ai & _ & _).
      destruct (Ai 0 (t1 :: t2 :: ts2) (t2 :: ts2) (Nat.le_0_l _) (WF_id 0 x 0%N)
                   (SymPre_one t1 _ _ S1) (hdok_equal 0 t2 ts2 K2)) as (f1 & e1' & Hf1 & Er1).
      cbn [erase_e] in Er1. destruct e1' as [| y yl| | | | | | | | |ai ii il|oo pp ol| |]; try discriminate Er1. injection Er1 as Ename.
      destruct (IH v ltac:(lia)) as (_ & _ & Ev).
      destruct (Ev ts2 rest Wc HP (conj Hh0 Hne)) as (f2 & v' & Hf2 & Erv).
      exists (S (f1 + f2)), (EAssign y yl v' (tline t2)). split.
      * rewrite pexpr_S. change ladder with (skipn 0 ladder) at 1.
        erewrite pbind_nil by (eapply plevel_mono_ok; [exact Hf1|lia]). cbv beta iota.
        rewrite K2, tkind_eqb_refl.
        erewrite pbind_nil by (eapply pexpr_mono_ok; [exact Hf2|lia]). reflexivity.
      * cbn [erase_e]. rewrite Ename, Erv. reflexivity.
    + (* a[i] = v *)
      destruct Wc as (Wa & Wi & Wv). rewrite flat_arrassign in HP. cbn [esize] in Hs.
      spa HP as mid HPt. spc HP as t2 ts2 S2.
      assert (K2 : tk t2 = TEQUAL) by (apply (sym_of_kind _ _ S2)).
      pose proof (esize_pos v) as Hv.
      destruct (IH (EIndex a i 0%N) ltac:(cbn [esize]; lia)) as (Ai & _ & _).
      destruct (Ai 0 ts (t2 :: ts2) (Nat.le_0_l _) (WF_index 0 a i 0%N Wa Wi) HPt (hdok_equal 0 t2 ts2 K2))
        as (f1 & e1' & Hf1 & Er1).
      cbn [erase_e] in Er1. destruct e1' as [| y yl| | | | | | | | |ai ii il|oo pp ol| |]; try discriminate Er1. injection Er1 as Ea Ei.
      destruct (IH v ltac:(lia)) as (_ & _ & Ev).
      destruct (Ev ts2 rest Wv HP (conj Hh0 Hne)) as (f2 & v' & Hf2 & Erv).
      exists (S (f1 + f2)), (EArrAssign ai ii v' (tline t2)). split.
      * rewrite pexpr_S. change ladder with (skipn 0 ladder) at 1.
        erewrite pbind_nil by (eapply plevel_mono_ok; [exact Hf1|lia]). cbv beta iota.
        rewrite K2, tkind_eqb_refl.
        erewrite pbind_nil by (eapply pexpr_mono_ok; [exact Hf2|lia]). reflexivity.
      * cbn [erase_e]. rewrite Ea, Ei, Erv. reflexivity.
    + (* o.p = v *)
      destruct Wc as (Wo & Wv). rewrite flat_propassign in HP. cbn [esize] in Hs.
      spa HP as mid HPt. spc HP as t2 ts2 S2.
      assert (K2 : tk t2 = TEQUAL) by (apply (sym_of_kind _ _ S2)).
      pose proof (esize_pos v) as Hv.
      destruct (IH (EProp o p 0%N) ltac:(cbn [esize]; lia)) as (Ai & _ & _).
      destruct (Ai 0 ts (t2 :: ts2) (Nat.le_0_l _) (WF_prop 0 o p 0%N Wo) HPt (hdok_equal 0 t2 ts2 K2))
        as (f1 & e1' & Hf1 & Er1).
      cbn [erase_e] in Er1. destruct e1' as [| y yl| | | | | | | | |ai ii il|oo pp ol| |]; try discriminate Er1. injection Er1 as Eo Ep.
      destruct (IH v ltac:(lia)) as (_ & _ & Ev).
      destruct (Ev ts2 rest Wv HP (conj Hh0 Hne)) as (f2 & v' & Hf2 & Erv).
      exists (S (f1 + f2)), (EPropAssign oo pp v' (tline t2)). split.
      * rewrite pexpr_S. change ladder with (skipn 0 ladder) at 1.
        erewrite pbind_nil by (eapply plevel_mono_ok; [exact Hf1|lia]). cbv beta iota.
        rewrite K2, tkind_eqb_refl.
        erewrite pbind_nil by (eapply pexpr_mono_ok; [exact Hf2|lia]). reflexivity.
      * cbn [erase_e]. rewrite Eo, Ep, Erv. reflexivity.
Qed.

End Complete.

(** * C. Completeness of the expression parser

    Remark on the statement.  The task sheet asked for
    [map sym_of ts = flat_e e ++ map sym_of r -> … pexpr f ts = POk e' r []]; that is
    false as written, because [map sym_of] forgets line numbers: [ts] determines the
    rest of the input only up to lines (counter-example: [ts = [1@5; ;@5]],
    [r = [;@7]]).  The true statement fixes the rest as a suffix of the input. *)

Theorem pexpr_complete_gen eofl e :
  WFfull e -> forall pre r, map sym_of pre = flat_e e -> follow_ok r ->
  exists f e', pexpr eofl f (pre ++ r) = POk e' r [] /\ erase_e e' = erase_e e.
Proof.
  intros W pre r Hpre Hf.
  destruct (complete_n eofl (esize e) e (le_n _)) as (_ & _ & E).
  apply (E (pre ++ r) r W).
  - exists pre. split; [reflexivity|exact Hpre].
  - apply follow_hdoke. exact Hf.
Qed.

(** every writing of a ladder-shaped, line-free tree [e], followed by a token that
    cannot continue an expression, is parsed (with enough fuel, without
    diagnostics) into [e] up to line numbers, leaving exactly the rest *)
Theorem pexpr_complete eofl e :
  WFfull e -> erase_e e = e ->
  forall pre r, map sym_of pre = flat_e e -> follow_ok r ->
  exists f e', pexpr eofl f (pre ++ r) = POk e' r [] /\ erase_e e' = e.
Proof.
  intros W He pre r Hpre Hf. destruct (pexpr_complete_gen eofl e W pre r Hpre Hf) as (f & e' & H & Er).
  exists f, e'. split; [exact H|]. rewrite Er. exact He.
Qed.

(** the same for an operand of level [k]; the follow condition is per level: the
    next token is not an operator of a level [>= k] and opens no suffix *)
Theorem plevel_complete eofl k e :
  k <= nlev -> WFk k e ->
  forall pre r, map sym_of pre = flat_e e -> hdok k r ->
  exists f e', plevel eofl f (skipn k ladder) (pre ++ r) = POk e' r [] /\ erase_e e' = erase_e e.
Proof.
  intros Hk W pre r Hpre Hh.
  destruct (complete_n eofl (esize e) e (le_n _)) as (A & _ & _).
  apply (A k (pre ++ r) r Hk W); [|exact Hh].
  exists pre. split; [reflexivity|exact Hpre].
Qed.

(** * E. Uniqueness of the ladder-shaped tree *)

Lemma good_Sym k : plain k = true -> good_sym (Sym k).
Proof. intros H E. inv E. discriminate H. Qed.

Lemma Forall_join_comma (P : tsym -> Prop) (l : list (list tsym)) :
  P (Sym TCOMMA) -> Forall (Forall P) l -> Forall P (join_comma l).
Proof.
  intros Hc. induction 1 as [|s l Hs Hl IH]; [constructor|].
  destruct l as [|s2 l]; [exact Hs|].
  change (join_comma (s :: s2 :: l)) with (s ++ Sym TCOMMA :: join_comma (s2 :: l)).
  apply Forall_app. split; [exact Hs|]. constructor; [exact Hc|exact IH].
Qed.

Lemma WF_good_syms_all :
  (forall e, WFfull e -> Forall good_sym (flat_e e)) /\ (forall k e, WFk k e -> Forall good_sym (flat_e e)).
Proof.
  assert (Hcomma : good_sym (Sym TCOMMA)) by (apply good_Sym; reflexivity).
  assert (Hsym : forall k, plain k = true -> good_sym (Sym k)) by apply good_Sym.
  assert (Hid : forall x, good_sym (SymId x)) by (intros x E; discriminate E).
  assert (H : forall n e, esize e <= n ->
              (WFfull e -> Forall good_sym (flat_e e)) /\ (forall k, WFk k e -> Forall good_sym (flat_e e))).
  { apply WF_ind_size; intros; cbn [flat_e];
      repeat first [ assumption
                   | apply Forall_app; split
                   | apply Forall_cons
                   | apply Forall_nil
                   | apply Hid
                   | apply Hsym; first [reflexivity | eapply op_level_plain; eassumption | apply is_unop_plain; assumption] ].
    - destruct v as [|[|]|x|s]; intros E; discriminate E.
    - apply Forall_join_comma; [exact Hcomma|]. apply Forall_map. assumption.
    - apply Forall_join_comma; [exact Hcomma|]. apply Forall_map. assumption.
    - apply Forall_join_comma; [exact Hcomma|]. apply Forall_forall. intros s Hin.
      apply in_map_iff in Hin. destruct Hin as ([k v] & <- & Hin).
      repeat apply Forall_cons; [apply Hid|apply Hsym; reflexivity|].
      match goal with HF : Forall _ (map snd ps) |- _ => rewrite Forall_forall in HF; apply HF end.
      apply in_map_iff. exists (k, v). split; [reflexivity|exact Hin]. }
  split.
  - intros e. apply (H (esize e) e (le_n _)).
  - intros k e. apply (H (esize e) e (le_n _)).
Qed.

(** two ladder-shaped trees with the same canonical writing are equal up to line numbers *)
Theorem tree_unique_gen e1 e2 :
  WFfull e1 -> WFfull e2 -> flat_e e1 = flat_e e2 -> erase_e e1 = erase_e e2.
Proof.
  intros W1 W2 E.
  pose (pre := map (tok_of_sym 0%N) (flat_e e1)).
  assert (Hpre : map sym_of pre = flat_e e1).
  { apply map_sym_of_tok_of_sym. apply WF_good_syms_all. exact W1. }
  destruct (pexpr_complete_gen 0%N e1 W1 pre [] Hpre I) as (f1 & a1 & H1 & Er1).
  rewrite E in Hpre.
  destruct (pexpr_complete_gen 0%N e2 W2 pre [] Hpre I) as (f2 & a2 & H2 & Er2).
  pose proof (pexpr_mono_ok _ _ (f1 + f2) _ _ _ _ H1 ltac:(lia)) as M1.
  pose proof (pexpr_mono_ok _ _ (f1 + f2) _ _ _ _ H2 ltac:(lia)) as M2.
  rewrite M1 in M2. injection M2 as <-. rewrite <- Er1, <- Er2. reflexivity.
Qed.

(** the ladder-shaped (line-free) tree of a token sequence is unique *)
Theorem tree_unique e1 e2 :
  WFfull e1 -> WFfull e2 -> erase_e e1 = e1 -> erase_e e2 = e2 -> flat_e e1 = flat_e e2 -> e1 = e2.
Proof.
  intros W1 W2 E1 E2 E. rewrite <- E1, <- E2. apply tree_unique_gen; assumption.
Qed.

Print Assumptions pexpr_complete.
Print Assumptions tree_unique.
